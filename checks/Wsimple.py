import os, sys
sys.path.insert(0, os.path.join(os.path.dirname(__file__), '..', 'lib'))
import std

# Wire layer of the "simple" format (simple.go): underlies C01/C11/C14/C02 for this format.
SPEC = {
    'prop_files': ['theories/Properties/W_simple.v'],
    'coq_targets': ['theories/Properties/W_simple.vo', 'theories/Wire/SimpleCorr.vo'],
    'closure_dirs': ['theories/Wire/Simple.v', 'theories/Wire/SimpleProofs.v', 'theories/Wire/SimpleCorr.v',
                     'theories/Wire/SimpleTotal.v', 'theories/Wire/SimpleDepth.v', 'theories/Wire/SimpleSkip.v',
                     'theories/Wire/Item.v', 'theories/Base/Outcome.v', 'theories/Base/Word.v', 'theories/Base/FBits.v',
                     'theories/Gen/Consts.v', 'theories/Gen/Leaf.v'],
    'harness': 'wiresimple',
    'args': {
        'quick': ['-enc', 400, '-valid', 150, '-mut', 300, '-rand', 300],
        'thorough': ['-enc', 4000, '-valid', 1500, '-mut', 4000, '-rand', 4000],
    },
    'search_args': ['-enc', 2000, '-valid', 600, '-mut', 2000, '-rand', 2000, '-nodeep'],
    'assumptions': [
        'the model Wire/Simple.v (enc, dec/dec_naked, skipv/nvb) is hand written from simple.go, decode.go (kInterfaceNaked, kMap), the fast path DecSliceIntfY and reader.go (bytesDecReader); it is tied to the code by running both on the same inputs on every run (vm_compute): encoder bytes byte-for-byte, decoder outcome class + canonical tree + NumBytesRead, skip/raw outcome class + NumBytesRead + captured bytes',
        'a repeated map key makes kMap decode the value INTO the value already stored (typed decoding driven by the old dynamic type): not modelled, the model answers Err EUnsupported and the correspondence makes no prediction; the round-trip theorems require pairwise different keys',
        'time.Time: (Unix(), Nanosecond()) only; a nanosecond field >= 2^30 in hostile input spills into wall-clock flag bits and is excluded from the value comparison (extent and outcome are still compared); zone bytes are ignored',
        'allocation sizes (decInferLen, 1 MB per open container) are not modelled here (C02)',
        'amd64: int/uint are 64 bit; float32->float64 conversion quiets signalling NaNs (CVTSS2SD)',
    ],
    'trusted_extra': ['modelled, not verified: simpleEncDriver/simpleDecDriver, the generic naked-decoding path and bytesDecReader as far as simple uses them; the typed decoding path and the io reader are outside this check'],
    'harness_timeout': {'quick': 1500, 'thorough': 5400},
}


def main(chk):
    return std.standard_check(chk, SPEC)


MANIFEST = None

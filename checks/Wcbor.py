import os, sys
sys.path.insert(0, os.path.join(os.path.dirname(__file__), '..', 'lib'))
import std

SPEC = {
    'prop_files': ['theories/Properties/C10_cbor.v'],
    'coq_targets': ['theories/Properties/C10_cbor.vo', 'theories/Wire/CborProofs.vo', 'theories/Wire/CborTime.vo', 'theories/Wire/CborEnc.vo', 'theories/Wire/CborDepth.vo', 'theories/Wire/CborTotal.vo', 'theories/Wire/CborDepthErr.vo', 'theories/Wire/CborCorr.vo'],
    'closure_dirs': ['theories/Wire/Cbor.v', 'theories/Wire/CborFloat.v', 'theories/Wire/CborProofs.v', 'theories/Wire/CborTime.v', 'theories/Wire/CborEnc.v', 'theories/Wire/CborDepth.v', 'theories/Wire/CborTotal.v', 'theories/Wire/CborDepthErr.v', 'theories/Wire/CborCorr.v', 'theories/Wire/CborVU.v', 'theories/Wire/CborVUProofs.v', 'theories/Wire/CborUtf8.v', 'theories/Wire/CborVUEnc.v', 'theories/Wire/CborDup.v', 'theories/Wire/CborDupProofs.v', 'theories/C10/CborConv.v',
                     'theories/C10/CborSpec.v', 'theories/C10/LeafTie.v', 'theories/Wire/Item.v', 'theories/Base/Outcome.v', 'theories/Base/Word.v', 'theories/Gen/Consts.v', 'theories/Gen/Leaf2.v'],
    'harness': 'wirecbor',
    'args': {
        'quick': ['-enc', 500, '-ref', 500, '-mut', 350, '-rand', 350, '-first', 3, '-skip', 350, '-leaf', 300, '-transport', 200, '-vu', 400, '-dup', 300],
        'thorough': ['-enc', 8000, '-ref', 8000, '-mut', 6000, '-rand', 6000, '-first', 12, '-skip', 6000, '-leaf', 4000, '-transport', 3000, '-vu', 8000, '-dup', 5000],
    },
    'search_args': ['-enc', 4000, '-ref', 4000, '-mut', 3000, '-rand', 3000, '-first', 6, '-skip', 3000, '-leaf', 2000, '-transport', 1500, '-vu', 3000, '-dup', 2000],
    'assumptions': [
        'the model of the cbor driver, of the generic code decoding into interface{} and of bytesDecReader is hand written; it is tied to the source by running it (vm_compute) on the inputs the real Encoder/Decoder ran (harness/cmd/wirecbor), including all 256 first bytes and all 65536 half floats',
        'hardware float conversions/arithmetic (CVTSS2SD, CVTSD2SS, CVTSI2SD, ADDSD, DIVSD, MULSD, CVTTSD2SQ) are modelled on bit patterns and tied by the leaf stream, not proved against IEEE-754',
        'not modelled (the model answers "unsupported" and the case is skipped): maps with duplicate keys decoded into interface{}, tag 0 text that is not strict RFC 3339 UTC, bignum tags whose content is not a byte/text string, bignum / decimal tags nested under tag 1, ValidateUnicode. Modelled since the repairs F10-1/F02-5/F10-3: tags 4/5 (decimal fraction, bigfloat); since F10-2: tag 1 outside +-2^62 s is an error',
    ],
    'trusted_extra': ['modelled, not verified: cbor.go / cbor.base.go, decode.go kInterfaceNaked + fastpath DecSliceIntfY + kMap for interface{} destinations, reader.go bytesDecReader; reflection, time.Time, math/big are exercised only through the correspondence'],
}

def main(chk):
    return std.standard_check(chk, SPEC)

MANIFEST = None

"""C10 — cbor and msgpack conform to their specifications in both directions.
Assembly of the two wire-layer checks (Wcbor, Wmsgpack): their property files hold the C10 theorems
(C10_cbor_*, C10_msgpack_*, C10_half) next to the wire-layer lemmas other properties reuse."""
import importlib.util
import os
import sys
sys.path.insert(0, os.path.join(os.path.dirname(__file__), '..', 'lib'))
import std


def _load(name):
    p = os.path.join(os.path.dirname(__file__), name + '.py')
    spec = importlib.util.spec_from_file_location('check_' + name, p)
    m = importlib.util.module_from_spec(spec)
    spec.loader.exec_module(m)
    return m.SPEC


def spec():
    a, b = _load('Wcbor'), _load('Wmsgpack')
    hs = []
    for s in (a, b):
        s = dict(s)
        s['args'] = {'quick': [x // 2 if isinstance(x, int) and x > 20 else x for x in s['args']['quick']], 'thorough': s['args']['thorough']}
        hs.append({'cmd': s['harness'], 'args': s['args'], 'search_args': s.get('search_args'), 'tags': s.get('tags', 'verif'),
                   'timeout': s.get('harness_timeout', {})})
    return {
        'prop_files': a['prop_files'] + b['prop_files'],
        'coq_targets': a['coq_targets'] + b['coq_targets'],
        'closure_dirs': sorted(set(a['closure_dirs'] + b['closure_dirs'] + ['theories/C10/LeafTie.v', 'theories/C10/LeafTieMsgpack.v', 'theories/Gen/Leaf2.v', 'theories/Base/Word.v'])),
        'harnesses': hs,
        'assumptions': a.get('assumptions', []) + b.get('assumptions', []),
        'trusted_extra': a.get('trusted_extra', []) + b.get('trusted_extra', []),
        'eval_timeout': {'quick': 900, 'thorough': 3000},
        'known_aliases': ['Wcbor', 'Wmsgpack'],
    }


def main(chk):
    return std.standard_check(chk, spec())


MANIFEST = {
    'category': 'proof',
    'technique': 'Coq proofs relating executable models of the cbor and msgpack drivers to decoders/encoders written independently from RFC 8949 and the MessagePack specification; vm_compute correspondence of the driver models against the real Encoder/Decoder (all 256 first bytes, reference-encoder alternatives, mutated and random inputs); exhaustive half-float sweep',
    'text': 'Theorems C10_cbor_in / C10_cbor_enc_wellformed / C10_cbor_out_partial / C10_half / C10_half_src_tie / C10_cbor_bigen_src_tie and C10_msgpack_out / C10_msgpack_in / C10_msgpack_bigen_src_tie (see Properties/C10_cbor.v, C10_msgpack.v; partial or refuted forms are named as such there) hold for every item and every permitted serialisation, unbounded; the driver models are tied to cbor.go/msgpack.go by running them on what the real Encoder/Decoder did, the spec models are independent Gallina transcriptions of the specifications. Source ties (C10/LeafTie.v, C10/LeafTieMsgpack.v over Gen/Leaf2.v, re-translated from helper.go on every run by harness/cmd/srcgen/leaf2.go): the hand-written half_to_f32 / f32_to_half of the cbor model and be_put / be_get of both models are PROVED equal to the translated halfFloatToFloatBits (all 65536 inputs; its loop never runs out of fuel >= 11), floatToHalfFloatBits (all 2^32 inputs), bigen.PutUint16/32/64 and bigen.Uint16/32/64 (all inputs), so a behaviour-changing edit of one of these Go functions breaks a proof obligation.',
    'note': 'Trusted: Coq kernel; the hand-written driver models (correspondence-checked); the Gallina transcriptions of RFC 8949 / the MessagePack spec; reference encoders in the harness; hardware float conversions. See the assumptions list in the evidence for what each model leaves out.',
}

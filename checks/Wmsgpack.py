import os, sys
sys.path.insert(0, os.path.join(os.path.dirname(__file__), '..', 'lib'))
import std

SPEC = {
    'prop_files': ['theories/Properties/C10_msgpack.v'],
    'coq_targets': ['theories/Properties/C10_msgpack.vo', 'theories/Wire/MsgpackProofs.vo', 'theories/Wire/MsgpackRT.vo', 'theories/Wire/MsgpackCorr.vo'],
    'closure_dirs': ['theories/Wire/Msgpack.v', 'theories/Wire/MsgpackProofs.v', 'theories/Wire/MsgpackRT.v', 'theories/Wire/MsgpackCorr.v',
                     'theories/Wire/Item.v', 'theories/Base/Outcome.v', 'theories/C10/MsgpackSpec.v',
                     'theories/C10/MsgpackProofs.v', 'theories/C10/MsgpackSpecProofs.v', 'theories/Wire/MsgpackVU.v', 'theories/Wire/MsgpackVUProofs.v', 'theories/C10/CborSpec.v', 'theories/C10/LeafTie.v', 'theories/C10/LeafTieMsgpack.v', 'theories/Base/Word.v', 'theories/Gen/Consts.v', 'theories/Gen/Leaf2.v'],
    'harness': 'wiremsgpack',
    'args': {
        'quick': ['-enc', 900, '-ref', 900, '-mut', 800, '-rand', 500, '-vu', 400, '-deep', 2000000],
        'thorough': ['-enc', 20000, '-ref', 20000, '-mut', 20000, '-rand', 15000, '-vu', 8000, '-deep', 3000000],
    },
    'search_args': ['-enc', 6000, '-ref', 6000, '-mut', 5000, '-rand', 4000, '-vu', 3000, '-deep', 0],
    'assumptions': [
        'model of msgpackEncDriver / DecodeNaked+kInterfaceNaked / nextValueBytes is hand written (Wire/Msgpack.v); tied by running it (vm_compute) on the inputs the real Encoder/Decoder ran on: bytes, decoded tree, error class and NumBytesRead must agree',
        '64-bit platform: int(uint32) is never negative (so a msgpack length can never equal containerLenNil); input is a Go slice (len < 2^63)',
        'decoder handle has MapValueReset=true: a repeated map key is re-assigned (last entry wins); with MapValueReset=false the generic layer decodes the later value into the earlier one (typed decoding, outside the wire layer)',
        'only bytesDecReader (NewDecoderBytes) is modelled; ioDecReader is C03',
        'float32 -> float64 widening is modelled on bit patterns (signalling NaN comes out quiet) and checked against the hardware conversion by correspondence',
    ],
    'trusted_extra': ['modelled, not verified: msgpack.go / msgpack.mono.generated.go, the []interface{} fast path and kMap for map[interface{}]interface{}, bytesDecReader; the reference encoder/decoder in harness/cmd/wiremsgpack/ref.go (written from the MessagePack specification)'],
}


def main(chk):
    return std.standard_check(chk, SPEC)


MANIFEST = None

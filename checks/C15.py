import os, sys
sys.path.insert(0, os.path.join(os.path.dirname(__file__), '..', 'lib'))
import std

SPEC = {
    'prop_files': ['theories/Properties/C15.v'],
    'coq_targets': ['theories/Properties/C15.vo', 'theories/C15/Corr.vo'],
    'closure_dirs': ['theories/C15'],
    'known_aliases': ['Wcbor', 'Wmsgpack', 'Wsimple', 'Wbinc', 'Wjson', 'C01'],
    'harness': 'c15',
    'args': {
        'quick': ['-trans', 6000, '-model', 600],
        'thorough': ['-trans', 80000, '-model', 6000],
    },
    'search_args': ['-trans', 30000, '-model', 1500],
    'eval_timeout': {'quick': 600, 'thorough': 2400},
    'assumptions': [
        'C15_same_generic_partial is stated over the C01 driver interface (wire_ok of the composite driver); for G = F the side condition keeps is PROVED for the concrete driver records of C01 (C15/Concrete.v: C15_keeps_{simple,msgpack,binc,cbor_rfc3339}, C15_keeps_cbor_partial) and C15_same_{simple,msgpack,binc,cbor_rfc3339} / C15_same_cbor_partial carry no driver hypothesis; the driver records themselves are the C01 compositions (typed reads rd_* as functions of the item; byte-level agreement per leaf read: C01_*_typed_reads); cross-format: C15_cross / C15_cross_keeps (C15/Cross.v) prove the side condition for every ordered pair of the five binary driver records (simple, msgpack, binc, cbor tag-1, cbor TimeRFC3339) under the decidable leaf premise cross_leaf (F\'s premise, G\'s premise on what the tree holds, a time is a time in the tree: msgpack without WriteExt is not a source of non-zero times); pairs involving json stay over the interface; on the implementation the three-step transcoding is run directly (trans stream, all five formats, cross-format where keeps holds)',
        'the tree is compared as an item: MapType / SliceType / PreferArrayOverSlice change only the Go container types, which the item dump does not distinguish; MapType = map[string]interface{} is modelled as a decode error on a non-string key',
        'json is covered by the direct oracle only (no json instance of naked_tree); json float32 numbers are compared after rounding the tree number to float32 (json names a float32 by its shortest decimal)',
    ],
    'trusted_extra': ['modelled, not verified: kInterfaceNaked container materialisation (MapType, SliceType, PreferArrayOverSlice), encoding of interface{} elements (kInterface -> encodeValue) - exercised by the trans stream oracle'],
}

def main(chk):
    return std.standard_check(chk, SPEC)

MANIFEST = {
    'category': 'proof',
    'technique': 'Coq proof (the C01 generic round trip applied to a composite driver; per-format leaf lemmas on the wire norm functions) + vm_compute correspondence of the schema-less tree against the wire models + direct three-step transcoding oracle on the implementation (five formats, cross-format, math/big number comparison)',
    'text': 'C15_reencode_is_tree: Encode(tree) asks the driver for exactly the tree. C15_same_{simple,msgpack,binc,cbor_rfc3339}, C15_same_cbor_partial: same-format transcoding through the concrete driver records, no hypothesis on the drivers: the tree has no RawExt node, Encode(tree) asks for exactly the tree, and the typed decode of the second pass gives the value up to the format\'s documented losses applied once (the wire normalisations are idempotent on supported leaves). C15_same_generic_partial: for every pair of drivers meeting the stated side condition keeps (the C01 driver interface for the composite F-tree-G), every supported type and well-typed value, any options and map order, decoding the re-encoded tree into the static type gives the value up to the documented losses (G = F and G != F); satisfiable instances proved. C15_nums_total_*: in cbor, msgpack, simple and binc an integer leaf either comes back as the same integer or (SignedInteger with an unsigned value >= 2^63) the schema-less decode of its encoding is the overflow error - never another number (F07-1n repaired); strings keep their bytes; floats are float64. The tree the real decoder builds equals the wire model\'s on every harness case (four binary formats).',
    'note': 'Same-format transcoding is composed with the concrete driver records of simple, msgpack, binc (full) and cbor (TimeRFC3339: full; tag-1 times outside, as C01): C15_same_<fmt>, with the first pass tied to the wire models\' bytes (C15_tree_<fmt>); stated exclusion: simple with EncZeroValuesAsNil + RawToString loses an empty non-nil []byte (C15_simple_empty_bytes_lost). Cross-format: C15_cross for all 25 ordered pairs of the binary driver records under the stated leaf premise (losses of F then G). Partial: pairs involving json stay over the interface hypothesis keeps; json has no model instance. Known finding F15-1 (json integral floats >= 2^52 written as integer literals: tree number differs / negative literal in (-2^64,-2^63) refused).',
}

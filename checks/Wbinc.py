import os, sys
sys.path.insert(0, os.path.join(os.path.dirname(__file__), '..', 'lib'))
import std

# Wire layer of the binc format (codec/binc.go, binc.base.go, custom_time.go): underlies
# C01 (round trip), C11 (decode / skip / raw agree; sequences on one Decoder),
# C14 (depth bounds the stack), C02 (decoding arbitrary bytes is total) for binc.
SPEC = {
    'prop_files': ['theories/Properties/W_binc.v'],
    'coq_targets': ['theories/Properties/W_binc.vo', 'theories/Wire/BincCorr.vo'],
    'closure_dirs': ['theories/Wire/Binc.v', 'theories/Wire/BincProofs.v', 'theories/Wire/BincCorr.v',
                     'theories/Wire/Item.v', 'theories/Base/Outcome.v', 'theories/Gen/Consts.v'],
    'harness': 'wirebinc',
    'args': {
        'quick': ['-enc', 200, '-mut', 300, '-rnd', 250, '-deep', 1000000],
        'thorough': ['-enc', 3000, '-mut', 5000, '-rnd', 4000, '-deep', 3000000],
    },
    'search_args': ['-enc', 2000, '-mut', 3000, '-rnd', 2000, '-deep', 1000000],
    'assumptions': [
        'the model of bincEncDriver/bincDecDriver, of the schema-less path of the generic decoder (kInterfaceNaked, DecSliceIntfY, kMap, arrayStart/mapStart/depthIncr) and of bytesDecReader is hand written; it is tied to the code by running both on the same item sequences / byte strings (vm_compute)',
        'a map key that repeats an earlier key of the same map makes kMap merge into the stored value: outside the wire model (model answers Err EUser; such inputs are not compared)',
        'floats are bit patterns; all NaNs are one value; the zone of a decoded timestamp is not compared (instant only)',
        'item trees are encoded through []interface{}, codec.MapBySlice (ordered entries) or a Go map with at most one entry, RawExt and time.Time in UTC',
    ],
    'trusted_extra': ['modelled, not verified: binc.go, binc.base.go, custom_time.go, the parts of decode.go/decode.base.go/reader.go named in Wire/Binc.v'],
}


def main(chk):
    return std.standard_check(chk, SPEC)


MANIFEST = None

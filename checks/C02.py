"""C02 — decoding arbitrary bytes is total: error or value, never a crash or hang.
Assembly over the wire-layer totality lemmas plus step / allocation models (C02/) and the
API-level hostile-input harness cmd/c02 (subprocess workers under a watchdog)."""
import os, sys
sys.path.insert(0, os.path.join(os.path.dirname(__file__), '..', 'lib'))
import std
import vlib

WIRE = ['theories/Wire/Cbor.v', 'theories/Wire/CborFloat.v', 'theories/Wire/CborProofs.v', 'theories/Wire/CborDepth.v', 'theories/Wire/CborTotal.v',
        'theories/Wire/Msgpack.v', 'theories/Wire/MsgpackProofs.v',
        'theories/Wire/Simple.v', 'theories/Wire/SimpleProofs.v', 'theories/Wire/SimpleTotal.v', 'theories/Wire/SimpleDepth.v', 'theories/Wire/SimpleSkip.v',
        'theories/Wire/Binc.v', 'theories/Wire/BincProofs.v',
        'theories/Wire/Json.v', 'theories/Wire/JsonProofs.v', 'theories/Wire/JsonRT.v', 'theories/Wire/JsonTotal.v', 'theories/Wire/JsonLeaf.v',
        'theories/C09/Spec.v', 'theories/C09/Model.v', 'theories/C09/ProofsStr.v', 'theories/C09/ProofsNum.v',
        'theories/C09/ProofsQuote.v', 'theories/C09/ProofsUint.v', 'theories/C09/ProofsParse.v',
        'theories/Wire/Item.v', 'theories/Base/Outcome.v', 'theories/Base/Word.v', 'theories/Gen/Consts.v', 'theories/Gen/Leaf.v', 'theories/Gen/Leaf2.v']

SPEC = {
    'prop_files': ['theories/Properties/C02.v'],
    'coq_targets': ['theories/Properties/C02.vo', 'theories/C02/Corr.vo'],
    'closure_dirs': ['theories/C02', 'theories/C14/Corr.v'] + [w for w in WIRE if os.path.exists(os.path.join(vlib.COQ, w))],
    'harness': 'c02',
    'args': {
        'quick': ['-docs', 2, '-heads', 1, '-rand', 1500, '-prefix', 3, '-model', 1500, '-long', 1, '-big', 1, '-symbols', 1, '-chunks', 1, '-tagrun', 1],
        'thorough': ['-docs', 12, '-heads', 3, '-rand', 20000, '-prefix', 12, '-model', 12000, '-long', 4, '-big', 4, '-symbols', 3, '-chunks', 2, '-tagrun', 1],
    },
    'search_args': ['-docs', 6, '-heads', 2, '-rand', 6000, '-prefix', 6, '-model', 3000, '-long', 2, '-big', 2, '-symbols', 2, '-chunks', 1, '-tagrun', 1],
    'known_aliases': ['Wcbor', 'Wmsgpack', 'Wsimple', 'Wbinc', 'Wjson'],
    'eval_timeout': {'quick': 600, 'thorough': 2400},
    'assumptions': [
        'time and memory are MODEL counts in the theorems (fuel of the wire models, steps of the walker skeleton C02/Steps.v, allocation requests of the run model C02/Alloc.v whose premises wf are the decoder invariants proved elsewhere (progress: W*_progress, depth: C14) or read off kSlice/kMap (pre-sizing by decInferLen, growth by append) and are NOT derived from the wire models inside Coq); the harness measures the real ones (/gc/heap/allocs:bytes delta, wall clock) against K0 + K1*len and K2 + K3*len with generous constants: K0 = 70 MB + levels*max(1024,MaxInitLen)*2*unit (+ reader buffer), K1 = 1024 + 8*unit (16 for a destination without containers: string, []byte, numbers); where the number of values nv in the input is known by construction (streams bigscalar, symbols) the bound is K0 + per*nv + 16*len with per = 64 + 8*unit for containers of scalars/strings only and K1 otherwise, K2 = 0.4 s, K3 = 5 us/byte; MaxInitLen ranges over {MinInt, -1, 0, 1, 16, 1200, 4096, 70000}; destinations include zero-size element types (map[struct{}]struct{}, []struct{}, [][0]int); unit = largest element size of the destination type (48 for interface{} containers), levels = MaxDepth for interface{}/Raw/recursive types else the static container depth',
        'the 64 MB in K0 is usableByteSlice: an array head claiming n elements decoded as bytes (into []byte or string destinations, map keys, struct field names) allocates min(n, 64 MB) before the first element is read; every other claimed length is capped by decInferLen at max(1024, MaxInitLen) elements',
        'workers run with RLIMIT_AS = 6 GB and debug.SetMaxStack(64 MB); a fatal exit or a stall beyond 20 s + 0.2 ms per input byte is attributed to the input being decoded',
        'the wire models cover Decode(&interface{}) and Decode(&Raw) from []byte for cbor, msgpack, simple, binc (outcome class + NumBytesRead compared as Coq cases); typed destinations, io.Reader transports and the other option flags are covered by the oracle only; json: the theorems C02_json_* are stated over the wire model Wire/Json.v (decode into interface{} incl. map[string]interface{} keys, skip/Raw), tied to json.go by the check Wjson on every run; in this check json inputs go through the API-level oracle only (no Coq cases)',
        'msgpack model cases run with MapValueReset=true (the wire model assumption); repeated map keys are outside the cbor/simple/binc models and not compared',
    ],
    'trusted_extra': ['modelled, not verified: the four wire models; maxInitLen as transcribed by hand in C02/Alloc.v; decInferLen / usableByteSlice are written by hand in C02/Alloc.v and PROVED equal (C02_alloc_src_tie, C02/LeafTie.v) to the translation of the current decode.base.go decInferLen / helper.go usableByteSlice regenerated on every run (Gen/Leaf2.v, harness/cmd/srcgen/leaf2.go; a []byte is read as its (len, cap)), besides the leaf stream through the hook VerifC02DecInferLen / VerifC02UsableByteSliceLen; GC, real memory, wall time and the recover at the Decode boundary are runtime'],
    'harness_timeout': {'quick': 1500, 'thorough': 5400},
}


def main(chk):
    return std.standard_check(chk, SPEC)


MANIFEST = {
    'category': 'proof',
    'technique': 'Coq: per format, decoding any byte list with fuel linear in its length never runs out of fuel (assembled by exact from the wire-layer totality lemmas), every exceptional outcome is an Err class the Decode boundary recovers, step and allocation-request counts of instrumented models are linear in the input length with the caps of decInferLen / usableByteSlice / MaxInitLen (containerLenNil from Gen/Consts.v; decInferLen / usableByteSlice written by hand, proved equal on their whole int64/uint64 domain to the functions translated from the current source on every run (Gen/Leaf2.v) and also tied by a leaf correspondence stream); vm_compute correspondence of outcome class and NumBytesRead on hostile inputs; API-level oracle in subprocess workers (address-space limit, stack cap, watchdog) over format x destination x options x transport with hostile lengths in every length position, truncations, byte flips, random bytes and all 65792 one- and two-byte inputs',
    'text': 'PARTIAL. Proved on the models (every byte list, option vector): C02_*_terminates (fuel K*(len+1) suffices, never OutOfFuel) for cbor, msgpack, simple, binc on the interface{} path and the skip/Raw walker; C02_only_recoverable; C02_alloc (allocation requests of every run tree satisfying the decoder invariants <= MaxDepth*max(1024,MaxInitLen)*U + (KL+64+13U)*len, whatever lengths are claimed); C02_alloc_src_tie (the decInferLen / usable_len the statement of C02_alloc is written with equal, for every int64/uint64 argument, the Gallina terms srcgen re-translates from the Go source of decInferLen / usableByteSlice on every run, which never divide by zero nor panic on a slice bound: a behaviour-changing edit of either function breaks this obligation); C02_walker_steps_partial (a step-counting skeleton of the recursive walkers takes <= 4*len+2 steps for EVERY progressing head parser), C02_msgpack_walker_steps / C02_simple_walker_steps / C02_binc_walker_steps / C02_cbor_walker_steps (the skeleton instantiated with the head parser of each binary format skip walker - leaves consumed by the wire model own leaf code - returns what that wire model skip returns, for every input, entry depth and option vector, in <= 4*len+2 steps: exactly for msgpack and simple; for binc the rest-of-input projection from every starting symbol table, the table does not steer the walker; for cbor with tags as one-value containers, indefinite lengths closed by the break byte and the chunk loop of indefinite strings inside the leaf, equal up to one characterised error-class difference - an array/map head with reserved additional information met at the depth bound is EDepth in the model, which like the code does depthIncr before reading the length, and EBadDesc in the skeleton: C02_cbor_walker_exact_refuted - and exactly equal whenever the model outcome is not the depth error); C02_json_terminates / C02_json_terminates_anyleaf (json, FULL on the wire model Wire/Json.v: Decode(&interface{}) with the same fuel K*(len+1), a decode call from every tokenizer state / depth / position incl. map keys and the DecodeStringAsBytes key read, sequences of Decode calls on one Decoder, the skip scanner and Raw capture never run out of fuel, for every leaf implementation with a total string decoder and unconditionally for the C09 string code, i.e. the leaf the Wjson correspondence runs), C02_only_recoverable_json, C02_json_skip_terminates_partial (older, skip scanner only). The model decides termination, step and allocation-request COUNTS; real time, GC, resident memory, the panic->error recover and memory safety of unsafe are runtime and are only observed by the harness. Typed destinations and io.Reader: harness oracle only; the json theorems are over Wire/Json.v, whose correspondence with the implementation is run by the check Wjson (this check runs json through the API-level oracle only).',
    'note': 'Findings made by this check and repaired in /repo: F02-2 (negative MaxInitLen lifted every cap of the io transport), F02-3 (decInferLen did not cap zero-size element types: map buckets sized by the claimed length); F10-1 (cbor tag 4/5 head compared with 82 decimal) surfaced as a correspondence mismatch here and was repaired by the cbor wire check. K0 is large by design of the code (64 MB usableByteSlice cap; MaxDepth * 1024 elements pre-sized per open container): the allocation oracle flags only gross violations (an uncapped claimed length). Trusted: Coq kernel, hand-written models, translator for decInferLen, harness and its constants.',
}

import os, sys
sys.path.insert(0, os.path.join(os.path.dirname(__file__), '..', 'lib'))
import std

SPEC = {
    'prop_files': ['theories/Properties/C20.v'],
    'coq_targets': ['theories/Properties/C20.vo', 'theories/C20/Corr.vo'],
    'closure_dirs': ['theories/C20', 'theories/Base/Outcome.v'],
    'harness': 'c20',
    'args': {
        'quick': ['-graphs', 400, '-children', 9, '-shapes', 120],
        'thorough': ['-graphs', 6000, '-children', 24, '-shapes', 2500],
    },
    'search_args': ['-graphs', 3000, '-children', 9, '-shapes', 1000],
    'assumptions': [
        'value graphs are trees of inline Go values whose pointers/slices/maps are addresses into a heap of cells; a cell index stands for one (address, type) reference as eq4i compares it: a pointer to the first field / element of a value is a cell of its own holding the same contents (the harness generates *Header -> the embedded first field of a Book and *Cell -> element 0 of a *[2]Cell)',
        'C20_sound/C20_depth assume that every cycle passes through a pointer to struct/slice/array/map (nopush_wf): cycles through maps, slices, *interface{} or `type P *P` only are outside the property; the model exhausts every budget on them and the implementation overflows the stack / spins (child-process runs)',
        'the stack budget d counts nested edges of the value graph; one edge is a constant number of Go frames (encodeValue -> fn.fe -> kXxx)',
        'model of encodeValue/ci is hand written; tied by replaying Encode/Encode/Reset/Encode on the same graphs (vm_compute) and by mutation tests',
        'the model records EVERY pointer edge to a struct/slice/array/map on ONE stack: it has no pointer that is dereferenced unrecorded (the builtin shortcut encodeIB(baseRVRV(..)) of the struct/slice/map coders) and no side encoder with a stack of its own (Canonical out-of-band map keys). The pinned code had both (F20-3, F20-4: fatal stack overflow on cycles through *[]interface{} / *map[string]interface{} fields, elements, map values, and through pointer map keys under Canonical); repaired in /repo. C20_every_pointer_edge_recorded / C20_unrecorded_edge_refuted state the assumption on the model; the deterministic harness streams ptrcoll / ptrkey place a pointer to a container in every position in which the encoder dereferences one (simple / omitempty / toarray struct field, slice / array / MapBySlice element, map key / value, double pointer, interface, out-of-band key) and check it on the implementation',
        're-entrant Selfers (CodecEncodeSelf calling MustEncode / Encode on the same Encoder) are transparent in the model: a Selfer node is the struct of what it writes; the harness stream selfer checks that nested calls keep the stack (cycle through Selfers reported, acyclic graphs with a pointer above a Selfer accepted, bytes equal with and without the option)',
        'the model is untyped: C20_leaf_table has no position dimension (position is the quantified graph of C20_leaves) and the model has no per-element-kind shortcut inside containers; the harness stream leafpos checks on the implementation that the static type of the slot (field, []T, [n]T, chan T, map value / key, *T, **T, interface) does not change what a leaf does, and replays the depth-1 product on the model (Corr cases)',
        'user marshalers: failing or panicking ones are leaves (their error is recovered by Encode defer); well-behaved ones are scalars',
    ],
    'trusted_extra': ['modelled, not verified: encodeValue, circularRefChecker, kStruct/kArrayW/kMap traversal order, panicValToErr (encode.go, helper.go); reflection, Go stack growth'],
}

def main(chk):
    return std.standard_check(chk, SPEC)

MANIFEST = {
    'category': 'proof',
    'technique': 'Coq proofs (induction on the stack budget with a pigeonhole measure on the circular-reference stack; ancestor invariant) on an executable model of the encoder traversal + vm_compute correspondence on random value graphs + direct oracle with an independent cycle detector on real Encoders (5 formats) on random graphs and on deterministic shape streams (pointers to fast-path collections in every shortcut position, pointer map keys with and without Canonical, re-entrant Selfers; the leaf table x position product: every leaf kind of C20_leaf_table with its static type visible in every container position, one and two levels deep, error class or the bytes of the twin value), child processes for the runs that exhaust or may exhaust the stack',
    'text': 'For ALL heaps and values: with CheckCircularRef a reachable cycle through a pointer-to-container is rejected with an error within a stack budget of (cells+1)*(R+1)+1 nested edges (C20_sound, C20_depth); no acyclic graph is ever reported circular, whatever the sharing (C20_complete); an unrepresentable leaf anywhere prevents a normal return and gives an error (C20_leaves, C20_leaf_table); a successful Encode leaves the stack balanced and Reset after an error gives a fresh Encoder (C20_balanced, C20_reset); without the option cyclic graphs exhaust any budget (C20_nocheck_diverges).',
    'note': 'Trusted: Coq kernel, the hand-written traversal model (correspondence-checked on random graphs and Encode/Encode/Reset/Encode op sequences), the harness and its reflect-based cycle detector, Go toolchain. Interior pointers to offset 0 (same address, other type) are generated and covered by the theorems (C20_typed_identity); embedded-pointer cycles are not generated. The model assumes that every pointer edge to a container is recorded on one stack (C20_every_pointer_edge_recorded, C20_unrecorded_edge_refuted); the implementation is checked for it position by position by the ptrcoll / ptrkey / selfer streams (findings F20-3, F20-4 repaired; the selfer stream also exposed F17-3 (pointer-shaped by-value values whose address the encoder needs), repaired). Cycles without any pointer-to-container edge are outside the property (stack overflow or hang, recorded in evidence as child.stack / child.hang).',
}

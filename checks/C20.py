import os, sys
sys.path.insert(0, os.path.join(os.path.dirname(__file__), '..', 'lib'))
import std

SPEC = {
    'prop_files': ['theories/Properties/C20.v'],
    'coq_targets': ['theories/Properties/C20.vo', 'theories/C20/Corr.vo'],
    'closure_dirs': ['theories/C20', 'theories/Base/Outcome.v'],
    'harness': 'c20',
    'args': {
        'quick': ['-graphs', 400, '-children', 9],
        'thorough': ['-graphs', 6000, '-children', 24],
    },
    'search_args': ['-graphs', 3000, '-children', 9],
    'assumptions': [
        'value graphs are trees of inline Go values whose pointers/slices/maps are addresses into a heap of cells; a cell index stands for one (address, type) reference as eq4i compares it: a pointer to the first field / element of a value is a cell of its own holding the same contents (the harness generates *Header -> the embedded first field of a Book and *Cell -> element 0 of a *[2]Cell)',
        'C20_sound/C20_depth assume that every cycle passes through a pointer to struct/slice/array/map (nopush_wf): cycles through maps, slices, *interface{} or `type P *P` only are outside the property; the model exhausts every budget on them and the implementation overflows the stack / spins (child-process runs)',
        'the stack budget d counts nested edges of the value graph; one edge is a constant number of Go frames (encodeValue -> fn.fe -> kXxx)',
        'model of encodeValue/ci is hand written; tied by replaying Encode/Encode/Reset/Encode on the same graphs (vm_compute) and by mutation tests',
        'user marshalers: failing or panicking ones are leaves (their error is recovered by Encode defer); well-behaved ones are scalars',
    ],
    'trusted_extra': ['modelled, not verified: encodeValue, circularRefChecker, kStruct/kArrayW/kMap traversal order, panicValToErr (encode.go, helper.go); reflection, Go stack growth'],
}

def main(chk):
    return std.standard_check(chk, SPEC)

MANIFEST = {
    'category': 'proof',
    'technique': 'Coq proofs (induction on the stack budget with a pigeonhole measure on the circular-reference stack; ancestor invariant) on an executable model of the encoder traversal + vm_compute correspondence on random value graphs + direct oracle with an independent cycle detector on real Encoders (5 formats), child processes for the runs that exhaust the stack',
    'text': 'For ALL heaps and values: with CheckCircularRef a reachable cycle through a pointer-to-container is rejected with an error within a stack budget of (cells+1)*(R+1)+1 nested edges (C20_sound, C20_depth); no acyclic graph is ever reported circular, whatever the sharing (C20_complete); an unrepresentable leaf anywhere prevents a normal return and gives an error (C20_leaves, C20_leaf_table); a successful Encode leaves the stack balanced and Reset after an error gives a fresh Encoder (C20_balanced, C20_reset); without the option cyclic graphs exhaust any budget (C20_nocheck_diverges).',
    'note': 'Trusted: Coq kernel, the hand-written traversal model (correspondence-checked on random graphs and Encode/Encode/Reset/Encode op sequences), the harness and its reflect-based cycle detector, Go toolchain. Interior pointers to offset 0 (same address, other type) are generated and covered by the theorems (C20_typed_identity); embedded-pointer cycles are not generated. Cycles without any pointer-to-container edge are outside the property (stack overflow or hang, recorded in evidence as child.stack / child.hang).',
}

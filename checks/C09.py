import os, sys
sys.path.insert(0, os.path.join(os.path.dirname(__file__), '..', 'lib'))
import std

SPEC = {
    'prop_files': ['theories/Properties/C09.v', 'theories/Properties/C09_doc.v'],
    'coq_targets': ['theories/Properties/C09.vo', 'theories/Properties/C09_doc.vo', 'theories/C09/Corr.vo'],
    'closure_dirs': ['theories/C09', 'theories/Gen/Consts.v', 'theories/Base/Outcome.v', 'theories/Wire/Item.v', 'theories/Wire/Json.v', 'theories/Wire/JsonRT.v', 'theories/Wire/JsonLeaf.v', 'theories/Wire/JsonDoc.v', 'theories/Wire/JsonDocProofs.v', 'theories/Wire/JsonProofs.v', 'theories/Wire/JsonTotal.v', 'theories/Wire/JsonAccept.v'],
    'harness': 'c09',
    'args': {
        'quick': ['-num', 700, '-raw', 250, '-fast', 250, '-str', 800, '-enc', 250, '-doc', 300, '-refuse', 300, '-keys', 150],
        'thorough': ['-num', 12000, '-raw', 4000, '-fast', 4000, '-str', 12000, '-enc', 4000, '-doc', 20000, '-refuse', 6000, '-keys', 4000],
    },
    'search_args': ['-num', 6000, '-raw', 2000, '-fast', 2000, '-str', 6000, '-enc', 2000, '-doc', 6000, '-refuse', 3000, '-keys', 2000],
    'assumptions': [
        'strconv.ParseFloat (the slow path) is correctly rounded: a Section variable in the model; every run compares it with the Gallina reference Spec.RN on every generated literal (CNum cases)',
        'hardware float64/float32 conversion, * and / are IEEE 754 round-to-nearest-even of the exact result (modelled as Spec.rn of the exact rational); compared with the real fast path on (mantissa, exp) pairs (CFast cases)',
        'utf8.DecodeRuneInString / EncodeRune / utf16.DecodeRune of the Go standard library behave as RFC 3629 / the Unicode standard say (Spec.decode1, utf8_encode, pair_cp); tied by the string cases',
        'Go int is 64 bits wide (readFloat counters after fix F09-1): the theorems assume length < 2^62, which every Go slice satisfies',
        'the models of readFloat, parseFloat*_reader, dblQuoteStringAsBytes, quoteStr, jsonEncodeUint, jsonFloatStrconvFmtPrec* are hand written; tied by running them (vm_compute) on the inputs the real functions ran on',
    ],
    'trusted_extra': [
        'modelled, not verified: decimal.go readFloat/parseFloat*_reader/parseUint64_simple, json.go dblQuoteStringAsBytes/quoteStr, json.base.go jsonEncodeUint/jsonSlashURune/jsonFloatStrconvFmtPrec*; reader.go jsonReadAsisChars/jsonReadNum and the container/whitespace/indent code are exercised only through the API oracles (doc stream)',
        'oracles: strconv.ParseFloat/FormatFloat, encoding/json (Valid, Unmarshal, Marshal)',
    ],
}

def main(chk):
    return std.standard_check(chk, SPEC)

MANIFEST = {
    'category': 'proof',
    'technique': 'Coq proofs (structural induction over the grammar of number / string literals of any length) on executable models of readFloat, the exact float fast path, the string unescaper, quoteStr and jsonEncodeUint, against a Gallina reference written from RFC 8259 / RFC 3629 / IEEE 754; vm_compute correspondence of models AND reference against the real code, strconv and encoding/json; direct oracles on the real Decoder/Encoder',
    'text': 'Theorems (all closed under the global context, no axioms): C09_readfloat (readFloat on ANY literal of the number grammar, any length, for fi32/fi64/fi64u: never bad, sign kept, ok => mantissa*10^exp is the exact value, else trunc/hardexp flagged), C09_num_fast (under readFloat\'s ok-guard the float64 and float32 fast paths either decline or return the bits of the correctly rounded mantissa*10^exp), C09_num (parseFloat64/32 on any literal = correctly rounded value, or exactly strconv\'s answer), C09_rn_ratio (the rounding reference depends only on the value), C09_unescape (string decoder = reference, consuming exactly the literal, for every literal outside the test-pinned class F09-2r; C09_unescape_refuted gives the witness), C09_quote / C09_quote_fn / C09_quote_selfread (quoteStr writes a literal of the grammar denoting utf8_sanitise s, both HTMLCharsAsIs settings, and the decoder reads it back), C09_uint / C09_uint_decorated (jsonEncodeUint writes the decimal digits of every u < 2^64, no leading zero; parseUint64_simple reads them back), C09_number_literal (jsonIsNumberLiteral, the F09-4 guard on quoted map keys under MapKeyAsString, accepts exactly the texts of the number grammar). Harness: raw bytes through readFloat/parseUint64_simple/parseFloat64,32 (bad => refused); tokens outside the grammar that are refused today must stay refused (bare, array, map value, float-keyed map key; float64/float32/interface{}; bytes/io); map[interface{}]interface{} with number-like non-number string keys and real numbers under MapKeyAsString both directions; grammar-generated literals with 0-300 zero runs, 40 significant digits, exponents +-400 and boundary mantissas through the real Decoder (bytes/io, float64/float32/interface{}) vs strconv; every (hi|lo) x 6^3 surrogate arrangement vs encoding/json; encode side and whole documents under option vectors vs json.Valid/Unmarshal/Marshal; models AND the reference evaluated in Coq on the same cases. Document level, reading direction (Properties/C09_doc.v over Wire/JsonAccept.v): C09_doc_decodes (for EVERY text the RFC 8259 reference parser accepts -- any white space between tokens, any nesting, any number / string literal -- every option vector and fuel: Decode(&interface{}) of the wire model returns exactly jdec of the reference parse: the item denoting the same data or the first error met reading left to right (EDepth from MaxDepth on, the number reader\'s refusal, a repeated member name = not modelled); guard: no string literal in the class F09-2r), C09_doc_accepts (valid_json + nesting below MaxDepth + numbers readable + member names distinct => Ok jitem, trailing white space unread), C09_doc_accepts_refuted (the unguarded statement fails on the document "\\ud800\\u0041"), C09_doc_decodes_value (a value anywhere in a text from any tokenizer state), C09_doc_number_kind (uint64 / int64 / float64 by literal shape, PreferFloat, SignedInteger). Tie for these: the hand stream of harness/cmd/wirejson (check Wjson): grammar-written documents through the real Decoder vs the model and vs a direct oracle.',
    'note': 'Trusted: Coq kernel, hand-written models (correspondence-checked), Spec.rn as the definition of IEEE rounding (compared with strconv on every literal), strconv/encoding/json as oracles, Gen/Consts.v translator. whole documents: the WRITING direction is C09_doc_valid / C09_doc_parse, the READING direction C09_doc_decodes / C09_doc_accepts, both over the structure model Wire/Json.v (tied to the code by check Wjson) with the C09 string / integer models as leaves and strconv as oracle; not proved: integer literals >= 2^64 take the float path (harness), repeated member names (not modelled); the executable reference reader Spec.unescape is tied to the relational grammar by C09_unescape_std (parse . render = id). Known finding F09-2-residual: a surrogate escape immediately followed by a non-pairing \\u escape yields one U+FFFD (pinned by the upstream test suite).',
}

import os, sys
sys.path.insert(0, os.path.join(os.path.dirname(__file__), '..', 'lib'))
import std

SPEC = {
    'prop_files': ['theories/Properties/C07.v'],
    'coq_targets': ['theories/Properties/C07.vo', 'theories/C07/Corr.vo'],
    'closure_dirs': ['theories/C07', 'theories/Base/Word.v', 'theories/Base/FBits.v', 'theories/Base/Outcome.v',
                     'theories/Gen/Consts.v', 'theories/Gen/Leaf.v'],
    'harness': 'c07',
    'args': {
        'quick': ['-rand', 150, '-json', 300],
        'thorough': ['-rand', 4000, '-json', 6000, '-allhalf'],
    },
    'search_args': ['-rand', 3000, '-json', 3000],
    'eval_timeout': {'quick': 600, 'thorough': 1500},
    'assumptions': [
        'hardware float conversions (int->float64, float64->float32, float32->float64, float->int truncation) are IEEE-754 round-to-nearest-even / exact / truncating; the bit-level model of them in Base/FBits.v is tied to the hardware only by the correspondence cases',
        'int, uint and uintptr are 64 bits (pinned target linux/amd64)',
        'sources are single number items: cbor tags (bignum, decimal fraction, bigfloat, SkipUnexpectedTags) are outside the modelled domain',
    ],
    'trusted_extra': [
        'modelled, not verified: per-format DecodeInt64/DecodeUint64/DecodeFloat64/DecodeFloat32, decNegintPosintFloatNumberHelper, generic narrowing (hand-written model, correspondence-checked on the full source x destination cross product)',
        'translated on every run (Gen/Leaf.v): checkOverflow.{Float32,Uint,Int,Uint2Int,SignedInt,Float32V,UintV,IntV,SignedIntV}, noFrac64, noFrac32, decNegintPosintFloatNumberHelperInt64v, parseUint64_reader',
        'json float parsing (parseFloat64/32, strconv fallback) is left to C09; here it is covered only by the direct math/big oracle',
    ],
}

def main(chk):
    return std.standard_check(chk, SPEC)

MANIFEST = {
    'category': 'proof',
    'technique': 'Coq proofs (lia over explicit wrap-arounds, bit-level float reasoning on Z) on an executable model of numeric decoding whose overflow/fraction checks are translated from the current source on every run (Gen/Leaf.v) + vm_compute correspondence on the full source-width x destination-kind cross product + direct math/big oracle on the real Decoder',
    'text': 'see coq/theories/Properties/C07.v',
    'note': 'see evidence',
}

import os, sys
sys.path.insert(0, os.path.join(os.path.dirname(__file__), '..', 'lib'))
import std

SPEC = {
    'prop_files': ['theories/Properties/C07.v'],
    'coq_targets': ['theories/Properties/C07.vo', 'theories/C07/Corr.vo'],
    'closure_dirs': ['theories/C07', 'theories/Base/Word.v', 'theories/Base/FBits.v', 'theories/Base/Outcome.v',
                     'theories/Gen/Consts.v', 'theories/Gen/Leaf.v', 'theories/Gen/Leaf2.v'],
    'harness': 'c07',
    'args': {
        'quick': ['-rand', 150, '-json', 300],
        'thorough': ['-rand', 4000, '-json', 6000, '-allhalf'],
    },
    'search_args': ['-rand', 3000, '-json', 3000],
    'eval_timeout': {'quick': 600, 'thorough': 1500},
    'assumptions': [
        'hardware float conversions (int->float64, float64->float32, float32->float64, float->int truncation) are IEEE-754 round-to-nearest-even / exact / truncating; the bit-level model of them in Base/FBits.v is tied to the hardware only by the correspondence cases',
        'int, uint and uintptr are 64 bits (pinned target linux/amd64)',
        'cbor tags 2-5 (bignum, decimal fraction, bigfloat) are sources of the direct math/big oracle only (harness/cmd/c07/tags.go), not of the Coq model; SkipUnexpectedTags is not exercised',
    ],
    'trusted_extra': [
        'modelled, not verified: per-format DecodeInt64/DecodeUint64/DecodeFloat64/DecodeFloat32, decNegintPosintFloatNumberHelper, generic narrowing (hand-written model, correspondence-checked on the full source x destination cross product)',
        'translated on every run (Gen/Leaf.v): checkOverflow.{Float32,Uint,Int,Uint2Int,SignedInt,Float32V,UintV,IntV,SignedIntV}, noFrac64, noFrac32, decNegintPosintFloatNumberHelperInt64v, parseUint64_reader',
        'translated on every run (Gen/Leaf2.v, harness/cmd/srcgen/leaf2.go) and proved equal to the hand-written model pieces (C07_float_widen_src_tie, C07/LeafTie.v): halfFloatToFloatBits = f16_to_f32 on all 65536 inputs (loop: fuel >= 11 never runs out), bigen.Uint16/32/64 = be_val of readn',
        'json float parsing (parseFloat64/32, strconv fallback) is left to C09; here it is covered only by the direct math/big oracle',
    ],
}

def main(chk):
    return std.standard_check(chk, SPEC)

MANIFEST = {
    'category': 'proof',
    'technique': 'Coq proofs (lia over explicit wrap-arounds, bit-level float reasoning on Z) on an executable model of numeric decoding whose overflow/fraction checks are translated from the current source on every run (Gen/Leaf.v) + vm_compute correspondence on the full source-width x destination-kind cross product + direct math/big oracle on the real Decoder',
    'text': 'Ok-implies-right theorems on the decoder model: C07_int (cbor, msgpack, binc, simple: every integer item of the format, every width, into every integer kind: stored = value, in range); C07_int_frac_msgpack_int64_partial (msgpack DecodeInt64 on all 256 descriptors: integers exact, float64 only when integral, non-numbers rejected; float32 widening not proved); C07_int_signmag / C07_uint_signmag (binc, cbor, simple sign+magnitude reconciliation through the translated Int64v/Uint2Int); C07_narrow_int / C07_narrow_uint (generic narrowing to 8/16/32/64 bits through the translated chkOvf.IntV/UintV never changes the value); C07_frac_nofrac64, C07_frac_int64, C07_frac_uint64 (the translated noFrac64 accepts exactly integral floats of magnitude < 2^52 and the conversion returns that integer); C07_float_of_int (integer items into float64: the round-to-nearest-even binary64, exactly n for |n| <= 2^53; into float32: RNE of that binary64, always finite), C07_float_narrow (float64 items into float32: NaN/Inf preserved, finite values only when |b| <= MaxFloat32 and then the finite RNE binary32), C07_float_narrow_exact + C07_float32_same (every non-NaN binary32 survives widening and narrowing bit for bit), C07_float_widen (float32 and half-float items into float64 keep exactly their real value), C07_float_widen_src_tie (the f16_to_f32 and the big-endian be_val those statements are written with equal, on all 65536 uint16 resp. every 2/4/8-byte array, the Gallina terms srcgen re-translates from the Go source of halfFloatToFloatBits / bigen.Uint16/32/64 on every run: a behaviour-changing edit of one of them breaks this obligation) - all four binary formats, all bit patterns, relative to the bit-level model of the hardware conversions in Base/FBits.v (tied by correspondence). The model is tied to the code by re-translating the leaf functions on every run and by evaluating it on the full source-width x destination-kind x boundary-value cross product the harness runs through the real Decoder; the same runs are judged directly against math/big (all five formats, json included), for scalar destinations and for the same number as an element of []T, [1]T, map[string]T, a key of map[T]bool and *T (generated fast paths / builtin type switch), which must also agree with the scalar outcome; a sequence stream decodes 4-8 numbers of different wire widths one after another on ONE Decoder (top-level, []T, [k]T, struct fields; []byte, io.Reader, one-byte reader), each judged against math/big and against a fresh Decoder (the model is stateless across values, so that stream is oracle-only).',
    'note': 'C07_int is full for the four binary formats (per-descriptor specifications in C07/Spec.v). C07_frac is per descriptor for msgpack float64 and at the level of the shared helper (float64 value produced by decFloat) for binc/cbor/simple; for msgpack float32 items into integers only noFrac32 + truncation of the (proved exact) widening is shown. Float results are proved IEEE round-to-nearest-even / exact on the (sign, exponent, significand) decomposition of the bit-level conversion model (Base/FBits.v), which itself is tied to the hardware by correspondence; int -> float32 goes through float64 in the code, so for |n| > 2^53 the theorem gives two successive roundings (within one ulp), not the single-rounding result. json is covered by the direct oracle only (no Coq model yet; float parsing belongs to C09); parseUint64_reader is translated. cbor tag 2-5 sources (bignum/decimal fraction/bigfloat) are judged by the oracle only (not modelled); known finding F07-10: tag 4/5 into an integer destination accept values whose fraction is lost in the float64 rounding. Trusted: Coq kernel, translator harness/cmd/srcgen/leaf.go (its reading of Go fixed-width arithmetic), hand-written model, harness, Go toolchain, IEEE-754 hardware.',
}

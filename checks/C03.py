import os, sys
sys.path.insert(0, os.path.join(os.path.dirname(__file__), '..', 'lib'))
import std

SPEC = {
    'prop_files': ['theories/Properties/C03.v'],
    'coq_targets': ['theories/Properties/C03.vo', 'theories/C03/Corr.vo'],
    'closure_dirs': ['theories/C03', 'theories/Gen/Consts.v'],
    'harness': 'c03',
    'args': {
        'quick': ['-unit', 900, '-api', 120, '-offsets', 40],
        'thorough': ['-unit', 9000, '-api', 1500, '-offsets', 96, '-resetunit', 2500, '-reuse', 30],
    },
    'search_args': ['-unit', 4000, '-api', 600, '-offsets', 64, '-resetunit', 1000, '-reuse', 12],
    'assumptions': [
        'the wrapped io.Reader returns 0 <= n <= len(p); the scripted readers of the harness obey it; "abides" = fewer than maxConsecutiveEmptyReads (0,nil) reads in a row, terminal io.EOF',
        'operation lists respect the decReaderI protocol the decoders follow (Model.pre_ok): startRecording/jsonReadNum after a byte was read, jsonReadNum when that byte is a number character, stopRecording while recording, unbuffered skip while recording, no NUL before the closing quote for jsonReadUntilDblQuote',
        'request sizes below 2^63 (Go ints); model uses unbounded nat',
        'model of ioDecReader/bytesDecReader is hand written; tied by running it (vm_compute) on the operation lists, data and reader scripts the real readers ran (outputs, tokens, numread, bytes drawn, Read calls, sum of request sizes, error class, initial capacity)',
        'the decoders read bytes only through decReaderI (api stream checks the consequence on real Decoders of all five formats)',
        'resetIO on a used reader (Decoder.Reset) is modelled as: every field forgotten, only the capacity of the kept buffer survives (ModelR.resetIO; free list not modelled: with an unchanged ReaderBufferSize the kept buffer is always large enough); tied by the resetunit stream (real ioDecReader reset between operation lists, the capacity before the reset is an input of the case, the capacity after it is checked) and, above the reader, by the reuse stream (real Decoders through Decoder.Reset)',
    ],
    'trusted_extra': ['modelled, not verified: ioDecReader/bytesDecReader (reader.go), bytesFreeList capacities for a fresh free list, isNumberChar/isWhitespaceChar tables; the decoders above the reader are exercised only through the api stream oracle'],
}

def main(chk):
    return std.standard_check(chk, SPEC)

MANIFEST = {
    'category': 'proof',
    'technique': 'Coq proof (simulation of an executable model of ioDecReader by the specification reader over the delivered bytes, invariants over operation lists) + vm_compute correspondence of the model against the real ioDecReader/bytesDecReader + direct oracle on real Decoders (io vs []byte, truncation at every offset, chunk boundary at every offset)',
    'text': 'Theorems C03_refines (io trace == specification trace on the delivered bytes: outputs, tokens, numread, success/failure; all ReaderBufferSize, MaxInitLen, ByteReader or not, all data, all contract-abiding scripts, all protocol-respecting operation lists over all decReaderI operations incl. recording and the json scanners), C03_truncated (reader ends early with EOF or an error => error), C03_truncated_unbuffered_any_script, C03_no_overread (unbuffered: bytes drawn == numread after every operation), C03_total (no out-of-fuel), C03_reset_refines / C03_reset_truncated / C03_session_refines (a reader REUSED through resetIO, from every previous state whatsoever -- previous Reader drained to io.EOF, sticky error, recording on, unread bytes, grown buffer -- and after any number of earlier segments, refines the specification reader over the NEW bytes alone) hold without bounds; the model is tied to reader.go by running both on the same operation lists, data and scripts (unit stream, vm_compute, incl. Read call counts and request sizes) and the API consequence (value, error-ness, NumBytesRead equal to NewDecoderBytes; chunk boundary and truncation at every offset; iotest readers; deadline reader; no over-read) is checked on real Decoders of all five formats, including Decoders reused through Reset(newReader) after 13 kinds of history of the previous Reader.',
    'note': 'Trusted: Coq kernel, the hand-written models of ioDecReader/bytesDecReader and of the scripted reader (correspondence-checked, not verified), Gen/Consts.v translator (maxConsecutiveEmptyReads), Go toolchain. The decoder layers above the reader are covered only by the API oracle.',
}

import os, sys
sys.path.insert(0, os.path.join(os.path.dirname(__file__), '..', 'lib'))
import std

SPEC = {
    'prop_files': ['theories/Properties/C17.v'],
    'coq_targets': ['theories/Properties/C17.vo', 'theories/C17/Corr.vo'],
    'closure_dirs': ['theories/C17', 'theories/Gen/Choice.v', 'theories/Gen/ChoicePre.v'],
    'harness': 'c17',
    'args': {
        'quick': ['-rounds', 4],
        'thorough': ['-rounds', 40],
    },
    'search_args': ['-rounds', 12],
    'assumptions': [
        'Gen/Choice.v is the translation (harness/cmd/srcgen/choice.go) of the if/else-if chains of encFnLoad and decFnLoad up to the kind switch, of the guard of extHandle.getExt, and of the checkExt constant passed by encoder.fn/fnNoExt and decoder.fn/fnNoExt; an unsupported construct is a translation failure',
        'the flags record abstracts a (type, handle) pair: typeInfo flags, rtid == time/Raw/RawExt, kind struct/array, an extension registered for the type, the handle facts binaryEncoding/json/timeBuiltin; the harness reads them through the verif hook',
        'the addressing step (encodeValue :1227-1236, decodeValueNoCheckNil :1561-1570) and the positions are hand modelled; tied by the position sweep (hook ran on both sides, round trip) on real Encoders/Decoders',
        'Gen/ChoicePre.v is the translation (harness/cmd/srcgen/choice_pre.go) of what encodeValue does before `fn = e.fn(rv.Type())` (the kind switch at RV: nil exits, dereferences) and of decodeValue / decodeValueNoCheckNil before `fn = d.fn(rv.Type())` (TryNil, pointer loop); any statement there that is not a nil exit of the accepted shape is a translation failure',
        'user hooks are inverse to each other (the harness hooks are); the fast-path/kind branch after the chain is MKind',
        'safe/unsafe builds differ only in how an address is made (rvAddr / addrRV); not modelled',
    ],
    'trusted_extra': ['translated: guard chains (Gen/Choice.v), the step before the function lookup (Gen/ChoicePre.v); modelled, not verified: addressing step, reflection, the ext framing of each driver'],
}

def main(chk):
    return std.standard_check(chk, SPEC)

MANIFEST = {
    'category': 'proof',
    'technique': 'translator (go/ast + go/types) from encFnLoad/decFnLoad/getExt/fn to Gallina + Coq proofs by exhaustive case analysis over all 2^24 flag vectors + vm_compute correspondence of the mechanism observed per (type, handle) + direct oracle over 25 types x 19 positions x root by value/pointer x 5 formats (hook symmetry, round trip, documented precedence) + seed-independent sweep of 39 custom-coded types of every underlying kind (map, slice, []byte, array, chan, one-pointer struct/array, bool, float, string, int, uint8; Selfer by value and pointer receiver, Binary, Text, JSON pairs) x value classes (nil, empty-not-nil, one, two elements, zero value, nil pointer to X) x 19 positions x root by value/pointer x 5 formats x 4 option vectors, with hook-call counts (encode calls == decode calls == one per X held, none for nil) + translation of the step before the function lookup (encodeValue kind switch, decodeValue TryNil / pointer loop)',
    'text': 'For ALL flag vectors: encode and decode choose the same mechanism (C17_choice); a custom mechanism is chosen only when both halves exist and the format class fits (C17_both_halves); the choice is the documented precedence time/Raw/RawExt > extension (when looked up) > Selfer > Binary | JSON > Text > kind (C17_precedence); the chosen function is handed a value on which its type assertion succeeds, in every position (C17_cast_ok, C17_position, C17_addr); with inverse hooks a value round-trips through whatever is chosen (C17_rt); the builtin type-switch shortcut (top level, fields, elements, map keys/values) is taken on both sides or on neither for every builtin type (C17_builtin_positions, lists translated from encode.base.go / decode.base.go) and, since the repair of F17-2, never for time.Time under TimeNotBuiltin (C17_time_not_builtin, guards translated from encodeBuiltin / decode). Before the function is looked up only nil leaves the encoder, written as nil, and exactly then the decoder leaves before its lookup; every non-nil value (empty map, empty slice, zero value) reaches the chosen function (C17_pre_nonnil_looks_up, C17_pre_dec_nonnil_looks_up, C17_pre_nil_symmetric, C17_pre_hooks_symmetric; Gen/ChoicePre.v translated from encodeValue / decodeValue); with NilCollectionToZeroLength this is refuted on the current tree (C17_pre_refuted, finding F17-4: a nil custom-coded map / slice / chan is written as an empty collection without its encode hook and read with its decode hook). The statement that a registered extension is selected on the normal path is refuted on the current tree (C17_ext_refuted, finding F17-1: fn passes checkExt=false) and proved in its guarded form (C17_ext_when_checked).',
    'note': 'Trusted: Coq kernel, the translator choice.go (accepted subset documented in its header), the hook reading typeInfo flags, the harness types/hooks, Go toolchain. Round trip in all positions is established by the harness sweep, not by a theorem about the drivers\' ext framing.',
}

import os, re, sys
sys.path.insert(0, os.path.join(os.path.dirname(__file__), '..', 'lib'))
import std
import vlib

RACE_ARGS = {'quick': ['-trials', 250, '-casetrials', 0, '-watchdog', 200, '-pool', 5, '-naked', 5, '-poolstate', 5, '-reuse', 12, '-embed', 10],
             'thorough': ['-trials', 6000, '-casetrials', 0, '-watchdog', 600, '-pool', 40, '-naked', 25, '-poolstate', 30, '-reuse', 120, '-embed', 100]}


def race_step(chk, ok_c):
    """Build the same harness with the race detector (needs cgo) and run it under a watchdog.
    A race report, a deadlock timeout or a crash is a classed oracle failure with the report as the case."""
    exe = os.path.join(chk.bdir, 'c06.race')
    rc, out = vlib.sh(['go', 'build', '-race', '-tags', 'verif', '-o', exe, './cmd/c06'], cwd=vlib.HARNESS,
                      timeout=1800, env={'CGO_ENABLED': '1'})
    if rc != 0:
        chk.log('race build failed:\n' + out[-1500:])
        chk.broken.append('harness cmd/c06 does not build with -race against the current tree: ' + out.strip()[-300:])
        return
    args = [str(a) for a in RACE_ARGS[chk.tier]] + ['-cases', os.path.join(chk.bdir, 'cases_race')]
    tmo = 1800 if chk.tier == 'quick' else 5400
    rc, out = vlib.sh([exe] + args, timeout=tmo, cwd=chk.bdir,
                      env={'VERIF_SEED': str(chk.seed + 7), 'VERIF_TIER': chk.tier, 'CGO_ENABLED': '1',
                           'GORACE': 'halt_on_error=0 exitcode=0 history_size=3'})
    races = out.split('WARNING: DATA RACE')[1:]
    chk.cov.setdefault('extra', {})['race_detector'] = {'trials': RACE_ARGS[chk.tier][1], 'reports': len(races), 'exit': rc}
    seen = set()
    for rep in races[:50]:
        # root-cause class = the two innermost codec frames of the report
        frames = re.findall(r'github\.com/ugorji/go/codec\.([^\s(]+(?:\([^)]*\))?[^\s]*)\(\)\s*\n\s*(\S+?):(\d+)', rep)
        top = [f[0] for f in frames[:1]] + [f[0] for f in frames if f[0] not in [x[0] for x in frames[:1]]][:1]
        cls = 'race:' + '|'.join(re.sub(r'\[.*?\]', '', t) for t in top)
        if cls in seen:
            continue
        seen.add(cls)
        chk.report('counterexample', 'the race detector reported a data race between goroutines sharing one Handle',
                   case={'report': rep[:3000], 'seed': chk.seed + 7, 'args': args, 'frames': ['%s %s:%s' % f for f in frames[:8]]},
                   cls=cls, stream='race')
    if rc == 124:
        chk.report('counterexample', 'the race-detector run of goroutines sharing one Handle did not finish (deadlock or livelock)',
                   case={'seed': chk.seed + 7, 'args': args, 'tail': out[-1500:]}, cls='race:timeout', stream='race')
        return
    summ = None
    for l in out.splitlines():
        if l.startswith('SUMMARY '):
            import json
            try:
                summ = json.loads(l[8:])
            except Exception:
                pass
    if summ is None:
        if not races:
            chk.report('counterexample', 'the race-detector build of the harness crashed on the current tree',
                       case={'seed': chk.seed + 7, 'args': args, 'tail': out[-2500:], 'exit': rc}, cls='race:crash', stream='race')
        return
    chk.cov['evaluations'] += summ.get('evaluations', 0)
    chk.cov['streams']['c06.race'] = {'evaluations': summ.get('evaluations', 0), 'model_cases': 0}
    chk.absorb_failures(summ)


SPEC = {
    'prop_files': ['theories/Properties/C06.v'],
    'coq_targets': ['theories/Properties/C06.vo', 'theories/C06/Corr.vo'],
    'closure_dirs': ['theories/C06', 'theories/Gen/Cache.v', 'theories/Gen/SharedState.v', 'theories/C12', 'theories/Gen/Reset.v'],
    'harness': 'c06',
    'args': {
        'quick': ['-trials', 2500, '-casetrials', 110, '-watchdog', 300, '-pool', 10, '-naked', 10, '-poolstate', 15, '-reuse', 30, '-embed', 30],
        'thorough': ['-trials', 40000, '-casetrials', 1500, '-watchdog', 600, '-pool', 200, '-naked', 150, '-poolstate', 150, '-reuse', 600, '-embed', 600],
    },
    'search_args': ['-trials', 20000, '-casetrials', 0, '-pool', 100, '-naked', 100, '-poolstate', 100, '-reuse', 300, '-embed', 300],
    'extra': race_step,
    'assumptions': [
        'sync/atomic operations and sync.Mutex are sequentially consistent (Go memory model); the interleaving semantics models exactly those',
        'the value computed for a key (typeInfo, encFn, decFn) is a pure function F of the key and the configured Handle; look-ups nested in that computation happen before Lock (translator fact no_foreign_call_under_lock)',
        'slice lengths are below 2^63, so the uint midpoint (i+j)>>1 does not wrap',
        'the model is hand written; it is tied to the source by the translator facts of Gen/Cache.v (all 23 loaders and 23 finders, generic and monomorphised, read syntactically on every run) and by evaluating its invariant, search and insert on snapshots of the real published slices',
    ],
    'trusted_extra': [
        'PARTIAL: Go memory model for plain accesses (C06_drf shows there are no conflicting ones, DRF-SC then applies), goroutine scheduler, sync.Pool internals (modelled by contract only), reflect/unsafe are runtime and trusted',
        'the Go race detector (thorough and quick tiers run the harness under -race; it observes only the schedules that happen)',
        'syntactic translator harness/cmd/srcgen/cache.go (go/parser only): recognises the loader/finder shapes; a shape it cannot read is a translation failure',
        'translator harness/cmd/srcgen/sharedstate.go (go/types): package-level views of package-level arrays with their constant bounds, package-level sync.Pool scratch structs with declared vs reset-assigned fields and the Get..reset..Put order; the list of kept-storage fields (C06/Shared.v scratch_neutral: trie node kids) is hand written',
    ],
}


def main(chk):
    return std.standard_check(chk, SPEC)


MANIFEST = {
    'category': 'proof',
    'technique': 'Coq proof by invariant induction over an interleaving small-step model (any number of threads/steps) of the copy-on-write publication protocol + syntactic translator facts on all loaders + real goroutines on fresh handles/types with cache snapshots evaluated in the model + race detector',
    'text': 'PARTIAL. Proved for every schedule, thread count and step count of the protocol model (atomic load, search on immutable snapshot, compute, lock, re-load, re-search, fresh copy-insert, atomic store, unlock; double-checked handle init; pool contract): C06_inv (published slices sorted, duplicate-free, F-valued; snapshots are sub-arrays still published; mutex discipline), C06_linear (a completed get returns the sequential result F k), C06_monotone (nothing is lost), C06_progress + C06_crit_bounded (no deadlock; critical sections are at most 6 non-blocking steps), C06_drf + C06_private_writes (no two threads ever have conflicting plain accesses; plain writes only to unpublished private arrays), C06_pool_exclusive, C06_pool_state (pooled side coders go back to the pool dirty; a user that resets first never sees leftovers of another goroutine) + C06_pool_reset_complete (= C12_fields: that reset restores every non-neutral field of the current source), C06_search_total, C06_src_facts (the shape the translator reads off the 23 loader and 23 finder functions of the current source, incl. the insert/search index arithmetic the model computes with, and that every sync.Pool user (sideEncode, sideDecode, ...) returns an object only after its last use - the code side of the pool contract; every callback given to sideEncode/sideDecode resets the pooled coder first; the package-level DecodeNaked reflect.Value templates are only ever copied), C06_scratch_reset_restores (the package-level pooled loader scratch typeInfoLoad / trie nodes: the reset of the current source restores every observed field whatever the last user - any goroutine, Handle or TypeInfos - left, and every Get site resets before Put) and C06_shared_views_unwritable (an empty package-level view of a package-level array, zeroByteSlice, has capacity 0: no holder can address the shared cell). Tied to the implementation by running 2-64 real goroutines on fresh Handles with run-time-created struct types over all five formats and both transports, comparing every result with a sequential run and evaluating the model on the snapshotted published slices; a second stream drives the pooled side encoders (Canonical handles, map keys with yielding marshalers / struct / array / interface keys, >= 8 x GOMAXPROCS goroutines, bytes vs sequential bytes); a stream of concurrent naked decodes (native timestamps into interface{}) compared with the same bytes decoded alone; a stream where operations abort inside a pooled side encoder (cycle / failing marshaler under CheckCircularRef) and later encodes of the same pointers on the same Handle must equal the encoding on a fresh Handle; a stream where every goroutine decodes, with its own Decoder, into its own REUSED destinations a sequence of records whose byte strings walk through the lengths nil,0,1,0,2,1,3,... and what each destination holds is compared with the sequence run alone only after ALL goroutines have finished the step (results must not share writable memory); a stream with 2-3 Handles carrying different TypeInfos (default, NewTypeInfos of other tag keys) and fresh struct types with embedding chains whose members are used as roots on every Handle before the embedding struct is first seen, judged by the embedding rules of Go computed with reflect (independent of the process state); the same harness runs under the race detector with a deadlock watchdog.',
    'note': 'Not proved: the theorem is about the protocol under sequentially consistent atomics; the Go memory model for non-atomic data, the scheduler and sync.Pool internals are runtime (trusted). The protocol model is hand written; what ties it to the code is syntactic (translator) and observational (snapshots, race detector), not a verified translation of Go.',
}

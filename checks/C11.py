import os, sys
sys.path.insert(0, os.path.join(os.path.dirname(__file__), '..', 'lib'))
import std

SPEC = {
    'prop_files': ['theories/Properties/C11.v'],
    'coq_targets': ['theories/Properties/C11.vo', 'theories/C11/Corr.vo'],
    'closure_dirs': ['theories/C11'],
    'known_aliases': ['Wcbor', 'Wmsgpack', 'Wsimple', 'Wbinc', 'Wjson', 'C01', 'C15'],
    'harness': 'c11',
    'args': {
        'quick': ['-seq', 4000, '-model', 600],
        'thorough': ['-seq', 60000, '-model', 6000],
    },
    'search_args': ['-seq', 20000, '-model', 1500],
    'eval_timeout': {'quick': 600, 'thorough': 2400},
    'assumptions': [
        'typed decoding consumes the bytes decoding into interface{} consumes (the wire models have one decode parser; the typed drivers calls are modelled as functions of the decoded tree, Generic/Dec.v); checked on the implementation by the seq stream (NumBytesRead after typed / naked / Raw / struct-with-unknown-fields positions)',
        'the bytes nextValueBytes returns are the input bytes the walker passed (reader recording: bytesDecReader z.b[z.r:z.c], ioDecReader buf): modelled as [capture] for cbor/msgpack/binc, explicit in the simple model; checked by the Raw-bytes oracle on both transports',
        'wire models hand written, tied by their own checks (Wcbor, Wmsgpack, Wsimple, Wbinc) and here by the model stream (sequences on one Encoder / one Decoder)',
        'json: no per-value law yet (Properties/W_json.v in progress): C11_seq_generic applies with slack = 1 once W_json_dec_enc / W_json_skip_enc exist; the json half is covered by the direct oracle only',
    ],
    'trusted_extra': ['modelled, not verified: decoder.swallow / structFieldNotFound / kArray excess-element handling, rawBytes, Encoder.rawBytes (writeBytesAsis) - exercised by the seq stream oracle only'],
}

def main(chk):
    return std.standard_check(chk, SPEC)

MANIFEST = {
    'category': 'proof',
    'technique': 'Coq proof (induction on the value list over an abstract record of per-value laws, instantiated with the wire theorems of four formats) + vm_compute correspondence of the sequence model against one real Encoder / one real Decoder + direct oracle on the API (five formats, bytes and io transports, random consumer per position)',
    'text': 'C11_seq_generic / C11_seq_exact_generic: for any format whose decode and walker obey the per-value laws, any number of values and any per-position consumer (typed, interface{}, skip, Raw), the stream of successive Encode calls is read back in order and completely and NumBytesRead after call i is the sum of the first i encoding lengths (within the format\'s delimiter slack). Instantiated (closed by exact) for msgpack, simple, binc (symbol tables threaded; F11-1 repaired) and cbor (partial: decode law excludes non-zero times); per-format skip / raw extents from the wire theorems. json: direct oracle only.',
    'note': 'Trusted: Coq kernel, hand-written wire models (tied by their own checks and by the model stream here), the reading of typed decoding as a function of the decoded tree, Go toolchain. json has no instantiation yet (wire laws in progress).',
}

import os, sys
sys.path.insert(0, os.path.join(os.path.dirname(__file__), '..', 'lib'))
import std

SPEC = {
    'prop_files': ['theories/Properties/C11.v'],
    'coq_targets': ['theories/Properties/C11.vo', 'theories/C11/Corr.vo', 'theories/Properties/W_json.vo'],
    'closure_dirs': ['theories/C11', 'theories/Wire/Json.v', 'theories/Wire/JsonProofs.v', 'theories/Wire/JsonRT.v', 'theories/Wire/JsonSkip.v',
                     'theories/Wire/JsonDepth.v', 'theories/Wire/JsonTotal.v', 'theories/Wire/JsonLeaf.v', 'theories/Properties/W_json.v'],
    'known_aliases': ['Wcbor', 'Wmsgpack', 'Wsimple', 'Wbinc', 'Wjson', 'C01', 'C15'],
    'harness': 'c11',
    'args': {
        'quick': ['-seq', 4000, '-model', 600, '-long', 1, '-deep', 2],
        'thorough': ['-seq', 60000, '-model', 6000, '-long', 6, '-deep', 12],
    },
    'search_args': ['-seq', 20000, '-model', 1500, '-long', 3, '-deep', 6],
    'eval_timeout': {'quick': 600, 'thorough': 2400},
    'assumptions': [
        'typed decoding consumes the bytes decoding into interface{} consumes (the wire models have one decode parser; the typed drivers calls are modelled as functions of the decoded tree, Generic/Dec.v); checked on the implementation by the seq stream (NumBytesRead after typed / naked / Raw / struct-with-unknown-fields positions)',
        'the bytes nextValueBytes returns are the input bytes the walker passed (reader recording: bytesDecReader z.b[z.r:z.c], ioDecReader buf): modelled as [capture] for cbor/msgpack/binc, explicit in the simple model; checked by the Raw-bytes oracle on both transports',
        'cbor: C11_cbor_seq covers every item lib_supports_t admits (times in the RFC 3339 form, UTC year 0..9999); C11_cbor_seq_floattime (C11/CborFT.v, SeqFT.v) extends the decode law to the tag-1 epoch form (integer seconds or sec + nsec/1e9 in binary64) wherever it occurs, for every instant the library accepts back (|seconds| <= 2^62); the decoded instant is the closed expression time_of_float (epoch_f64 s n) over the bit-level float model Wire/CborFloat.v (tied by the Wcbor leaf cases, not verified against the hardware); that this equals the encoder microsecond rounding for |seconds| < 2^33 is shown on sample instants and was checked numerically, not proved for all instants',
        'the wire models pass the nesting depth DOWN as a function argument (Msgpack.skip_at D depth0, Simple.nvb D fuel depth, Binc.skip o rf lf dep, Cbor.skip D f d) and never return it, so a walker arm that forgets depthDecr is not expressible in them: depth balance per call holds by construction of the models and cannot be stated as a theorem without threading the counter as state in the wire files; the implementation side of that balance is checked by the long stream (ONE Decoder, 60..2500 records with the container family in skipped / Raw positions, lowered and default MaxDepth)',
        'wire models hand written, tied by their own checks (Wcbor, Wmsgpack, Wsimple, Wbinc) and here by the model stream (sequences on one Encoder / one Decoder)',
        'json: C11_json_skip / C11_json_raw / C11_json_seq are stated for the C09 leaf c09_leaf_of O under JsonOracle.strconv_time_oracle_laws O alone: of the eleven leaf laws the wire lemmas need, the string laws and the digit law are proved from the C09 theorems (W_json_leaf_str_int), the integer read-back laws are proved except under PreferFloat (the integer text then goes to parseFloat64); the float read-back laws are guarded per float and option vector by num_read_ok inside jwf (a float whose text is a bare integer literal of 2^63 or more is not read back under SignedInteger without PreferFloat: strconv writes 1e19 as 10000000000000000000, the class of F15-1) and under the guard reduce to parseFloat64 accepting the text (JsonOracle.naked_num_guarded; C11_json_reads_back characterises the unguarded law); what remains is about the four oracle functions only, each clause true of strconv / time: the time text has no quote/backslash, a finite float text is made of number characters, parseFloat64 accepts the float texts and the decimal integer texts the encoder writes; C11_json_oracle_exact proves this equivalent to the float_time_laws hypothesis of the older _partial statements (strconv and the time layout are not modelled: oracle); on the implementation the json half is checked by the direct oracle (seq stream), the json wire correspondence is Wjson\'s',
    ],
    'trusted_extra': ['modelled, not verified: decoder.swallow / structFieldNotFound / kArray excess-element handling, rawBytes, Encoder.rawBytes (writeBytesAsis) - exercised by the seq stream oracle only'],
}

def main(chk):
    return std.standard_check(chk, SPEC)

MANIFEST = {
    'category': 'proof',
    'technique': 'Coq proof (induction on the value list over an abstract record of per-value laws, instantiated with the wire theorems of four formats) + vm_compute correspondence of the sequence model against one real Encoder / one real Decoder + direct oracle on the API (five formats, bytes and io transports, random consumer per position)',
    'text': 'C11_seq_generic / C11_seq_exact_generic: for any format whose decode and walker obey the per-value laws, any number of values and any per-position consumer (typed, interface{}, skip, Raw), the stream of successive Encode calls is read back in order and completely and NumBytesRead after call i is the sum of the first i encoding lengths (within the format\'s delimiter slack). Instantiated (closed by exact) for msgpack, simple, binc (symbol tables threaded; F11-1 repaired), cbor (C11_cbor_seq / C11_cbor_extent / C11_cbor_raw_redecode: full over the extended decode law Wcbor_dec_enc, which admits times written under TimeRFC3339 - C11_cbor_time_admitted; C11_cbor_seq_floattime / C11_cbor_extent_floattime / C11_cbor_raw_redecode_floattime: the decode law extended to the tag-1 epoch form of times, integer or binary64 seconds, anywhere in the values - C11_cbor_floattime_admitted gives the decoded instant as time_of_float (epoch_f64 s n), i.e. microsecond rounding, binary64 rounding of sec + usec/1e6, microsecond rounding again; C11_cbor_floattime_subsumes: nothing C11_cbor_seq admits is lost) and json (C11_json_skip / C11_json_raw / C11_json_seq for the C09 leaf: tokenizer state with the pending token as per-instance state, slack = 1 = the one permitted delimiter; every dischargeable leaf law discharged from C09, the only hypothesis is strconv_time_oracle_laws O about strconv float texts, parseFloat64 and the time text, equivalent to the float_time_laws of the kept _partial statements - C11_json_oracle_exact); per-format skip / raw extents from the wire theorems.',
    'note': 'Trusted: Coq kernel, hand-written wire models (tied by their own checks and by the model stream here), the reading of typed decoding as a function of the decoded tree, Go toolchain. the json theorems hold under strconv_time_oracle_laws (strconv float texts, parseFloat64 and the time text are an oracle); cbor times in the epoch form decode to time_of_float (epoch_f64 s n) on the bit-level float model: equal to the microsecond rounding on sampled instants below 2^33 s, lossy from 2^33 s on (C11_cbor_floattime_loss_nonvacuous), the general cancellation is not proved.',
}

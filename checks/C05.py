"""C05 — build variants behave identically; generated code equals generator output.

Custom pipeline (see DESIGN.md §5 C05):
  1. translator + Coq closure of Properties/C05.v (helper-pair theorems) + audit
  2. harness cmd/c05 built under every build-tag set, run on ONE seeded stream; the per-case
     observation lines are compared with the default build's field by field
  3. the in-tree generator is run on a scratch copy (bin/regen --check): every checked-in
     *generated*.go must be byte-identical to what the generator emits now
"""
import os
import re
import sys
import threading

sys.path.insert(0, os.path.join(os.path.dirname(__file__), '..', 'lib'))
import vlib
import c05diff

TAGSETS = ['', 'codec.safe', 'codec.notfastpath', 'codec.safe codec.notfastpath',
           'codec.notmono', 'codec.notmono codec.safe', 'codec.notmono codec.notfastpath',
           'codec.notmono codec.safe codec.notfastpath']
N = {'quick': 2500, 'thorough': 40000}

PROP_FILES = ['theories/Properties/C05.v']
COQ_TARGETS = ['theories/Properties/C05.vo', 'theories/C05/Corr.vo']
CLOSURE = ['theories/C05', 'theories/Gen/Consts.v', 'theories/Gen/Layout.v']


def tagname(t):
    return re.sub(r'[^a-z]', '', t.replace('codec.', '')) or 'default'


def classify(tags, fields, typ, a_line, b_line, helpers_match_models=True):
    """stable root-cause class of one differing case (variant `tags` vs default)"""
    t = set(tags.split())
    fs = set(fields)
    if 'enc' in fs and 'omitempty' in typ and 'codec.safe' in t:
        # F05-1 is the divergence the two MODELS exhibit (C05_isempty_refuted). It explains a variant
        # difference only while each build's isEmptyValue still matches its model.
        if not helpers_match_models:
            return 'omitempty-emptiness:unsafe-vs-safe:helper-no-longer-matches-its-model'
        return 'omitempty-emptiness:unsafe-vs-safe'
    if any(f.startswith('<missing') for f in fs):
        return 'variant-stopped-early'
    if typ.startswith('long:'):
        # fields are <shape>.<destination>: dNsL = destination length N, stream array of L (dNmL: stream map of L entries);
        # pa = *[N]E, vs/vc = []E by value, sf = [N]E struct field, ps = *[]E (can grow)
        return 'variant-diff:stream-vs-fixed-destination:' + '+'.join(sorted(set(f.split('.', 1)[1] if '.' in f else f for f in fs)))
    return 'variant-diff:' + '+'.join(sorted(fs))


def main(chk):
    tier = chk.tier
    ok_t = chk.srcgen()
    ok_c = chk.coq_build(COQ_TARGETS) if ok_t else False
    if ok_c:
        for p in chk.audit_and_assumptions(PROP_FILES, CLOSURE):
            chk.log('AUDIT: ' + p)
            chk.broken.append('audit: ' + p)
    else:
        chk.cov['obligations'] = sum(len(chk.theorems_of(f)) for f in PROP_FILES)
        chk.cov['discharged'] = 0

    helpers_ok = ok_c
    # ---- the isEmptyValue pair: each build's helper against its own model ----
    for tags, label in (('verif', 'unsafe'), ('verif codec.safe', 'safe')):
        exe = os.path.join(chk.bdir, 'c05e.' + label)
        rc, o = vlib.sh(['go', 'build', '-tags', tags, '-o', exe, './cmd/c05e'], cwd=vlib.HARNESS, timeout=1800)
        if rc != 0:
            chk.broken.append('harness cmd/c05e does not build with tags [%s]: %s' % (tags, o.strip()[-300:]))
            helpers_ok = False
            continue
        cdir = os.path.join(chk.bdir, 'cases_c05e_' + label)
        summ, out = chk.run_harness(exe, ['-n', 150 if tier == 'quick' else 3000, '-cases', cdir], timeout=1800)
        if summ is None:
            chk.broken.append('harness cmd/c05e (%s) crashed: %s' % (label, out.strip()[-300:]))
            helpers_ok = False
            continue
        chk.absorb(summ, label='c05e(' + label + ')')
        chk.absorb_failures(summ)
        if ok_c:
            okf, mism, errs = chk.coq_eval_cases(cdir)
            if not errs:
                chk.cov['traces_validated_against_impl'] += summ.get('model_cases', 0) - len(mism)
            chk.cov['model_mismatches'] += len(mism)
            for e in errs:
                chk.broken.append('correspondence c05e(%s): model evaluation failed: %s' % (label, e))
            if mism or errs:
                helpers_ok = False
            if mism:
                chk.broken.append('correspondence c05e(%s): isEmptyValue of the %s build differs from its model on %d case(s), e.g. %s case id %d (%s)'
                                  % (label, label, len(mism), mism[0][0], mism[0][1], cdir))

    # ---- field addressing: the offset the codec stores per field vs reflect's, and vs the model ----
    exe = os.path.join(chk.bdir, 'c05o')
    rc, o = vlib.sh(['go', 'build', '-tags', 'verif', '-o', exe, './cmd/c05o'], cwd=vlib.HARNESS, timeout=1800)
    if rc != 0:
        chk.broken.append('harness cmd/c05o does not build: %s' % o.strip()[-300:])
    else:
        cdir = os.path.join(chk.bdir, 'cases_c05o')
        summ, out = chk.run_harness(exe, ['-n', 60 if tier == 'quick' else 1500, '-cases', cdir], timeout=1800)
        if summ is None:
            chk.broken.append('harness cmd/c05o crashed: %s' % out.strip()[-300:])
        else:
            chk.absorb(summ, label='c05o')
            chk.absorb_failures(summ)
            if ok_c:
                okf, mism, errs = chk.coq_eval_cases(cdir)
                if not errs:
                    chk.cov['traces_validated_against_impl'] += summ.get('model_cases', 0) - len(mism)
                chk.cov['model_mismatches'] += len(mism)
                for e in errs:
                    chk.broken.append('correspondence c05o: model evaluation failed: %s' % e)
                if mism:
                    chk.broken.append('correspondence c05o: the stored field offset differs from the model (Gen/Layout.v widths) on %d case(s), e.g. %s case id %d (%s)'
                                      % (len(mism), mism[0][0], mism[0][1], cdir))

    # ---- variants ----
    exes = {}
    lock = threading.Lock()

    def build(t):
        tags = ('verif ' + t).strip()
        out = os.path.join(chk.bdir, 'c05.' + tagname(t))
        rc, o = vlib.sh(['go', 'build', '-tags', tags, '-o', out, './cmd/c05'], cwd=vlib.HARNESS, timeout=1800)
        with lock:
            if rc == 0:
                exes[t] = out
            else:
                chk.broken.append('harness cmd/c05 does not build with tags [%s]: %s' % (tags, o.strip()[-300:]))

    import shutil
    shutil.copyfile(os.path.join(vlib.REPO, 'codec', 'go.sum'), os.path.join(vlib.HARNESS, 'go.sum'))
    ths = [threading.Thread(target=build, args=(t,)) for t in TAGSETS]
    [t.start() for t in ths]
    [t.join() for t in ths]

    outs = {}
    summs = {}

    def run(t):
        f = os.path.join(chk.bdir, 'digest_%s.txt' % tagname(t))
        if os.path.exists(f):
            os.remove(f)
        summ, out = chk.run_harness(exes[t], ['-n', N[tier], '-out', f], timeout=3000)
        with lock:
            outs[t] = f
            summs[t] = (summ, out)

    ths = [threading.Thread(target=run, args=(t,)) for t in exes]
    [t.start() for t in ths]
    [t.join() for t in ths]

    base = None
    if '' in outs and os.path.exists(outs['']):
        base = c05diff.parse(outs[''])
        summ = summs[''][0]
        if summ:
            chk.absorb(summ, label='c05(default tags)')
    else:
        chk.broken.append('harness cmd/c05 (default tags) produced no output')
    ndiff = 0
    compared = 0
    for t in TAGSETS:
        if t == '' or t not in outs or base is None:
            continue
        summ, out = summs[t]
        other = c05diff.parse(outs[t]) if os.path.exists(outs[t]) else {}
        if summ is None:
            # the variant crashed or hung: the first missing case is the witness
            missing = sorted(set(base) - set(other))
            first = missing[0] if missing else -1
            chk.report('counterexample', 'build variant [%s] crashed or timed out where the default build completes' % t,
                       case={'tags': t, 'first_missing_case': first, 'default_line': base.get(first, {}).get('line', '')[:1500],
                             'tail': out[-1200:], 'replay': 'VERIF_SEED=%d %s -n %d -only %d' % (chk.seed, exes[t], N[tier], first)},
                       cls='variant-crash', stream='variants')
            continue
        chk.cov['evaluations'] += summ.get('evaluations', 0)
        compared += len(other)
        for (idx, fmt, opts, typ, fields, al, bl) in c05diff.diff(base, other):
            ndiff += 1
            cls = classify(t, fields, typ, al, bl, helpers_ok)
            chk.report('counterexample',
                       'build variant [%s] and the default build disagree (%s) on the same (format, options, type, value/input)' % (t, cls),
                       case={'tags': t, 'index': idx, 'format': fmt, 'opts': opts, 'type': typ, 'fields': fields,
                             'default': al[:3000], 'variant': bl[:3000],
                             'replay': 'VERIF_SEED=%d %s -n %d -only %d' % (chk.seed, exes[t], N[tier], idx)},
                       cls=cls, stream='variants:' + t)
    chk.cov['variant_lines_compared'] = compared
    chk.cov['variant_differences'] = ndiff
    chk.cov['tagsets'] = [t or '(default)' for t in TAGSETS]

    # ---- generated == generator output ----
    rc, out = vlib.sh([os.path.join(vlib.ROOT, 'bin', 'regen'), '--check', os.path.join(vlib.REPO, 'codec')], timeout=1200)
    chk.cov['regen'] = out.strip().split('\n')[-1] if out.strip() else ''
    if rc == 1:
        diffs = [l for l in out.split('\n') if l.startswith('DIFF ')]
        chk.report('counterexample', 'checked-in generated code is not what the in-tree generator emits from the generic sources/templates',
                   case={'files': diffs[:20], 'replay': 'cd /verif && bin/regen --check'}, cls='regen-diff', stream='regen')
    elif rc != 0:
        chk.broken.append('in-tree generator failed on the current tree: ' + out.strip()[-400:])
    else:
        chk.cov['evaluations'] += 18

    if chk.broken and not chk.violations:
        chk.report('broken-obligation', ' ; '.join(chk.broken)[:1500],
                   case={'broken': chk.broken, 'coq_tail': getattr(chk, 'coq_fail_tail', '')[-1500:]},
                   cls='broken-obligation', stream='obligation', no_input=True)
    return chk.finish(level='proof', assumptions=[
        'variant agreement is decided on the explored stream only (correspondence strength): every variant is run on the same seeded cases and compared field by field',
        'semantic preservation of the monomorphiser (gen_mono.go) is not proved; its output is compared byte for byte with the checked-in files on every run',
    ], trusted_extra=['modelled, not verified: the safe/unsafe emptiness helpers (C05/Model.v); the in-tree generator is run, not modelled'])


MANIFEST = {
    'category': 'proof',
    'technique': 'Coq proof on models of the safe/unsafe helper pair and of unsafe field addressing (widths translated from the source on every run; each tied to its build by vm_compute correspondence) + differential run of all 8 build-tag variants on one seeded stream + regeneration diff of all generated files',
    'text': 'Proved: the reflect-based and the memory-compare implementations of the omitempty emptiness test agree on every value inside an explicit structural guard, in both modes (C05_isempty_agree), and the guard is tight (C05_isempty_refuted: one witness per excluded class; that divergence is finding F05-1). Each model is run against the isEmptyValue of its own build. C05_field_addr / C05_field_widths: with the widths of structFieldInfoNode.offset and of the conversions that fill it, read from the current source by the translator, the address the unsafe build computes for a struct field equals the one reflect computes, for every offset below 2^32 (C05_field_addr_16_refuted: false for the 16-bit field of the pinned tree, finding F01-3); the stored offsets are compared with the offsets reflect reports and with the model on struct types with fields up to 16 MB in. Whole-library variant agreement is decided differentially: the harness is built under all eight tag sets, run on one seeded stream of (format, options, type, value; typed, schema-less, pre-populated, same-shape, interface-held, narrowed, array-shaped and one-field-short destinations; the encoding embedded as Raw; truncated, bit-flipped, marker-substituted and all 256 one-byte inputs) in which every boolean field of DecodeOptions, EncodeOptions, BasicHandle and the format handle (listed by reflection) is drawn, followed by two seed-independent streams - corner option vectors per format (none, each boolean alone, all but each one, all, all decode, all encode; Canonical off on single-entry maps) on a fixed struct of fast-path and reflection-route fields, and stream arrays/maps longer, equal and shorter than a destination that cannot grow ([N]E by pointer and as a field, []E by value) x length announced or not (json, cbor IndefiniteLength) x ErrorIfNoArrayExpand x 21 element types with and without a generated fast-path - and compared field by field (the evidence distribution counts the cases run with each option on); the in-tree generator is re-run and every generated file compared byte for byte. Partial: no theorem covers the monomorphiser or whole-library variant equivalence.',
    'note': 'Trusted: Coq kernel; hand-written models of isEmptyValue (both builds; correspondence-checked); the differential harness and its deterministic value printer; the in-tree generator is executed, not modelled. Not proved: semantic preservation of gen_mono.go, fast-path templates vs reflection path (compared only on the explored stream).',
}

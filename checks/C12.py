import os, sys
sys.path.insert(0, os.path.join(os.path.dirname(__file__), '..', 'lib'))
import std

SPEC = {
    'prop_files': ['theories/Properties/C12.v'],
    'coq_targets': ['theories/Properties/C12.vo', 'theories/C12/Corr.vo'],
    'closure_dirs': ['theories/C12', 'theories/Gen/Reset.v'],
    'harness': 'c12',
    'args': {
        'quick': ['-enc', 6000, '-dec', 6000, '-dumpcases', 500],
        'thorough': ['-enc', 150000, '-dec', 150000, '-dumpcases', 4000],
    },
    'search_args': ['-enc', 60000, '-dec', 60000, '-dumpcases', 0],
    'assumptions': [
        'the instance-state model is hand written: its relevant part stands for the fields listed in C12/Model.v [modelled]; its neutral part for the fields in [neutral]; by construction no model operation reads a neutral field (this is the modelling claim that scratch buffers, free lists, per-type caches, the interner and configuration fixed at construction do not influence behaviour)',
        'tie to the source: Gen/Reset.v (declared vs assigned-by-reset fields of the 20 state structs, recomputed from the current generic sources with go/types on every run) + C12_fields; tie to real instances: reflection dumps of every scalar field after Reset vs fresh, evaluated in Coq against the same lists',
        'a Handle is not modified after first use (documented requirement), so options cached at construction stay valid',
    ],
    'trusted_extra': [
        'modelled, not verified: which code paths mutate which fields (abstract operations); exercised by the harness on real Encoders/Decoders of all five formats, bytes and io',
        'translator harness/cmd/srcgen/reset.go reads assignments x.f = .., x.f++, *x = T{}, x.f.reset*(..) and same-struct method calls; writes through aliases or unsafe are not seen',
    ],
}


def main(chk):
    return std.standard_check(chk, SPEC)


MANIFEST = {
    'category': 'proof',
    'technique': 'Coq proof over an instance-state model (relevant/neutral split, every history of abstract operations) + translator-generated declared/assigned field sets per reset path (C12_fields by vm_compute) + random real histories: Reset+ops vs fresh+ops, stickiness, reflection field dumps evaluated in Coq',
    'text': 'C12_reset_enc/_dec (and the stronger _any forms): for EVERY history of operations and resets (successes, failures at any nesting position, failing writers, truncated inputs) Reset followed by any sequence of operations yields, operation by operation, the same error-ness, delivered bytes / decoded pieces and NumBytesRead as a freshly constructed instance. C12_sticky_enc/_dec(_after): once err is set every Encode/Decode returns an error, emits/consumes nothing and changes nothing, for every later operation. C12_fields(_prop): each of the 20 state structs of the current source has every declared field either assigned on its reset path or in the explicit behaviour-neutral list (tight both ways), and every field the model resets is assigned by the real reset. The harness runs random histories on real Encoders/Decoders (5 formats x bytes/io): Reset+ops vs fresh+ops (bytes, values, error-ness, NumBytesRead, bytes drawn from the reader), stickiness at every error, and dumps every scalar field of the reset and the fresh instance for the Coq-side comparison.',
    'note': 'Full on the model; partial for what the relation R calls neutral: that operations do not read scratch buffers, free lists, caches or the interner before writing them is a modelling claim (argued per field in C12/Model.v, exercised by the harness), not derived from the Go code. The abstract operations are not a translation of the encode/decode paths.',
}

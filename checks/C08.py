import os, sys
sys.path.insert(0, os.path.join(os.path.dirname(__file__), '..', 'lib'))
import std

SPEC = {
    'prop_files': ['theories/Properties/C08.v'],
    'coq_targets': ['theories/Properties/C08.vo', 'theories/C08/Corr.vo'],
    'closure_dirs': ['theories/C08'],
    'harness': 'c08',
    'args': {
        'quick': ['-maps', 800, '-structs', 120, '-nested', 300, '-reps', 3],
        'thorough': ['-maps', 20000, '-structs', 3000, '-nested', 6000, '-reps', 6, '-hist', 3],
    },
    'search_args': ['-maps', 6000, '-structs', 600, '-nested', 1500, '-reps', 4],
    'assumptions': [
        'the model has no goroutine, Encoder-instance or transport state: independence from those is by construction and is tied by the harness (fresh Encoders, 4 goroutines, bytes vs io; stream hist: every ordered pair and triple of 24 struct shapes on ONE Encoder, successive Encode calls with / without Reset and inside one value, must give each value the bytes a fresh Encoder gives it)',
        'keys_ok: no two distinct keys of a map look the same to the comparator (excludes F08-1 interface{} keys with one encoding, F08-2 time keys for one instant; a single NaN float key is generated: its value is lost in canonical mode, F08-4); the encoding of an out-of-band key is a function of the key alone (true of binc AsSymbols=1 too since /repo 36f56b8, which repaired F08-3: C08_binc_side_keys)',
        'slices.SortFunc / sort.Sort are modelled as the stable insertion sort: the same result whenever no two sort keys tie (and for n <= 12 even then)',
        'every comparator (cmp.Compare on ints/uints/floats/strings, Time.Compare, bytes.Compare) is the lexicographic order on the integer list skey; out-of-band key bytes are observed through the verif hook VerifCanonicalKeyBytes',
        'json: +Inf/-Inf float keys are not generated (both are written as null)',
    ],
    'trusted_extra': ['modelled, not verified: kMapCanonical, fast-path canonical branches, kStruct canonical/missing-fields branch (encode.go, fastpath.notmono.go.tmpl); the key encodings themselves (C01); Go map iteration'],
}

def main(chk):
    return std.standard_check(chk, SPEC)

MANIFEST = {
    'category': 'proof',
    'technique': 'Coq proof (a stable insertion sort by a total order on distinct sort keys has a unique result; permutation invariance of lookup) on an executable model of the canonical emission order + vm_compute correspondence of the emitted entry order on real Encoders (every key kind, 5 formats) + direct determinism oracle (insertion permutations x repetitions x goroutines x transports x Encoder history: every ordered pair / triple of a struct-shape corpus on one Encoder) + Decode(canonical) = Decode(non-canonical)',
    'text': 'C08_perm: for ALL key kinds, key encodings and maps with pairwise distinct keys satisfying keys_ok, any two iteration orders give the same canonical emission order; keys_ok is automatic for bool/string/int/uint keys (C08_keys_ok_natural) and is injectivity of the key encoding for out-of-band keys (C08_keys_ok_oob, discharged for the modelled scalar encoding: C08_enc_injective_scalars); C08_same: canonical output is a permutation of the plain output and decodes to the same map; C08_struct: struct fields and missing fields come out in one sorted sequence; C08_nested: for values with maps at any depth, any two views that differ only in the order maps list their entries have one canonical form. The unguarded statement is refuted with witnesses for two confirmed defects (C08_perm_refuted F08-1, C08_time_refuted F08-2); F08-3 (binc symbols in out-of-band keys) is repaired and is now the positive theorem C08_binc_side_keys.',
    'note': 'Trusted: Coq kernel, the hand-written model of the canonical order (correspondence-checked on the emitted entry order), the hook that returns out-of-band key bytes, the harness, Go toolchain. The byte-level encodings of keys and values are not modelled here (C01/wire models). Known findings F08-1, F08-2, F08-4 are matched narrowly (key kind + tie count).',
}

import os, sys
sys.path.insert(0, os.path.join(os.path.dirname(__file__), '..', 'lib'))
import std

SPEC = {
    'prop_files': ['theories/Properties/C13.v'],
    'coq_targets': ['theories/Properties/C13.vo', 'theories/C13/Corr.vo'],
    'closure_dirs': ['theories/C13', 'theories/Gen/Consts.v'],
    'harness': 'c13',
    'args': {
        'quick': ['-api', 700, '-enc', 500, '-split', 40],
        'thorough': ['-api', 12000, '-enc', 8000, '-split', 90],
    },
    'search_args': ['-api', 4000, '-enc', 2000, '-split', 60],
    'assumptions': [
        'PARTIAL: the theorems decide the detach LOGIC (copy or view per flow, as a function of ZeroCopy, InternString, transport and the attach state the driver reports) and the region discipline of later operations; that a Go slice really lives in the region the model says is a runtime fact of unsafe views (stringView/bytesView, reader buffers, free lists) and is tied by observation, not proved',
        'provenance model is hand written; tied on every run by (a) calling the real drivers\' DecodeBytes/DecodeStringAsBytes through the verif hook for every (format, transport, ZeroCopy, operation, length class) and comparing the reported attach state and the address range of the returned slice with C13.Model.produce, (b) pointer-range tests of every decoded string/[]byte/Raw/RawExt leaf against the input buffer compared with C13.Model.keep, (c) the behavioural oracle (decode on, Reset onto other streams, Reset, overwrite the whole input; re-compare snapshot and every leaf), (d) the split stream: maps decoded by the reflection kMap from a buffered reader delivering the stream in every one-split / two-split schedule x ReaderBufferSize 1,2,7,16,64, compared with the []byte decode plus the reset stream and the in-value sharing oracle: a value decoded into a zero destination is independent of MapValueReset/InterfaceReset/SliceElementReset and no two positions of it share a map, slice memory or pointee (the model abstracts WHEN a view is detached; a view that is detached too late, after the next read, is only visible here)',
        'history model: later operations write only the input (caller), the reader buffer and decoder scratch, and allocate new blocks; never an already allocated Fresh/Table block (this is what the behavioural oracle tests on the implementation)',
        'flows covered: string destinations (kString, *string, fast-path elements/keys), kMap string keys, interface{} strings/bytes/symbols, []byte destinations (decodeBytesInto), RawExt.Data, Raw, binc symbol table entries, interned strings, interface{} []byte keys, values decoded by the side Decoder of a SelfExt extension. Transient uses (struct field name lookup, BytesExt.ReadExt, UnmarshalBinary/Text/JSON arguments, MissingFielder names) are views by contract and are not kept values',
        'default (unsafe, monomorphised) build; under codec.safe every string/[]byte conversion copies',
        'C13_pure is trivial in Gallina; its content is the enc stream: vh.Canon snapshot and string/[]byte header identity before and after Encode on real Encoders',
    ],
    'trusted_extra': ['modelled, not verified: decode.base.go detach2Str/detach2Bytes/attachState, decode.go decodeBytesInto/rawBytes/kMap key handling, RawExt.setData, the five drivers\' DecodeBytes/DecodeStringAsBytes, reader.go readxb/jsonReadAsisChars/jsonReadNum/stopRecording; verif_hooks_c13.go (thin wrapper)'],
}

def main(chk):
    return std.standard_check(chk, SPEC)

MANIFEST = {
    'category': 'proof',
    'technique': 'Coq proof (exhaustive vm_compute sweep of the finite detach-logic domain lifted by forallb_forall + induction over operation histories) on a provenance model + vm_compute correspondence against attach states and address ranges observed on the real drivers and decoded values + behavioural history oracle',
    'text': 'PARTIAL. Theorems C13_owned / C13_owned_fresh (ZeroCopy off: every kept string/[]byte leaf is a fresh copy, or write-once table memory for interned strings and binc symbols, or static memory for empty values and json true/false), C13_zerocopy (never reader-buffer or scratch memory; an input view only with ZeroCopy on a bytes transport), C13_consumers (the generic layer is sound for any truthful attach state), C13_driver_att (each driver operation reports a truthful state), C13_raw, C13_side_input (SelfExt side Decoder), C13_stable (any later history leaves kept leaves unchanged; with ZeroCopy as long as the input is not overwritten), C13_unstable_elsewhere, C13_zerocopy_views hold over all 4 option vectors x 3 transports x 5 formats x 34 driver operations x 11 flows (and all 150 views for the consumers). The model is tied to the code by unit observations through the hook, pointer-range tests of decoded leaves and the behavioural oracle on all five formats x bytes/io (buffer 0,1,16,4096, three reader kinds) x ZeroCopy x InternString. Encode purity is checked on real Encoders (non-addressable values, pointer-receiver marshalers and Selfer/MissingFielder, canonical maps, StringToRaw, MapBySlice).',
    'note': 'Partial because real aliasing is a runtime fact of unsafe views: the proof decides the detach logic, the tie observes the memory. Trusted: Coq kernel, the hand-written provenance model (correspondence-checked), Gen/Consts.v translator (dBytesAttach* order, internMaxStrLen), the harness address tests, Go toolchain/GC (no moving collector for heap objects).',
}

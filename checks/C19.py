import os, sys
sys.path.insert(0, os.path.join(os.path.dirname(__file__), '..', 'lib'))
import std

SPEC = {
    'prop_files': ['theories/Properties/C19.v'],
    'coq_targets': ['theories/Properties/C19.vo', 'theories/C19/Corr.vo'],
    'closure_dirs': ['theories/C19', 'theories/Base/Outcome.v', 'theories/Wire/Item.v'],
    'harnesses': [
        {'cmd': 'c19', 'args': {'quick': ['-n', 2500], 'thorough': ['-n', 40000]}, 'tags': 'verif', 'search_args': ['-n', 20000]},
        {'cmd': 'c19', 'args': {'quick': ['-n', 1500], 'thorough': ['-n', 20000]}, 'tags': 'verif,codec.notfastpath', 'search_args': ['-n', 20000]},
    ],
    'assumptions': [
        'universe: int, string, pointers, slices, string-keyed maps, structs with plain exported fields, interface{} holding nil / int64 / string; stream values in interface positions are scalars',
        'full-strength merge/keep/idempotence statements for nested types are not proved in Coq: they are checked by the correspondence (model re-run on every observed case, including the second decode) and by the direct oracle on the implementation',
        'streams that are ill-typed for the destination (e.g. a number for a string held in an interface) are skipped: driver leniency is C01/C07 business',
    ],
    'trusted_extra': ['modelled, not verified: decodeValue/kSlice/kMap/kStruct/kStructField/kInterface (decode.go), decSetNonNilRV2Zero (decode.base.go), DecSliceXY/DecMapStringXL (fastpath.go.tmpl), the decode type switch'],
}

def main(chk):
    return std.standard_check(chk, SPEC)

MANIFEST = {
    'category': 'proof',
    'technique': 'Coq: specification merge from the Decode documentation, three models (reflection, generated fast path, builtin switch), theorems on nil/paths/idempotence with refutations for the two defects found + vm_compute correspondence (first and second decode) + direct merge/idempotence oracle over 5 formats, with and without codec.notfastpath',
    'text': 'C19_nil / C19_nil_impl: a stream nil gives the zero value for every type, previous content and option vector in all three implementations (reflection, generated fast path, builtin switch) and in the spec; C19_nil_field + C19_nil_field_refuted (F19-1: non-nil pointer struct field keeps the pointer); C19_paths_slice / C19_paths_map: fast path = reflection path for slices and maps of scalars, all lengths; C19_paths_refuted (F19-2: []interface{} fast path ignores SliceElementReset); C19_merge_partial (scalars) + C19_merge_refuted; C19_idem_partial, C19_idem_nil. Nested merge / keep / idempotence are tied by re-running the model on every observed first and second decode and by a merge oracle written from the Decode docs, five formats, with and without codec.notfastpath.',
    'note': 'Repaired through the check: F19-3 (kSlice merged into uncleared memory / stale capacity beyond the original length). Recorded: F19-1, F19-2. Partial: full-strength C19_merge/C19_keep/C19_idem for nested types are not proved in Coq.',
}

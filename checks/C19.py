import os, sys
sys.path.insert(0, os.path.join(os.path.dirname(__file__), '..', 'lib'))
import std

SPEC = {
    'prop_files': ['theories/Properties/C19.v'],
    'coq_targets': ['theories/Properties/C19.vo', 'theories/C19/Corr.vo'],
    'closure_dirs': ['theories/C19', 'theories/Base/Outcome.v', 'theories/Wire/Item.v'],
    'harnesses': [
        {'cmd': 'c19', 'args': {'quick': ['-n', 2500], 'thorough': ['-n', 40000]}, 'tags': 'verif', 'search_args': ['-n', 20000]},
        {'cmd': 'c19', 'args': {'quick': ['-n', 1500], 'thorough': ['-n', 20000]}, 'tags': 'verif,codec.notfastpath', 'search_args': ['-n', 20000]},
    ],
    'assumptions': [
        'universe: int, string, pointers, slices, string-keyed maps, structs with plain exported fields, interface{} holding nil / int64 / string; stream values in interface positions are scalars',
        'streams that are ill-typed for the destination (e.g. a number for a string held in an interface) are skipped: driver leniency is C01/C07 business',
    ],
    'trusted_extra': ['modelled, not verified: decodeValue/kSlice/kMap/kStruct/kStructField/kInterface (decode.go), decSetNonNilRV2Zero (decode.base.go), DecSliceXY/DecMapStringXL (fastpath.go.tmpl), the decode type switch'],
}

def main(chk):
    return std.standard_check(chk, SPEC)

MANIFEST = {
    'category': 'proof',
    'technique': 'Coq: specification merge from the Decode documentation, three models (reflection, generated fast path, builtin switch), theorems on nil/paths/idempotence with refutations for the two defects found + vm_compute correspondence (first and second decode) + direct merge/idempotence oracle over 5 formats, with and without codec.notfastpath',
    'text': 'For ALL types of the universe (int, string, pointer, slice, string-keyed map, struct, interface{} holding nil/int64/string), all destinations (no well-typedness assumed), all stream items, all option vectors: C19_merge dec_impl = the documentation-derived merge under two boolean guards (nil_ok: no stream nil aimed at a pointer-typed struct field; paths_guard: not fastpath+SliceElementReset+[]interface{}) with C19_merge_refuted / C19_guards_tight; C19_impl_is_reflection; C19_nil / C19_nil_impl / C19_nil_field(+_refuted, F19-1); C19_keep_struct / C19_keep_struct_array / C19_keep_map (absent = untouched at every struct/map reached); C19_paths (fast path = reflection path of the same build on every covered type, unconditionally), C19_paths_notfastpath (+ C19_paths_refuted, F19-2); C19_idem (second decode of the same item returns the result; side condition: no stream map repeats a key); C19_slice_len (a slice decoded from a stream array has exactly the stream length and element j is stream element j decoded into the previous element j, zero beyond the previous length). Proved by induction on the item tree (item_ind\') over first-class container loops (C19/Loops.v). Tied by re-running dec_impl on every observed first and second decode and by a merge oracle over five formats with and without codec.notfastpath. Deterministic sweeps: nil at every single position of a full stream into zero and fully populated destinations; every alternate wire spelling of a stream nil (cbor undefined 0xf7, json null inside whitespace) must leave the destination exactly as the primary spelling does and goes to the model as the same INil item; stream arrays around and beyond the pre-sizing cap max(1024, MaxInitLen) (1023..5000 elements, MaxInitLen 0/4/1500/4096) into nil, shorter, spare-capacity, equal and longer slices, reflection and fast-path element types, length-prefixed and indefinite-length streams, judged by length, merge and decode-twice.',
    'note': 'Repaired through the check: F19-3. Recorded: F19-1, F19-2. nil_ok is a guard on (type, stream) only, so it also excludes a nil aimed at a pointer field that currently holds nil (harmless case); C19_idem assumes distinct keys per stream map. interface{} holding a struct by value is modelled (merge_x/dec_*_x with dyn = true) and tied by correspondence + oracle, the theorems are for dyn = false. nil/zero-length []byte through []byte and io.Reader sources: direct oracle only (bytes stream). Go arrays (incl. arrays of pointers to scalars): merge and idempotence oracles only, no Coq cases. Outside the universe:  non-string map keys, time, bytes, chan, interface{} holding containers (correspondence not generated for them).',
}

import os, sys
sys.path.insert(0, os.path.join(os.path.dirname(__file__), '..', 'lib'))
import std

SPEC = {
    'prop_files': ['theories/Properties/C01.v', 'theories/Properties/C01_compose.v', 'theories/Properties/C01_json.v'],
    'coq_targets': ['theories/Properties/C01.vo', 'theories/Properties/C01_compose.vo', 'theories/Properties/C01_json.vo', 'theories/C01/Corr.vo', 'theories/C01/CorrJson.vo'],
    'closure_dirs': ['theories/C01', 'theories/Generic', 'theories/Wire/Item.v', 'theories/Base/Outcome.v', 'theories/Gen/Consts.v',
                     'theories/Base/Word.v', 'theories/Base/FBits.v', 'theories/Gen/Leaf.v',
                     'theories/Wire/Simple.v', 'theories/Wire/SimpleProofs.v',
                     'theories/Wire/Msgpack.v', 'theories/Wire/MsgpackProofs.v', 'theories/Wire/MsgpackRT.v',
                     'theories/Wire/Cbor.v', 'theories/Wire/CborFloat.v', 'theories/Wire/CborProofs.v', 'theories/Wire/CborEnc.v', 'theories/Wire/CborTime.v',
                     'theories/C10/CborSpec.v', 'theories/C10/CborConv.v',
                     'theories/Wire/Binc.v', 'theories/Wire/BincProofs.v',
                     'theories/C07/Model.v', 'theories/C07/Spec.v', 'theories/C07/Proofs.v', 'theories/C07/ProofsLeaf.v', 'theories/C07/ProofsFrac.v', 'theories/C07/ProofsFloat.v',
                     'theories/Wire/Json.v', 'theories/Wire/JsonProofs.v', 'theories/Wire/JsonRT.v', 'theories/Wire/JsonTotal.v', 'theories/Wire/JsonLeaf.v',
                     'theories/C09/Spec.v', 'theories/C09/Model.v', 'theories/C09/ProofsStr.v', 'theories/C09/ProofsNum.v', 'theories/C09/ProofsQuote.v', 'theories/C09/ProofsUint.v',
                     'theories/C07/Spec.v', 'theories/C07/ProofsLeaf.v', 'theories/C07/ProofsFrac.v', 'theories/C07/Proofs.v', 'theories/C07/ProofsFloat.v'],
    'harnesses': [
        {'cmd': 'c01', 'args': {'quick': ['-model', 600, '-oracle', 4000], 'thorough': ['-model', 6000, '-oracle', 60000]},
         'search_args': ['-model', 3000, '-oracle', 30000]},
        # json: the real encoder's text / the real decoder's typed output against the json driver record W_json (C01/CorrJson.v)
        {'cmd': 'c01json', 'args': {'quick': ['-n', 400], 'thorough': ['-n', 6000]}, 'search_args': ['-n', 3000]},
    ],
    'eval_timeout': {'quick': 600, 'thorough': 1500},
    'assumptions': [
        'PROVED (generic layer, all option vectors / types / values / map orders, no size bound): for every driver meeting the explicit interface wire_ok (Generic/Dec.v), of_item (wn (to_item v)) = Ok (norm (arrange v)) and arrange v equals v up to the order of map entries; norm spells out the losses (nil->empty under NilCollectionToZeroLength, pointer to a value written as nil -> nil pointer, the format\'s float/time normalisation fn32/fn64/tnorm)',
        'PER-FORMAT: the five C01_<fmt>_roundtrip_partial theorems are the generic theorem under the HYPOTHESIS wire_ok W for that format\'s wire record; instantiating W from Wire/<Fmt>.v and proving wire_ok from its dec(enc i ++ rest) lemma is the remaining composition step (id_wire shows the interface is satisfiable)',
        'premises of the theorems: wt t v (value of the static type, map keys distinct and not NaN), supported t (no interface/chan/func slots; map keys of scalar kinds; resolved struct field names distinct), leaves_ok (the format supports every scalar leaf: e.g. valid UTF-8 for json, time within the documented range), item depth < MaxDepth (decoderBase.depthIncr)',
        'JSON composition (Properties/C01_json.v): hypotheses float_time_laws and json_rt_laws about the strconv/time oracle are explicit in the statements and NOT proved (strconv is not modelled); the typed reads j_rd_* are hand transcriptions of json.go acting on the item DecodeNaked\'s walk produces (DecodeFloat32 = parseFloat32 is modelled as IEEE narrowing of the float64 reading; an integer token read by DecodeFloat64 is re-read from the canonical decimal of its value); they are tied to the implementation by evaluation: harness/cmd/c01json decodes the real encoder\'s text with the real typed Decoder and C01/CorrJson.v must reproduce the value through Json.dec_naked + of_item (W_json ..); default TimeFormat/BytesFormat only',
        'struct field lists are the already resolved encoded fields (tags, embedding, omitempty: property C16); the harness strips omitempty from generated struct tags',
        'model of encode.go/decode.go is hand written; tied to the code by vm_compute on what the real cbor Encoder wrote (parsed by an independent cbor parser in the harness) and what the real Decoder returned; all five formats are covered by the direct oracle only',
        'one path difference is not in the model: a nil []byte reached only by reflection (Encode(&b) at top level, named byte-slice types) is written under NilCollectionToZeroLength as an empty array where the builtin path writes empty bytes; both decode to the empty []byte; the correspondence accepts exactly that case explicitly (C01/Corr.v nil_bytes_by_reflection)',
        'decoding into a non-zero destination (merge semantics, C19), interface slots/DecodeNaked (C15), extensions/Selfer/Marshaler (C17) and numeric cross-kind conversions beyond a range test (C07) are not modelled here',
    ],
    'trusted_extra': [
        'trusted: reflection / unsafe value access of the library (rvGetInt, rvSetDirect, map iteration, ...): the model sees a Go value as a gv tree',
        'trusted: harness/vh/c01_item.go (independent cbor parser; float16 widening and tag 0/1 -> instant conversion follow the codec), c01_types.go (Go type/value -> Coq term), c01_norm.go (Go twin of norm)',
        'modelled, not verified: the generic encoder/decoder (encode.go, decode.go and their monomorphised / fast-path copies)',
    ],
}


def main(chk):
    return std.standard_check(chk, SPEC)


MANIFEST = {
    'category': 'proof',
    'technique': 'Coq proof by structural induction over values of the generic encode/decode round trip against an abstract driver interface (wire_ok), composed down to bytes with the per-format driver models (simple, msgpack, binc full; cbor partial; json to text under explicit strconv/time oracle hypotheses) + vm_compute correspondence of the generic model with the real cbor Encoder/Decoder through an independent cbor parser + direct round-trip oracle on all five formats, bytes and io transports, boundary lengths',
    'text': 'C01_generic_roundtrip: for all option vectors (StructToArray, Canonical, NilCollectionToZeroLength, MaxDepth, ErrorIfNoField), supported static types, well-typed values and map iteration orders, the generic decoder applied to what any wire_ok driver hands back for the generic encoder\'s calls returns the value up to the documented losses. Composed theorems (Properties/C01_compose.v): C01_simple_roundtrip, C01_msgpack_roundtrip, C01_binc_roundtrip (stateful, any related symbol tables) — the bytes the driver model writes for the generic encoder\'s item, followed by any rest, decode (driver model) to the normalised item leaving rest, and the generic decoder turns it into the value up to that format\'s stated losses; C01_cbor_roundtrip_bytes_partial (non-zero time.Time outside). json is composed to the TEXT (Properties/C01_json.v): C01_json_wire_ok (the driver record W_json built from Wire/Json.v meets wire_ok with exact_losses; typed reads transcribed from json.go incl. parseInteger_bytes over C09\'s parseUint64_simple, base64 decode C01_json_base64 proved inverse of the encoder, RFC 3339 time via Wire/Cbor.parse_core) and C01_json_roundtrip / _anyleaf (text the driver model writes for the generic encoder\'s item, followed by any rest the tokenizer permits, decodes to the normalised item and the generic decoder returns the value up to exact_losses), for every JsonHandle encoder option vector with base64 []byte and StringToRaw off, under two explicit hypotheses about the unmodelled strconv/time oracle: float_time_laws (Wjson) and json_rt_laws (parseFloat64 inverts the encoder\'s shortest float text; when that text is a bare integer literal - json writes integral floats >= 2^52 so - it is the canonical decimal of a non-zero integer; float32 through IEEE narrowing; RFC3339Nano text read back: discharged by C01_json_time_law for the modelled formatter); C01_json_hypotheses_satisfiable + C01_json_roundtrip_toyleaf: a toy oracle meets all hypotheses, giving a hypothesis-free instance (non-vacuity, not a claim about strconv). Strings and integers are json.go\'s own code (C09 model), their laws proved. The older C01_*_roundtrip_partial statements over the interface hypothesis remain in Properties/C01.v and are superseded for all five formats.',
    'note': 'Trusted: Coq kernel; hand-written generic model (correspondence-checked on cbor) and driver models (each correspondence-checked by its wire check); the typed readers rd_* are hand-written functions of the item the naked decoder returns; that a typed read on the encoder\'s bytes equals rd_* on the item is proved per leaf read: C01_{msgpack,simple,cbor,binc}_typed_reads (integers into the 11 integer kinds, nil, floats into float64, against the C07 byte-level driver models), C01_typed_reads_float32 (a float32 into a float32 destination, four formats) and C01_{cbor,binc}_typed_reads_leaves_partial (TryNil, CheckBreak, DecodeBool, DecodeStringAsBytes incl. cbor chunks and binc symbols in any related tables, DecodeBytes, DecodeTime, ReadArrayStart/ReadMapStart, against the reader models of C01/TypedRd.v) - not proved: cbor tag-1 times, the element walk between a container head and its end, msgpack/simple non-numeric reads; reflection/unsafe value access; Go toolchain. Exclusions stated in the theorems (leaves_ok): float32 signalling NaNs (come back quiet), unsigned >= 2^63 under SignedInteger (rejected), non-zero times for cbor, zero scalars under simple EncZeroValuesAsNil; for json: NaN/Inf (written as null), invalid UTF-8 (U+FFFD), StringToRaw (F01-s2r), BytesFormat array, years outside 0..9999, and as artefacts of presenting text as DecodeNaked\'s item: integers under PreferFloat, floats written as bare integer literals >= 2^63 under SignedInteger (DecodeNaked refuses them: F15-1\'s class), number-looking strings under decoder MapKeyAsString+MapType map[interface{}]interface{}. Findings: F01-g1, F01-1 fixed; F01-s2r (json + StringToRaw) known.',
}

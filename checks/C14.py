"""C14 — nesting depth, not input size, bounds the decoder's stack.
Assembly over the wire-layer models (Wcbor, Wmsgpack, Wsimple, Wbinc, Wjson) plus a model of the
typed decode path (C14/Typed.v) and the API-level harness cmd/c14."""
import os, sys
sys.path.insert(0, os.path.join(os.path.dirname(__file__), '..', 'lib'))
import std
import vlib

WIRE = ['theories/Wire/Cbor.v', 'theories/Wire/CborFloat.v', 'theories/Wire/CborProofs.v', 'theories/Wire/CborDepth.v', 'theories/Wire/CborDepthFull.v', 'theories/Wire/CborTotal.v',
        'theories/Wire/Msgpack.v', 'theories/Wire/MsgpackProofs.v',
        'theories/Wire/Simple.v', 'theories/Wire/SimpleProofs.v', 'theories/Wire/SimpleTotal.v', 'theories/Wire/SimpleDepth.v', 'theories/Wire/SimpleDepthFull.v', 'theories/Wire/SimpleSkip.v',
        'theories/Wire/Binc.v', 'theories/Wire/BincProofs.v',
        'theories/Wire/Json.v', 'theories/Wire/JsonProofs.v', 'theories/Wire/JsonRT.v', 'theories/Wire/JsonDepth.v',
        'theories/C09/Spec.v', 'theories/C09/Model.v',
        'theories/Wire/Item.v', 'theories/Base/Outcome.v', 'theories/Gen/Consts.v', 'theories/Gen/Leaf.v']

SPEC = {
    'prop_files': ['theories/Properties/C14.v'],
    'coq_targets': ['theories/Properties/C14.vo', 'theories/C14/Corr.vo', 'theories/C14/IllFormed.vo'],
    'closure_dirs': ['theories/C14'] + [w for w in WIRE if os.path.exists(os.path.join(vlib.COQ, w))],
    'harness': 'c14',
    'args': {
        'quick': ['-scale', 1, '-mix', 300, '-deep', 1000000],
        'thorough': ['-scale', 2, '-mix', 3000, '-deep', 3000000, '-deepall'],
    },
    'search_args': ['-scale', 2, '-mix', 2000, '-deep', 1000000],
    'known_aliases': ['Wcbor', 'Wmsgpack', 'Wsimple', 'Wbinc', 'Wjson'],
    'eval_timeout': {'quick': 600, 'thorough': 2400},
    'assumptions': [
        'recursion is counted in model frames: one per nested value on the interface{} path (DecodeNaked/kInterfaceNaked), one per nested container in the skip walker (nextValueBytesBdReadR), one per decodeValue call in the typed model; the Go frames per model frame are a constant (reflection + fast-path dispatch), the bytes of stack per frame are a property of the compiler and runtime and are only observed (64 MB cap in the deep stream)',
        'the implementation refuses nesting at depth == MaxDepth (depthIncr: d.depth >= d.maxdepth), i.e. MaxDepth = n admits n-1 nested containers; the oracle and the theorems use exactly this boundary (levels >= MaxDepth => error, levels < MaxDepth => no depth error)',
        'the wire models (hand written, tied by their own checks Wcbor/Wmsgpack/Wsimple/Wbinc/Wjson and here, for the four binary formats, by Coq cases on the interface{} / Raw / unknown-field paths) cover []byte input; the io.Reader transport, the typed path on real reflection and extension values are covered by the harness oracle only; the json theorems are over Wire/Json.v, whose correspondence is run by the check Wjson (this check runs json through the harness oracle only)',
        'json: nextValueBytes is an iterative scanner without depth accounting: a skipped or Raw-captured json value nested beyond MaxDepth is accepted (no recursion, no stack growth); the oracle exempts exactly this path from "error beyond MaxDepth"',
        're-entrant decoding (a hand-written Selfer whose CodecDecodeSelf calls d.MustDecode / d.Decode for its children; extensions) is not in C14/Typed.v (no custom-codec frames): the depth counter surviving re-entry is checked by the harness oracle only (paths selfer-reentry, selfer-reentry-e, ext-iface, ext-self)', 'typed path: C14/Typed.v is a model of decodeValue over destination type trees (depthIncr in arrayStart/mapStart, none in kPtr, kInterface -> naked); it is not tied by Coq cases, only by the harness oracle on T{A []T; M map[string]T; P *T} and [][]...[]int',
    ],
    'trusted_extra': ['modelled, not verified: decode.go decodeValue/kSlice/kMap/kStruct/kPtr/kInterface recursion structure (C14/Typed.v); the four wire models; stack bytes per frame, goroutine stack growth and the fatal-error path are runtime'],
    'harness_timeout': {'quick': 1500, 'thorough': 5400},
}


def main(chk):
    return std.standard_check(chk, SPEC)


MANIFEST = {
    'category': 'proof',
    'technique': 'Coq: per format the recursion counter of the decode-into-interface{} model and of the skip/raw walker model is bounded by MaxDepth for every byte list, option vector and fuel (assembled by exact from the wire-layer lemmas), nesting to MaxDepth or beyond is an error; a model of the typed path (destination types as trees) with its own bound and an exact refusal criterion (limited vs unlimited reader, induction on the fuel with the entry depth generalised); vm_compute correspondence of the wire models on nested inputs around MaxDepth; API-level oracle on all five formats, sixteen paths, every nesting unit, with 10^6-level inputs, 6*10^6-unit runs of non-nesting tags, sentinel-length heads, 3*10^6-element inputs without nesting, and ill-formed nesting units (indefinite / tag / container heads in chunk position, break bytes where values belong; stream ill, 10^6 units, 16 MB stack cap) in stack-capped subprocesses',
    'text': 'PARTIAL. Proved (unbounded in input, options, fuel): C14_cbor/msgpack/simple/binc/json_bound (model recursion frames <= MaxDepth on the interface{} path and in the skip walker; json: for every leaf implementation, the skip scanner is one loop), C14_cbor/msgpack/simple/binc/json_error (FULL for all five formats: for every input, option vector and fuel the decode-into-interface{} model never returns a value nested MaxDepth levels or more; depth counts arrays, maps and the cbor tags the decoder keeps, skipped tags cost nothing), C14_json_refuse (a container met with MaxDepth-1 open is the depth error), C14_cbor_chunk_heads_error (two or more indefinite-length string heads in a row are an invalid descriptor in both cbor parsers, with no walker recursion frame), C14_cbor_error_partial / C14_simple_error_partial (older statements over nest families / encoder outputs that also name the error class), C14_typed_bound (typed path: frames <= 2*MaxDepth + static pointer/struct nesting of the destination type), C14_typed_error (FULL: for every type environment, destination type, MaxDepth, driver answer stream and fuel the typed model never returns Ok when the stream nests MaxDepth levels or more; the measure nesting (C14/TypedFull.v) is the largest number of levels open at once when the grammar of the destination type reads the stream with no limit, a level being opened where the code calls depthIncr: non-nil container heads and tags/extensions under interface{}), C14_typed_refuse (what is returned is the depth error), C14_typed_accept (exact boundary: below MaxDepth levels the depth checks never fire and the result is that of the unlimited reader), C14_typed_error_partial (the older one-family statement). What the model decides is the recursion DEPTH; bytes of stack per frame, stack growth and the fatal exit are runtime and only observed by the harness (64 MB stack cap, 10^6..3*10^6 levels on every path incl. io.Reader, typed destinations, Raw, unknown fields, extension values). json: the wire model Wire/Json.v (tied by the check Wjson) carries the theorems; its skip walker is iterative and enforces no depth (exempted in the oracle).',
    'note': 'Findings made by this check and repaired in /repo: F14-4 (cbor tag bound to an InterfaceExt recursed without depth accounting), F14-5 (SelfExt payloads decoded by side decoders that restarted the depth count). The boundary is depth == MaxDepth => error (MaxDepth=1 admits no container). Trusted: Coq kernel, the hand-written wire and typed models, the harness.',
}

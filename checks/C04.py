import os, sys
sys.path.insert(0, os.path.join(os.path.dirname(__file__), '..', 'lib'))
import std

SPEC = {
    'prop_files': ['theories/Properties/C04.v'],
    'coq_targets': ['theories/Properties/C04.vo', 'theories/C04/Corr.vo'],
    'closure_dirs': ['theories/C04', 'theories/Gen/Consts.v'],
    'harness': 'c04',
    'args': {
        'quick': ['-unit', 600, '-api', 400, '-faults', 12],
        'thorough': ['-unit', 6000, '-api', 6000, '-faults', 64],
    },
    'search_args': ['-unit', 3000, '-api', 3000, '-faults', 64],
    'assumptions': [
        'the wrapped io.Writer returns 0 <= n <= len(p) (io.Writer contract); scripted writers in the harness obey it',
        'model of bufioEncWriter is hand written; tied by running it (vm_compute) on the operation lists and writer scripts the real bufioEncWriter ran',
        'the encoder emits bytes only through encWriterI (api stream checks the consequence on real Encoders of all five formats)',
    ],
    'trusted_extra': ['modelled, not verified: bufioEncWriter/bytesEncAppender (writer.go); the rest of the encoder is exercised only through the api stream oracle'],
}

def main(chk):
    return std.standard_check(chk, SPEC)

MANIFEST = {
    'category': 'proof',
    'technique': 'Coq proof (induction over operation lists with an invariant) on an executable model of bufioEncWriter + vm_compute correspondence against the real writer + direct oracle on real Encoders',
    'text': 'Theorems C04_inv/bytes/prefix/fault/short/total/sticky hold for every buffer size >= 16, every operation list and every writer response script (unbounded); the model is tied to writer.go by running both on the same op lists and scripts (unit stream, vm_compute) and the API consequence (io output == []byte output; fault at every Write index => error, prefix, sticky) is checked on real Encoders of all five formats.',
    'note': 'Trusted: Coq kernel, the hand-written model of bufioEncWriter/bytesEncAppender (correspondence-checked, not verified), Gen/Consts.v translator (maxConsecutiveEmptyReads), Go toolchain. The encoder layers above the writer are covered only by the API oracle.',
}

import os, sys
sys.path.insert(0, os.path.join(os.path.dirname(__file__), '..', 'lib'))
import std

ARGS = {
    'quick': ['-fields', 250, '-empty', 250, '-enc', 200, '-dec', 300],
    'thorough': ['-fields', 4000, '-empty', 4000, '-enc', 1500, '-dec', 4000],
}
SEARCH = ['-fields', 2000, '-empty', 2000, '-enc', 600, '-dec', 2000]

SPEC = {
    'prop_files': ['theories/Properties/C16.v'],
    'coq_targets': ['theories/Properties/C16.vo', 'theories/C16/Corr.vo'],
    'closure_dirs': ['theories/C16', 'theories/Gen/Consts.v', 'theories/Base/Outcome.v', 'theories/Wire/Item.v'],
    'harnesses': [
        {'cmd': 'c16', 'args': ARGS, 'tags': 'verif', 'search_args': SEARCH},
        {'cmd': 'c16', 'args': {'quick': ['-fields', 60, '-empty', 250, '-enc', 170, '-dec', 100],
                                'thorough': ['-fields', 500, '-empty', 4000, '-enc', 1000, '-dec', 1000]},
         'tags': 'verif,codec.safe', 'search_args': SEARCH},
    ],
    'assumptions': [
        'struct declarations are finite trees (no recursive embedding such as type T struct{ *T }); exported Go field names are never "" or "_struct" (wf_names)',
        'tags are given as the values of reflect.StructTag.Get("codec") / Get("json"); reflect tag syntax is not modelled',
        'field values are encoded/decoded by a parameter (encv/decv): the theorems hold for every field codec; float key types (strconv.ParseFloat) are not modelled',
        'the documentation is silent on two candidates of one name at one depth; the specification takes the first declared (encoding/json would drop both)',
    ],
    'trusted_extra': ['modelled, not verified: reflect.Type.FieldByName (used to find _struct), reflect.StructTag.Get, memory layout of values (nil-ness, lengths, float bits; padding assumed zero)'],
}

def main(chk):
    return std.standard_check(chk, SPEC)

MANIFEST = {
    'category': 'proof',
    'technique': 'Coq proofs over struct declarations as data (induction on the embedding tree) on an executable model of rget/resolve/init, the name trie, isEmptyValue (safe and unsafe) and the kStruct loops + vm_compute correspondence against TypeInfos.get through a hook on reflect.StructOf-generated declarations + direct oracles on all five formats; executable model of the Encoder scratch-list pool (sfiRvFreeList get/put, shared backing arrays) with a proof that every struct emits what it gathered whatever the Encoder encoded before, tied by driving get/put through a hook and by a deterministic encoder-history stream (one Encoder, many values) judged against fresh Encoders and a deep map/array model',
    'text': 'For ALL struct declarations (finite embedding trees, by value or pointer, any codec/json tags): C16_fields resolve = documented field list (same names, options, paths, order) when no type embeds itself; C16_resolve sequential resolve/init = "shallowest wins, first declared wins a tie"; C16_names_unique; C16_lookup / C16_lookup_unknown (trie search finds exactly the field); C16_encode kStruct/kStructSimple = documented map/array for every field codec, given the emptiness test agrees with the docs; C16_omit (default build, RecursiveEmptyCheck off) on plain values, C16_omit_refuted (F05-1 and its codec.safe mirror); C16_sopts_own, C16_sopts_refuted (F16-4: promoted _struct); C16_decode / C16_decode_unknown / C16_decode_array_extra (unknown key => error iff ErrorIfNoField); ENCODER HISTORY: C16_scratch_exclusive (get never hands out a scratch list that is still pooled, it is long enough, the pool stays duplicate-free), C16_scratch_history / C16_scratch_any_pool (whatever sequence of struct values, nested to any depth, one Encoder has encoded before, every struct of what it encodes next emits exactly the entries it gathered). Tied by TypeInfos.get / siForEncName / isEmptyValue through a hook on reflect.StructOf-generated declarations + fixed corpus, and by struct-vs-map oracles over five formats in both builds; hist stream: about 1400 two- and three-level nestings of general-encoder structs (omitempty, int/uint keys, toarray, escaped names, more than 8 fields, MissingFielder) x 5 formats x Canonical x StructToArray encoded by long-lived Encoders (ResetBytes / Reset, slices, maps, after a failed Encode) = fresh Encoder = deep model; pool stream: get/put sequences through the hook vs the pool model.',
    'note': 'Repaired through the check: F16-2 (third inlining of a type dropped), F16-3 (empty unknown key not rejected), F16-5 (json html chars in field names). Recorded: F05-1/F05-1s, F16-4. Not proved in Coq: untouched-fields lemma for decode (oracle + correspondence only), _struct lookup when no struct declares it (BFS fuel lemma), RecursiveEmptyCheck emptiness vs docs (docs say "might"), float key types, recursive type declarations.',
}

import os, sys
sys.path.insert(0, os.path.join(os.path.dirname(__file__), '..', 'lib'))
import std

# Wire layer of JSON structure (json.go + json.base.go): underlies C01/C11/C14/C02 for json.
SPEC = {
    'prop_files': ['theories/Properties/W_json.v'],
    'coq_targets': ['theories/Properties/W_json.vo', 'theories/Wire/JsonCorr.vo'],
    'closure_dirs': ['theories/Wire/Json.v', 'theories/Wire/JsonProofs.v', 'theories/Wire/JsonRT.v', 'theories/Wire/JsonDepth.v', 'theories/Wire/JsonTotal.v', 'theories/Wire/JsonSkip.v', 'theories/Wire/JsonCorr.v',
                     'theories/Wire/Item.v', 'theories/Base/Outcome.v', 'theories/Gen/Consts.v',
                     'theories/C09/Spec.v', 'theories/C09/Model.v'],
    'harness': 'wirejson',
    'args': {
        'quick': ['-enc', 300, '-valid', 150, '-mut', 300, '-rand', 200],
        'thorough': ['-enc', 4000, '-valid', 1500, '-mut', 4000, '-rand', 3000],
    },
    'search_args': ['-enc', 1500, '-valid', 600, '-mut', 2000, '-rand', 1500, '-nodeep'],
    'assumptions': [
        'the model Wire/Json.v (enc, dec/dec_naked/decode1/dec_seq, nvb/skip/raw) is hand written from json.go, json.base.go, reader.go (bytesDecReader json helpers), decode.go (decodeValue, kInterfaceNaked, kMap) and the fast paths DecSliceIntfY / DecMapStringIntfL; it is tied to the code by running both on the same inputs on every run (vm_compute): encoder bytes byte-for-byte, per Decode call outcome class + canonical tree + NumBytesRead, per nextValueBytes call outcome class + NumBytesRead + captured bytes, sequences of calls on one Decoder',
        'lexical leaves are a parameter (record leaf): string quoting/unquoting are the C09 model definitions (C09/Model.v quote_body, dq_scan/dq_loop), integers are C09 jsonEncodeUint/parseUint64_simple, float texts (strconv.AppendFloat) / parseFloat64 results / RFC3339Nano time texts are tables observed by the harness; the round-trip theorems assume the leaf laws (record leaf_laws) which belong to property C09',
        'a repeated map key makes kMap / DecMapStringIntfL decode the value INTO the value already stored: not modelled (Err EUnsupported, no prediction); the round-trip theorems require pairwise different keys',
        'bytes reader only (the io reader is property C03); amd64',
    ],
    'trusted_extra': ['modelled, not verified: jsonEncDriver/jsonDecDriver structure, the generic naked-decoding path and bytesDecReader as far as json uses them; typed decoding (DecodeBool/DecodeTime/DecodeBytes...) is outside this check'],
    'harness_timeout': {'quick': 300, 'thorough': 1500},
}


def main(chk):
    return std.standard_check(chk, SPEC)


MANIFEST = None

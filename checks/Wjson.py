import os, sys
sys.path.insert(0, os.path.join(os.path.dirname(__file__), '..', 'lib'))
import std

# Wire layer of JSON structure (json.go + json.base.go): underlies C01/C11/C14/C02 for json.
SPEC = {
    'prop_files': ['theories/Properties/W_json.v'],
    'coq_targets': ['theories/Properties/W_json.vo', 'theories/Wire/JsonCorr.vo', 'theories/Properties/C09_doc.vo'],
    'closure_dirs': ['theories/Wire/Json.v', 'theories/Wire/JsonProofs.v', 'theories/Wire/JsonRT.v', 'theories/Wire/JsonDepth.v', 'theories/Wire/JsonTotal.v', 'theories/Wire/JsonSkip.v', 'theories/Wire/JsonLeaf.v', 'theories/Wire/JsonDoc.v', 'theories/Wire/JsonDocProofs.v', 'theories/Wire/JsonAccept.v', 'theories/Wire/JsonCorr.v',
                     'theories/Wire/Item.v', 'theories/Base/Outcome.v', 'theories/Gen/Consts.v',
                     'theories/C09/Spec.v', 'theories/C09/Model.v', 'theories/C09/ProofsStr.v', 'theories/C09/ProofsNum.v',
                     'theories/C09/ProofsQuote.v', 'theories/C09/ProofsUint.v', 'theories/C09/ProofsParse.v', 'theories/C09/ProofsRead.v'],
    'harness': 'wirejson',
    'args': {
        'quick': ['-enc', 300, '-valid', 150, '-hand', 120, '-mut', 300, '-rand', 200],
        'thorough': ['-enc', 4000, '-valid', 1500, '-hand', 3000, '-mut', 4000, '-rand', 3000],
    },
    'search_args': ['-enc', 1500, '-valid', 600, '-hand', 1000, '-mut', 2000, '-rand', 1500, '-nodeep'],
    'assumptions': [
        'the model Wire/Json.v (enc, dec/dec_naked/decode1/dec_seq, nvb/skip/raw) is hand written from json.go, json.base.go, reader.go (bytesDecReader json helpers), decode.go (decodeValue, kInterfaceNaked, kMap) and the fast paths DecSliceIntfY / DecMapStringIntfL; it is tied to the code by running both on the same inputs on every run (vm_compute): encoder bytes byte-for-byte, per Decode call outcome class + canonical tree + NumBytesRead, per nextValueBytes call outcome class + NumBytesRead + captured bytes, sequences of calls on one Decoder',
        'lexical leaves are a parameter (record leaf). Strings and integers are the C09 model definitions (C09/Model.v quote_body, dq_scan/dq_loop, enc_uint_loop, parseUint64_simple); their laws (quote then unquote = utf8_sanitise, plain literals, the skip scanner ends at the closing quote, digits parse back, string decoder totality) are PROVED in Wire/JsonLeaf.v from the C09 theorems. What remains a hypothesis of the round-trip theorems is float_time_laws about the oracle: strconv shortest float text consists of number characters and is accepted back by parseNumber/parseFloat64, integer texts are accepted by parseFloat64 under PreferFloat, the RFC3339Nano text has no quote or backslash; in the correspondence these texts are tables observed by the harness',
        'the float law of leaf_laws / float_time_laws (the number reader accepts the float text the encoder wrote) is guarded by num_read_ok: json writes an integral float >= 2^52 (< 1e21) as a bare integer literal, and such a literal >= 2^63 is refused under SignedInteger without PreferFloat (parseNumber); the unguarded statement is refuted on the model with the observed text of 1e19 (W_json_float_bareint_refuted; class of known finding F15-1); jwf carries the guard for IF64/IF32; harness stream fixed exercises both sides of 2^63 under every (SignedInteger, PreferFloat) pair',
        'quoted_key (DecodeNaked of a quoted map key under MapKeyAsString + MapType map[interface{}]interface{}) reads a number only from a JSON number literal (jsonIsNumberLiteral, repair F09-4; C09 model of the predicate); harness stream fixed: keys .5 1. - e5 +5 007 ... under all 16 decoder option vectors',
        'a repeated map key makes kMap / DecMapStringIntfL decode the value INTO the value already stored: not modelled (Err EUnsupported, no prediction); the round-trip theorems require pairwise different keys',
        'bytes reader only (the io reader is property C03); amd64',
    ],
    'trusted_extra': ['modelled, not verified: jsonEncDriver/jsonDecDriver structure, the generic naked-decoding path and bytesDecReader as far as json uses them; typed decoding (DecodeBool/DecodeTime/DecodeBytes...) is outside this check'],
    'harness_timeout': {'quick': 1500, 'thorough': 5400},
}


def main(chk):
    return std.standard_check(chk, SPEC)


MANIFEST = None

import os, sys
sys.path.insert(0, os.path.join(os.path.dirname(__file__), '..', 'lib'))
import std
import vlib

SPEC = {
    'prop_files': ['theories/Properties/C18.v'],
    'coq_targets': ['theories/Properties/C18.vo', 'theories/C18/Corr.vo'],
    'closure_dirs': ['theories/C18', 'theories/Gen/Consts.v'],
    'harness': 'c18',
    'args': {
        'quick': ['-unit', 900, '-rounds', 1, '-calls', 64, '-deadline', 6],
        'thorough': ['-unit', 9000, '-rounds', 6, '-calls', 64, '-deadline', 15],
    },
    'search_args': ['-unit', 3000, '-rounds', 2, '-calls', 64, '-deadline', 6],
    'harness_timeout': {'quick': 1500, 'thorough': 5400},
    'assumptions': [
        'value encodings are self-delimiting (C11) and round-trip (C01): hypotheses of C18_frames / C18_reply; the correspondence re-checks prefix-freeness of the encodings that occur in every case',
        'net/rpc holds a mutex around WriteRequest/WriteResponse and reads with one goroutine per side (frames are appended whole, one reader per Decoder); net/rpc itself is trusted',
        'the raw connection delivers the bytes written, in order, in pieces of any size (io.Reader contract): the schedule of the model',
        'model of rpcCodec / goRpcCodec / msgpackSpecRpcCodec framing is hand written; tied by running it (vm_compute) on the frames the real codecs wrote and the chunk schedules the real reading codec was fed',
        'runtime only (harness oracle, not the model): goroutine scheduling, TCP, "Close unblocks a pending Read", no goroutine left blocked',
    ],
    'trusted_extra': ['modelled, not verified: rpcCodec.write/read/Close/ready (rpc.go), msgpackSpecRpcCodec (msgpack.base.go), the read-ahead of ioDecReader as "whatever one raw Read returned"; net/rpc, net.Pipe, the TCP stack and the scheduler are runtime'],
}


def race_tier(chk, ok_c):
    """thorough tier: the same harness built with the race detector (needs cgo)."""
    if chk.tier != 'thorough':
        return
    out = os.path.join(chk.bdir, 'c18.race')
    rc, o = vlib.sh(['go', 'build', '-race', '-tags', 'verif', '-o', out, './cmd/c18'], cwd=vlib.HARNESS, timeout=1800,
                    env={'CGO_ENABLED': '1'})
    if rc != 0:
        chk.log('race build failed:\n' + o[-2000:])
        chk.broken.append('harness cmd/c18 does not build with -race: ' + o.strip()[-300:])
        return
    cdir = os.path.join(chk.bdir, 'cases_c18_race')
    e = {'VERIF_SEED': str(chk.seed + 7), 'VERIF_TIER': chk.tier, 'GORACE': 'halt_on_error=0 exitcode=0 log_path=' + os.path.join(chk.bdir, 'race.log')}
    for f in os.listdir(chk.bdir):
        if f.startswith('race.log'):
            os.remove(os.path.join(chk.bdir, f))
    summ, outp = chk.run_harness(out, ['-unit', 600, '-rounds', 2, '-calls', 64, '-deadline', 40, '-workers', 4, '-cases', cdir], timeout=1500, env=e)
    if summ is None:
        chk.broken.append('harness cmd/c18 (-race) crashed or timed out')
        return
    chk.absorb(summ, label='c18.race')
    chk.absorb_failures(summ)
    races = [f for f in os.listdir(chk.bdir) if f.startswith('race.log')]
    if races:
        txt = open(os.path.join(chk.bdir, races[0])).read()
        import re
        frames = re.findall(r'^\s+([\w\./\(\)\*\[\]]+)\(\)\n\s+(/[^\s]+):(\d+)', txt, re.M)
        where = next(('%s %s:%s' % (fn, os.path.basename(p), ln) for fn, p, ln in frames if os.path.join(vlib.REPO, 'codec') + '/' in p), 'unknown')
        chk.report('counterexample', 'the race detector reported a data race while RPC calls ran concurrently over one connection',
                   case={'first_codec_frame': where, 'report_head': txt[:1500]}, cls='race:' + where.split(' ')[0], stream='race')
    chk.cov['distribution']['race.reports'] = len(races)


SPEC['extra'] = race_tier


def main(chk):
    return std.standard_check(chk, SPEC)


MANIFEST = {
    'category': 'proof',
    'technique': 'Coq proofs (induction over frame lists with the reader state abstracted to "bytes not yet consumed"; permutation argument for sequence matching) on an executable model of RPC framing over a byte FIFO + vm_compute correspondence against the real codecs on recorded frames and chunk schedules + runtime oracle on real net/rpc over net.Pipe, a fragmenting/coalescing pipe and TCP (race detector in the thorough tier)',
    'text': 'PARTIAL. Proved for the model, unbounded: C18_frames (for both codecs, every self-delimiting value code, every list of frames, every writer/reader buffer size and every fragmentation/coalescing schedule the reading codec returns exactly the frames written, in order), C18_truncated (a connection that ends after t bytes yields exactly the frames that arrived whole, then a clean end or an error, never a partial frame), C18_frames_guarded / C18_rawmark_refuted (the defect class F18-1: an array descriptor read around a buffering Decoder loses the second of two coalesced frames; repaired in /repo), C18_matching / C18_reply / C18_reply_error (any number of calls, any completion order: call i returns f(args_i) or its own server-side error, nothing stays pending, end to end over the wire), C18_depth_frame / C18_depth / C18_depth_leak_refuted (a message leaves the depth of the Decoder where it found it, so any number of messages nesting below MaxDepth never hits the depth limit on a long-lived connection; the leaking variant dies at message MaxDepth-1), C18_discard / C18_discard_via_iface_refuted (a discarded body is consumed like any value slot and, being swallowed, cannot put the Decoder into its sticky error state whatever its shape; discarding by Decode into interface{} is refuted), C18_close / C18_close_once / C18_after_close (Close is idempotent, closes the connection once, later operations are refused and write nothing). Runtime only: goroutine scheduling, TCP, Close unblocking a pending read, absence of stuck goroutines - exercised by the harness (6 codecs x 25 buffer pairs x 7 transports incl. the documented bufio-wrapped connection, 1..64 concurrent calls, watchdog; every two-cut chunk schedule of three short frames; discarded bodies that are no interface{} value (maps keyed by arrays/structs) sent to unknown methods with other calls in flight; all strings carry json escapes and are re-checked after later messages; codec.Raw pass-through on Raw+ZeroCopy handles (every caller gets its own bytes back, values re-checked after later messages: ownership itself is C13, not modelled here); long-lived connections: hundreds of sequential + concurrent calls under MaxDepth 8 and >1024 calls under the default), not proved.',
    'note': 'Trusted: Coq kernel, the hand-written framing model (correspondence-checked on real frames, not verified), hypotheses C11 (self-delimiting) and C01 (round trip) for the typed layer, net/rpc, net, the Go scheduler and race detector, the harness. The model abstracts the Decoder buffer to "whatever one raw Read returned" and the unbuffered reader to one byte per Read; byte-exact buffer mechanics are C03. Known limit (not a fragmentation issue, same as encoding/json): a connection that ENDS inside a bare top-level json number is read as the shorter number; such cut points are excluded from the truncation cases.',
}

(* C16 — lemmas: tag parsing, field classification, rget = spec_cands. *)
From Coq Require Import List NArith ZArith Arith Bool Lia.
From Verif Require Import Base.Outcome Wire.Item Gen.Consts C16.Spec C16.Model.
Import ListNotations.

(* ---- strings ---- *)
Lemma str_eqb_eq : forall a b, str_eqb a b = true <-> a = b.
Proof.
  induction a as [|x a IH]; destruct b as [|y b]; simpl; split; intro H; try congruence; try discriminate.
  - apply andb_true_iff in H as [H1 H2]. apply N.eqb_eq in H1. apply IH in H2. congruence.
  - injection H as -> ->. rewrite N.eqb_refl. simpl. apply IH. reflexivity.
Qed.
Lemma str_eqb_refl : forall a, str_eqb a a = true.
Proof. intro a. apply str_eqb_eq. reflexivity. Qed.
Lemma str_eqb_sym : forall a b, str_eqb a b = str_eqb b a.
Proof.
  intros a b. destruct (str_eqb a b) eqn:E.
  - apply str_eqb_eq in E. subst. symmetry. apply str_eqb_refl.
  - destruct (str_eqb b a) eqn:E2; [|reflexivity]. apply str_eqb_eq in E2. subst. rewrite str_eqb_refl in E. discriminate.
Qed.
Lemma str_eqb_neq : forall a b, str_eqb a b = false <-> a <> b.
Proof.
  intros a b. split; intro H.
  - intro E. subst. rewrite str_eqb_refl in H. discriminate.
  - destruct (str_eqb a b) eqn:E; [|reflexivity]. apply str_eqb_eq in E. contradiction.
Qed.

(* ---- tags ---- *)
Lemma struct_tag_eq : forall f, struct_tag f = tag_of f.
Proof. intro f. unfold struct_tag, tag_of. simpl. destruct (f_codec f); reflexivity. Qed.

Lemma split_comma_unfold : forall s,
  split_comma s = before_comma s :: match after_comma s with None => [] | Some r => split_comma r end.
Proof.
  induction s as [|c r IH]; [reflexivity|].
  simpl. destruct (N.eqb c c_comma); [reflexivity|].
  rewrite IH. reflexivity.
Qed.

Lemma options_fuel_split : forall n r, length r < n -> options_fuel n r = split_comma r.
Proof.
  induction n as [|n IH]; intros r H; [lia|].
  rewrite split_comma_unfold. simpl. f_equal.
  destruct (after_comma r) as [r'|] eqn:E; [|reflexivity].
  apply IH.
  assert (L : forall s s', after_comma s = Some s' -> length s' < length s).
  { clear. induction s as [|c s IHs]; simpl; intros s' H; [discriminate|].
    destruct (N.eqb c c_comma). - injection H as <-. lia. - apply IHs in H. lia. }
  apply L in E. lia.
Qed.

Lemma split_comma_tag : forall s, split_comma s = tag_name s :: tag_options s.
Proof.
  intro s. rewrite split_comma_unfold. unfold tag_name, tag_options. f_equal.
  destruct (after_comma s) as [r|]; [|reflexivity].
  symmetry. apply options_fuel_split. lia.
Qed.

Lemma fold_exists : forall X opts b,
  fold_left (fun (b : bool) s => if str_eqb s X then true else b) opts b = b || existsb (str_eqb X) opts.
Proof.
  intros X opts. induction opts as [|o r IH]; intro b; simpl.
  - rewrite orb_false_r. reflexivity.
  - rewrite IH. rewrite (str_eqb_sym o X). destruct (str_eqb X o); simpl.
    + rewrite orb_true_r. reflexivity.
    + reflexivity.
Qed.

Lemma parse_field_tag_spec : forall s, s <> [] ->
  parse_field_tag s = (tag_name s, has_option s_omitempty s).
Proof.
  intros s H. unfold parse_field_tag. destruct s as [|c r]; [congruence|].
  rewrite split_comma_tag. rewrite fold_exists. reflexivity.
Qed.

Lemma parse_field_tag_nil : parse_field_tag [] = ([], false).
Proof. reflexivity. Qed.

Lemma tag_name_nil : tag_name [] = [].
Proof. reflexivity. Qed.
Lemma has_option_nil : forall o, has_option o [] = false.
Proof. reflexivity. Qed.

Lemma parse_field_tag_fst : forall s, fst (parse_field_tag s) = tag_name s.
Proof. intro s. destruct s; [reflexivity|]. rewrite parse_field_tag_spec by congruence. reflexivity. Qed.
Lemma parse_field_tag_snd : forall s, snd (parse_field_tag s) = has_option s_omitempty s.
Proof. intro s. destruct s; [reflexivity|]. rewrite parse_field_tag_spec by congruence. reflexivity. Qed.

(* ---- well-formed Go declarations: an exported field is never called "" or "_struct" ---- *)
Definition wf_field (f : field) : bool :=
  negb (f_exported f) || (negb (str_eqb (f_name f) []) && negb (str_eqb (f_name f) s_struct)).

Fixpoint wf_names (t : fty) : bool :=
  match t with
  | TStruct _ fs => (fix go (fs : list field) : bool :=
                       match fs with
                       | [] => true
                       | f :: r => wf_field f && (match f with mkField _ _ _ _ _ ty => wf_names ty end) && go r
                       end) fs
  | TSlice e | TArr _ e | TPtr e => wf_names e
  | TMap k e => wf_names k && wf_names e
  | _ => true
  end.

Lemma class_agree : forall f, wf_field f = true -> model_class f = spec_class f.
Proof.
  intros f W. unfold model_class, spec_class, ignored, inlined.
  rewrite struct_tag_eq.
  destruct f as [name ex an tc tj ty]. unfold wf_field in W. simpl f_exported in *. simpl f_anon in *. simpl f_name in *. simpl f_ty in *.
  set (tag := tag_of (mkField name ex an tc tj ty)).
  destruct (strip_ptrs ty) as [nd ft] eqn:ES. simpl snd.
  rewrite (surjective_pairing (parse_field_tag tag)), parse_field_tag_fst, parse_field_tag_snd.
  assert (Hinl : (match tag with [] => true | _ :: _ => match tag_name tag with [] => true | _ :: _ => false end end)
                 = match tag_name tag with [] => true | _ :: _ => false end).
  { destruct tag; reflexivity. }
  cbn [fst snd]. rewrite Hinl.
  assert (Hif : is_iface ty = true -> is_struct ft = false).
  { destruct ty; simpl; try discriminate. intros _. simpl in ES. injection ES as <- <-. reflexivity. }
  clear ES Hinl.
  generalize dependent (is_iface ty). generalize (is_func ty) (str_eqb tag [c_dash]) (is_ptr ty) (has_option s_omitempty tag).
  generalize dependent (is_struct ft).
  generalize dependent (str_eqb name []). generalize dependent (str_eqb name s_struct).
  generalize (tag_name tag).
  intros tn n2 n1 W bs bf bd bp om bi Hif.
  destruct bi; [specialize (Hif eq_refl); subst bs|clear Hif];
  destruct bf, bd, ex, an, bp, n1, n2, tn; try destruct bs; simpl in *; try reflexivity; try discriminate.
Qed.

(* ---- induction over declarations ---- *)
Section FtyInd.
  Variable P : fty -> Prop.
  Hypothesis Hb : P TBool. Hypothesis Hi : P TInt. Hypothesis Hu : P TUint.
  Hypothesis Hf32 : P TF32. Hypothesis Hf64 : P TF64. Hypothesis Hs : P TStr.
  Hypothesis Hsl : forall e, P e -> P (TSlice e).
  Hypothesis Har : forall n e, P e -> P (TArr n e).
  Hypothesis Hm : forall k e, P k -> P e -> P (TMap k e).
  Hypothesis Hp : forall e, P e -> P (TPtr e).
  Hypothesis Hif : P TIface. Hypothesis Hfn : P TFunc.
  Hypothesis Hst : forall tid fs, Forall (fun f => P (f_ty f)) fs -> P (TStruct tid fs).

  Fixpoint fty_ind' (t : fty) : P t :=
    match t with
    | TBool => Hb | TInt => Hi | TUint => Hu | TF32 => Hf32 | TF64 => Hf64 | TStr => Hs
    | TSlice e => Hsl e (fty_ind' e)
    | TArr n e => Har n e (fty_ind' e)
    | TMap k e => Hm k e (fty_ind' k) (fty_ind' e)
    | TPtr e => Hp e (fty_ind' e)
    | TIface => Hif | TFunc => Hfn
    | TStruct tid fs =>
      Hst tid fs ((fix go (fs : list field) : Forall (fun f => P (f_ty f)) fs :=
                     match fs with
                     | [] => Forall_nil _
                     | f :: r => Forall_cons f (match f as f0 return P (f_ty f0) with mkField _ _ _ _ _ ty => fty_ind' ty end) (go r)
                     end) fs)
    end.
End FtyInd.

(* ---- the loops over the declared fields, as first-class functions ---- *)
Fixpoint cat_fields {A} (step : field -> nat -> list A) (fs : list field) (j : nat) : list A :=
  match fs with [] => [] | f :: r => step f j ++ cat_fields step r (S j) end.

Fixpoint flag_fields (step : field -> nat -> bool * list cand) (fs : list field) (j : nat) : bool * list cand :=
  match fs with
  | [] => (false, [])
  | f :: r =>
    let '(cut1, out1) := step f j in
    let '(cut2, out2) := flag_fields step r (S j) in
    (cut1 || cut2, out1 ++ out2)
  end.

Definition spec_step (omitall : bool) (here : list (nat * nat)) (f : field) (j : nat) : list cand :=
  match spec_class f with
  | FSkip => []
  | FInline => spec_cands omitall (f_ty f) (Some (j, 0)) here
  | FRegular nm om =>
    let '(nd, base) := strip_ptrs (f_ty f) in
    [mkCand nm (omitall || om) (here ++ [(j, nd)]) base]
  end.

Definition model_step (omitall : bool) (here : list (nat * nat)) (etypes : list N) (f : field) (j : nat) : bool * list cand :=
  match model_class f with
  | FSkip => (false, [])
  | FInline => rget omitall (f_ty f) (Some (j, 0)) here etypes
  | FRegular nm om =>
    let '(nd, base) := strip_ptrs (f_ty f) in
    (false, [mkCand nm (omitall || om) (here ++ [(j, nd)]) base])
  end.

Lemma spec_cands_struct : forall omitall tid fs node prefix,
  spec_cands omitall (TStruct tid fs) node prefix = cat_fields (spec_step omitall (with_node prefix node)) fs 0.
Proof.
  intros. cbn [spec_cands].
  match goal with |- ?F fs 0 = _ =>
    assert (G : forall j, F fs j = cat_fields (spec_step omitall (with_node prefix node)) fs j) end.
  { induction fs as [|f r IH]; intro j; [reflexivity|].
    cbn [cat_fields]. rewrite <- IH. destruct f. reflexivity. }
  apply G.
Qed.

Lemma rget_struct : forall omitall tid fs node parents et,
  rget omitall (TStruct tid fs) node parents et =
  if process_it et tid then flag_fields (model_step omitall (with_node parents node) (et ++ [tid])) fs 0
  else (true, []).
Proof.
  intros. cbn [rget]. destruct (process_it et tid); [|reflexivity].
  cbv zeta.
  match goal with |- ?F fs 0 = _ =>
    assert (G : forall j, F fs j = flag_fields (model_step omitall (with_node parents node) (et ++ [tid])) fs j) end.
  { induction fs as [|f r IH]; intros j; [reflexivity|].
    cbn [flag_fields]. destruct (model_step omitall (with_node parents node) (et ++ [tid]) f j) as [c1 o1] eqn:E1.
    rewrite <- IH. destruct f as [a b c d e0 ty]. unfold model_step in E1. cbn [f_ty] in E1.
    cbv beta iota zeta. rewrite E1. reflexivity. }
  apply G.
Qed.

(* ---- rget without a cut computes the documented candidates ---- *)
Lemma rget_spec : forall omitall t, wf_names t = true ->
  forall node parents et cut out,
  rget omitall t node parents et = (cut, out) ->
  cut = false -> out = spec_cands omitall t node parents.
Proof.
  intros omitall t. induction t as [| | | | | |e IHt|n e IHt|k e IHk IHt|e IHt| | |tid fs HF] using fty_ind'; intros W node parents et cut out H Hc;
    try (simpl in H; injection H as <- <-; reflexivity).
  - (* TPtr *) simpl in *. eapply IHt; eauto.
  - (* TStruct *)
    rewrite rget_struct in H. rewrite spec_cands_struct.
    destruct (process_it et tid); [|injection H as <- <-; discriminate].
    set (here := with_node parents node) in *.
    simpl in W.
    revert W H. generalize (et ++ [tid]) as et1. generalize 0 as j.
    revert cut out Hc.
    induction fs as [|f r IHr]; intros cut out Hc j et0 W Hgo.
    + injection Hgo as <- <-. reflexivity.
    + inversion HF as [|? ? Hf Hr]. subst x l.
      apply andb_true_iff in W as [W Wr]. apply andb_true_iff in W as [Wf Wty].
      simpl in Hgo.
      destruct (model_step omitall here et0 f j) as [cut1 out1] eqn:E1.
      destruct (flag_fields (model_step omitall here et0) r (S j)) as [cut2 out2] eqn:E2.
      injection Hgo as <- <-. apply orb_false_iff in Hc as [Hc1 Hc2].
      simpl. f_equal.
      * unfold model_step in E1. unfold spec_step. rewrite <- (class_agree _ Wf).
        destruct (model_class f) as [| |nm om].
        -- injection E1 as <- <-. reflexivity.
        -- eapply Hf; eauto. destruct f; exact Wty.
        -- destruct (strip_ptrs (f_ty f)). injection E1 as <- <-. reflexivity.
      * eapply IHr; eauto.
Qed.

(* C16 — the Encoder's pool of struct scratch lists (helper.go sfiRvFreeList.get / put,
   freelistCapacity) and the way kStruct (encode.go) uses it: take a list, GATHER the entries
   to emit in it, then EMIT them one by one — and emitting an entry may encode any number of
   nested structs, each of which takes a list from the same pool — and hand the list back.

   Executable model, no proofs here.  A scratch list is (id of its backing array, capacity);
   the memory of the backing arrays is part of the state, so that two holders of one array
   overwrite each other in the model exactly as they do in Go.  Slices are modelled by lists
   and Go's copy by [go_copy], so that get and put read like the source:

     get:  for i: if cap(y[i]) >= length { copy(y[i:], y[i+1:]); x = y[:len(y)-1]; return y[i] }
           return make([]sfiRv, 0, freelistCapacity(length))
     put:  y := append(x[:], v); x = y
           for i < len(y)-1: if cap(y[i]) > cap(v) { copy(y[i+1:], y[i:]); y[i] = v; return }    *)
From Coq Require Import List NArith Arith Bool.
Import ListNotations.

Definition slist := (N * nat)%type.          (* backing array, capacity *)
Definition pool := list slist.
Definition entry := N.                        (* one gathered (field, value) pair, abstract *)

(* copy(y[i:], src): overwrites y from i on with as much of src as fits *)
Definition go_copy {A} (i : nat) (src y : list A) : list A :=
  firstn i y ++ firstn (length y - i) src ++ skipn (i + length src) y.

Fixpoint set_at {A} (i : nat) (v : A) (y : list A) : list A :=
  match y, i with
  | [], _ => []
  | _ :: r, O => v :: r
  | x :: r, S i' => x :: set_at i' v r
  end.

(* freelistCapacity: for capacity = 8; capacity < length; capacity *= 2 {} *)
Fixpoint cap_loop (fuel capacity length : nat) : nat :=
  if length <=? capacity then capacity
  else match fuel with O => capacity | S f => cap_loop f (2 * capacity) length end.
Definition freelist_capacity (length : nat) : nat := cap_loop length 8 length.

(* the index loops *)
Fixpoint find_fit (length i : nat) (y : pool) : option nat :=
  match y with
  | [] => None
  | v :: r => if length <=? snd v then Some i else find_fit length (S i) r
  end.

Fixpoint find_bigger (c i : nat) (y : pool) : option nat :=
  match y with
  | [] => None
  | z :: r => if c <? snd z then Some i else find_bigger c (S i) r
  end.

Definition dflt : slist := (0%N, 0).

(* get on the pool alone: the list handed out, the pool left, the next unused array id *)
Definition pool_get (length : nat) (y : pool) (next : N) : slist * pool * N :=
  match find_fit length 0 y with
  | Some i => (nth i y dflt, removelast (go_copy i (skipn (S i) y) y), next)
  | None => ((next, freelist_capacity length), y, N.succ next)
  end.

Definition pool_put (v : slist) (x : pool) : pool :=
  let y := x ++ [v] in
  match find_bigger (snd v) 0 x with        (* i < len(y)-1 *)
  | Some i => set_at i v (go_copy (S i) (skipn i y) y)
  | None => y
  end.

(* ---- the Encoder: pool + memory of the backing arrays ---- *)
Record st := mkSt { s_pool : pool; s_next : N; s_mem : N -> nat -> entry }.

Definition st0 : st := mkSt [] 0%N (fun _ _ => 0%N).

Definition get (length : nat) (s : st) : slist * st :=
  let '(v, p, nx) := pool_get length (s_pool s) (s_next s) in
  (v, mkSt p nx (s_mem s)).

Definition put (v : slist) (s : st) : st := mkSt (pool_put v (s_pool s)) (s_next s) (s_mem s).

Definition write (a : N) (j : nat) (e : entry) (s : st) : st :=
  mkSt (s_pool s) (s_next s)
       (fun a' j' => if (N.eqb a' a && Nat.eqb j' j)%bool then e else s_mem s a' j').

(* what one Encoder is asked to encode, as far as structs go: a sequence of struct values
   (successive Encode calls, elements of slices and maps), each with the number of fields of
   its type (the length it asks the pool for) and the entries it emits; under every entry, the
   structs encoded while that entry's value is written *)
Inductive forest :=
| FNil
| FStruct (nfields : nat) (es : entries) (rest : forest)
with entries :=
| ENil
| ECons (e : entry) (under : forest) (rest : entries).

Fixpoint gathered (es : entries) : list entry :=
  match es with ENil => [] | ECons e _ r => e :: gathered r end.

Fixpoint gather (a : N) (j : nat) (l : list entry) (s : st) : st :=
  match l with [] => s | e :: r => gather a (S j) r (write a j e s) end.

(* kStruct / the sequence of kStruct calls; the trace is the sequence of entries written out *)
Fixpoint run_forest (f : forest) (s : st) : list entry * st :=
  match f with
  | FNil => ([], s)
  | FStruct n es rest =>
    let '(v, s1) := get n s in                       (* fkvs = e.slist.get(newlen)[:newlen] *)
    let s2 := gather (fst v) 0 (gathered es) s1 in   (* fkvs[newlen] = kv; newlen++ *)
    let '(t1, s3) := emit es (fst v) 0 s2 in         (* for j < newlen: kv = fkvs[j]; encode it *)
    let s4 := put v s3 in                            (* e.slist.put(fkvs) *)
    let '(t2, s5) := run_forest rest s4 in
    (t1 ++ t2, s5)
  end
with emit (es : entries) (a : N) (j : nat) (s : st) : list entry * st :=
  match es with
  | ENil => ([], s)
  | ECons _ under rest =>
    let kv := s_mem s a j in                         (* read back from the scratch list *)
    let '(t1, s1) := run_forest under s in
    let '(t2, s2) := emit rest a (S j) s1 in
    (kv :: t1 ++ t2, s2)
  end.

(* what must come out: every struct emits the entries it gathered *)
Fixpoint spec_forest (f : forest) : list entry :=
  match f with
  | FNil => []
  | FStruct _ es rest => spec_entries es ++ spec_forest rest
  end
with spec_entries (es : entries) : list entry :=
  match es with
  | ENil => []
  | ECons e under rest => e :: spec_forest under ++ spec_entries rest
  end.

(* the state of the pool that matters: no backing array is pooled twice, none is unknown *)
Definition pool_ok (s : st) : Prop :=
  NoDup (map fst (s_pool s)) /\ forall a, In a (map fst (s_pool s)) -> (a < s_next s)%N.

(* C16 — the name search trie (uint8To32TrieNode.puts/gets) finds exactly the
   field of that name. *)
From Coq Require Import List NArith ZArith Arith Bool Lia.
From Verif Require Import Base.Outcome Wire.Item C16.Spec C16.Model C16.Proofs.
Import ListNotations.

Lemma puts_key : forall s x v, t_key (puts x s v) = t_key x.
Proof. intros s x v. destruct s; destruct x; reflexivity. Qed.

Lemma find_upd_same : forall c k kids, (forall x, t_key (k x) = t_key x) ->
  find_kid c (upd_kid c k kids) =
  Some (k (match find_kid c kids with Some x => x | None => TNode c 0 false [] end)).
Proof.
  intros c k kids Hk. induction kids as [|x r IH]; simpl.
  - rewrite Hk. simpl. rewrite N.eqb_refl. reflexivity.
  - destruct (N.eqb (t_key x) c) eqn:E; simpl.
    + rewrite Hk, E. reflexivity.
    + rewrite E. exact IH.
Qed.

Lemma find_upd_other : forall c c' k kids, (forall x, t_key (k x) = t_key x) -> c' <> c ->
  find_kid c' (upd_kid c k kids) = find_kid c' kids.
Proof.
  intros c c' k kids Hk Hne. induction kids as [|x r IH]; simpl.
  - rewrite Hk. simpl. destruct (N.eqb c c') eqn:E; [apply N.eqb_eq in E; congruence|reflexivity].
  - destruct (N.eqb (t_key x) c) eqn:E; simpl.
    + rewrite Hk. apply N.eqb_eq in E. rewrite E.
      destruct (N.eqb c c') eqn:E2; [apply N.eqb_eq in E2; congruence|reflexivity].
    + destruct (N.eqb (t_key x) c'); [reflexivity|exact IH].
Qed.

Lemma gets_fresh : forall s c, gets (TNode c 0 false []) s = None.
Proof. intros [|a r] c; reflexivity. Qed.

Lemma gets_puts : forall s x v s',
  gets (puts x s v) s' = if str_eqb s s' then Some v else gets x s'.
Proof.
  induction s as [|c r IH]; intros x v s'.
  - destruct x as [k val ok kids]. destruct s'; reflexivity.
  - destruct x as [k val ok kids]. destruct s' as [|c' r']; [reflexivity|].
    simpl. destruct (N.eqb c c') eqn:E.
    + apply N.eqb_eq in E. subst c'. rewrite find_upd_same by (intro; apply puts_key).
      rewrite IH. simpl. destruct (str_eqb r r'); [reflexivity|].
      destruct (find_kid c kids); [reflexivity|apply gets_fresh].
    + simpl. rewrite find_upd_other; [reflexivity|intro; apply puts_key|].
      intro H. subst. rewrite N.eqb_refl in E. discriminate.
Qed.

Definition put_field (t : trie) (p : nat * cand) : trie := puts t (c_name (snd p)) (N.of_nat (fst p)).

Lemma find_app : forall {A} (f : A -> bool) l l',
  find f (l ++ l') = match find f l with Some x => Some x | None => find f l' end.
Proof. intros A f l l'. induction l as [|a l IH]; simpl; [reflexivity|]. destruct (f a); auto. Qed.

Lemma gets_fold : forall l t name,
  gets (fold_left put_field l t) name =
  match find (fun p => str_eqb (c_name (snd p)) name) (rev l) with
  | Some p => Some (N.of_nat (fst p))
  | None => gets t name
  end.
Proof.
  induction l as [|p r IH]; intros t name; [reflexivity|].
  simpl fold_left. rewrite IH. simpl rev. rewrite find_app.
  destruct (find _ (rev r)); [reflexivity|].
  simpl. unfold put_field at 1. rewrite gets_puts. destruct (str_eqb (c_name (snd p)) name); reflexivity.
Qed.

Lemma number_nth : forall {A} (l : list A) i x, In (i, x) (number l) -> nth_error l i = Some x.
Proof.
  intros A l. unfold number.
  assert (G : forall s i x, In (i, x) (combine (seq s (length l)) l) -> s <= i /\ nth_error l (i - s) = Some x).
  { induction l as [|a r IH]; intros s i x H; [destruct H|].
    simpl in H. destruct H as [H|H].
    - injection H as <- <-. rewrite Nat.sub_diag. split; [lia|reflexivity].
    - apply IH in H as [H1 H2]. split; [lia|]. replace (i - s) with (S (i - S s)) by lia. exact H2. }
  intros i x H. apply G in H as [_ H]. rewrite Nat.sub_0_r in H. exact H.
Qed.

(* the trie search returns the LAST field carrying that name (a later puts overwrites) *)
Theorem search_spec : forall fs name,
  search fs name =
  match find (fun p => str_eqb (c_name (snd p)) name) (rev (number fs)) with
  | Some p => Some (snd p)
  | None => None
  end.
Proof.
  intros fs name. unfold search, build_trie.
  change (fun (t : trie) (p : nat * cand) => puts t (c_name (snd p)) (N.of_nat (fst p))) with put_field.
  rewrite gets_fold.
  destruct (find _ (rev (number fs))) as [[i c]|] eqn:E.
  - apply find_some in E as [Hin _]. apply in_rev in Hin. apply number_nth in Hin.
    simpl. rewrite Nat2N.id. exact Hin.
  - destruct name; reflexivity.
Qed.

(* ---- names are unique after selection, so the search finds exactly the field ---- *)
From Verif Require Import C16.ProofsResolve.

Lemma in_number : forall {A} (l : list A) x, In x l -> exists i, In (i, x) (number l).
Proof.
  intros A l x. unfold number. generalize 0. induction l as [|a r IH]; intros s H; [destruct H|].
  destruct H as [->|H].
  - exists s. left. reflexivity.
  - destruct (IH (S s) H) as [i Hi]. exists i. right. exact Hi.
Qed.

Lemma number_snd : forall {A} (l : list A) i x, In (i, x) (number l) -> In x l.
Proof. intros A l i x H. apply number_nth in H. apply nth_error_In in H. exact H. Qed.

Lemma same_index : forall (l : list ic) k c c', NoDup (map fst l) -> In (k, c) l -> In (k, c') l -> c = c'.
Proof.
  induction l as [|[a b] l IHl]; intros k c c' Hnd H1 H2; [destruct H1|].
  simpl in Hnd. inversion Hnd as [|? ? Hni Hnd2]; subst.
  destruct H1 as [E1|H1]; destruct H2 as [E2|H2].
  - congruence.
  - injection E1 as -> ->. exfalso. apply Hni. apply (in_map fst) in H2. exact H2.
  - injection E2 as -> ->. exfalso. apply Hni. apply (in_map fst) in H1. exact H1.
  - eauto.
Qed.

Lemma select_names_unique : forall x a b,
  In a (filter (fun f => negb (existsb (fun g => beats g f) (number x))) (number x)) ->
  In b (filter (fun f => negb (existsb (fun g => beats g f) (number x))) (number x)) ->
  nm a = nm b -> a = b.
Proof.
  intros x [i c] [j d] Ha Hb Hn.
  apply filter_In in Ha as [Ha Pa]. apply filter_In in Hb as [Hb Pb].
  apply negb_true_iff in Pa, Pb.
  assert (Hnd : NoDup (map fst (number x))) by (rewrite number_fst; apply seq_NoDup).
  destruct (Nat.eq_dec i j) as [->|Hij].
  - f_equal. eapply same_index; eauto.
  - exfalso.
    assert (T : beats (i, c) (j, d) = true \/ beats (j, d) (i, c) = true).
    { rewrite !beats_iff. unfold nm, dp in *. simpl in *.
      destruct (lt_eq_lt_dec (c_depth c) (c_depth d)) as [[H|H]|H].
      - left. split; [exact Hn|lia].
      - destruct (lt_eq_lt_dec i j) as [[H2|H2]|H2].
        + left. split; [exact Hn|lia].
        + contradiction.
        + right. split; [symmetry; exact Hn|lia].
      - right. split; [symmetry; exact Hn|lia]. }
    destruct T as [T|T].
    + assert (E : existsb (fun g => beats g (j, d)) (number x) = true) by (apply existsb_exists; eauto).
      rewrite E in Pb. discriminate.
    + assert (E : existsb (fun g => beats g (i, c)) (number x) = true) by (apply existsb_exists; eauto).
      rewrite E in Pa. discriminate.
Qed.

Lemma nodup_map_filter : forall {A B} (f : A -> B) (P : A -> bool) l, NoDup (map f l) -> NoDup (map f (filter P l)).
Proof.
  intros A B f P l. induction l as [|a l IH]; simpl; intro H; [constructor|].
  inversion H as [|? ? Hni Hnd]; subst.
  destruct (P a); simpl; [|auto]. constructor; [|auto].
  intro Hi. apply Hni. apply in_map_iff in Hi as (q & Hq & Hin). apply filter_In in Hin as [Hin _].
  rewrite <- Hq. apply in_map. exact Hin.
Qed.

Theorem select_nodup : forall x, NoDup (map c_name (select x)).
Proof.
  intro x. unfold select. rewrite map_map.
  set (L := filter _ (number x)).
  assert (Hu : forall a b, In a L -> In b L -> nm a = nm b -> a = b) by (apply select_names_unique).
  assert (Hnd : NoDup (map fst L)).
  { subst L. apply nodup_map_filter. rewrite number_fst. apply seq_NoDup. }
  clearbody L. induction L as [|p l IHl]; simpl; [constructor|].
  simpl in Hnd. inversion Hnd as [|? ? Hni Hnd2]; subst.
  constructor.
  - intro Hi. apply in_map_iff in Hi as (q & Hq & Hin).
    assert (q = p) by (apply Hu; [right; exact Hin|left; reflexivity|exact Hq]). subst q.
    apply Hni. apply in_map. exact Hin.
  - apply IHl; [|exact Hnd2]. intros a b Ha Hb. apply Hu; right; assumption.
Qed.

Lemma nodup_map_inj : forall {A B} (f : A -> B) l a b, NoDup (map f l) -> In a l -> In b l -> f a = f b -> a = b.
Proof.
  intros A B f l. induction l as [|x r IH]; intros a b Hnd Ha Hb E; [destruct Ha|].
  simpl in Hnd. inversion Hnd as [|? ? Hni Hnd2]; subst.
  destruct Ha as [->|Ha]; destruct Hb as [->|Hb]; auto.
  - exfalso. apply Hni. rewrite E. apply in_map. exact Hb.
  - exfalso. apply Hni. rewrite <- E. apply in_map. exact Ha.
Qed.

Theorem search_finds : forall fs c, NoDup (map c_name fs) -> In c fs -> search fs (c_name c) = Some c.
Proof.
  intros fs c Hnd Hin. rewrite search_spec.
  destruct (find _ (rev (number fs))) as [[i d]|] eqn:E.
  - apply find_some in E as [Hd En]. apply in_rev in Hd. apply number_snd in Hd.
    simpl in En. apply str_eqb_eq in En. simpl. f_equal.
    eapply nodup_map_inj; eauto.
  - destruct (in_number fs c Hin) as [i Hi].
    assert (Hf := find_none _ _ E (i, c) (proj1 (in_rev _ _) Hi)).
    simpl in Hf. rewrite str_eqb_refl in Hf. discriminate.
Qed.

Theorem search_unknown : forall fs name, (forall c, In c fs -> c_name c <> name) -> search fs name = None.
Proof.
  intros fs name H. rewrite search_spec.
  destruct (find _ (rev (number fs))) as [[i d]|] eqn:E; [|reflexivity].
  apply find_some in E as [Hd En]. apply in_rev in Hd. apply number_snd in Hd.
  simpl in En. apply str_eqb_eq in En. exfalso. exact (H d Hd En).
Qed.

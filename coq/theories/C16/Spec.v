(* C16 — SPECIFICATION, written from the package documentation only
   (/repo/codec/doc.go "Caveats", README.md, the doc comment of Encoder.Encode in
   encode.go, the doc comments of the options ErrorIfNoField / StructToArray /
   Canonical / RecursiveEmptyCheck).  Nothing here looks at helper.go.

   Struct DECLARATIONS are data: a declaration is a tree (embedded struct
   declarations are nested), every struct type carries an identity [tid] (two
   occurrences of the same Go type carry the same tid).  Recursive type
   declarations (type T struct{ *T }) are outside this universe.

   Strings are byte lists.  *)
From Coq Require Import List NArith ZArith Arith Bool Lia.
From Verif Require Import Wire.Item.
Import ListNotations.

Definition str := list N.

Fixpoint str_eqb (a b : str) : bool :=
  match a, b with
  | [], [] => true
  | x :: a', y :: b' => N.eqb x y && str_eqb a' b'
  | _, _ => false
  end.

(* ---- declarations ---- *)

Record fieldOf (T : Type) := mkField {
  f_name : str;          (* Go field name (for an embedded field: the type name) *)
  f_exported : bool;     (* PkgPath == "" *)
  f_anon : bool;         (* embedded *)
  f_codec : str;         (* value of the `codec:"…"` key of the tag ("" if absent) *)
  f_json : str;          (* value of the `json:"…"` key *)
  f_ty : T }.
Arguments mkField {T}. Arguments f_name {T}. Arguments f_exported {T}. Arguments f_anon {T}.
Arguments f_codec {T}. Arguments f_json {T}. Arguments f_ty {T}.

Inductive fty :=
| TBool | TInt | TUint | TF32 | TF64 | TStr
| TSlice (e : fty) | TArr (n : nat) (e : fty) | TMap (k e : fty)
| TPtr (e : fty) | TIface
| TFunc                                   (* func / unsafe.Pointer: never encoded *)
| TStruct (tid : N) (fs : list (fieldOf fty)).

Definition field := fieldOf fty.

(* ASCII helpers *)
Definition c_comma : N := 44.  Definition c_dash : N := 45.  Definition c_us : N := 95.
Definition s_omitempty : str := [111;109;105;116;101;109;112;116;121]%N.
Definition s_toarray : str := [116;111;97;114;114;97;121]%N.
Definition s_int : str := [105;110;116]%N.
Definition s_uint : str := [117;105;110;116]%N.
Definition s_float : str := [102;108;111;97;116]%N.
Definition s_string : str := [115;116;114;105;110;103]%N.
Definition s_struct : str := [95;115;116;114;117;99;116]%N.   (* "_struct" *)

(* "By default, we look up the codec key in the struct field's tags, and fall back
   to the json key if codec is absent." *)
Definition tag_of (f : field) : str :=
  match f_codec f with [] => f_json f | c => c end.

(* "That key in struct field's tag value is the key name, followed by an optional
   comma and options." *)
Fixpoint before_comma (s : str) : str :=
  match s with
  | [] => []
  | c :: r => if N.eqb c c_comma then [] else c :: before_comma r
  end.
Fixpoint after_comma (s : str) : option str :=
  match s with
  | [] => None
  | c :: r => if N.eqb c c_comma then Some r else after_comma r
  end.
(* the comma separated options after the name *)
Fixpoint options_fuel (n : nat) (s : str) : list str :=
  match n with
  | O => []
  | S n' => before_comma s :: match after_comma s with None => [] | Some r => options_fuel n' r end
  end.
Definition tag_name (tag : str) : str := before_comma tag.
Definition tag_options (tag : str) : list str :=
  match after_comma tag with None => [] | Some r => options_fuel (S (length r)) r end.
Definition has_option (o : str) (tag : str) : bool := existsb (str_eqb o) (tag_options tag).

(* key types selectable on _struct *)
Inductive ktype := KString | KInt | KUint | KFloat.

Record sopts := mkSopts { so_toarray : bool; so_omitempty : bool; so_keytype : ktype }.

(* "To set an option on all fields … you can create a field called _struct, and set
   flags on it": the options of a struct are those on ITS OWN _struct field. *)
Definition last_keytype (os : list str) : ktype :=
  fold_left (fun k o => if str_eqb o s_int then KInt else if str_eqb o s_uint then KUint
                        else if str_eqb o s_float then KFloat else if str_eqb o s_string then KString else k)
            os KString.
Definition sopts_of_tag (tag : str) : sopts :=
  mkSopts (has_option s_toarray tag) (has_option s_omitempty tag) (last_keytype (tag_options tag)).
Definition spec_sopts (fs : list field) : sopts :=
  match find (fun f => str_eqb (f_name f) s_struct) fs with
  | Some f => sopts_of_tag (tag_of f)
  | None => mkSopts false false KString
  end.

(* ---- the documented field rules ---- *)

(* a candidate: one (possibly promoted) field *)
Record cand := mkCand {
  c_name : str;                 (* key used in the stream *)
  c_omit : bool;                (* omitempty *)
  c_path : list (nat * nat);    (* (field index, pointer dereferences after selecting it), outermost first *)
  c_ty : fty }.                 (* type of the field with its own pointers removed *)

Definition c_depth (c : cand) : nat := pred (length (c_path c)).

Fixpoint strip_ptrs (t : fty) : nat * fty :=
  match t with TPtr e => let '(n, b) := strip_ptrs e in (S n, b) | _ => (0, t) end.

Definition is_struct (t : fty) : bool := match t with TStruct _ _ => true | _ => false end.
Definition is_ptr (t : fty) : bool := match t with TPtr _ => true | _ => false end.
Definition is_iface (t : fty) : bool := match t with TIface => true | _ => false end.
Definition is_func (t : fty) : bool := match t with TFunc => true | _ => false end.

(* doc.go Caveats: "Struct fields matching the following are ignored during encoding and decoding
     - struct tag value set to -
     - func, complex numbers, unsafe pointers
     - unexported and not embedded
     - unexported and embedded and not struct kind
     - unexported and embedded pointers (from go1.10)
   Every other field in a struct will be encoded/decoded." *)
Definition ignored (f : field) : bool :=
  str_eqb (tag_of f) [c_dash]
  || is_func (f_ty f)
  || (negb (f_exported f) && negb (f_anon f))
  || (negb (f_exported f) && f_anon f && negb (is_struct (snd (strip_ptrs (f_ty f)))))
  || (negb (f_exported f) && f_anon f && is_ptr (f_ty f)).

(* Encode doc: "Anonymous fields are encoded inline except:
     - the struct tag specifies a replacement name (first value)
     - the field is of an interface type"
   (only struct kinds, directly or through a pointer, have fields to inline) *)
Definition inlined (f : field) : bool :=
  f_anon f && is_struct (snd (strip_ptrs (f_ty f))) && match tag_name (tag_of f) with [] => true | _ => false end.

(* all candidates, in declaration order, embedded structs expanded in place
   ("Embedded fields are encoded as if they exist in the top-level struct").
   [spec_cands omitall t node prefix]: t is the type of an inlined embedded field
   (or the root, node = None); pointers in front of the struct are counted into the node. *)
Definition bump (node : option (nat * nat)) : option (nat * nat) :=
  match node with Some (j, nd) => Some (j, S nd) | None => None end.
Definition with_node (prefix : list (nat * nat)) (node : option (nat * nat)) : list (nat * nat) :=
  match node with Some n => prefix ++ [n] | None => prefix end.

(* what the documented rules say about one declared field *)
Inductive fclass := FSkip | FInline | FRegular (name : str) (omit : bool).

Definition spec_class (f : field) : fclass :=
  if ignored f then FSkip
  else if inlined f then FInline
  else if negb (f_exported f) then FSkip          (* "Each exported struct field is encoded" *)
  else FRegular (match tag_name (tag_of f) with [] => f_name f | n => n end)
                (has_option s_omitempty (tag_of f)).

Fixpoint spec_cands (omitall : bool) (t : fty) (node : option (nat * nat)) (prefix : list (nat * nat)) {struct t} : list cand :=
  match t with
  | TPtr e => spec_cands omitall e (bump node) prefix
  | TStruct _ fs =>
    let here := with_node prefix node in
    (fix go (fs : list field) (j : nat) {struct fs} : list cand :=
       match fs with
       | [] => []
       | f :: r =>
         (match f with
          | mkField _ _ _ _ _ ty =>
            match spec_class f with
            | FSkip => []
            | FInline => spec_cands omitall ty (Some (j, 0)) here
            | FRegular nm om =>
              let '(nd, base) := strip_ptrs ty in
              [mkCand nm (omitall || om) (here ++ [(j, nd)]) base]
            end
          end) ++ go r (S j)
       end) fs 0
  | _ => []
  end.

(* "the field with the shallowest depth is selected" (Go's selector rule, which the
   documentation refers to for embedded fields).  The documentation is silent on two
   candidates of the same name at the same depth; this specification takes the one
   declared first, and says so. *)
Definition beats (g : nat * cand) (f : nat * cand) : bool :=
  str_eqb (c_name (snd g)) (c_name (snd f))
  && ((c_depth (snd g) <? c_depth (snd f)) || ((c_depth (snd g) =? c_depth (snd f)) && (fst g <? fst f))).

Definition number {A} (l : list A) : list (nat * A) := combine (seq 0 (length l)) l.

Definition select (cs : list cand) : list cand :=
  map snd (filter (fun f => negb (existsb (fun g => beats g f) (number cs))) (number cs)).

Definition fields_of (t : fty) : list field := match t with TStruct _ fs => fs | _ => [] end.

Definition spec_fields (t : fty) : list cand :=
  select (spec_cands (so_omitempty (spec_sopts (fields_of t))) t None []).

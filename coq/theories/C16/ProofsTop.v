(* C16 — the lemmas the property theorems are closed with. *)
From Coq Require Import List NArith ZArith Arith Bool Lia Sorted Permutation.
From Verif Require Import Base.Outcome Wire.Item C16.Spec C16.Model C16.SpecEnc
     C16.Proofs C16.ProofsResolve C16.ProofsTrie C16.ProofsEnc.
Import ListNotations.

Lemma fields_lemma : forall (omitall : bool) (t : fty),
  wf_names t = true -> rget_cut omitall t = false ->
  resolve_with omitall t = select (spec_cands omitall t None []).
Proof.
  intros omitall t W Hc. unfold resolve_with, rget_cut in *.
  destruct (rget omitall t None [] []) as [cut out] eqn:E. simpl in *.
  rewrite (rget_spec omitall t W _ _ _ _ _ E Hc). apply resolve_is_select.
Qed.

Lemma fields_perm_lemma : forall (omitall : bool) (t : fty),
  wf_names t = true -> rget_cut omitall t = false ->
  Permutation (resolve_with omitall t) (select (spec_cands omitall t None [])).
Proof. intros. rewrite fields_lemma by assumption. apply Permutation_refl. Qed.

(* ---- _struct options ---- *)
Definition info_step (a : sopts) (s : str) : sopts :=
  if str_eqb s s_omitempty then mkSopts (so_toarray a) true (so_keytype a)
  else if str_eqb s s_toarray then mkSopts true (so_omitempty a) (so_keytype a)
  else if str_eqb s s_int then mkSopts (so_toarray a) (so_omitempty a) KInt
  else if str_eqb s s_uint then mkSopts (so_toarray a) (so_omitempty a) KUint
  else if str_eqb s s_float then mkSopts (so_toarray a) (so_omitempty a) KFloat
  else if str_eqb s s_string then mkSopts (so_toarray a) (so_omitempty a) KString
  else a.
Definition kt_step (k : ktype) (o : str) : ktype :=
  if str_eqb o s_int then KInt else if str_eqb o s_uint then KUint
  else if str_eqb o s_float then KFloat else if str_eqb o s_string then KString else k.

Lemma info_fold : forall opts a,
  fold_left info_step opts a =
  mkSopts (so_toarray a || existsb (str_eqb s_toarray) opts)
          (so_omitempty a || existsb (str_eqb s_omitempty) opts)
          (fold_left kt_step opts (so_keytype a)).
Proof.
  induction opts as [|o r IH]; intro a; cbn [fold_left existsb].
  - destruct a. simpl. rewrite !orb_false_r. reflexivity.
  - rewrite IH. unfold info_step, kt_step.
    rewrite (str_eqb_sym s_toarray o), (str_eqb_sym s_omitempty o).
    destruct (str_eqb o s_omitempty) eqn:E1.
    { apply str_eqb_eq in E1. subst o. simpl. rewrite orb_true_r. reflexivity. }
    destruct (str_eqb o s_toarray) eqn:E2.
    { apply str_eqb_eq in E2. subst o. simpl. rewrite orb_true_r. reflexivity. }
    destruct (str_eqb o s_int); [simpl; reflexivity|].
    destruct (str_eqb o s_uint); [simpl; reflexivity|].
    destruct (str_eqb o s_float); [simpl; reflexivity|].
    destruct (str_eqb o s_string); simpl; reflexivity.
Qed.

Lemma parse_info_spec : forall s, parse_struct_info s = sopts_of_tag s.
Proof.
  intro s. unfold parse_struct_info, sopts_of_tag, has_option, last_keytype.
  destruct s as [|c r]; [reflexivity|].
  rewrite split_comma_tag.
  destruct (tag_options (c :: r)) as [|o os] eqn:Eo; [reflexivity|].
  change (fold_left info_step (o :: os) (mkSopts false false KString)
          = mkSopts (existsb (str_eqb s_toarray) (o :: os)) (existsb (str_eqb s_omitempty) (o :: os))
                    (fold_left kt_step (o :: os) KString)).
  rewrite info_fold. reflexivity.
Qed.

Lemma sopts_own_lemma : forall (t : fty) (f : field),
  find (fun f => str_eqb (f_name f) s_struct) (fields_of t) = Some f ->
  model_sopts t = Ok (spec_sopts (fields_of t)).
Proof.
  intros t f H. unfold model_sopts, field_by_name, spec_sopts. rewrite H. simpl.
  rewrite parse_info_spec, struct_tag_eq. reflexivity.
Qed.

Lemma sopts_refuted_lemma : exists t : fty, wf_names t = true /\ model_sopts t <> Ok (spec_sopts (fields_of t)).
Proof.
  exists (TStruct 1 [mkField [84]%N true true [] [] (TStruct 2 [mkField s_struct false false (44 :: s_toarray)%N [] TBool; mkField [80]%N true false [] [] TInt]);
                     mkField [83]%N true false [] [] TInt]).
  split; [reflexivity|]. vm_compute. discriminate.
Qed.

(* ---- canonical order ---- *)
Lemma str_ltb_asym : forall a b, str_ltb a b = true -> str_ltb b a = false.
Proof.
  induction a as [|x a IH]; destruct b as [|y b]; simpl; intro H; try reflexivity; try discriminate.
  destruct (N.ltb x y) eqn:E1.
  - assert (E2 : N.ltb y x = false) by (apply N.ltb_ge; apply N.ltb_lt in E1; lia). rewrite E2. reflexivity.
  - destruct (N.ltb y x) eqn:E2; [discriminate|]. apply IH. exact H.
Qed.

Definition name_le (a b : cand) : Prop := str_ltb (c_name b) (c_name a) = false.

Lemma insert_perm : forall c l, Permutation (insert_by_name c l) (c :: l).
Proof.
  intros c l. induction l as [|d r IH]; simpl; [apply Permutation_refl|].
  destruct (str_ltb (c_name d) (c_name c)).
  - eapply Permutation_trans; [apply perm_skip; exact IH|apply perm_swap].
  - apply Permutation_refl.
Qed.

Lemma insert_sorted : forall c l, Sorted name_le l -> Sorted name_le (insert_by_name c l).
Proof.
  intros c l. induction l as [|d r IH]; intro H; simpl.
  - constructor; constructor.
  - destruct (str_ltb (c_name d) (c_name c)) eqn:E.
    + inversion H as [|? ? Hs Hh]; subst. constructor; [apply IH; exact Hs|].
      destruct r as [|e r']; simpl.
      * constructor. unfold name_le. apply str_ltb_asym. exact E.
      * destruct (str_ltb (c_name e) (c_name c)).
        -- inversion Hh; subst. constructor. assumption.
        -- constructor. unfold name_le. apply str_ltb_asym. exact E.
    + constructor; [exact H|]. constructor. exact E.
Qed.

Lemma sort_lemma : forall fs : list cand,
  Permutation (sort_by_name fs) fs /\ Sorted (fun a b => str_ltb (c_name b) (c_name a) = false) (sort_by_name fs).
Proof.
  induction fs as [|c r [IH1 IH2]]; simpl; [split; constructor|].
  split.
  - eapply Permutation_trans; [apply insert_perm|apply perm_skip; exact IH1].
  - apply insert_sorted. exact IH2.
Qed.

(* ---- omitempty ---- *)
Lemma omit_lemma : forall fv : option mval, plain_top fv = true ->
  is_empty_unsafe false fv = doc_empty fv /\
  is_empty_container_unsafe false fv = (doc_empty fv && is_container fv).
Proof. intros fv H. split; [apply omit_unsafe_plain|apply omit_arr_unsafe_plain]; exact H. Qed.

Lemma omit_refuted_lemma :
  (exists fv, is_empty_unsafe false fv <> doc_empty fv /\ fv = Some (MSlice (Some []))) /\
  (exists fv, is_empty_unsafe false fv <> doc_empty fv /\ fv = Some (MF64 9223372036854775808)) /\
  (exists t fv, is_empty_value (mkOpts false false false true false) t fv <> Ok (doc_empty fv)).
Proof.
  repeat apply conj.
  - exists (Some (MSlice (Some []))). split; [vm_compute; discriminate|reflexivity].
  - exists (Some (MF64 9223372036854775808)). split; [vm_compute; discriminate|reflexivity].
  - exists (TStruct 9 [mkField [83]%N true false [] [] (TSlice TInt)]), (Some (MStruct [MSlice None])).
    vm_compute. discriminate.
Qed.

(* ---- decode ---- *)
Lemma dec_unknown_lemma : forall (decv : cand -> mval -> item -> res mval) (o : opts) (t : fty) (fs : list cand) (v : mval) (name : str) (it : item) (rest : list (item * item)),
  (forall c, In c fs -> c_name c <> name) ->
  (o_error_if_no_field o = true -> is_err (dec_map_entries decv o KString t fs v ((IStr name, it) :: rest)) = true) /\
  (o_error_if_no_field o = false ->
   dec_map_entries decv o KString t fs v ((IStr name, it) :: rest) = dec_map_entries decv o KString t fs v rest).
Proof.
  intros decv o t fs v name it rest H. simpl. rewrite (search_unknown fs name H). unfold field_not_found.
  split; intro E; rewrite E; reflexivity.
Qed.

Lemma dec_arr_extra_lemma : forall (decv : cand -> mval -> item -> res mval) (o : opts) (t : fty) (fs : list cand) (v : mval) (j : nat) (it : item) (rest : list item),
  length fs <= j ->
  dec_arr_elems decv o t fs j v (it :: rest) =
  if o_error_if_no_field o then Err EOther else dec_arr_elems decv o t fs (S j) v rest.
Proof.
  intros decv o t fs v j it rest H. simpl.
  assert (E : nth_error fs j = None) by (apply nth_error_None; exact H). rewrite E.
  unfold field_not_found. destruct (o_error_if_no_field o); reflexivity.
Qed.

(* C16 — executable model of the IMPLEMENTATION (helper.go, encode.go, decode.go,
   helper_unsafe.go, helper_not_unsafe.go).  No proofs here.

   Mirrors: TypeInfos.structTag, parseStructFieldTag, parseStructInfo,
   reflect's FieldByName (used to find _struct), TypeInfos.rget (with the etypes /
   rgetMaxRecursion cut), typeInfo.resolve, typeInfo.init, the uint8To32TrieNode
   search trie (puts/gets), sfiSortedByEncName, structFieldInfo.fieldNoAlloc /
   fieldAlloc, isEmptyValue / isEmptyContainerValue in both build variants,
   encoder.kStruct / kStructSimple and decoder.kStruct / kStructField at the item
   level (field values are encoded / decoded by a parameter). *)
From Coq Require Import List NArith ZArith Arith Bool Lia.
From Verif Require Import Base.Outcome Wire.Item Gen.Consts C16.Spec.
Import ListNotations.

(* ------------------------------------------------------------------ *)
(* tags                                                               *)

(* strings.Split(s, ",") : always at least one element *)
Fixpoint split_comma (s : str) : list str :=
  match s with
  | [] => [[]]
  | c :: r =>
    if N.eqb c c_comma then [] :: split_comma r
    else match split_comma r with h :: t => (c :: h) :: t | [] => [[c]] end
  end.

(* TypeInfos.structTag with tags = ["codec"; "json"] (defTypeInfos): first non-empty *)
Definition struct_tag (f : field) : str :=
  fold_left (fun s x => match s with [] => x | _ => s end) [f_codec f; f_json f] [].

(* parseStructFieldTag *)
Definition parse_field_tag (stag : str) : str * bool :=
  match stag with
  | [] => ([], false)
  | _ => match split_comma stag with
         | [] => ([], false)
         | n :: opts => (n, fold_left (fun b s => if str_eqb s s_omitempty then true else b) opts false)
         end
  end.

(* parseStructInfo *)
Definition parse_struct_info (stag : str) : sopts :=
  let dflt := mkSopts false false KString in
  match stag with
  | [] => dflt
  | _ => match split_comma stag with
         | _ :: ss =>
           match ss with [] => dflt | _ :: _ =>
           fold_left (fun (a : sopts) s =>
                        if str_eqb s s_omitempty then mkSopts (so_toarray a) true (so_keytype a)
                        else if str_eqb s s_toarray then mkSopts true (so_omitempty a) (so_keytype a)
                        else if str_eqb s s_int then mkSopts (so_toarray a) (so_omitempty a) KInt
                        else if str_eqb s s_uint then mkSopts (so_toarray a) (so_omitempty a) KUint
                        else if str_eqb s s_float then mkSopts (so_toarray a) (so_omitempty a) KFloat
                        else if str_eqb s s_string then mkSopts (so_toarray a) (so_omitempty a) KString
                        else a) ss dflt end
         | _ => dflt
         end
  end.

(* ------------------------------------------------------------------ *)
(* reflect.Type.FieldByName("_struct")  (reflect/type.go: the direct scan of the
   type's own fields, then FieldByNameFunc: breadth first over embedded structs,
   a name seen twice at the shallowest level annihilates, a struct type reached by
   several routes at one level counts as "multiple") *)

Definition tid_of (t : fty) : N := match t with TStruct tid _ => tid | _ => 0%N end.

Fixpoint count_of (tid : N) (c : list (N * nat)) : nat :=
  match c with [] => 0 | (k, n) :: r => if N.eqb k tid then n else count_of tid r end.
Fixpoint set_count (tid : N) (n : nat) (c : list (N * nat)) : list (N * nat) :=
  match c with
  | [] => [(tid, n)]
  | (k, m) :: r => if N.eqb k tid then (k, n) :: r else (k, m) :: set_count tid n r
  end.
Definition mem_tid (tid : N) (l : list N) : bool := existsb (N.eqb tid) l.

(* embedded struct type behind at most one pointer (FieldByNameFunc dereferences once) *)
Definition embedded_struct (f : field) : option fty :=
  if f_anon f then
    match f_ty f with
    | TStruct _ _ as s => Some s
    | TPtr (TStruct _ _ as s) => Some s
    | _ => None
    end
  else None.

Inductive fbn := FbnNone | FbnFound (f : field) | FbnAmbiguous.

(* the scan of one struct's fields; (result, ok) threaded as [found] *)
Fixpoint fbn_fields (name : str) (fs : list field) (mult : bool) (found : option field)
         (next : list fty) (nextCount : list (N * nat)) : option (option field * list fty * list (N * nat)) :=
  (* None = annihilated *)
  match fs with
  | [] => Some (found, next, nextCount)
  | f :: r =>
    if str_eqb (f_name f) name then
      if mult || (match found with Some _ => true | None => false end) then None
      else fbn_fields name r mult (Some f) next nextCount
    else
      match found, embedded_struct f with
      | None, Some s =>
        let id := tid_of s in
        if 0 <? count_of id nextCount then fbn_fields name r mult found next (set_count id 2 nextCount)
        else fbn_fields name r mult found (next ++ [s]) (set_count id (if mult then 2 else 1) nextCount)
      | _, _ => fbn_fields name r mult found next nextCount
      end
  end.

Fixpoint fbn_level (name : str) (cur : list fty) (count : list (N * nat)) (visited : list N) (found : option field)
         (next : list fty) (nextCount : list (N * nat)) : option (option field * list fty * list (N * nat) * list N) :=
  match cur with
  | [] => Some (found, next, nextCount, visited)
  | t :: r =>
    let id := tid_of t in
    if mem_tid id visited then fbn_level name r count visited found next nextCount
    else match fbn_fields name (fields_of t) (1 <? count_of id count) found next nextCount with
         | None => None
         | Some (found', next', nc') => fbn_level name r count (id :: visited) found' next' nc'
         end
  end.

Fixpoint fbn_bfs (fuel : nat) (name : str) (next : list fty) (nextCount : list (N * nat)) (visited : list N) : res fbn :=
  match next with
  | [] => Ok FbnNone
  | _ =>
    match fuel with
    | O => OutOfFuel
    | S fuel' =>
      match fbn_level name next nextCount visited None [] [] with
      | None => Ok FbnAmbiguous
      | Some (Some f, _, _, _) => Ok (FbnFound f)
      | Some (None, next', nc', visited') => fbn_bfs fuel' name next' nc' visited'
      end
    end
  end.

Fixpoint ty_depth (t : fty) : nat :=
  match t with
  | TStruct _ fs => S ((fix go (fs : list field) : nat :=
                          match fs with [] => 0 | f :: r => Nat.max (match f with mkField _ _ _ _ _ ty => ty_depth ty end) (go r) end) fs)
  | TSlice e | TArr _ e | TPtr e => S (ty_depth e)
  | TMap k e => S (Nat.max (ty_depth k) (ty_depth e))
  | _ => 0
  end.

Definition field_by_name (name : str) (t : fty) : res fbn :=
  match find (fun f => str_eqb (f_name f) name) (fields_of t) with
  | Some f => Ok (FbnFound f)
  | None => fbn_bfs (S (ty_depth t)) name [t] [] []
  end.

(* TypeInfos.load, struct case: toArray, omitEmpty, keyType *)
Definition model_sopts (t : fty) : res sopts :=
  do r <- field_by_name s_struct t ;;
  Ok (match r with
      | FbnFound f => parse_struct_info (struct_tag f)
      | _ => mkSopts false false KString
      end).

(* ------------------------------------------------------------------ *)
(* TypeInfos.rget *)

Definition rgetMaxRecursion : nat := Z.to_nat Consts.rgetMaxRecursion.

(* (TypeInfos.load appends the root type itself before the first call; running the check on the
   empty list and appending has the same effect)
   for _, k := range pv.etypes { if k == ftid { numk++; if numk == rgetMaxRecursion { processIt = false; break } } } *)
Definition process_it (etypes : list N) (ftid : N) : bool :=
  negb (rgetMaxRecursion <=? length (filter (N.eqb ftid) etypes)).

(* the decisions rget takes for one field, in the order it takes them *)
Definition model_class (f : field) : fclass :=
  let ty := f_ty f in
  if is_func ty then FSkip                                              (* case reflect.Func, reflect.UnsafePointer *)
  else if negb (f_exported f) && negb (f_anon f) then FSkip             (* isUnexported && !f.Anonymous *)
  else
    let stag := struct_tag f in
    if str_eqb stag [c_dash] then FSkip
    else
      let ft := snd (strip_ptrs ty) in
      let regular :=
        (* after the anonymous dance *)
        if negb (f_exported f) || str_eqb (f_name f) [] || str_eqb (f_name f) s_struct then FSkip
        else
          let '(en, oe) := parse_field_tag stag in
          FRegular (match en with [] => f_name f | _ => en end) oe in
      if f_anon f && negb (is_iface ty) then
        if negb (f_exported f) && (negb (is_struct ft) || is_ptr ty) then FSkip
        else
          let do_inline := match stag with
                           | [] => true
                           | _ => match fst (parse_field_tag stag) with [] => true | _ => false end
                           end in
          if do_inline && is_struct ft then FInline else regular
      else regular.

(* pv.etypes holds the struct types on the current embedding path (it is popped when rget
   returns).  Result: whether some embedded struct was NOT processed (a type that embeds
   itself), and the fields appended to pv.sfis *)
Fixpoint rget (omitall : bool) (t : fty) (node : option (nat * nat)) (parents : list (nat * nat)) (etypes : list N)
         {struct t} : bool * list cand :=
  match t with
  | TPtr e => rget omitall e (bump node) parents etypes
  | TStruct tid fs =>
    if process_it etypes tid then
      let here := with_node parents node in
      let etypes' := etypes ++ [tid] in
      (fix go (fs : list field) (j : nat) {struct fs} : bool * list cand :=
         match fs with
         | [] => (false, [])
         | f :: r =>
           let '(cut1, out1) :=
             match f with
             | mkField _ _ _ _ _ ty =>
               match model_class f with
               | FSkip => (false, [])
               | FInline => rget omitall ty (Some (j, 0)) here etypes'
               | FRegular nm om =>
                 let '(nd, base) := strip_ptrs ty in
                 (false, [mkCand nm (omitall || om) (here ++ [(j, nd)]) base])
               end
             end in
           let '(cut2, out2) := go r (S j) in
           (cut1 || cut2, out1 ++ out2)
         end) fs 0
    else (true, [])
  | _ => (false, [])
  end.

(* ------------------------------------------------------------------ *)
(* typeInfo.resolve: ss maps a name to (index, depth) of the current holder; the
   result is the list of blanked indices (sf.encName = "") *)

Fixpoint ss_get (name : str) (ss : list (str * (nat * nat))) : option (nat * nat) :=
  match ss with [] => None | (k, v) :: r => if str_eqb k name then Some v else ss_get name r end.
Fixpoint ss_set (name : str) (v : nat * nat) (ss : list (str * (nat * nat))) : list (str * (nat * nat)) :=
  match ss with
  | [] => [(name, v)]
  | (k, w) :: r => if str_eqb k name then (k, v) :: r else (k, w) :: ss_set name v r
  end.

Fixpoint resolve_go (x : list (nat * cand)) (ss : list (str * (nat * nat))) (blank : list nat) : list nat :=
  match x with
  | [] => blank
  | (i, sf) :: r =>
    match ss_get (c_name sf) ss with
    | None => resolve_go r (ss_set (c_name sf) (i, c_depth sf) ss) blank
    | Some (j, dj) =>
      if c_depth sf <? dj                                  (* this one is shallower *)
      then resolve_go r (ss_set (c_name sf) (i, c_depth sf) ss) (j :: blank)
      else resolve_go r ss (i :: blank)
    end
  end.

(* typeInfo.init: keep the fields whose encName is not blank, in order *)
Definition init_source (x : list cand) (blank : list nat) : list cand :=
  map snd (filter (fun p => negb (existsb (Nat.eqb (fst p)) blank)) (number x)).

(* the field list of TypeInfos.get(rt).sfi.source() *)
Definition resolve_with (omitall : bool) (t : fty) : list cand :=
  let x := snd (rget omitall t None [] []) in
  init_source x (resolve_go (number x) [] []).

Definition rget_cut (omitall : bool) (t : fty) : bool := fst (rget omitall t None [] []).

Definition resolve (t : fty) : res (list cand) :=
  do so <- model_sopts t ;; Ok (resolve_with (so_omitempty so) t).

(* ------------------------------------------------------------------ *)
(* the search trie (uint8To32TrieNode) *)

Inductive trie := TNode (key : N) (value : N) (valid : bool) (kids : list trie).
Definition t_key (t : trie) := match t with TNode k _ _ _ => k end.
Definition t_kids (t : trie) := match t with TNode _ _ _ k => k end.
Definition trie_empty : trie := TNode 0 0 false [].

(* put: find the kid with this key or append a reset node; apply k to it *)
Fixpoint upd_kid (c : N) (k : trie -> trie) (kids : list trie) : list trie :=
  match kids with
  | [] => [k (TNode c 0 false [])]
  | x :: r => if N.eqb (t_key x) c then k x :: r else x :: upd_kid c k r
  end.

Fixpoint puts (x : trie) (s : str) (v : N) : trie :=
  match s with
  | [] => match x with TNode k _ _ kids => TNode k v true kids end
  | c :: r => match x with TNode k val ok kids => TNode k val ok (upd_kid c (fun kid => puts kid r v) kids) end
  end.

Fixpoint find_kid (c : N) (kids : list trie) : option trie :=
  match kids with [] => None | x :: r => if N.eqb (t_key x) c then Some x else find_kid c r end.

Fixpoint gets (x : trie) (s : str) : option N :=
  match s with
  | [] => match x with TNode _ v ok _ => if ok then Some v else None end
  | c :: r => match find_kid c (t_kids x) with Some kid => gets kid r | None => None end
  end.

(* structFieldInfos.loadSearchTrie / search *)
Definition build_trie (fs : list cand) : trie :=
  fold_left (fun t p => puts t (c_name (snd p)) (N.of_nat (fst p))) (number fs) trie_empty.
Definition search (fs : list cand) (name : str) : option cand :=
  match gets (build_trie fs) name with Some n => nth_error fs (N.to_nat n) | None => None end.

(* ------------------------------------------------------------------ *)
(* sfiSortedByEncName (Go string order = bytewise); sort.Sort is not stable, names are distinct *)
Fixpoint str_ltb (a b : str) : bool :=
  match a, b with
  | [], [] => false
  | [], _ :: _ => true
  | _ :: _, [] => false
  | x :: a', y :: b' => if N.ltb x y then true else if N.ltb y x then false else str_ltb a' b'
  end.
Fixpoint insert_by_name (c : cand) (l : list cand) : list cand :=
  match l with
  | [] => [c]
  | d :: r => if str_ltb (c_name d) (c_name c) then d :: insert_by_name c r else c :: l
  end.
Definition sort_by_name (l : list cand) : list cand := fold_right insert_by_name [] l.

(* ------------------------------------------------------------------ *)
(* values with their memory representation *)

Inductive mval :=
| MBool (b : bool) | MInt (z : Z) | MUint (n : N)
| MF32 (bits : N) | MF64 (bits : N)
| MStr (dnil : bool) (s : str)             (* data pointer is nil?, bytes *)
| MSlice (st : option (list mval))          (* None = nil slice *)
| MMap (st : option (list (mval * mval)))   (* None = nil map *)
| MPtr (p : option mval)
| MIface (p : option mval)
| MArr (l : list mval)
| MStruct (fs : list mval)                  (* one entry per declared field, in order *)
| MFunc (isnil : bool).

Fixpoint zero_of (t : fty) : mval :=
  match t with
  | TBool => MBool false | TInt => MInt 0 | TUint => MUint 0 | TF32 => MF32 0 | TF64 => MF64 0
  | TStr => MStr true [] | TSlice _ => MSlice None | TMap _ _ => MMap None | TPtr _ => MPtr None
  | TIface => MIface None | TFunc => MFunc true
  | TArr n e => MArr (repeat (zero_of e) n)
  | TStruct _ fs => MStruct ((fix go (fs : list field) : list mval :=
                                match fs with [] => [] | f :: r => (match f with mkField _ _ _ _ _ ty => zero_of ty end) :: go r end) fs)
  end.

(* structFieldInfoNode.rvField + numderef dereferences, no allocation *)
Fixpoint deref (nd : nat) (v : mval) : option mval :=
  match nd with
  | O => Some v
  | S n => match v with MPtr (Some x) => deref n x | _ => None end
  end.
Definition rv_field (v : mval) (j : nat) : option mval :=
  match v with MStruct fs => nth_error fs j | _ => None end.

(* fieldNoAlloc(v, base): None = the invalid reflect.Value *)
Fixpoint field_noalloc (path : list (nat * nat)) (v : mval) (base : bool) : option mval :=
  match path with
  | [] => None
  | [(j, nd)] =>
    match rv_field v j with
    | None => None
    | Some fv => match deref nd fv with None => None | Some b => Some (if base then b else fv) end
    end
  | (j, nd) :: r =>
    match rv_field v j with
    | None => None
    | Some fv => match deref nd fv with None => None | Some b => field_noalloc r b base end
    end
  end.

(* type of field j / after nd dereferences *)
Fixpoint deref_ty (nd : nat) (t : fty) : fty :=
  match nd with O => t | S n => match t with TPtr e => deref_ty n e | _ => t end end.
Definition field_ty (t : fty) (j : nat) : fty :=
  match nth_error (fields_of t) j with Some f => f_ty f | None => TFunc end.

Fixpoint set_nth {A} (l : list A) (j : nat) (x : A) : list A :=
  match l, j with
  | [], _ => []
  | _ :: r, O => x :: r
  | y :: r, S j' => y :: set_nth r j' x
  end.

(* rewrite the value behind nd pointers, allocating (reflect.New) where nil *)
Fixpoint upd_deref (nd : nat) (t : fty) (v : mval) (k : fty -> mval -> res mval) : res mval :=
  match nd with
  | O => k t v
  | S n =>
    match t, v with
    | TPtr e, MPtr (Some x) => do y <- upd_deref n e x k ;; Ok (MPtr (Some y))
    | TPtr e, MPtr None => do y <- upd_deref n e (zero_of e) k ;; Ok (MPtr (Some y))
    | _, _ => Err EOther
    end
  end.

(* fieldAlloc followed by a store of (k base) into the base value *)
Fixpoint upd_alloc (path : list (nat * nat)) (t : fty) (v : mval) (k : fty -> mval -> res mval) : res mval :=
  match path with
  | [] => Err EOther
  | (j, nd) :: r =>
    match v with
    | MStruct fs =>
      match nth_error fs j with
      | None => Err EOther
      | Some fv =>
        do fv' <- upd_deref nd (field_ty t j) fv (fun bt b => match r with [] => k bt b | _ => upd_alloc r bt b k end) ;;
        Ok (MStruct (set_nth fs j fv'))
      end
    | _ => Err EOther
    end
  end.

(* store without allocation (only reached when fieldNoAlloc found a valid base) *)
Fixpoint upd_noalloc (path : list (nat * nat)) (v : mval) (nv : mval) : mval :=
  let fix upd_d (nd : nat) (fv : mval) (k : mval -> mval) : mval :=
      match nd with
      | O => k fv
      | S n => match fv with MPtr (Some x) => MPtr (Some (upd_d n x k)) | _ => fv end
      end in
  match path with
  | [] => v
  | (j, nd) :: r =>
    match v with
    | MStruct fs =>
      match nth_error fs j with
      | None => v
      | Some fv => MStruct (set_nth fs j (upd_d nd fv (fun b => match r with [] => nv | _ => upd_noalloc r b nv end)))
      end
    | _ => v
    end
  end.

(* ------------------------------------------------------------------ *)
(* emptiness *)

(* unsafeCmpZero over the value's memory (padding is zero in values the harness builds) *)
Fixpoint memzero (v : mval) : bool :=
  match v with
  | MBool b => negb b
  | MInt z => Z.eqb z 0
  | MUint n | MF32 n | MF64 n => N.eqb n 0
  | MStr dnil s => dnil && match s with [] => true | _ => false end
  | MSlice st => match st with None => true | Some _ => false end
  | MMap st => match st with None => true | Some _ => false end
  | MPtr p | MIface p => match p with None => true | Some _ => false end
  | MArr l | MStruct l => forallb memzero l
  | MFunc n => n
  end.

Definition f32_is_zero (bits : N) : bool := N.eqb bits 0 || N.eqb bits 2147483648.           (* +0, -0 *)
Definition f64_is_zero (bits : N) : bool := N.eqb bits 0 || N.eqb bits 9223372036854775808.

(* helper_unsafe.go isEmptyValue / isEmptyValueFallbackRecur *)
Fixpoint empty_unsafe_rec (v : mval) : bool :=
  match v with
  | MStr _ s => match s with [] => true | _ => false end
  | MSlice st => match st with None => true | Some l => match l with [] => true | _ => false end end
  | MBool b => negb b
  | MInt z => Z.eqb z 0
  | MUint n => N.eqb n 0
  | MF32 b => f32_is_zero b
  | MF64 b => f64_is_zero b
  | MStruct _ => memzero v
  | MIface p | MPtr p => match p with None => true | Some x => empty_unsafe_rec x end
  | MMap st => match st with None => true | Some l => match l with [] => true | _ => false end end
  | MArr l => match l with [] => true | _ => memzero v end
  | MFunc _ => false
  end.
Definition is_empty_unsafe (recursive : bool) (v : option mval) : bool :=
  match v with
  | None => true
  | Some x => if recursive then empty_unsafe_rec x else memzero x
  end.
(* helper_unsafe.go isEmptyContainerValue *)
Definition is_empty_container_unsafe (recursive : bool) (v : option mval) : bool :=
  match v with
  | None => false            (* v.Kind() == Invalid: falls out of the switch *)
  | Some x =>
    match x with
    | MSlice st => match st with None => true | Some l => match l with [] => true | _ => false end end
    | MStruct _ => memzero x
    | MIface p | MPtr p => match p with None => true | Some y => if recursive then is_empty_unsafe true (Some y) else false end
    | MMap st => match st with None => true | Some l => match l with [] => true | _ => false end end
    | MArr l => match l with [] => true | _ => memzero x end
    | _ => false
    end
  end.

(* helper_not_unsafe.go.  Go's == against the zero value for comparable structs *)
Fixpoint comparable (t : fty) : bool :=
  match t with
  | TSlice _ | TMap _ _ | TFunc => false
  | TArr _ e => comparable e
  | TStruct _ fs => (fix go (fs : list field) : bool :=
                       match fs with [] => true | f :: r => (match f with mkField _ _ _ _ _ ty => comparable ty end) && go r end) fs
  | _ => true
  end.
Fixpoint eq_zero (v : mval) : bool :=
  match v with
  | MBool b => negb b | MInt z => Z.eqb z 0 | MUint n => N.eqb n 0
  | MF32 b => f32_is_zero b | MF64 b => f64_is_zero b
  | MStr _ s => match s with [] => true | _ => false end
  | MPtr p | MIface p => match p with None => true | Some _ => false end
  | MArr l | MStruct l => forallb eq_zero l
  | _ => false
  end.

Section SafeEmpty.
  (* resolved fields of a nested struct type (isEmptyStruct walks ti.sfi.source()) *)
  Variable fields_for : fty -> list cand.

  Fixpoint empty_safe (fuel : nat) (recursive : bool) (t : fty) (v : mval) : res bool :=
    match fuel with
    | O => OutOfFuel
    | S fuel' =>
      match v with
      | MStr _ s => Ok match s with [] => true | _ => false end
      | MArr l =>
        let et := match t with TArr _ e => e | _ => TFunc end in
        fold_left (fun (acc : res bool) x => do a <- acc ;; if a then empty_safe fuel' false et x else Ok false) l (Ok true)
      | MMap st => Ok match st with None => true | Some l => match l with [] => true | _ => false end end
      | MSlice st => Ok match st with None => true | Some l => match l with [] => true | _ => false end end
      | MBool b => Ok (negb b)
      | MInt z => Ok (Z.eqb z 0)
      | MUint n => Ok (N.eqb n 0)
      | MF32 b => Ok (f32_is_zero b)
      | MF64 b => Ok (f64_is_zero b)
      | MFunc n => Ok n
      | MPtr p =>
        match p with
        | None => Ok true
        | Some x => if recursive then empty_safe fuel' recursive (match t with TPtr e => e | _ => TFunc end) x else Ok false
        end
      | MIface p =>
        match p with
        | None => Ok true
        | Some x => if recursive then Err EUnsupported (* dynamic type not modelled *) else Ok false
        end
      | MStruct _ =>
        if comparable t then Ok (eq_zero v)
        else if negb recursive then Ok false
        else fold_left (fun (acc : res bool) c =>
                          do a <- acc ;;
                          if a then match field_noalloc (c_path c) v true with
                                    | None => Ok true
                                    | Some sfv => empty_safe fuel' recursive (c_ty c) sfv
                                    end
                          else Ok false) (fields_for t) (Ok true)
      end
    end.
End SafeEmpty.

(* ------------------------------------------------------------------ *)
(* options *)

Record opts := mkOpts {
  o_struct_to_array : bool;      (* EncodeOptions.StructToArray *)
  o_canonical : bool;            (* EncodeOptions.Canonical *)
  o_recursive_empty : bool;      (* EncodeOptions.RecursiveEmptyCheck *)
  o_safe : bool;                 (* build tag codec.safe (helper_not_unsafe.go) *)
  o_error_if_no_field : bool }.  (* DecodeOptions.ErrorIfNoField *)

Definition fields_for_model (t : fty) : list cand :=
  match resolve t with Ok l => l | _ => [] end.

Definition safe_fuel : nat := 64.

Definition is_empty_value (o : opts) (t : fty) (v : option mval) : res bool :=
  if o_safe o then
    match v with None => Ok true | Some x => empty_safe fields_for_model safe_fuel (o_recursive_empty o) t x end
  else Ok (is_empty_unsafe (o_recursive_empty o) v).

Definition is_empty_container_value (o : opts) (t : fty) (v : option mval) : res bool :=
  if o_safe o then
    match v with
    | None => Ok false
    | Some x =>
      match x with
      | MArr _ | MMap _ | MSlice _ | MStruct _ | MIface _ | MPtr _ =>
        empty_safe fields_for_model safe_fuel (o_recursive_empty o) t x
      | _ => Ok false
      end
    end
  else Ok (is_empty_container_unsafe (o_recursive_empty o) v).

(* ------------------------------------------------------------------ *)
(* strconv.ParseInt(s, 10, 64) / ParseUint / AppendInt / AppendUint for integer keys *)

Definition digit_of (c : N) : option Z := if (48 <=? c)%N && (c <=? 57)%N then Some (Z.of_N c - 48)%Z else None.
Fixpoint parse_digits (s : str) (acc : Z) : option Z :=
  match s with
  | [] => Some acc
  | c :: r => match digit_of c with Some d => parse_digits r (acc * 10 + d)%Z | None => None end
  end.
Definition parse_uint64 (s : str) : option N :=
  match s with
  | [] => None
  | _ => match parse_digits s 0 with Some z => if (z <? 2 ^ 64)%Z then Some (Z.to_N z) else None | None => None end
  end.
Definition parse_int64 (s : str) : option Z :=
  match s with
  | [] => None
  | c :: r =>
    let '(neg, ds) := if N.eqb c 45 then (true, r) else if N.eqb c 43 then (false, r) else (false, s) in
    match ds with
    | [] => None
    | _ => match parse_digits ds 0 with
           | Some z => if neg then (if (z <=? 2 ^ 63)%Z then Some (- z)%Z else None)
                       else (if (z <? 2 ^ 63)%Z then Some z else None)
           | None => None
           end
    end
  end.

Fixpoint digits_fuel (fuel : nat) (n : N) (acc : str) : str :=
  match fuel with
  | O => acc
  | S f => let acc' := (48 + n mod 10)%N :: acc in if (n <? 10)%N then acc' else digits_fuel f (n / 10)%N acc'
  end.
Definition append_uint (n : N) : str := digits_fuel 20 n [].
Definition append_int (z : Z) : str := if (z <? 0)%Z then 45%N :: append_uint (Z.to_N (- z)) else append_uint (Z.to_N z).

(* ------------------------------------------------------------------ *)
(* encoder.kStruct / kStructSimple at the item level *)

(* the declared type of the field (its own pointers put back) *)
Definition full_ty (c : cand) : fty :=
  Nat.iter (match last (c_path c) (0, 0) with (_, nd) => nd end) TPtr (c_ty c).

Section Codec.
  Variable encv : cand -> mval -> item.                 (* encodeValue / encodeIB of a valid field value *)
  Variable decv : cand -> mval -> item -> res mval.     (* decodeValue of a non-nil item into the base value of the field *)

  Definition enc_field (c : cand) (v : option mval) : item :=
    match v with None => INil | Some x => encv c x end.

  (* kStructFieldKey *)
  Definition enc_key (kt : ktype) (name : str) : res item :=
    match kt with
    | KString => Ok (IStr name)
    | KInt => match parse_int64 name with Some z => Ok (IInt z) | None => Err EOther end
    | KUint => match parse_uint64 name with Some n => Ok (IUint n) | None => Err EOther end
    | KFloat => Err EUnsupported     (* strconv.ParseFloat: not modelled *)
    end.

  (* typeInfo.init: simple (names that need json escaping also clear it; kStruct and
     kStructSimple then emit the same items) *)
  Definition is_simple (so : sopts) (fs : list cand) : bool :=
    match so_keytype so with KString => negb (existsb c_omit fs) | _ => false end.

  (* kStruct, toMap: pass 1 collects the fields that are not omitted *)
  Fixpoint kept_fields (o : opts) (v : mval) (fs : list cand) : res (list cand) :=
    match fs with
    | [] => Ok []
    | c :: r =>
      do skip <- (if c_omit c then is_empty_value o (full_ty c) (field_noalloc (c_path c) v false) else Ok false) ;;
      do rest <- kept_fields o v r ;;
      Ok (if skip then rest else c :: rest)
    end.
  (* pass 2 writes key and value *)
  Fixpoint enc_entries (kt : ktype) (v : mval) (fs : list cand) : res (list (item * item)) :=
    match fs with
    | [] => Ok []
    | c :: r =>
      do k <- enc_key kt (c_name c) ;;
      do rest <- enc_entries kt v r ;;
      Ok ((k, enc_field c (field_noalloc (c_path c) v false)) :: rest)
    end.

  (* kStruct, toArray *)
  Fixpoint enc_elems (o : opts) (v : mval) (fs : list cand) : res (list item) :=
    match fs with
    | [] => Ok []
    | c :: r =>
      let fv := field_noalloc (c_path c) v false in
      do asnil <- (if c_omit c then is_empty_container_value o (full_ty c) fv else Ok false) ;;
      do rest <- enc_elems o v r ;;
      Ok ((if asnil then INil else enc_field c fv) :: rest)
    end.

  Definition enc_struct_with (o : opts) (so : sopts) (fs : list cand) (v : mval) : res item :=
    if is_simple so fs then
      (* kStructSimple *)
      if so_toarray so || o_struct_to_array o
      then Ok (IArr (map (fun c => enc_field c (field_noalloc (c_path c) v false)) fs))
      else Ok (IMap (map (fun c => (IStr (c_name c), enc_field c (field_noalloc (c_path c) v false)))
                         (if o_canonical o then sort_by_name fs else fs)))
    else
      if so_toarray so || o_struct_to_array o
      then do l <- enc_elems o v fs ;; Ok (IArr l)
      else
        do kept <- kept_fields o v (if o_canonical o then sort_by_name fs else fs) ;;
        do l <- enc_entries (so_keytype so) v kept ;;
        Ok (IMap l).

  Definition enc_struct (o : opts) (t : fty) (v : mval) : res item :=
    do so <- model_sopts t ;;
    enc_struct_with o so (resolve_with (so_omitempty so) t) v.

  (* ---------------------------------------------------------------- *)
  (* decoder.kStructField *)
  Definition k_struct_field (t : fty) (c : cand) (v : mval) (it : item) : res mval :=
    match it with
    | INil =>                                       (* d.d.TryNil() *)
      match field_noalloc (c_path c) v true with
      | Some _ => Ok (upd_noalloc (c_path c) v (zero_of (c_ty c)))     (* decSetNonNilRV2Zero *)
      | None => Ok v
      end
    | _ => upd_alloc (c_path c) t v (fun _ b => decv c b it)
    end.

  (* the key of a stream map entry, as the bytes looked up in the trie *)
  Definition dec_key (kt : ktype) (k : item) : res str :=
    match kt, k with
    | KString, IStr s => Ok s
    | KString, IBytes s => Ok s
    | KString, INil => Ok []
    | KInt, IInt z => Ok (append_int z)
    | KInt, IUint n => if (n <? 2 ^ 63)%N then Ok (append_int (Z.of_N n)) else Err EOverflow
    | KUint, IUint n => Ok (append_uint n)
    | KUint, IInt z => if (0 <=? z)%Z then Ok (append_uint (Z.to_N z)) else Err EOverflow
    | KFloat, _ => Err EUnsupported
    | _, _ => Err EBadDesc
    end.

  (* structFieldNotFound *)
  Definition field_not_found (o : opts) (index : option nat) (name : str) : res unit :=
    if o_error_if_no_field o then
      Err EOther
    else Ok tt.

  Fixpoint dec_map_entries (o : opts) (kt : ktype) (t : fty) (fs : list cand) (v : mval) (m : list (item * item)) : res mval :=
    match m with
    | [] => Ok v
    | (k, it) :: r =>
      do name <- dec_key kt k ;;
      match search fs name with
      | Some c => do v' <- k_struct_field t c v it ;; dec_map_entries o kt t fs v' r
      | None => do _ <- field_not_found o None name ;; dec_map_entries o kt t fs v r
      end
    end.

  Fixpoint dec_arr_elems (o : opts) (t : fty) (fs : list cand) (j : nat) (v : mval) (l : list item) : res mval :=
    match l with
    | [] => Ok v
    | it :: r =>
      match nth_error fs j with
      | Some c => do v' <- k_struct_field t c v it ;; dec_arr_elems o t fs (S j) v' r
      | None => do _ <- field_not_found o (Some j) [] ;; dec_arr_elems o t fs (S j) v r
      end
    end.

  Definition dec_struct_with (o : opts) (so : sopts) (t : fty) (fs : list cand) (v : mval) (it : item) : res mval :=
    match it with
    | IMap m => dec_map_entries o (so_keytype so) t fs v m
    | IArr l => dec_arr_elems o t fs 0 v l
    | _ => Err EOther                          (* errNeedMapOrArrayDecodeToStruct *)
    end.

  Definition dec_struct (o : opts) (t : fty) (v : mval) (it : item) : res mval :=
    do so <- model_sopts t ;;
    dec_struct_with o so t (resolve_with (so_omitempty so) t) v it.
End Codec.

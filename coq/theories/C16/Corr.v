(* C16 — correspondence: evaluate the model on what the harness observed on the
   implementation (through /repo/codec/verif_hooks_c16.go and the public API) and
   report the ids of the cases that differ. *)
From Coq Require Import List NArith ZArith Arith Bool.
From Verif Require Import Base.Outcome Wire.Item C16.Spec C16.Model C16.Scratch.
Import ListNotations.

Definition path := list (nat * nat).

(* operations on the Encoder's scratch-list pool, driven through the hook: get(n); put(list a of capacity c) *)
Inductive pop := PGet (n : nat) | PPut (a : N) (c : nat).

Inductive case :=
| CFields (id : N) (t : fty) (toarray omit : bool) (kt : N)
          (source sorted : list (str * bool * path)) (probes : list (str * Z))
| CEmpty (id : N) (safe : bool) (t : fty) (v : mval) (e_nr e_r c_nr c_r : bool)
| CEnc (id : N) (o : opts) (t : fty) (v : mval) (leaves : list (path * item)) (obs : item)
| CDec (id : N) (o : opts) (t : fty) (v : mval) (stream : item) (results : list mval) (obs : option mval)
| CPool (id : N) (ops : list pop) (obs : list (N * nat * list (N * nat))).

Definition cid (c : case) : N :=
  match c with CFields i _ _ _ _ _ _ _ | CEmpty i _ _ _ _ _ _ _ | CEnc i _ _ _ _ _ | CDec i _ _ _ _ _ _ | CPool i _ _ => i end.

Definition path_eqb (a b : path) : bool :=
  (length a =? length b) && forallb (fun p => (fst (fst p) =? fst (snd p)) && (snd (fst p) =? snd (snd p))) (combine a b).

Definition kt_code (k : ktype) : N := match k with KString => 0 | KInt => 1 | KUint => 2 | KFloat => 3 end%N.

Definition sfi_eqb (c : cand) (o : str * bool * path) : bool :=
  let '(n, om, p) := o in str_eqb (c_name c) n && Bool.eqb (c_omit c) om && path_eqb (c_path c) p.

Fixpoint list_eqb {A B} (f : A -> B -> bool) (a : list A) (b : list B) : bool :=
  match a, b with
  | [], [] => true
  | x :: a', y :: b' => f x y && list_eqb f a' b'
  | _, _ => false
  end.

Fixpoint index_of (c : cand) (fs : list cand) (i : Z) : Z :=
  match fs with
  | [] => (-1)%Z
  | d :: r => if path_eqb (c_path c) (c_path d) then i else index_of c r (i + 1)%Z
  end.

(* item equality *)
Fixpoint item_eqb (a b : item) {struct a} : bool :=
  match a, b with
  | INil, INil => true
  | IBool x, IBool y => Bool.eqb x y
  | IInt x, IInt y => Z.eqb x y
  | IUint x, IUint y => N.eqb x y
  | IF32 x, IF32 y | IF64 x, IF64 y => N.eqb x y
  | IStr x, IStr y | IBytes x, IBytes y => str_eqb x y
  | IArr x, IArr y =>
    (fix go (x y : list item) : bool :=
       match x, y with [], [] => true | p :: x', q :: y' => item_eqb p q && go x' y' | _, _ => false end) x y
  | IMap x, IMap y =>
    (fix go (x y : list (item * item)) : bool :=
       match x, y with
       | [], [] => true
       | (k1, v1) :: x', (k2, v2) :: y' => item_eqb k1 k2 && item_eqb v1 v2 && go x' y'
       | _, _ => false
       end) x y
  | _, _ => false
  end.

(* mval equality (exact, memory representation included) *)
Fixpoint mval_eqb (a b : mval) {struct a} : bool :=
  let fix go (x y : list mval) : bool :=
      match x, y with [], [] => true | p :: x', q :: y' => mval_eqb p q && go x' y' | _, _ => false end in
  let opt (x y : option mval) : bool :=
      match x, y with None, None => true | Some p, Some q => mval_eqb p q | _, _ => false end in
  match a, b with
  | MBool x, MBool y => Bool.eqb x y
  | MInt x, MInt y => Z.eqb x y
  | MUint x, MUint y | MF32 x, MF32 y | MF64 x, MF64 y => N.eqb x y
  | MStr _ x, MStr _ y => str_eqb x y          (* data pointer of a decoded "" is not compared *)
  | MSlice None, MSlice None => true
  | MSlice (Some x), MSlice (Some y) => go x y
  | MMap None, MMap None => true
  | MMap (Some x), MMap (Some y) =>
    (fix gom (x y : list (mval * mval)) : bool :=
       match x, y with
       | [], [] => true
       | (k1, v1) :: x', (k2, v2) :: y' => mval_eqb k1 k2 && mval_eqb v1 v2 && gom x' y'
       | _, _ => false
       end) x y
  | MPtr x, MPtr y | MIface x, MIface y => opt x y
  | MArr x, MArr y | MStruct x, MStruct y => go x y
  | MFunc x, MFunc y => Bool.eqb x y
  | _, _ => false
  end.

Definition res_bool_is (r : res bool) (b : bool) : bool :=
  match r with Ok x => Bool.eqb x b | _ => false end.

Fixpoint lookup_leaf (p : path) (l : list (path * item)) : item :=
  match l with [] => IStr [] | (q, it) :: r => if path_eqb p q then it else lookup_leaf p r end.

(* the pool model run over a sequence of operations, from an empty pool: per operation the
   list handed out / handed back and the pool afterwards *)
Fixpoint run_ops (ops : list pop) (p : pool) (nx : N) : list (N * nat * list (N * nat)) :=
  match ops with
  | [] => []
  | PGet n :: r => let '(w, p', nx') := pool_get n p nx in (fst w, snd w, p') :: run_ops r p' nx'
  | PPut a c :: r => let p' := pool_put (a, c) p in (a, c, p') :: run_ops r p' nx
  end.

Definition slist_eqb (a b : N * nat) : bool := N.eqb (fst a) (fst b) && Nat.eqb (snd a) (snd b).

Definition check_case (c : case) : bool :=
  match c with
  | CFields _ t toarray omit kt source sorted probes =>
    match model_sopts t with
    | Ok so =>
      let fs := resolve_with (so_omitempty so) t in
      Bool.eqb (so_toarray so) toarray && Bool.eqb (so_omitempty so) omit && N.eqb (kt_code (so_keytype so)) kt
      && list_eqb sfi_eqb fs source
      && list_eqb sfi_eqb (sort_by_name fs) sorted
      && forallb (fun p => Z.eqb (match search fs (fst p) with Some c => index_of c fs 0 | None => (-1)%Z end) (snd p)) probes
    | _ => false
    end
  | CEmpty _ safe t v e_nr e_r c_nr c_r =>
    let o r := mkOpts false false r safe false in
    res_bool_is (is_empty_value (o false) t (Some v)) e_nr
    && res_bool_is (is_empty_value (o true) t (Some v)) e_r
    && res_bool_is (is_empty_container_value (o false) t (Some v)) c_nr
    && res_bool_is (is_empty_container_value (o true) t (Some v)) c_r
  | CEnc _ o t v leaves obs =>
    match enc_struct (fun c _ => lookup_leaf (c_path c) leaves) o t v with
    | Ok it => item_eqb it obs
    | _ => false
    end
  | CDec _ o t v stream results obs =>
    let decv (c : cand) (b : mval) (it : item) : res mval :=
        match it with
        | IUint n => match nth_error results (N.to_nat n) with Some m => Ok m | None => Err EOther end
        | _ => Ok b               (* an unknown key's value is skipped, never decoded into a field *)
        end in
    match dec_struct decv o t v stream, obs with
    | Ok m, Some m' => mval_eqb m m'
    | Err _, None => true
    | _, _ => false
    end
  | CPool _ ops obs =>
    list_eqb (fun m o => slist_eqb (fst m) (fst o) && list_eqb slist_eqb (snd m) (snd o)) (run_ops ops [] 0%N) obs
  end.

Definition mismatches (cs : list case) : list N :=
  map cid (filter (fun c => negb (check_case c)) cs).

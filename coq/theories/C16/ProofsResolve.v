(* C16 — typeInfo.resolve + init compute exactly the documented selection:
   a candidate survives iff no other candidate of the same name is shallower, or
   equally deep and declared earlier. *)
From Coq Require Import List NArith ZArith Arith Bool Lia Sorted.
From Verif Require Import Base.Outcome Wire.Item C16.Spec C16.Model C16.Proofs.
Import ListNotations.

Lemma ss_get_set_same : forall name v ss, ss_get name (ss_set name v ss) = Some v.
Proof.
  intros name v ss. induction ss as [|[k w] r IH]; simpl.
  - rewrite str_eqb_refl. reflexivity.
  - destruct (str_eqb k name) eqn:E; simpl; rewrite E; auto.
Qed.

Lemma ss_get_set_other : forall name name' v ss, name' <> name ->
  ss_get name' (ss_set name v ss) = ss_get name' ss.
Proof.
  intros name name' v ss H. induction ss as [|[k w] r IH]; simpl.
  - assert (E : str_eqb name name' = false) by (apply str_eqb_neq; congruence). rewrite E. reflexivity.
  - destruct (str_eqb k name) eqn:E; simpl.
    + apply str_eqb_eq in E. subst k.
      assert (E2 : str_eqb name name' = false) by (apply str_eqb_neq; congruence). rewrite E2. reflexivity.
    + destruct (str_eqb k name'); auto.
Qed.

Lemma nodup_app_l : forall {A} (l l' : list A), NoDup (l ++ l') -> NoDup l.
Proof.
  intros A l l'. induction l as [|a l IH]; simpl; intro H; constructor; inversion H as [|? ? Hn Hd]; subst.
  - intro Hi. apply Hn. apply in_or_app. left. exact Hi.
  - apply IH. exact Hd.
Qed.

Definition ic := (nat * cand)%type.
Definition nm (g : ic) : str := c_name (snd g).
Definition dp (g : ic) : nat := c_depth (snd g).

Lemma beats_iff : forall g f : ic,
  beats g f = true <-> nm g = nm f /\ (dp g < dp f \/ (dp g = dp f /\ fst g < fst f)).
Proof.
  intros g f. unfold beats, nm, dp. rewrite andb_true_iff, orb_true_iff, andb_true_iff.
  rewrite str_eqb_eq, !Nat.ltb_lt, Nat.eqb_eq. tauto.
Qed.

Ltac fin := unfold nm, dp in *; simpl fst in *; simpl snd in *; lia.

(* the loop invariant *)
Record inv (done : list ic) (ss : list (str * (nat * nat))) (blank : list nat) : Prop := {
  inv_win : forall name i d, ss_get name ss = Some (i, d) ->
            exists c, In (i, c) done /\ c_name c = name /\ c_depth c = d /\
                      forall g, In g done -> nm g = name -> g = (i, c) \/ beats (i, c) g = true;
  inv_has : forall g, In g done -> exists v, ss_get (nm g) ss = Some v;
  inv_blank : forall k, In k blank <-> exists c, In (k, c) done /\ exists g, In g done /\ beats g (k, c) = true }.

Lemma beats_irrefl : forall g, beats g g = false.
Proof.
  intro g. destruct (beats g g) eqn:E; [|reflexivity]. apply beats_iff in E. lia.
Qed.

Lemma resolve_go_inv : forall rest done ss blank,
  inv done ss blank ->
  (forall g, In g done -> forall h, In h rest -> fst g < fst h) ->
  NoDup (map fst (done ++ rest)) ->
  StronglySorted (fun a b : ic => fst a < fst b) rest ->
  exists ss', inv (done ++ rest) ss' (resolve_go rest ss blank).
Proof.
  induction rest as [|[i sf] r IH]; intros done ss blank I Hlt Hnd Hs.
  - rewrite app_nil_r. exists ss. exact I.
  - simpl resolve_go.
    assert (Hfresh : forall c, ~ In (i, c) done).
    { intros c Hc. specialize (Hlt _ Hc (i, sf) (or_introl eq_refl)). simpl in Hlt. lia. }
    assert (Hdone_lt : forall g, In g done -> fst g < i).
    { intros g Hg. apply (Hlt g Hg (i, sf)). left. reflexivity. }
    inversion Hs as [|? ? Hs' Hall]; subst.
    assert (Hnext : forall g, In g (done ++ [(i, sf)]) -> forall h, In h r -> fst g < fst h).
    { intros g Hg h Hh. apply in_app_or in Hg as [Hg|[<-|[]]].
      - apply Hlt; [exact Hg|right; exact Hh].
      - rewrite Forall_forall in Hall. apply Hall. exact Hh. }
    assert (Hnd' : NoDup (map fst ((done ++ [(i, sf)]) ++ r))).
    { rewrite <- app_assoc. exact Hnd. }
    replace (done ++ (i, sf) :: r) with ((done ++ [(i, sf)]) ++ r) by (rewrite <- app_assoc; reflexivity).
    destruct (ss_get (c_name sf) ss) as [[j dj]|] eqn:Eg.
    + (* the name is held by (j, cj) *)
      destruct (inv_win _ _ _ I _ _ _ Eg) as (cj & Hinj & Hnj & Hdj & Hbest).
      assert (Hj_lt : j < i) by (apply (Hdone_lt (j, cj)); exact Hinj).
      destruct (c_depth sf <? dj) eqn:Ed.
      * (* the new one is shallower: it takes the name, the old holder is blanked *)
        apply Nat.ltb_lt in Ed.
        apply IH; try assumption.
        constructor.
        -- intros name i0 d0 Hget.
           destruct (str_eqb name (c_name sf)) eqn:En.
           ++ apply str_eqb_eq in En. subst name. rewrite ss_get_set_same in Hget. injection Hget as <- <-.
              exists sf. split; [apply in_or_app; right; left; reflexivity|]. split; [reflexivity|]. split; [reflexivity|].
              intros g Hg Hn. apply in_app_or in Hg as [Hg|[<-|[]]]; [|left; reflexivity].
              right. apply beats_iff. split; [unfold nm at 1; simpl; symmetry; exact Hn|].
              left. unfold dp at 1. simpl.
              destruct (Hbest g Hg Hn) as [->|Hb].
              ** fin.
              ** apply beats_iff in Hb. fin.
           ++ apply str_eqb_neq in En. rewrite ss_get_set_other in Hget by exact En.
              destruct (inv_win _ _ _ I _ _ _ Hget) as (c & Hin & Hn & Hd & Hb).
              exists c. split; [apply in_or_app; left; exact Hin|]. split; [exact Hn|]. split; [exact Hd|].
              intros g Hg Hng. apply in_app_or in Hg as [Hg|[<-|[]]]; [apply Hb; assumption|].
              unfold nm in Hng. simpl in Hng. congruence.
        -- intros g Hg. apply in_app_or in Hg as [Hg|[<-|[]]].
           ++ destruct (str_eqb (nm g) (c_name sf)) eqn:En.
              ** apply str_eqb_eq in En. rewrite En, ss_get_set_same. eauto.
              ** apply str_eqb_neq in En. rewrite ss_get_set_other by exact En. apply (inv_has _ _ _ I). exact Hg.
           ++ unfold nm. simpl. rewrite ss_get_set_same. eauto.
        -- intro k. split.
           ++ intros [<-|Hk].
              ** exists cj. split; [apply in_or_app; left; exact Hinj|].
                 exists (i, sf). split; [apply in_or_app; right; left; reflexivity|].
                 apply beats_iff. unfold nm, dp. simpl. split; [congruence|]. left. lia.
              ** apply (inv_blank _ _ _ I) in Hk as (c & Hc & g & Hg & Hb).
                 exists c. split; [apply in_or_app; left; exact Hc|]. exists g. split; [apply in_or_app; left; exact Hg|exact Hb].
           ++ intros (c & Hc & g & Hg & Hb).
              apply in_app_or in Hc as [Hc|[Hc|[]]]; apply in_app_or in Hg as [Hg|[Hg|[]]].
              ** right. apply (inv_blank _ _ _ I). eauto.
              ** subst g. apply beats_iff in Hb as [Hn Hb]. unfold nm, dp in Hn, Hb. simpl in Hn, Hb.
                 destruct (Hbest (k, c) Hc (eq_sym Hn)) as [E|Hb2].
                 --- injection E as -> ->. left. reflexivity.
                 --- right. apply (inv_blank _ _ _ I). exists c. split; [exact Hc|]. exists (j, cj). split; assumption.
              ** injection Hc as <- <-. exfalso.
                 apply beats_iff in Hb as [Hn Hb]. unfold nm, dp in Hn, Hb. simpl in Hn, Hb.
                 destruct (Hbest g Hg Hn) as [->|Hb2].
                 --- simpl in Hb. lia.
                 --- apply beats_iff in Hb2. unfold nm, dp in Hb2. simpl in Hb2. lia.
              ** subst g. injection Hc as <- <-. rewrite beats_irrefl in Hb. discriminate.
      * (* the holder stays: the new one is blanked *)
        apply Nat.ltb_ge in Ed.
        apply IH; try assumption.
        constructor.
        -- intros name i0 d0 Hget.
           destruct (inv_win _ _ _ I _ _ _ Hget) as (c & Hin & Hn & Hd & Hb).
           exists c. split; [apply in_or_app; left; exact Hin|]. split; [exact Hn|]. split; [exact Hd|].
           intros g Hg Hng. apply in_app_or in Hg as [Hg|[<-|[]]]; [apply Hb; assumption|].
           unfold nm in Hng. simpl in Hng. rewrite <- Hng in Hget. rewrite Eg in Hget. injection Hget as <- <-.
           right. apply beats_iff. unfold nm, dp. simpl. split; [congruence|].
           assert (c = cj).
           { assert (Hndd : NoDup (map fst done)).
             { rewrite map_app in Hnd. apply nodup_app_l in Hnd. exact Hnd. }
             clear - Hin Hinj Hndd. induction done as [|[a b] l IHl]; [destruct Hin|].
             simpl in Hndd. inversion Hndd as [|? ? Hni Hnd2]; subst.
             destruct Hin as [E1|Hin]; destruct Hinj as [E2|Hinj].
             - congruence.
             - injection E1 as -> ->. exfalso. apply Hni. apply (in_map fst) in Hinj. exact Hinj.
             - injection E2 as -> ->. exfalso. apply Hni. apply (in_map fst) in Hin. exact Hin.
             - auto. }
           subst c. lia.
        -- intros g Hg. apply in_app_or in Hg as [Hg|[<-|[]]].
           ++ apply (inv_has _ _ _ I). exact Hg.
           ++ unfold nm. simpl. eauto.
        -- intro k. split.
           ++ intros [<-|Hk].
              ** exists sf. split; [apply in_or_app; right; left; reflexivity|].
                 exists (j, cj). split; [apply in_or_app; left; exact Hinj|].
                 apply beats_iff. unfold nm, dp. simpl. split; [exact Hnj|]. lia.
              ** apply (inv_blank _ _ _ I) in Hk as (c & Hc & g & Hg & Hb).
                 exists c. split; [apply in_or_app; left; exact Hc|]. exists g. split; [apply in_or_app; left; exact Hg|exact Hb].
           ++ intros (c & Hc & g & Hg & Hb).
              apply in_app_or in Hc as [Hc|[Hc|[]]]; apply in_app_or in Hg as [Hg|[Hg|[]]].
              ** right. apply (inv_blank _ _ _ I). eauto.
              ** subst g. apply beats_iff in Hb as [Hn Hb]. unfold nm, dp in Hn, Hb. simpl in Hn, Hb.
                 specialize (Hdone_lt _ Hc). simpl in Hdone_lt.
                 destruct (Hbest (k, c) Hc (eq_sym Hn)) as [E|Hb2].
                 --- injection E as -> ->. exfalso. lia.
                 --- right. apply (inv_blank _ _ _ I). exists c. split; [exact Hc|]. exists (j, cj). split; assumption.
              ** injection Hc as <- <-. left. reflexivity.
              ** subst g. injection Hc as <- <-. rewrite beats_irrefl in Hb. discriminate.
    + (* first field of this name *)
      assert (Hnone : forall g, In g done -> nm g <> c_name sf).
      { intros g Hg Hn. destruct (inv_has _ _ _ I g Hg) as [v Hv]. rewrite Hn, Eg in Hv. discriminate. }
      apply IH; try assumption.
      constructor.
      * intros name i0 d0 Hget.
        destruct (str_eqb name (c_name sf)) eqn:En.
        -- apply str_eqb_eq in En. subst name. rewrite ss_get_set_same in Hget. injection Hget as <- <-.
           exists sf. split; [apply in_or_app; right; left; reflexivity|]. split; [reflexivity|]. split; [reflexivity|].
           intros g Hg Hn. apply in_app_or in Hg as [Hg|[<-|[]]]; [|left; reflexivity].
           exfalso. exact (Hnone g Hg Hn).
        -- apply str_eqb_neq in En. rewrite ss_get_set_other in Hget by exact En.
           destruct (inv_win _ _ _ I _ _ _ Hget) as (c & Hin & Hn & Hd & Hb).
           exists c. split; [apply in_or_app; left; exact Hin|]. split; [exact Hn|]. split; [exact Hd|].
           intros g Hg Hng. apply in_app_or in Hg as [Hg|[<-|[]]]; [apply Hb; assumption|].
           unfold nm in Hng. simpl in Hng. congruence.
      * intros g Hg. apply in_app_or in Hg as [Hg|[<-|[]]].
        -- destruct (str_eqb (nm g) (c_name sf)) eqn:En.
           ++ apply str_eqb_eq in En. rewrite En, ss_get_set_same. eauto.
           ++ apply str_eqb_neq in En. rewrite ss_get_set_other by exact En. apply (inv_has _ _ _ I). exact Hg.
        -- unfold nm. simpl. rewrite ss_get_set_same. eauto.
      * intro k. split.
        -- intro Hk. apply (inv_blank _ _ _ I) in Hk as (c & Hc & g & Hg & Hb).
           exists c. split; [apply in_or_app; left; exact Hc|]. exists g. split; [apply in_or_app; left; exact Hg|exact Hb].
        -- intros (c & Hc & g & Hg & Hb).
           apply in_app_or in Hc as [Hc|[Hc|[]]]; apply in_app_or in Hg as [Hg|[Hg|[]]].
           ++ apply (inv_blank _ _ _ I). eauto.
           ++ subst g. apply beats_iff in Hb as [Hn _]. unfold nm in Hn at 1. simpl in Hn. exfalso. exact (Hnone _ Hc (eq_sym Hn)).
           ++ injection Hc as <- <-. apply beats_iff in Hb as [Hn _]. unfold nm in Hn at 2. simpl in Hn. exfalso. exact (Hnone _ Hg Hn).
           ++ subst g. injection Hc as <- <-. rewrite beats_irrefl in Hb. discriminate.
Qed.

Lemma number_sorted : forall {A} (l : list A) s,
  StronglySorted (fun a b : nat * A => fst a < fst b) (combine (seq s (length l)) l).
Proof.
  intros A l. induction l as [|x r IH]; intro s; simpl; constructor.
  - apply IH.
  - apply Forall_forall. intros [k y] Hin. apply in_combine_l in Hin. apply in_seq in Hin. simpl. lia.
Qed.

Lemma number_fst : forall {A} (l : list A), map fst (number l) = seq 0 (length l).
Proof.
  intros A l. unfold number. generalize 0. induction l as [|x r IH]; intro s; simpl; [reflexivity|].
  rewrite IH. reflexivity.
Qed.

Theorem resolve_is_select : forall x : list cand,
  init_source x (resolve_go (number x) [] []) = select x.
Proof.
  intro x. unfold init_source, select. f_equal.
  destruct (resolve_go_inv (number x) [] [] []) as [ss' I].
  - constructor.
    + intros name i d H. simpl in H. discriminate.
    + intros g [].
    + intro k. split; [intros []|]. intros (c & [] & _).
  - intros g [].
  - simpl. rewrite number_fst. apply seq_NoDup.
  - apply number_sorted.
  - simpl app in I. apply filter_ext_in. intros [k c] Hin. f_equal.
    destruct (existsb (Nat.eqb k) (resolve_go (number x) [] [])) eqn:E1; simpl fst in *; rewrite E1.
    + apply existsb_exists in E1 as (k' & Hk & Ek). apply Nat.eqb_eq in Ek. subst k'.
      apply (inv_blank _ _ _ I) in Hk as (c' & Hc' & g & Hg & Hb).
      assert (c' = c).
      { assert (Hnd : NoDup (map fst (number x))) by (rewrite number_fst; apply seq_NoDup).
        clear - Hin Hc' Hnd. induction (number x) as [|[a b] l IHl]; [destruct Hin|].
        simpl in Hnd. inversion Hnd as [|? ? Hni Hnd2]; subst.
        destruct Hin as [E1|Hin]; destruct Hc' as [E2|Hc'].
        - congruence.
        - injection E1 as -> ->. exfalso. apply Hni. apply (in_map fst) in Hc'. exact Hc'.
        - injection E2 as -> ->. exfalso. apply Hni. apply (in_map fst) in Hin. exact Hin.
        - auto. }
      subst c'. symmetry. apply existsb_exists. exists g. split; assumption.
    + symmetry. destruct (existsb (fun g => beats g (k, c)) (number x)) eqn:E2; [|reflexivity].
      apply existsb_exists in E2 as (g & Hg & Hb).
      assert (Hk : In k (resolve_go (number x) [] [])).
      { apply (inv_blank _ _ _ I). exists c. split; [exact Hin|]. exists g. split; assumption. }
      assert (E : existsb (Nat.eqb k) (resolve_go (number x) [] []) = true).
      { apply existsb_exists. exists k. split; [exact Hk|apply Nat.eqb_refl]. }
      rewrite E in E1. discriminate.
Qed.

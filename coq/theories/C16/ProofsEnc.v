(* C16 — the kStruct loops produce the documented map / array; decoding looks names up
   exactly; omitempty agrees with the documented emptiness on plain values. *)
From Coq Require Import List NArith ZArith Arith Bool Lia.
From Verif Require Import Base.Outcome Wire.Item C16.Spec C16.Model C16.SpecEnc C16.Proofs C16.ProofsResolve C16.ProofsTrie.
Import ListNotations.

Section Enc.
  Variable encv : cand -> mval -> item.
  Variable decv : cand -> mval -> item -> res mval.

  Definition agree_map (o : opts) (v : mval) (fs : list cand) : Prop :=
    forall c, In c fs -> c_omit c = true -> is_empty_value o (full_ty c) (fval c v) = Ok (doc_empty (fval c v)).
  Definition agree_arr (o : opts) (v : mval) (fs : list cand) : Prop :=
    forall c, In c fs -> c_omit c = true ->
      is_empty_container_value o (full_ty c) (fval c v) = Ok (doc_empty (fval c v) && is_container (fval c v)).

  Lemma kept_spec : forall o v fs, agree_map o v fs -> kept_fields o v fs = Ok (spec_kept fs v).
  Proof.
    intros o v fs. induction fs as [|c r IH]; intro H; [reflexivity|].
    simpl. assert (Hr : agree_map o v r) by (intros d Hd; apply H; right; exact Hd).
    rewrite (IH Hr). unfold fval in *.
    destruct (c_omit c) eqn:Eo.
    - pose proof (H c (or_introl eq_refl) Eo) as Hc. unfold fval in Hc. rewrite Hc. simpl. destruct (doc_empty _); reflexivity.
    - simpl. reflexivity.
  Qed.

  Lemma entries_spec : forall kt v fs, enc_entries encv kt v fs = spec_entries encv kt v fs.
  Proof. intros kt v fs. induction fs as [|c r IH]; [reflexivity|]. simpl. rewrite IH. reflexivity. Qed.

  Lemma elems_spec : forall o v fs, agree_arr o v fs -> enc_elems encv o v fs = Ok (map (fun c => spec_elem encv c v) fs).
  Proof.
    intros o v fs. induction fs as [|c r IH]; intro H; [reflexivity|].
    simpl. assert (Hr : agree_arr o v r) by (intros d Hd; apply H; right; exact Hd).
    rewrite (IH Hr). unfold spec_elem, enc_fval, fval in *.
    destruct (c_omit c) eqn:Eo.
    - pose proof (H c (or_introl eq_refl) Eo) as Hc. unfold fval in Hc. rewrite Hc. simpl. reflexivity.
    - simpl. reflexivity.
  Qed.

  Lemma no_omit_kept : forall fs v, existsb c_omit fs = false -> spec_kept fs v = fs.
  Proof.
    intros fs v. induction fs as [|c r IH]; intro H; [reflexivity|].
    simpl in H. apply orb_false_iff in H as [H1 H2]. simpl. rewrite H1. simpl. rewrite (IH H2). reflexivity.
  Qed.

  Lemma no_omit_elems : forall fs v, existsb c_omit fs = false ->
    map (fun c => spec_elem encv c v) fs = map (fun c => enc_field encv c (field_noalloc (c_path c) v false)) fs.
  Proof.
    intros fs v. induction fs as [|c r IH]; intro H; [reflexivity|].
    simpl in H. apply orb_false_iff in H as [H1 H2]. simpl. rewrite (IH H2). unfold spec_elem. rewrite H1. reflexivity.
  Qed.

  Lemma string_entries : forall v fs,
    spec_entries encv KString v fs = Ok (map (fun c => (IStr (c_name c), enc_fval encv c v)) fs).
  Proof. intros v fs. induction fs as [|c r IH]; [reflexivity|]. simpl. rewrite IH. reflexivity. Qed.

  Lemma existsb_sorted : forall fs, existsb c_omit (sort_by_name fs) = existsb c_omit fs.
  Proof.
    assert (Hi : forall c l, existsb c_omit (insert_by_name c l) = c_omit c || existsb c_omit l).
    { intros c l. induction l as [|d r IH]; [reflexivity|]. simpl. destruct (str_ltb (c_name d) (c_name c)); simpl.
      - rewrite IH. destruct (c_omit c), (c_omit d); reflexivity.
      - reflexivity. }
    induction fs as [|c r IH]; [reflexivity|]. simpl. rewrite Hi, IH. reflexivity.
  Qed.

  Theorem enc_struct_spec : forall o so fs v,
    let order := if o_canonical o then sort_by_name fs else fs in
    agree_map o v order -> agree_arr o v fs ->
    enc_struct_with encv o so fs v = spec_enc encv (so_toarray so || o_struct_to_array o) (so_keytype so) order fs v.
  Proof.
    intros o so fs v order Hm Ha. unfold enc_struct_with, spec_enc.
    destruct (is_simple so fs) eqn:Es.
    - unfold is_simple in Es. destruct (so_keytype so) eqn:Ek; try discriminate. apply negb_true_iff in Es.
      destruct (so_toarray so || o_struct_to_array o).
      + rewrite no_omit_elems by exact Es. reflexivity.
      + fold order. assert (Eo : existsb c_omit order = false).
        { subst order. destruct (o_canonical o); [rewrite existsb_sorted|]; exact Es. }
        rewrite no_omit_kept by exact Eo. rewrite string_entries. reflexivity.
    - destruct (so_toarray so || o_struct_to_array o).
      + rewrite elems_spec by exact Ha. reflexivity.
      + fold order. rewrite kept_spec by exact Hm. simpl. rewrite entries_spec. reflexivity.
  Qed.

  (* ---- decode ---- *)
  Lemma search_is_find : forall fs name, NoDup (map c_name fs) ->
    search fs name = find (fun c => str_eqb (c_name c) name) fs.
  Proof.
    intros fs name Hnd. destruct (find _ fs) as [c|] eqn:E.
    - apply find_some in E as [Hin En]. apply str_eqb_eq in En. subst name. apply search_finds; assumption.
    - apply search_unknown. intros c Hin En. apply (find_none _ _ E) in Hin. subst name. rewrite str_eqb_refl in Hin. discriminate.
  Qed.

  (* with the names distinct (they are, after resolve) the map loop is the documented one,
     and an unknown key is an error exactly when ErrorIfNoField is set *)
  Theorem dec_map_spec : forall o kt t fs, NoDup (map c_name fs) -> forall m v,
    dec_map_entries decv o kt t fs v m = spec_dec_map decv (o_error_if_no_field o) kt t fs v m.
  Proof.
    intros o kt t fs Hnd. induction m as [|[k it] r IH]; intro v; [reflexivity|].
    simpl. destruct (dec_key kt k) as [name| |]; simpl; try reflexivity.
    rewrite search_is_find by exact Hnd.
    destruct (find _ fs) as [c|].
    - unfold k_struct_field, spec_set_field.
      destruct (match it with INil => _ | _ => _ end) as [v'| |]; simpl; auto.
    - unfold field_not_found. destruct (o_error_if_no_field o); simpl; auto.
  Qed.
End Enc.

(* ---- omitempty on plain values, default build (unsafe), RecursiveEmptyCheck off ---- *)

(* memory shapes on which unsafeCmpZero and the documentation disagree *)
Fixpoint plain_in (v : mval) : bool :=
  match v with
  | MF32 b => negb (N.eqb b 2147483648)
  | MF64 b => negb (N.eqb b 9223372036854775808)
  | MStr dnil s => match s with [] => dnil | _ => true end
  | MArr l | MStruct l => forallb plain_in l
  | _ => true
  end.
Definition plain_top (v : option mval) : bool :=
  match v with
  | None => true
  | Some x => plain_in x && negb (match x with MSlice (Some []) | MMap (Some []) => true | _ => false end)
  end.

Section MvalInd.
  Variable P : mval -> Prop.
  Hypothesis Hleaf : forall v, (forall l, v <> MArr l) -> (forall l, v <> MStruct l) -> P v.
  Hypothesis Harr : forall l, Forall P l -> P (MArr l).
  Hypothesis Hstruct : forall l, Forall P l -> P (MStruct l).
  Fixpoint mval_ind' (v : mval) : P v.
  Proof.
    destruct v; try (apply Hleaf; intros; discriminate).
    - apply Harr. induction l as [|x r IH]; constructor; [apply mval_ind'|exact IH].
    - apply Hstruct. induction fs as [|x r IH]; constructor; [apply mval_ind'|exact IH].
  Defined.
End MvalInd.

Lemma memzero_doc_zero : forall v, plain_in v = true -> memzero v = doc_zero v.
Proof.
  induction v as [v Ha Hs|l IH|l IH] using mval_ind'; intro Hp.
  - destruct v; simpl in *; try reflexivity.
    + unfold f32_is_zero. apply negb_true_iff in Hp. rewrite Hp, orb_false_r. reflexivity.
    + unfold f64_is_zero. apply negb_true_iff in Hp. rewrite Hp, orb_false_r. reflexivity.
    + destruct s; [rewrite Hp; reflexivity|rewrite andb_false_r; reflexivity].
    + exfalso. eapply Ha. reflexivity.
    + exfalso. eapply Hs. reflexivity.
  - simpl in *. induction l as [|x r IHr]; [reflexivity|].
    simpl in *. apply andb_true_iff in Hp as [H1 H2]. inversion IH; subst. f_equal; auto.
  - simpl in *. induction l as [|x r IHr]; [reflexivity|].
    simpl in *. apply andb_true_iff in Hp as [H1 H2]. inversion IH; subst. f_equal; auto.
Qed.

Theorem omit_unsafe_plain : forall fv, plain_top fv = true ->
  is_empty_unsafe false fv = doc_empty fv.
Proof.
  intros [x|] Hp; [|reflexivity]. simpl in *. apply andb_true_iff in Hp as [H1 H2].
  rewrite (memzero_doc_zero x H1).
  destruct x; simpl in *; try (rewrite orb_false_r; reflexivity).
  - destruct s; reflexivity.
  - destruct st as [[|]|]; simpl in *; try reflexivity; discriminate.
  - destruct st as [[|]|]; simpl in *; try reflexivity; discriminate.
  - destruct l; simpl; [reflexivity|rewrite orb_false_r; reflexivity].
Qed.

Theorem omit_arr_unsafe_plain : forall fv, plain_top fv = true ->
  is_empty_container_unsafe false fv = doc_empty fv && is_container fv.
Proof.
  intros [x|] Hp; [|reflexivity]. simpl in Hp. apply andb_true_iff in Hp as [H1 H2].
  destruct x; simpl in *; try (rewrite andb_false_r; reflexivity).
  - destruct st as [[|]|]; reflexivity.
  - destruct st as [[|]|]; reflexivity.
  - destruct p; reflexivity.
  - destruct p; reflexivity.
  - destruct l as [|a l]; [reflexivity|]. rewrite orb_false_r, andb_true_r.
    change (memzero (MArr (a :: l)) = doc_zero (MArr (a :: l))). apply memzero_doc_zero. exact H1.
  - rewrite orb_false_r, andb_true_r. change (memzero (MStruct fs) = doc_zero (MStruct fs)). apply memzero_doc_zero. exact H1.
Qed.

(* C16 — SPECIFICATION of what a struct value encodes to / decodes from, written from
   the Encode / Decode doc comments.  Uses only the value datatype [mval] and the field
   accessor of Model.v (data, not behaviour). *)
From Coq Require Import List NArith ZArith Arith Bool Lia.
From Verif Require Import Base.Outcome Wire.Item C16.Spec C16.Model.
Import ListNotations.

(* "The empty values (for omitempty option) are false, 0, any nil pointer or interface
   value, and any array, slice, map, or string of length zero." / "the field is empty
   (empty or the zero value)".  -0.0 is 0. *)
Fixpoint doc_zero (v : mval) : bool :=
  match v with
  | MBool b => negb b
  | MInt z => Z.eqb z 0
  | MUint n => N.eqb n 0
  | MF32 b => f32_is_zero b
  | MF64 b => f64_is_zero b
  | MStr _ s => match s with [] => true | _ => false end
  | MSlice st => match st with None => true | Some _ => false end
  | MMap st => match st with None => true | Some _ => false end
  | MPtr p | MIface p => match p with None => true | Some _ => false end
  | MArr l | MStruct l => forallb doc_zero l
  | MFunc n => n
  end.

Definition len_zero (v : mval) : bool :=
  match v with
  | MSlice (Some []) | MMap (Some []) | MArr [] | MStr _ [] => true
  | _ => false
  end.

(* a field whose path crosses a nil embedded pointer has no value: it is empty *)
Definition doc_empty (v : option mval) : bool :=
  match v with None => true | Some x => doc_zero x || len_zero x end.

Definition is_container (v : option mval) : bool :=
  match v with
  | Some (MSlice _) | Some (MMap _) | Some (MArr _) | Some (MStruct _) | Some (MPtr _) | Some (MIface _) => true
  | _ => false
  end.

Section SpecCodec.
  Variable encv : cand -> mval -> item.
  Variable decv : cand -> mval -> item -> res mval.

  Definition fval (c : cand) (v : mval) : option mval := field_noalloc (c_path c) v false.
  Definition enc_fval (c : cand) (v : mval) : item := match fval c v with None => INil | Some x => encv c x end.

  (* "Each exported struct field is encoded unless … the field is empty and its tag specifies
     the omitempty option" *)
  Definition spec_kept (fs : list cand) (v : mval) : list cand :=
    filter (fun c => negb (c_omit c && doc_empty (fval c v))) fs.

  (* map keys: "the first string in the tag … is the map key string"; with the int / uint
     option on _struct the key names are encoded as integers *)
  Definition spec_key (kt : ktype) (name : str) : res item :=
    match kt with
    | KString => Ok (IStr name)
    | KInt => match parse_int64 name with Some z => Ok (IInt z) | None => Err EOther end
    | KUint => match parse_uint64 name with Some n => Ok (IUint n) | None => Err EOther end
    | KFloat => Err EUnsupported
    end.

  Fixpoint spec_entries (kt : ktype) (v : mval) (fs : list cand) : res (list (item * item)) :=
    match fs with
    | [] => Ok []
    | c :: r => do k <- spec_key kt (c_name c) ;; do rest <- spec_entries kt v r ;; Ok ((k, enc_fval c v) :: rest)
    end.

  (* array mode: "an entry must be encoded for each field, to maintain its position"; an
     omitempty field holding an empty container is written as nil *)
  Definition spec_elem (c : cand) (v : mval) : item :=
    if c_omit c && doc_empty (fval c v) && is_container (fval c v) then INil else enc_fval c v.

  (* [order]: declaration order, or the name-sorted order when Canonical is set *)
  Definition spec_enc (toarray : bool) (kt : ktype) (order : list cand) (fs : list cand) (v : mval) : res item :=
    if toarray then Ok (IArr (map (fun c => spec_elem c v) fs))
    else do l <- spec_entries kt v (spec_kept order v) ;; Ok (IMap l).

  (* decoding a stream map: "by updating matching fields"; a nil sets the field to its zero
     value; ErrorIfNoField: "return an error when … no matching struct field is found" *)
  Definition spec_set_field (t : fty) (c : cand) (v : mval) (it : item) : res mval :=
    match it with
    | INil => match field_noalloc (c_path c) v true with
              | Some _ => Ok (upd_noalloc (c_path c) v (zero_of (c_ty c)))
              | None => Ok v
              end
    | _ => upd_alloc (c_path c) t v (fun _ b => decv c b it)
    end.

  Fixpoint spec_dec_map (err_no_field : bool) (kt : ktype) (t : fty) (fs : list cand) (v : mval) (m : list (item * item)) : res mval :=
    match m with
    | [] => Ok v
    | (k, it) :: r =>
      do name <- dec_key kt k ;;
      match find (fun c => str_eqb (c_name c) name) fs with
      | Some c => do v' <- spec_set_field t c v it ;; spec_dec_map err_no_field kt t fs v' r
      | None => if err_no_field then Err EOther else spec_dec_map err_no_field kt t fs v r
      end
    end.
End SpecCodec.

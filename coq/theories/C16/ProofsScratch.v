(* C16 — lemmas on the scratch-list pool (Scratch.v): get hands out a list nobody else holds,
   put keeps the pool duplicate-free, and therefore every struct emits what it gathered,
   whatever the Encoder encoded before and whatever is encoded in between. *)
From Coq Require Import List NArith Arith Bool Lia Permutation.
From Coq Require Import ZifyN ZifyNat ZifyBool.
From Verif Require Import C16.Scratch.
Import ListNotations.

(* ---- slices ---- *)

Lemma skipn_last_one {A} (d : A) : forall y : list A, y <> [] -> skipn (length y - 1) y = [last y d].
Proof.
  induction y as [|x r IH]; intros H; [congruence|].
  destruct r as [|z r']; [reflexivity|].
  replace (length (x :: z :: r') - 1) with (S (length (z :: r') - 1)) by (cbn [length]; lia).
  cbn [skipn]. rewrite IH by congruence. reflexivity.
Qed.

Lemma remove_at {A} : forall (i : nat) (y : list A), i < length y ->
  removelast (go_copy i (skipn (S i) y) y) = firstn i y ++ skipn (S i) y.
Proof.
  intros i y Hi. unfold go_copy.
  rewrite skipn_length.
  rewrite (firstn_all2 (skipn (S i) y)) by (rewrite skipn_length; lia).
  replace (i + (length y - S i)) with (length y - 1) by lia.
  destruct y as [|d y']; [cbn in Hi; lia|].
  rewrite (skipn_last_one d) by congruence.
  rewrite app_assoc. apply removelast_last.
Qed.

Lemma set_at_app {A} (v z : A) : forall a b : list A, set_at (length a) v (a ++ z :: b) = a ++ v :: b.
Proof. induction a as [|x a IH]; intros b; cbn; [reflexivity|]. now rewrite IH. Qed.

Lemma firstn_S_nth {A} (d : A) : forall (k : nat) (x : list A), k < length x ->
  firstn (S k) x = firstn k x ++ [nth k x d].
Proof.
  induction k as [|k IH]; intros [|z x] H; cbn in *; try lia; [reflexivity|].
  f_equal. apply IH. lia.
Qed.

Lemma skipn_nth_cons {A} (d : A) : forall (k : nat) (x : list A), k < length x ->
  skipn k x = nth k x d :: skipn (S k) x.
Proof.
  induction k as [|k IH]; intros [|z x] H; cbn in *; try lia; [reflexivity|].
  apply IH. lia.
Qed.

Lemma insert_at : forall (k : nat) (v : slist) (x : pool), k < length x ->
  set_at k v (go_copy (S k) (skipn k (x ++ [v])) (x ++ [v])) = firstn k x ++ v :: skipn k x.
Proof.
  intros k v x Hk.
  assert (E1 : skipn k (x ++ [v]) = skipn k x ++ [v]).
  { rewrite skipn_app. replace (k - length x) with 0 by lia. reflexivity. }
  assert (E2 : length (x ++ [v]) = S (length x)) by (rewrite app_length; cbn; lia).
  unfold go_copy. rewrite E1, E2.
  assert (E3 : skipn (S k + length (skipn k x ++ [v])) (x ++ [v]) = []).
  { apply skipn_all2. rewrite E2, app_length, skipn_length. cbn. lia. }
  rewrite E3, app_nil_r.
  assert (E4 : firstn (S (length x) - S k) (skipn k x ++ [v]) = skipn k x).
  { rewrite firstn_app, skipn_length.
    replace (S (length x) - S k - (length x - k)) with 0 by lia. cbn [firstn]. rewrite app_nil_r.
    apply firstn_all2. rewrite skipn_length. lia. }
  rewrite E4.
  assert (E5 : firstn (S k) (x ++ [v]) = firstn k x ++ [nth k x dflt]).
  { rewrite firstn_app. replace (S k - length x) with 0 by lia. cbn [firstn]. rewrite app_nil_r.
    apply firstn_S_nth. exact Hk. }
  rewrite E5, <- app_assoc. cbn [app].
  replace k with (length (firstn k x)) at 1 by (rewrite firstn_length; lia).
  apply set_at_app.
Qed.

(* ---- the index loops ---- *)

Lemma find_fit_spec : forall (n : nat) (y : pool) (i0 : nat),
  match find_fit n i0 y with
  | Some i => exists k, i = i0 + k /\ k < length y /\ n <= snd (nth k y dflt)
  | None => True
  end.
Proof.
  intros n; induction y as [|v r IH]; intros i0; cbn; [exact I|].
  destruct (n <=? snd v) eqn:E.
  - apply Nat.leb_le in E. exists 0. repeat apply conj; cbn; lia.
  - specialize (IH (S i0)). destruct (find_fit n (S i0) r); [|exact I].
    destruct IH as [k [-> [Hk Hc]]]. exists (S k). repeat apply conj; cbn; try lia.
Qed.

Lemma find_bigger_spec : forall (c : nat) (y : pool) (i0 : nat),
  match find_bigger c i0 y with
  | Some i => exists k, i = i0 + k /\ k < length y
  | None => True
  end.
Proof.
  intros c; induction y as [|v r IH]; intros i0; cbn [find_bigger length]; [exact I|].
  destruct (c <? snd v).
  - exists 0. split; cbn; lia.
  - specialize (IH (S i0)). destruct (find_bigger c (S i0) r); [|exact I].
    destruct IH as [k [-> Hk]]. exists (S k). split; cbn; lia.
Qed.

Lemma split_at_perm {A} (d : A) : forall (k : nat) (y : list A), k < length y ->
  Permutation y (nth k y d :: firstn k y ++ skipn (S k) y).
Proof.
  intros k y Hk. rewrite <- (firstn_skipn k y) at 1.
  rewrite (skipn_nth_cons d k y Hk). symmetry. apply Permutation_middle.
Qed.

(* ---- freelistCapacity ---- *)

Lemma cap_loop_ge : forall (fuel c n : nat), n <= c * 2 ^ fuel -> n <= cap_loop fuel c n.
Proof.
  induction fuel as [|f IH]; intros c n H; cbn [cap_loop].
  - destruct (n <=? c) eqn:E; [apply Nat.leb_le in E; exact E|].
    apply Nat.leb_gt in E. cbn in H. lia.
  - destruct (n <=? c) eqn:E; [apply Nat.leb_le in E; exact E|].
    apply IH. cbn [Nat.pow] in H. lia.
Qed.

Lemma freelist_capacity_ge : forall n : nat, n <= freelist_capacity n.
Proof.
  intros n. unfold freelist_capacity. apply cap_loop_ge.
  pose proof (Nat.pow_gt_lin_r 2 n). lia.
Qed.

(* ---- get / put on the pool ---- *)

Lemma pool_get_spec : forall (n : nat) (y : pool) (nx : N) (w : slist) (r : pool) (nx' : N),
  pool_get n y nx = (w, r, nx') ->
  n <= snd w /\
  ((Permutation y (w :: r) /\ nx' = nx) \/ (r = y /\ fst w = nx /\ nx' = N.succ nx)).
Proof.
  intros n y nx w r nx' H. unfold pool_get in H.
  pose proof (find_fit_spec n y 0) as F.
  destruct (find_fit n 0 y) as [i|].
  - destruct F as [k [-> [Hk Hc]]]. cbn [Nat.add] in H.
    rewrite remove_at in H by exact Hk.
    inversion H; subst. split; [exact Hc|]. left. split; [|reflexivity].
    apply split_at_perm. exact Hk.
  - inversion H; subst. cbn. split; [apply freelist_capacity_ge|]. right. auto.
Qed.

Lemma pool_put_perm : forall (v : slist) (x : pool), Permutation (pool_put v x) (v :: x).
Proof.
  intros v x. unfold pool_put.
  pose proof (find_bigger_spec (snd v) x 0) as F.
  destruct (find_bigger (snd v) 0 x) as [i|].
  - destruct F as [k [-> Hk]]. cbn [Nat.add]. rewrite insert_at by exact Hk.
    rewrite <- (firstn_skipn k x) at 3. symmetry. apply Permutation_middle.
  - symmetry. apply Permutation_cons_append.
Qed.

(* ---- the Encoder ---- *)

Definition live (s : st) (a : N) : Prop := (a < s_next s)%N /\ ~ In a (map fst (s_pool s)).

Definition frame (s s' : st) : Prop :=
  (s_next s <= s_next s')%N /\
  forall a, live s a -> live s' a /\ forall j, s_mem s' a j = s_mem s a j.

Lemma frame_refl : forall s, frame s s.
Proof. intros s. split; [lia|]. intros a H. split; [exact H|reflexivity]. Qed.

Lemma frame_trans : forall s1 s2 s3, frame s1 s2 -> frame s2 s3 -> frame s1 s3.
Proof.
  intros s1 s2 s3 [N1 F1] [N2 F2]. split; [lia|]. intros a H.
  destruct (F1 a H) as [L2 M2]. destruct (F2 a L2) as [L3 M3]. split; [exact L3|].
  intros j. rewrite M3. apply M2.
Qed.

Lemma get_ok : forall (n : nat) (s : st) (v : slist) (s1 : st),
  pool_ok s -> get n s = (v, s1) ->
  n <= snd v /\ pool_ok s1 /\ live s1 (fst v) /\ frame s s1 /\
  (forall a, live s a -> a <> fst v) /\ (forall a j, s_mem s1 a j = s_mem s a j).
Proof.
  intros n s v s1 [ND LT] H. unfold get in H.
  destruct (pool_get n (s_pool s) (s_next s)) as [[w r] nx'] eqn:E.
  inversion H; subst; clear H.
  destruct (pool_get_spec _ _ _ _ _ _ E) as [Hc [[P ->]|[-> [Hw ->]]]]; cbn [s_pool s_next s_mem].
  - (* taken from the pool *)
    pose proof (Permutation_map fst P) as PM. cbn [map] in PM.
    pose proof (Permutation_NoDup PM ND) as ND'. inversion ND' as [|? ? Hnotin NDr]; subst.
    assert (Hsub : forall a, In a (map fst r) -> In a (map fst (s_pool s))).
    { intros a Ha. apply (Permutation_in a (Permutation_sym PM)). right. exact Ha. }
    assert (Hin : In (fst v) (map fst (s_pool s))).
    { apply (Permutation_in (fst v) (Permutation_sym PM)). left. reflexivity. }
    split; [exact Hc|]. split; [split; [exact NDr|intros a Ha; apply LT, Hsub, Ha]|].
    split; [split; [apply LT, Hin|exact Hnotin]|].
    split; [split; [cbn; lia|]|].
    + intros a [La Na]. split; [split; cbn [s_next s_pool]; [exact La|intros Ha; apply Na, Hsub, Ha]|reflexivity].
    + split; [|reflexivity]. intros a [La Na] ->. apply Na, Hin.
  - (* made *)
    split; [exact Hc|]. split; [split; [exact ND|intros a Ha; specialize (LT a Ha); cbn; lia]|].
    rewrite Hw.
    split; [split; cbn [s_next s_pool]; [lia|intros Ha; specialize (LT _ Ha); lia]|].
    split; [split; [cbn; lia|]|].
    + intros a [La Na]. split; [split; cbn [s_next s_pool]; [lia|exact Na]|reflexivity].
    + split; [|reflexivity]. intros a [La Na] ->. lia.
Qed.

Lemma put_ok : forall (v : slist) (s : st),
  pool_ok s -> live s (fst v) ->
  pool_ok (put v s) /\
  (forall a, live s a -> a <> fst v -> live (put v s) a) /\
  s_next (put v s) = s_next s /\ (forall a j, s_mem (put v s) a j = s_mem s a j).
Proof.
  intros v s [ND LT] [Lv Nv]. unfold put; cbn [s_pool s_next s_mem].
  pose proof (Permutation_map fst (pool_put_perm v (s_pool s))) as PM. cbn [map] in PM.
  split; [split|].
  - apply (Permutation_NoDup (Permutation_sym PM)). constructor; assumption.
  - intros a Ha. apply (Permutation_in a PM) in Ha. destruct Ha as [<-|Ha]; [exact Lv|apply LT, Ha].
  - split; [|split; reflexivity].
    intros a [La Na] Hne. split; cbn [s_next s_pool]; [exact La|].
    intros Ha. apply (Permutation_in a PM) in Ha. destruct Ha as [E|Ha]; [congruence|apply Na, Ha].
Qed.

Lemma gather_spec : forall (l : list entry) (a : N) (j : nat) (s : st),
  let s' := gather a j l s in
  s_pool s' = s_pool s /\ s_next s' = s_next s /\
  (forall a' k, a' <> a -> s_mem s' a' k = s_mem s a' k) /\
  (forall k, k < j -> s_mem s' a k = s_mem s a k) /\
  (forall i, i < length l -> s_mem s' a (j + i) = nth i l 0%N).
Proof.
  induction l as [|e r IH]; intros a j s; cbn [gather length].
  - repeat apply conj; try reflexivity; intros; lia.
  - destruct (IH a (S j) (write a j e s)) as [Hp [Hn [Ho [Hb Hi]]]].
    repeat apply conj.
    + rewrite Hp. reflexivity.
    + rewrite Hn. reflexivity.
    + intros a' k Hne. rewrite Ho by exact Hne. cbn.
      destruct (N.eqb_spec a' a); [congruence|reflexivity].
    + intros k Hk. rewrite Hb by lia. cbn.
      destruct (N.eqb_spec a a); [|congruence]. destruct (Nat.eqb_spec k j); [lia|reflexivity].
    + intros [|i] Hlt.
      * rewrite Nat.add_0_r. rewrite Hb by lia. cbn.
        rewrite N.eqb_refl, Nat.eqb_refl. reflexivity.
      * replace (j + S i) with (S j + i) by lia. rewrite Hi by lia. reflexivity.
Qed.

Scheme forest_mut := Induction for forest Sort Prop
  with entries_mut := Induction for entries Sort Prop.
Combined Scheme forest_entries_ind from forest_mut, entries_mut.

Definition good_forest (f : forest) : Prop :=
  forall s, pool_ok s ->
  fst (run_forest f s) = spec_forest f /\ pool_ok (snd (run_forest f s)) /\ frame s (snd (run_forest f s)).

Definition good_entries (es : entries) : Prop :=
  forall a j s, pool_ok s -> live s a ->
  (forall i, i < length (gathered es) -> s_mem s a (j + i) = nth i (gathered es) 0%N) ->
  fst (emit es a j s) = spec_entries es /\ pool_ok (snd (emit es a j s)) /\ frame s (snd (emit es a j s)).

Lemma scratch_both : (forall f, good_forest f) /\ (forall es, good_entries es).
Proof.
  apply forest_entries_ind; unfold good_forest, good_entries.
  - intros s Hs. cbn. split; [|split]; [reflexivity|exact Hs|apply frame_refl].
  - intros n es IHes rest IHrest s Hs. cbn [run_forest spec_forest].
    destruct (get n s) as [v s1] eqn:Hg.
    destruct (get_ok _ _ _ _ Hs Hg) as [_ [Hs1 [Lv1 [F01 [Hne Hm1]]]]].
    pose proof (gather_spec (gathered es) (fst v) 0 s1) as G. cbn zeta in G.
    set (s2 := gather (fst v) 0 (gathered es) s1) in *.
    destruct G as [Gp [Gn [Go [_ Gi]]]].
    assert (Hs2 : pool_ok s2) by (unfold pool_ok; rewrite Gp, Gn; exact Hs1).
    assert (Lv2 : live s2 (fst v)) by (unfold live; rewrite Gp, Gn; exact Lv1).
    destruct (IHes (fst v) 0 s2 Hs2 Lv2 Gi) as [T1 [Hs3 F23]].
    destruct (emit es (fst v) 0 s2) as [t1 s3]. cbn [fst snd] in *.
    destruct F23 as [N23 F23].
    destruct (F23 _ Lv2) as [Lv3 _].
    destruct (put_ok v s3 Hs3 Lv3) as [Hs4 [L34 [N34 M34]]].
    destruct (IHrest (put v s3) Hs4) as [T2 [Hs5 F45]].
    destruct (run_forest rest (put v s3)) as [t2 s5]. cbn [fst snd] in *.
    split; [|split]; [rewrite T1, T2; reflexivity|exact Hs5|].
    apply (frame_trans _ (put v s3)); [|exact F45].
    destruct F01 as [N01 F01].
    split; [rewrite N34; unfold s2 in *; lia|].
    intros a La. pose proof (Hne a La) as Hav. destruct (F01 a La) as [La1 Ma1].
    assert (La2 : live s2 a) by (unfold live; rewrite Gp, Gn; exact La1).
    destruct (F23 a La2) as [La3 Ma3].
    split; [apply L34; assumption|].
    intros j. rewrite M34, Ma3, (Go a j Hav). apply Ma1.
  - intros a j s Hs La _. cbn. split; [|split]; [reflexivity|exact Hs|apply frame_refl].
  - intros e under IHunder rest IHrest a j s Hs La Hm. cbn [emit spec_entries gathered length] in *.
    destruct (IHunder s Hs) as [T1 [Hs1 F01]].
    destruct (run_forest under s) as [t1 s1]. cbn [fst snd] in *.
    destruct F01 as [N01 F01]. destruct (F01 a La) as [La1 Ma1].
    assert (Hm1 : forall i, i < length (gathered rest) -> s_mem s1 a (S j + i) = nth i (gathered rest) 0%N).
    { intros i Hi. rewrite Ma1. replace (S j + i) with (j + S i) by lia. rewrite Hm by lia. reflexivity. }
    destruct (IHrest a (S j) s1 Hs1 La1 Hm1) as [T2 [Hs2 F12]].
    destruct (emit rest a (S j) s1) as [t2 s2]. cbn [fst snd] in *.
    split; [|split].
    + rewrite T1, T2. specialize (Hm 0 ltac:(lia)). rewrite Nat.add_0_r in Hm. rewrite Hm. reflexivity.
    + exact Hs2.
    + apply (frame_trans _ s1); [split; assumption|exact F12].
Qed.

(* ---- statements used by Properties/C16.v ---- *)

Lemma scratch_exclusive_lemma : forall (n : nat) (s : st),
  pool_ok s ->
  n <= snd (fst (get n s)) /\
  ~ In (fst (fst (get n s))) (map fst (s_pool (snd (get n s)))) /\
  pool_ok (snd (get n s)).
Proof.
  intros n s Hs. destruct (get n s) as [v s1] eqn:Hg.
  destruct (get_ok _ _ _ _ Hs Hg) as [Hc [Hs1 [[_ Lv] _]]]. cbn [fst snd]. auto.
Qed.

Lemma scratch_history_lemma : forall (before f : forest),
  let s := snd (run_forest before st0) in
  fst (run_forest f s) = spec_forest f /\ pool_ok (snd (run_forest f s)).
Proof.
  intros before f. cbn zeta.
  assert (H0 : pool_ok st0) by (split; cbn; [constructor|intros a []]).
  destruct (proj1 scratch_both before st0 H0) as [_ [Hs _]].
  destruct (proj1 scratch_both f _ Hs) as [T [Hs' _]]. auto.
Qed.

Lemma scratch_any_pool_lemma : forall (f : forest) (s : st),
  pool_ok s -> fst (run_forest f s) = spec_forest f /\ pool_ok (snd (run_forest f s)).
Proof. intros f s Hs. destruct (proj1 scratch_both f s Hs) as [T [Hs' _]]. auto. Qed.

Lemma put_keeps_ok_lemma : forall (v : slist) (s : st),
  pool_ok s -> (fst v < s_next s)%N -> ~ In (fst v) (map fst (s_pool s)) -> pool_ok (put v s).
Proof. intros v s Hs L N. apply put_ok; [exact Hs|split; assumption]. Qed.

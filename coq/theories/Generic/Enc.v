(* Generic/Enc — what the generic encoder (encode.go) asks a driver to write, as
   an [item] tree.

   Mirrors encodeValue (encode.go:1144-1228), encodeBuiltin (:1095-1142), the
   k* functions kBool..kUintptr (:100-172), kSlice/kArray/kArrayW (:250-336),
   kStructSimple/kStruct (:397-646, without omitempty / MissingFielder, which
   are property C16), kMap (:648-748), kMapCanonical (:750-921) and the
   generated fast paths for slices / maps of builtin types
   (fastpath.go.tmpl -> *.fastpath.mono.generated.go), which issue the same
   driver calls.  All of these agree on the driver calls made for a value; the
   model states that common behaviour and the correspondence check
   (harness/cmd/c01) exercises every path.

   Driver-level decisions are NOT made here: integer/float width selection,
   OptimumSize narrowing (cbor.go:48-70), StringToRaw (cbor.go:191-197), the
   encoding of time, IndefiniteLength, symbols, json quoting.  They are the wire
   models' business (Wire/<Fmt>.v); see Generic/Dec.v [wire].

   No proofs here. *)
From Coq Require Import List NArith ZArith Bool.
From Verif Require Import Wire.Item Generic.Types.
Import ListNotations.
Open Scope bool_scope.

(* options read by the generic layer *)
Record gopts := mkgopts {
  struct_to_array : bool;      (* EncodeOptions.StructToArray *)
  canonical : bool;            (* EncodeOptions.Canonical *)
  nil_to_empty : bool;         (* EncodeOptions.NilCollectionToZeroLength *)
  max_depth : Z;               (* DecodeOptions.MaxDepth (int16; <= 0 means decDefMaxDepth) *)
  error_if_no_field : bool     (* DecodeOptions.ErrorIfNoField *)
}.

(* ---- orders ---- *)

(* byte-wise lexicographic order of Go strings: a <= b *)
Fixpoint str_leb (a b : list N) : bool :=
  match a, b with
  | [], _ => true
  | _ :: _, [] => false
  | x :: a', y :: b' => (x <? y)%N || (N.eqb x y && str_leb a' b')
  end.

(* total order key of a non-NaN float: sign-magnitude to two's complement *)
Definition fkey64 (b : N) : Z := if (b <? 2 ^ 63)%N then Z.of_N b else (- Z.of_N (b - 2 ^ 63))%Z.
Definition fkey32 (b : N) : Z := if (b <? 2 ^ 31)%N then Z.of_N b else (- Z.of_N (b - 2 ^ 31))%Z.

(* the order kMapCanonical sorts map keys by (encode.go:767-865): false < true,
   numbers by value (cmp.Compare), strings byte-wise *)
Definition key_leb (a b : gv) : bool :=
  match a, b with
  | GBool x, GBool y => negb x || y
  | GInt x, GInt y => (x <=? y)%Z
  | GUint x, GUint y => (x <=? y)%N
  | GF32 x, GF32 y => (fkey32 x <=? fkey32 y)%Z
  | GF64 x, GF64 y => (fkey64 x <=? fkey64 y)%Z
  | GStr x, GStr y => str_leb x y
  | _, _ => true
  end.

Section Sort.
  Context {A : Type} (leb : A -> A -> bool).
  Fixpoint insert_by (x : A) (l : list A) : list A :=
    match l with
    | [] => [x]
    | y :: r => if leb x y then x :: l else y :: insert_by x r
    end.
  Fixpoint sort_by (l : list A) : list A :=
    match l with [] => [] | x :: r => insert_by x (sort_by r) end.
End Sort.

Definition ksort (l : list (gv * gv)) : list (gv * gv) := sort_by (fun a b => key_leb (fst a) (fst b)) l.

(* ---- the order in which a map is iterated ----
   [pi p l] is the order the encoder's range loop over the map at position [p]
   (path from the root, innermost index first) visits the entries [l]; any
   permutation may happen. *)
Definition path := list nat.
Definition order := path -> list (gv * gv) -> list (gv * gv).
Definition order_ok (pi : order) : Prop := forall p l, Permutation.Permutation (pi p l) l.

(* the value as the encoder walks it: every map's entries in visiting order *)
Fixpoint reorder (pi : order) (p : path) (v : gv) {struct v} : gv :=
  match v with
  | GList (Some l) =>
      GList (Some ((fix go (i : nat) (l : list gv) : list gv :=
                      match l with [] => [] | x :: r => reorder pi (i :: p) x :: go (S i) r end) 0 l))
  | GArr l =>
      GArr ((fix go (i : nat) (l : list gv) : list gv :=
               match l with [] => [] | x :: r => reorder pi (i :: p) x :: go (S i) r end) 0 l)
  | GMap (Some l) =>
      GMap (Some (pi p ((fix go (i : nat) (l : list (gv * gv)) : list (gv * gv) :=
                           match l with
                           | [] => []
                           | kv :: r => (fst kv, reorder pi (i :: p) (snd kv)) :: go (S i) r
                           end) 0 l)))
  | GPtr (Some x) => GPtr (Some (reorder pi (0 :: p) x))
  | GStruct fs =>
      GStruct ((fix go (i : nat) (l : list (name * gv)) : list (name * gv) :=
                  match l with
                  | [] => []
                  | nv :: r => (fst nv, reorder pi (i :: p) (snd nv)) :: go (S i) r
                  end) 0 fs)
  | _ => v
  end.

(* Canonical: kMapCanonical / the fast paths sort the keys; otherwise range order *)
Definition arrange (O : gopts) (pi : order) (v : gv) : gv :=
  reorder (if canonical O then (fun _ l => ksort l) else pi) [] v.

(* ---- driver calls, entries in the listed order ---- *)
Definition name_leb (a b : name * item) : bool := str_leb (fst a) (fst b).

Fixpoint enc (O : gopts) (v : gv) {struct v} : item :=
  match v with
  | GBool b => IBool b                                   (* kBool, encodeBuiltin bool *)
  | GInt z => IInt z                                     (* kInt*: EncodeInt(int64(v)) *)
  | GUint n => IUint n                                   (* kUint*, kUintptr: EncodeUint(uint64(v)) *)
  | GF32 b => IF32 b                                     (* kFloat32 *)
  | GF64 b => IF64 b                                     (* kFloat64 *)
  | GStr s => IStr s                                     (* kString: EncodeString *)
  | GBytes None => if nil_to_empty O then IBytes [] else INil   (* EncodeBytes(nil) -> writeNilBytes; a nil []byte reached
                                                                  by reflection only (Encode(&b), named byte-slice types) is
                                                                  written as an empty ARRAY under NilCollectionToZeroLength
                                                                  (encodeValue :1193-1201); both read back as empty []byte *)
  | GBytes (Some b) => IBytes b                          (* EncodeBytes -> EncodeStringBytesRaw *)
  | GBArr b => IBytes b                                  (* kArray :328 / EncSliceUint8V: EncodeStringBytesRaw *)
  | GTime s n => ITime s n                               (* kTime / encodeBuiltin time.Time: EncodeTime *)
  | GList None => if nil_to_empty O then IArr [] else INil      (* encodeValue :1193-1201, writeNilArray *)
  | GList (Some l) => IArr (map (enc O) l)               (* kArrayW *)
  | GArr l => IArr (map (enc O) l)                       (* kArrayW, isSlice=false *)
  | GMap None => if nil_to_empty O then IMap [] else INil       (* encodeValue :1184-1192, writeNilMap *)
  | GMap (Some l) => IMap (map (fun kv => (enc O (fst kv), enc O (snd kv))) l)   (* kMap *)
  | GPtr None => INil                                    (* encodeValue :1160-1164 *)
  | GPtr (Some x) => enc O x                             (* encodeValue :1165-1172: deref, goto RV *)
  | GStruct fs =>
      let es := map (fun nv => (fst nv, enc O (snd nv))) fs in
      if struct_to_array O
      then IArr (map snd es)                             (* kStruct(Simple) toArray: declaration order *)
      else IMap (map (fun ne => (IStr (fst ne), snd ne))
                     (if canonical O then sort_by name_leb es else es))   (* sfi.sorted() *)
  end.

(* what Encode(v) hands to the driver when the maps are iterated in order [pi] *)
Definition to_item (O : gopts) (pi : order) (v : gv) : item := enc O (arrange O pi v).

(* Generic/Types — static Go types and values the generic (format independent)
   layer of codec walks: encode.go / decode.go see a reflect.Value of a static
   type; the model sees a [gv] tree and a [ty].

   Struct field lists are the ALREADY RESOLVED encoded fields (encName, type) in
   declaration order (tag / embedding / omitempty resolution is property C16).
   Nil-ness is explicit: nil vs empty slice / map / []byte, nil pointer.
   int, uint and uintptr are 64 bits wide (amd64): TInt W64 stands for both int
   and int64.  Floats are IEEE-754 bit patterns.  time.Time is the UTC instant
   (unix seconds, nanoseconds); the location is not part of the value (Decode
   always returns UTC and the property compares instants).

   No proofs here. *)
From Coq Require Import List NArith ZArith Bool Permutation.
Import ListNotations.
Open Scope bool_scope.

Inductive iw := W8 | W16 | W32 | W64.
Inductive fw := F32 | F64.

Definition bits (w : iw) : Z := match w with W8 => 8 | W16 => 16 | W32 => 32 | W64 => 64 end%Z.

Definition name := list N.      (* bytes of the encoded field name *)

Inductive ty :=
| TBool
| TInt (w : iw)
| TUint (w : iw)
| TUintptr
| TFloat (w : fw)
| TString
| TBytes                          (* []byte *)
| TByteArray (n : nat)            (* [n]byte *)
| TTime
| TSlice (t : ty)                 (* element type other than uint8 *)
| TArray (n : nat) (t : ty)       (* element type other than uint8 *)
| TMap (k v : ty)
| TPtr (t : ty)
| TStruct (fs : list (name * ty)).

Inductive gv :=
| GBool (b : bool)
| GInt (z : Z)
| GUint (n : N)
| GF32 (b : N)
| GF64 (b : N)
| GStr (s : list N)
| GBytes (b : option (list N))          (* None = nil *)
| GBArr (b : list N)                    (* [n]byte *)
| GTime (sec : Z) (nsec : N)
| GList (l : option (list gv))          (* slice; None = nil *)
| GArr (l : list gv)
| GMap (l : option (list (gv * gv)))    (* None = nil; entries in some order *)
| GPtr (p : option gv)                  (* None = nil *)
| GStruct (fs : list (name * gv)).      (* resolved fields, declaration order *)

(* induction principle reaching inside the nested lists / options / pairs *)
Section GvInd.
  Variable P : gv -> Prop.
  Hypothesis Hbool : forall b, P (GBool b).
  Hypothesis Hint : forall z, P (GInt z).
  Hypothesis Huint : forall n, P (GUint n).
  Hypothesis Hf32 : forall b, P (GF32 b).
  Hypothesis Hf64 : forall b, P (GF64 b).
  Hypothesis Hstr : forall s, P (GStr s).
  Hypothesis Hbytes : forall b, P (GBytes b).
  Hypothesis Hbarr : forall b, P (GBArr b).
  Hypothesis Htime : forall s n, P (GTime s n).
  Hypothesis Hlnil : P (GList None).
  Hypothesis Hlist : forall l, Forall P l -> P (GList (Some l)).
  Hypothesis Harr : forall l, Forall P l -> P (GArr l).
  Hypothesis Hmnil : P (GMap None).
  Hypothesis Hmap : forall l, Forall (fun kv => P (fst kv) /\ P (snd kv)) l -> P (GMap (Some l)).
  Hypothesis Hpnil : P (GPtr None).
  Hypothesis Hptr : forall v, P v -> P (GPtr (Some v)).
  Hypothesis Hstruct : forall fs, Forall (fun nv => P (snd nv)) fs -> P (GStruct fs).

  Fixpoint gv_ind' (v : gv) : P v :=
    match v with
    | GBool b => Hbool b
    | GInt z => Hint z
    | GUint n => Huint n
    | GF32 b => Hf32 b
    | GF64 b => Hf64 b
    | GStr s => Hstr s
    | GBytes b => Hbytes b
    | GBArr b => Hbarr b
    | GTime s n => Htime s n
    | GList None => Hlnil
    | GList (Some l) =>
        Hlist l ((fix go (l : list gv) : Forall P l :=
                    match l with [] => Forall_nil _ | x :: r => Forall_cons _ (gv_ind' x) (go r) end) l)
    | GArr l =>
        Harr l ((fix go (l : list gv) : Forall P l :=
                   match l with [] => Forall_nil _ | x :: r => Forall_cons _ (gv_ind' x) (go r) end) l)
    | GMap None => Hmnil
    | GMap (Some l) =>
        Hmap l ((fix go (l : list (gv * gv)) : Forall (fun kv => P (fst kv) /\ P (snd kv)) l :=
                   match l with
                   | [] => Forall_nil _
                   | kv :: r => Forall_cons kv (conj (gv_ind' (fst kv)) (gv_ind' (snd kv))) (go r)
                   end) l)
    | GPtr None => Hpnil
    | GPtr (Some x) => Hptr x (gv_ind' x)
    | GStruct fs =>
        Hstruct fs ((fix go (l : list (name * gv)) : Forall (fun nv => P (snd nv)) l :=
                       match l with
                       | [] => Forall_nil _
                       | nv :: r => Forall_cons nv (gv_ind' (snd nv)) (go r)
                       end) fs)
    end.
End GvInd.

(* ---- small decidable equalities ---- *)
Fixpoint eqbl (a b : list N) : bool :=
  match a, b with
  | [], [] => true
  | x :: a', y :: b' => N.eqb x y && eqbl a' b'
  | _, _ => false
  end.

Definition iw_eqb (a b : iw) : bool :=
  match a, b with W8, W8 | W16, W16 | W32, W32 | W64, W64 => true | _, _ => false end.

(* ---- ranges ---- *)
Definition in_s (w : iw) (z : Z) : bool := ((- 2 ^ (bits w - 1) <=? z) && (z <? 2 ^ (bits w - 1)))%Z.
Definition in_u (w : iw) (n : N) : bool := (Z.of_N n <? 2 ^ bits w)%Z.
Definition bytes_ok (l : list N) : bool := forallb (fun x => (x <? 256)%N) l.

(* ---- floats as bit patterns ---- *)
Definition nan64 (b : N) : bool := (2047 * 2 ^ 52 <? b mod 2 ^ 63)%N.
Definition nan32 (b : N) : bool := (255 * 2 ^ 23 <? b mod 2 ^ 31)%N.
(* Go's == on non-NaN floats: same bits, or both zeros *)
Definition feq64 (a b : N) : bool := negb (nan64 a) && negb (nan64 b) && (N.eqb a b || (N.eqb (a mod 2 ^ 63) 0 && N.eqb (b mod 2 ^ 63) 0))%N.
Definition feq32 (a b : N) : bool := negb (nan32 a) && negb (nan32 b) && (N.eqb a b || (N.eqb (a mod 2 ^ 31) 0 && N.eqb (b mod 2 ^ 31) 0))%N.

(* the zero time.Time{}: January 1, year 1, 00:00:00 UTC *)
Definition time_zero_sec : Z := (-62135596800)%Z.

(* ---- zero values ---- *)
Fixpoint zero (t : ty) : gv :=
  match t with
  | TBool => GBool false
  | TInt _ => GInt 0
  | TUint _ | TUintptr => GUint 0
  | TFloat F32 => GF32 0
  | TFloat F64 => GF64 0
  | TString => GStr []
  | TBytes => GBytes None
  | TByteArray n => GBArr (repeat 0%N n)
  | TTime => GTime time_zero_sec 0
  | TSlice _ => GList None
  | TArray n te => GArr (repeat (zero te) n)
  | TMap _ _ => GMap None
  | TPtr _ => GPtr None
  | TStruct fs =>
      GStruct ((fix go (fs : list (name * ty)) : list (name * gv) :=
                  match fs with [] => [] | (nm, tf) :: r => (nm, zero tf) :: go r end) fs)
  end.

(* ---- map keys: the scalar kinds a key may have here, and Go's == on them ---- *)
Definition key_ty (t : ty) : bool :=
  match t with
  | TBool | TInt _ | TUint _ | TUintptr | TFloat _ | TString => true
  | _ => false
  end.

Definition keq (a b : gv) : bool :=
  match a, b with
  | GBool x, GBool y => Bool.eqb x y
  | GInt x, GInt y => Z.eqb x y
  | GUint x, GUint y => N.eqb x y
  | GF32 x, GF32 y => feq32 x y
  | GF64 x, GF64 y => feq64 x y
  | GStr x, GStr y => eqbl x y
  | _, _ => false
  end.

Definition key_nonnan (k : gv) : bool :=
  match k with GF32 b => negb (nan32 b) | GF64 b => negb (nan64 b) | _ => true end.

Fixpoint keys_distinct (l : list gv) : bool :=
  match l with
  | [] => true
  | k :: r => negb (existsb (keq k) r) && keys_distinct r
  end.

Fixpoint names_distinct (l : list name) : bool :=
  match l with
  | [] => true
  | k :: r => negb (existsb (eqbl k) r) && names_distinct r
  end.

(* ---- typing: wt t v = v is a value of static type t (ranges included) ---- *)
Fixpoint wt (t : ty) (v : gv) {struct v} : bool :=
  match v, t with
  | GBool _, TBool => true
  | GInt z, TInt w => in_s w z
  | GUint n, TUint w => in_u w n
  | GUint n, TUintptr => in_u W64 n
  | GF32 b, TFloat F32 => (b <? 2 ^ 32)%N
  | GF64 b, TFloat F64 => (b <? 2 ^ 64)%N
  | GStr s, TString => bytes_ok s
  | GBytes None, TBytes => true
  | GBytes (Some b), TBytes => bytes_ok b
  | GBArr b, TByteArray n => Nat.eqb (length b) n && bytes_ok b
  | GTime _ ns, TTime => (ns <? 1000000000)%N
  | GList None, TSlice _ => true
  | GList (Some l), TSlice te => (fix go (l : list gv) : bool := match l with [] => true | x :: r => wt te x && go r end) l
  | GArr l, TArray n te =>
      Nat.eqb (length l) n && (fix go (l : list gv) : bool := match l with [] => true | x :: r => wt te x && go r end) l
  | GMap None, TMap _ _ => true
  | GMap (Some l), TMap tk tv =>
      (fix go (l : list (gv * gv)) : bool :=
         match l with [] => true | kv :: r => wt tk (fst kv) && key_nonnan (fst kv) && wt tv (snd kv) && go r end) l
      && keys_distinct (map fst l)
  | GPtr None, TPtr _ => true
  | GPtr (Some x), TPtr te => wt te x
  | GStruct vs, TStruct fs =>
      (fix go (vs : list (name * gv)) (fs : list (name * ty)) : bool :=
         match vs, fs with
         | [], [] => true
         | (n1, x) :: vr, (n2, tf) :: fr => eqbl n1 n2 && wt tf x && go vr fr
         | _, _ => false
         end) vs fs
  | _, _ => false
  end.

(* ---- the types the property covers (what it excludes: interface slots, chan,
   func; here additionally: map keys are scalar kinds; resolved field names are
   distinct and are byte strings; uint8 elements are TBytes / TByteArray) ---- *)
Definition not_u8 (t : ty) : bool := match t with TUint W8 => false | _ => true end.

Fixpoint supported (t : ty) : bool :=
  match t with
  | TSlice te => not_u8 te && supported te
  | TArray _ te => not_u8 te && supported te
  | TMap tk tv => key_ty tk && supported tv
  | TPtr te => supported te
  | TStruct fs =>
      names_distinct (map fst fs) && forallb (fun nt => bytes_ok (fst nt)) fs
      && (fix go (fs : list (name * ty)) : bool := match fs with [] => true | (_, tf) :: r => supported tf && go r end) fs
  | _ => true
  end.

(* ---- equality up to the order of map entries (what reflect.DeepEqual sees of a
   Go map); NaN handling lives in the wire normalisation [fn32]/[fn64], and in
   [veqb] (C01/Corr.v) for comparing observed values ---- *)
Inductive veq : gv -> gv -> Prop :=
| veq_refl : forall v, veq v v
| veq_list : forall l1 l2, Forall2 veq l1 l2 -> veq (GList (Some l1)) (GList (Some l2))
| veq_arr : forall l1 l2, Forall2 veq l1 l2 -> veq (GArr l1) (GArr l2)
| veq_map : forall l1 l2 m,
    Permutation l1 m ->
    Forall2 (fun a b => veq (fst a) (fst b) /\ veq (snd a) (snd b)) m l2 ->
    veq (GMap (Some l1)) (GMap (Some l2))
| veq_ptr : forall a b, veq a b -> veq (GPtr (Some a)) (GPtr (Some b))
| veq_struct : forall f1 f2,
    Forall2 (fun a b => fst a = fst b /\ veq (snd a) (snd b)) f1 f2 -> veq (GStruct f1) (GStruct f2).

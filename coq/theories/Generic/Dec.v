(* Generic/Dec — the generic decoder (decode.go) into a ZERO destination of a
   static type, reading from what the driver finds in the stream, presented as
   an [item] tree.

   The generic layer never looks at bytes: it asks the driver typed questions
   (TryNil, DecodeInt64, DecodeUint64, DecodeFloat32/64, DecodeBool,
   DecodeStringAsBytes, DecodeBytes, DecodeTime, ContainerType,
   ReadArrayStart/ReadMapStart + element walk).  [wire] packages a driver's
   answers as functions of the item at the cursor, together with the item
   normalisation [wn] the format's encoder+decoder pair induces (what
   [dec (enc i)] gives back in Wire/<Fmt>.v).  [wire_ok] is the interface the
   per-format wire lemmas have to meet; the generic round trip is proved against
   it (C01/Proofs.v).

   Mirrors decode (decode.go:1440-1514), decodeValue / decodeValueNoCheckNil
   (:1523-1561), kBool..kUint64 (:96-164), kStructField (:350-368),
   kStructSimple / kStruct (:370-512), kSlice (:514-722), kArray (:724-828),
   kMap (:956-1232), decodeBytesInto (:1594-1620), depthIncr
   (decode.base.go:729-734) and the generated fast paths.

   NOT modelled (outside C01): decoding into a non-zero destination (merge
   semantics: C19), interface-typed slots and DecodeNaked (C15), extensions /
   Selfer / Marshaler types (C17), MapBySlice, chan, numeric cross-kind
   conversions beyond a range test (C07 owns their exact modelling).

   No proofs here. *)
From Coq Require Import List NArith ZArith Bool.
From Verif Require Import Base.Outcome Gen.Consts Wire.Item Generic.Types Generic.Enc.
Import ListNotations.
Open Scope bool_scope.

(* ---- the driver as the generic decoder sees it ---- *)
Record wire := mkwire {
  wn : item -> item;                 (* what comes back for an item written in value / element position *)
  wnk : item -> item;                (* ... in map-key position (json quotes keys; binary formats: = wn) *)
  is_nil : item -> bool;             (* TryNil / advanceNil *)
  rd_bool : item -> res bool;        (* DecodeBool *)
  rd_int : item -> res Z;            (* DecodeInt64 *)
  rd_uint : item -> res N;           (* DecodeUint64 *)
  rd_f32 : item -> res N;            (* DecodeFloat32 (bits; the driver's own overflow check included) *)
  rd_f64 : item -> res N;            (* DecodeFloat64 (bits) *)
  rd_str : item -> res (list N);     (* DecodeStringAsBytes *)
  rd_bytes : item -> res (list N);   (* DecodeBytes on a non-nil item *)
  rd_time : item -> res (Z * N);     (* DecodeTime on a non-nil item *)
  fn32 : N -> N;                     (* documented float loss, e.g. a single NaN code *)
  fn64 : N -> N;
  tnorm : Z -> N -> Z * N;           (* documented time precision *)
  leaf_ok : item -> bool             (* scalar items the format supports (valid UTF-8 for json,
                                        time range of the documented precision, ...) *)
}.

Definition maxdepth (O : gopts) : Z := if (0 <? max_depth O)%Z then max_depth O else decDefMaxDepth.

(* strip the pointer levels: decodeValueNoCheckNil's PTR loop allocates each level *)
Fixpoint strip (t : ty) : nat * ty :=
  match t with TPtr te => let '(n, b) := strip te in (S n, b) | _ => (0, t) end.
Fixpoint wrapn (n : nat) (v : gv) : gv :=
  match n with 0 => v | S m => GPtr (Some (wrapn m v)) end.

Fixpoint lookup_field (nm : list N) (fs : list (name * ty)) : option ty :=
  match fs with
  | [] => None
  | (n, t) :: r => if eqbl nm n then Some t else lookup_field nm r
  end.

Fixpoint set_field (nm : list N) (x : gv) (vs : list (name * gv)) : list (name * gv) :=
  match vs with
  | [] => []
  | (n, y) :: r => if eqbl nm n then (n, x) :: r else (n, y) :: set_field nm x r
  end.

(* Go map assignment m[k] = v *)
Fixpoint mset (m : list (gv * gv)) (k v : gv) : list (gv * gv) :=
  match m with
  | [] => [(k, v)]
  | (k', v') :: r => if keq k' k then (k', v) :: r else (k', v') :: mset r k v
  end.

Definition zero_fields (fs : list (name * ty)) : list (name * gv) := map (fun nt => (fst nt, zero (snd nt))) fs.

(* copy decoded bytes into a [n]byte (decodeBytesInto with mustFit) *)
Definition fit_bytes (n : nat) (b : list N) : res gv :=
  if length b <=? n then Ok (GBArr (b ++ repeat 0%N (n - length b))) else Err EOther.

Section Dec.
  Variable W : wire.
  Variable O : gopts.

  (* [d] = decoderBase.depth on entry *)
  Fixpoint of_item (d : nat) (t : ty) (i : item) {struct i} : res gv :=
    if is_nil W i then Ok (zero t)                       (* decodeValue: TryNil -> decSetNonNilRV2Zero *)
    else
      let '(np, b) := strip t in
      do v <-
        match b with
        | TBool => do x <- rd_bool W i;; Ok (GBool x)
        | TInt w => do z <- rd_int W i;; if in_s w z then Ok (GInt z) else Err EOverflow       (* chkOvf.IntV *)
        | TUint w => do n <- rd_uint W i;; if in_u w n then Ok (GUint n) else Err EOverflow    (* chkOvf.UintV *)
        | TUintptr => do n <- rd_uint W i;; if in_u W64 n then Ok (GUint n) else Err EOverflow
        | TFloat F32 => do x <- rd_f32 W i;; Ok (GF32 x)
        | TFloat F64 => do x <- rd_f64 W i;; Ok (GF64 x)
        | TString => do s <- rd_str W i;; Ok (GStr s)
        | TBytes => do s <- rd_bytes W i;; Ok (GBytes (Some s))
        | TByteArray n => do s <- rd_bytes W i;; fit_bytes n s
        | TTime => do sn <- rd_time W i;; Ok (GTime (fst sn) (snd sn))
        | TSlice te =>
            match i with
            | IArr l =>
                if (maxdepth O <=? Z.of_nat (S d))%Z then Err EDepth else
                do vs <- (fix go (l : list item) : res (list gv) :=
                            match l with
                            | [] => Ok []
                            | x :: r => do a <- of_item (S d) te x;; do rs <- go r;; Ok (a :: rs)
                            end) l;;
                Ok (GList (Some vs))
            | _ => Err EBadDesc
            end
        | TArray n te =>
            match i with
            | IArr l =>
                if (maxdepth O <=? Z.of_nat (S d))%Z then Err EDepth else
                if n <? length l then Err EOther else      (* kArray :773-775 *)
                do vs <- (fix go (l : list item) : res (list gv) :=
                            match l with
                            | [] => Ok []
                            | x :: r => do a <- of_item (S d) te x;; do rs <- go r;; Ok (a :: rs)
                            end) l;;
                Ok (GArr (vs ++ repeat (zero te) (n - length l)))
            | _ => Err EBadDesc
            end
        | TMap tk tv =>
            match i with
            | IMap l =>
                if (maxdepth O <=? Z.of_nat (S d))%Z then Err EDepth else
                do m <- (fix go (l : list (item * item)) (m : list (gv * gv)) : res (list (gv * gv)) :=
                           match l with
                           | [] => Ok m
                           | kv :: r =>
                               do k <- of_item (S d) tk (fst kv);;
                               do v <- of_item (S d) tv (snd kv);;
                               go r (mset m k v)
                           end) l [];;
                Ok (GMap (Some m))
            | _ => Err EBadDesc
            end
        | TStruct fs =>
            match i with
            | IMap l =>                                    (* kStruct: ctyp == valueTypeMap *)
                if (maxdepth O <=? Z.of_nat (S d))%Z then Err EDepth else
                do vs <- (fix go (l : list (item * item)) (vs : list (name * gv)) : res (list (name * gv)) :=
                            match l with
                            | [] => Ok vs
                            | kv :: r =>
                                do nm <- rd_str W (fst kv);;
                                match lookup_field nm fs with
                                | Some tf => do x <- of_item (S d) tf (snd kv);; go r (set_field nm x vs)
                                | None => if error_if_no_field O then Err EOther else go r vs
                                end
                            end) l (zero_fields fs);;
                Ok (GStruct vs)
            | IArr l =>                                    (* ctyp == valueTypeArray: positional *)
                if (maxdepth O <=? Z.of_nat (S d))%Z then Err EDepth else
                do vs <- (fix go (l : list item) (fs : list (name * ty)) : res (list (name * gv)) :=
                            match l, fs with
                            | [], _ => Ok (zero_fields fs)
                            | x :: r, (nm, tf) :: fr =>
                                do a <- of_item (S d) tf x;; do rs <- go r fr;; Ok ((nm, a) :: rs)
                            | _ :: r, [] => if error_if_no_field O then Err EOther else go r []
                            end) l fs;;
                Ok (GStruct vs)
            | _ => Err EBadDesc                            (* errNeedMapOrArrayDecodeToStruct *)
            end
        | TPtr _ => Err EOther                             (* unreachable: strip *)
        end;;
      Ok (wrapn np v).

  (* ---- the documented losses, as a function of the value ---- *)

  (* the value is written as a nil (and so reads back as the zero value / a nil pointer) *)
  Fixpoint nilenc (v : gv) : bool :=
    match v with
    | GBytes None | GList None | GMap None => negb (nil_to_empty O)
    | GPtr None => true
    | GPtr (Some x) => nilenc x
    | GTime s n => is_nil W (wn W (ITime s n))
    | _ => false
    end.

  Fixpoint norm (v : gv) {struct v} : gv :=
    match v with
    | GF32 b => GF32 (fn32 W b)
    | GF64 b => GF64 (fn64 W b)
    | GTime s n => let sn := tnorm W s n in GTime (fst sn) (snd sn)
    | GBytes None => if nil_to_empty O then GBytes (Some []) else v
    | GList None => if nil_to_empty O then GList (Some []) else v
    | GMap None => if nil_to_empty O then GMap (Some []) else v
    | GList (Some l) => GList (Some (map norm l))
    | GArr l => GArr (map norm l)
    | GMap (Some l) => GMap (Some (map (fun kv => (norm (fst kv), norm (snd kv))) l))
    | GPtr (Some x) => if nilenc x then GPtr None else GPtr (Some (norm x))
    | GStruct fs => GStruct (map (fun nv => (fst nv, norm (snd nv))) fs)
    | _ => v
    end.
End Dec.

(* ---- scalar leaves of an item the format must support ---- *)
Fixpoint leaves_ok (W : wire) (i : item) : bool :=
  match i with
  | IArr l => forallb (leaves_ok W) l
  | IMap l => forallb (fun kv => leaves_ok W (fst kv) && leaves_ok W (snd kv)) l
  | ITag _ v => leaves_ok W v
  | _ => leaf_ok W i
  end.

(* ---- the interface a format's wire model has to meet ---- *)
Record scalar_ok (W : wire) (f : item -> item) : Prop := {
  s_nil : is_nil W (f INil) = true;
  s_bool : forall b, leaf_ok W (IBool b) = true -> is_nil W (f (IBool b)) = false /\ rd_bool W (f (IBool b)) = Ok b;
  s_int : forall z, leaf_ok W (IInt z) = true -> (- 2 ^ 63 <= z < 2 ^ 63)%Z ->
          is_nil W (f (IInt z)) = false /\ rd_int W (f (IInt z)) = Ok z;
  s_uint : forall n, leaf_ok W (IUint n) = true -> (n < 2 ^ 64)%N ->
           is_nil W (f (IUint n)) = false /\ rd_uint W (f (IUint n)) = Ok n;
  s_f32 : forall b, leaf_ok W (IF32 b) = true -> (b < 2 ^ 32)%N ->
          is_nil W (f (IF32 b)) = false /\ rd_f32 W (f (IF32 b)) = Ok (fn32 W b);
  s_f64 : forall b, leaf_ok W (IF64 b) = true -> (b < 2 ^ 64)%N ->
          is_nil W (f (IF64 b)) = false /\ rd_f64 W (f (IF64 b)) = Ok (fn64 W b);
  s_str : forall s, leaf_ok W (IStr s) = true -> bytes_ok s = true ->
          is_nil W (f (IStr s)) = false /\ rd_str W (f (IStr s)) = Ok s
}.

Record wire_ok (W : wire) : Prop := {
  w_val : scalar_ok W (wn W);
  w_key : scalar_ok W (wnk W);
  w_bytes : forall b, leaf_ok W (IBytes b) = true -> bytes_ok b = true ->
            is_nil W (wn W (IBytes b)) = false /\ rd_bytes W (wn W (IBytes b)) = Ok b;
  (* a time may be written as nil (cbor writes the zero time so): then it must read back as the zero time *)
  w_time : forall s n, leaf_ok W (ITime s n) = true -> (n < 1000000000)%N ->
           if is_nil W (wn W (ITime s n))
           then tnorm W s n = (time_zero_sec, 0%N)
           else rd_time W (wn W (ITime s n)) = Ok (tnorm W s n);
  w_arr : forall l, wn W (IArr l) = IArr (map (wn W) l);
  w_map : forall l, wn W (IMap l) = IMap (map (fun kv => (wnk W (fst kv), wn W (snd kv))) l);
  w_arr_nn : forall l, is_nil W (IArr l) = false;
  w_map_nn : forall l, is_nil W (IMap l) = false;
  (* float normalisation keeps NaN-ness and does not merge distinct map keys *)
  w_fn32_nan : forall b, nan32 (fn32 W b) = nan32 b;
  w_fn64_nan : forall b, nan64 (fn64 W b) = nan64 b;
  w_fn32_eq : forall a b, nan32 a = false -> nan32 b = false -> feq32 (fn32 W a) (fn32 W b) = feq32 a b;
  w_fn64_eq : forall a b, nan64 a = false -> nan64 b = false -> feq64 (fn64 W a) (fn64 W b) = feq64 a b
}.

(* ---- the losses as an explicit record (what a format documents), so that the
   per-format statements do not mention the wire record ---- *)
Record losses := mklosses {
  l_fn32 : N -> N;
  l_fn64 : N -> N;
  l_tnorm : Z -> N -> Z * N;
  l_tnil : Z -> N -> bool           (* this instant is written as nil *)
}.

Definition losses_of (W : wire) : losses :=
  {| l_fn32 := fn32 W; l_fn64 := fn64 W; l_tnorm := tnorm W; l_tnil := fun s n => is_nil W (wn W (ITime s n)) |}.

Section NormL.
  Variable L : losses.
  Variable O : gopts.
  Fixpoint nilencL (v : gv) : bool :=
    match v with
    | GBytes None | GList None | GMap None => negb (nil_to_empty O)
    | GPtr None => true
    | GPtr (Some x) => nilencL x
    | GTime s n => l_tnil L s n
    | _ => false
    end.
  Fixpoint normL (v : gv) {struct v} : gv :=
    match v with
    | GF32 b => GF32 (l_fn32 L b)
    | GF64 b => GF64 (l_fn64 L b)
    | GTime s n => let sn := l_tnorm L s n in GTime (fst sn) (snd sn)
    | GBytes None => if nil_to_empty O then GBytes (Some []) else v
    | GList None => if nil_to_empty O then GList (Some []) else v
    | GMap None => if nil_to_empty O then GMap (Some []) else v
    | GList (Some l) => GList (Some (map normL l))
    | GArr l => GArr (map normL l)
    | GMap (Some l) => GMap (Some (map (fun kv => (normL (fst kv), normL (snd kv))) l))
    | GPtr (Some x) => if nilencL x then GPtr None else GPtr (Some (normL x))
    | GStruct fs => GStruct (map (fun nv => (fst nv, normL (snd nv))) fs)
    | _ => v
    end.
End NormL.

Definition same_losses (A B : losses) : Prop :=
  (forall b, l_fn32 A b = l_fn32 B b) /\ (forall b, l_fn64 A b = l_fn64 B b) /\
  (forall s n, l_tnorm A s n = l_tnorm B s n) /\ (forall s n, l_tnil A s n = l_tnil B s n).

(* t.Round(time.Microsecond): halfway values round up *)
Definition round_us (s : Z) (n : N) : Z * N :=
  let us := ((n + 500) / 1000)%N in
  if N.eqb us 1000000 then ((s + 1)%Z, 0%N) else (s, (us * 1000)%N).

Definition is_time_zero (s : Z) (n : N) : bool := Z.eqb s time_zero_sec && N.eqb n 0.

(* the losses each format documents *)
(* cbor: time as microseconds (cbor.go:105-121, 599-613); floats exact; zero time as nil *)
Definition cbor_losses : losses := mklosses (fun b => b) (fun b => b) round_us is_time_zero.
(* msgpack, simple, json: nanoseconds, floats exact, zero time as nil *)
Definition exact_losses : losses := mklosses (fun b => b) (fun b => b) (fun s n => (s, n)) is_time_zero.
(* binc: one code for a zero float (binc.go:50-52 bincSpZeroFloat): the sign of zero is lost;
   one code for NaN (bincSpNan): the payload is lost *)
Definition binc_fn64 (b : N) : N := if N.eqb (b mod 2 ^ 63) 0 then 0%N else if nan64 b then (2047 * 2 ^ 52 + 2 ^ 51 + 1)%N else b.
Definition binc_fn32 (b : N) : N := if N.eqb (b mod 2 ^ 31) 0 then 0%N else if nan32 b then (255 * 2 ^ 23 + 2 ^ 22)%N else b.
Definition binc_losses : losses := mklosses binc_fn32 binc_fn64 (fun s n => (s, n)) is_time_zero.

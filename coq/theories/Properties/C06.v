(* C06 — a configured Handle can be shared by any number of goroutines (PARTIAL: protocol level).
   Statements about the interleaving model C06/Model.v of the copy-on-write publication protocol (any number of
   threads, any number of steps, any schedule, any value function F), closed by [exact].
   Not covered (runtime, trusted): the Go memory model for plain accesses beyond what C06_drf gives (no
   conflicting plain accesses under sequentially consistent atomics/mutexes), the scheduler, sync.Pool internals. *)
From Coq Require Import String List NArith ZArith Arith Lia Bool.
From Verif Require Import Gen.Cache C06.Model C06.ProofsList C06.Proofs.
From Verif Require Import Gen.SharedState C06.Shared C06.ProofsShared.
From Verif Require Gen.Reset C12.Model C12.Proofs.
Import ListNotations.

(* in every reachable state every published slice is sorted, duplicate-free and maps k to F k; every snapshot a
   thread still holds is such a slice and its keys are still published; mutexes are held by exactly the thread
   inside the critical section *)
Theorem C06_inv : forall F σ, reachable F σ ->
  (forall c, sortedk (published σ c) /\ NoDup (keys (published σ c)) /\
             (forall k v, In (k, v) (published σ c) -> v = F c k)) /\
  snapshots_ok F σ /\ mutex_ok σ.
Proof. exact inv_lemma. Qed.
Print Assumptions C06_inv.

(* a completed get k on cache c returned F c k: the result the operation produces alone *)
Theorem C06_linear : forall F σ t c k v, reachable F σ -> pc σ t = TDone c k v -> v = F c k.
Proof. exact linear_lemma. Qed.
Print Assumptions C06_linear.

(* nothing is ever lost from a cache *)
Theorem C06_monotone : forall F σ σ' c, reachable F σ -> steps F σ σ' ->
  incl (keys (published σ c)) (keys (published σ' c)).
Proof. exact monotone_lemma. Qed.
Print Assumptions C06_monotone.

(* no deadlock: every thread can step, or waits for a mutex whose holder can step *)
Theorem C06_progress : forall F σ, reachable F σ -> forall t,
  enabled F σ t \/
  exists m t', waits (pc σ t) = Some m /\ mtx σ m = Some t' /\ t' <> t /\ enabled F σ t'.
Proof. exact progress_lemma. Qed.
Print Assumptions C06_progress.

(* a critical section is left after at most 6 own steps, none of which can block *)
Theorem C06_crit_bounded : forall F σ σ' t m, step F t σ σ' -> holds (pc σ t) = Some m ->
  crit_left (pc σ t) <= 6 /\
  (holds (pc σ' t) = None \/ (holds (pc σ' t) = Some m /\ crit_left (pc σ' t) < crit_left (pc σ t))).
Proof. exact crit_lemma. Qed.
Print Assumptions C06_crit_bounded.

(* data-race freedom: in no reachable state do two threads have conflicting next accesses
   (same location, one a write, not both atomic) *)
Theorem C06_drf : forall F σ, reachable F σ -> ~ race σ.
Proof. exact drf_lemma. Qed.
Print Assumptions C06_drf.

(* every plain write targets an array owned by one thread and not yet published or loaded by anyone *)
Theorem C06_private_writes : forall F σ t a, reachable F σ -> priv (pc σ t) = Some a ->
  (forall c, pub σ c <> Some a) /\ (forall t' c, snap (pc σ t') <> Some (c, a)) /\
  (forall t', t' <> t -> priv (pc σ t') <> Some a).
Proof. exact private_lemma. Qed.
Print Assumptions C06_private_writes.

(* the binary search never exhausts its fuel, on any slice *)
Theorem C06_search_total : forall s k, fst (bsearch s k) <= length s.
Proof. exact bsearch_total. Qed.
Print Assumptions C06_search_total.

(* the pool contract: an object handed out is held by one thread and is not in the free list *)
Theorem C06_pool_exclusive : forall s, preachable s ->
  forall t1 t2 o, In o (pheld s t1) -> (In o (pheld s t2) -> t1 = t2) /\ ~ In o (pfree s).
Proof. exact pool_lemma. Qed.
Print Assumptions C06_pool_exclusive.

(* pooled side encoders/decoders carry state and go back to the pool as their last user left them (an operation
   may have aborted inside one).  Under the discipline the translator reads off the code (side_coder_reset_first:
   every user resets the object before anything else) a use never observes another goroutine's leftovers: the
   state it sees is the initial one or its own *)
Theorem C06_pool_state : forall s, qreachable s -> forall t o s',
  qstep s t (QUse o) = Some s' -> qowner s o = Some t /\ (qtaint s o = None \/ qtaint s o = Some t).
Proof. exact pool_state_lemma. Qed.
Print Assumptions C06_pool_state.

(* ... and that reset really restores the initial state: every field the 20 state structs of an Encoder/Decoder
   declare in the current source is assigned on the reset path or is behaviour-neutral (Gen/Reset.v; this is
   C12_fields, needed here because the pooled coders are shared by all goroutines using the Handle) *)
Theorem C06_pool_reset_complete : C12.Proofs.fields_ok = true.
Proof. exact C12.Proofs.fields_lemma. Qed.
Print Assumptions C06_pool_reset_complete.

(* the reset is necessary: without it a thread can hold an object that still carries another thread's state *)
Example C06_pool_leftover_nonvacuous :
  exists s, qreachable s /\ qowner s 0 = Some 1 /\ qtaint s 0 = Some 0 /\ qready s 0 = false.
Proof. exact pool_leftover_lemma. Qed.

(* the package-level pooled scratch objects (poolForTypeInfoLoad -> typeInfoLoad used by every TypeInfos.load of the
   process, pool4SFIs -> trie nodes; Gen/SharedState.v, read off the current source) come out of the pool as their last
   user - any goroutine, any Handle, any TypeInfos - left them: after the reset of the current source, whatever was
   left, a user observes exactly what it observes of a new object (every declared field is assigned or cleared by
   reset, except kept storage that is never read before being overwritten), and every site that takes an object out
   of a pool resets it before it is put back *)
Theorem C06_scratch_reset_restores : forall p, In p pooled_scratch ->
  (forall s, sview_of p (sreset (ps_reset p) s) = sview_of p snew) /\
  (ps_reset_between_get_put p = true /\ (1 <= ps_get_sites p)%nat).
Proof. exact scratch_reset_lemma. Qed.
Print Assumptions C06_scratch_reset_restores.

(* the reset has to be complete: one skipped field of typeInfoLoad lets the last user's state through *)
Example C06_scratch_partial_reset_nonvacuous :
  exists p s, In p pooled_scratch /\ ps_type p = "typeInfoLoad"%string /\
              sview_of p (sreset ["sfis"%string; "sfiNames"%string] s) <> sview_of p snew.
Proof. exact scratch_partial_lemma. Qed.

(* package-level variables that are views of package-level arrays (var zeroByteSlice = oneByteArr[:0:0], handed out as
   the empty non-nil []byte of every decoder): through an empty one no cell of the shared array can be addressed by
   any holder (capacity 0), so results of different goroutines never share writable memory through it *)
Theorem C06_shared_views_unwritable :
  (forall v, In v shared_views -> sv_len v = 0%Z -> forall i, addressable v i = false) /\
  (exists v, In v shared_views /\ sv_len v = 0%Z).
Proof. exact shared_views_lemma. Qed.
Print Assumptions C06_shared_views_unwritable.

(* with capacity 1 the cell would be writable by every holder *)
Example C06_shared_view_cap1_nonvacuous : addressable (mkSV "zeroByteSlice" "oneByteArr" 0 1) 0 = true.
Proof. exact shared_view_cap1_lemma. Qed.

(* what the translator read off the current source (all loaders, generic and monomorphised; every sync.Pool user returns an object only after its last use — the code side of the contract C06_pool_exclusive assumes): the protocol the
   model is a model of.  Breaks when the code changes shape. *)
Theorem C06_src_facts :
  no_inplace_write = true /\ store_fresh = true /\ store_last = true /\ recheck_after_lock = true /\
  lock_balanced = true /\ no_foreign_call_under_lock = true /\ store_sites_only_loaders = true /\
  entry_keyed = true /\ init_double_checked = true /\ init_flag_store_last = true /\
  init_unlock_deferred = true /\ inited_writers_ok = true /\
  pool_put_after_last_use = true /\ 4 <= pool_put_sites /\
  naked_templates_copied = true /\ 7 <= naked_template_uses /\ side_coder_reset_first = true /\ 10 <= side_coder_sites /\ find_cmp_lt = true /\ find_final_eq = true /\
  3 <= loaders_checked /\ loaders_checked = finders_checked /\
  find_shift = 1 /\ find_lo_inc = 1 /\ ins_len_inc = 1 /\ ins_hi_dst = 1 /\ ins_hi_src = 0 /\ ins_lo_dst = 0 /\ ins_set = 0.
Proof. exact src_facts_lemma. Qed.
Print Assumptions C06_src_facts.

(* non-vacuity: two threads race on the first use of key 5 in cache 1 of a fresh handle (thread 0 also runs the
   one-time init); both complete with F 1 5 and exactly one entry is published *)
Definition F0 (c : nat) (k : key) : val := (k + 100)%N.
Definition sched0 : list (nat * choice) :=
  repeat (0, ChNone) 6 ++ [(1, ChNone); (0, ChGet 1 5%N); (1, ChGet 1 5%N)] ++
  [(0, ChNone); (1, ChNone); (0, ChNone); (1, ChNone); (0, ChNone); (1, ChNone)] ++
  repeat (0, ChNone) 7 ++ repeat (1, ChNone) 4.

Example C06_nonvacuous :
  exists σ, reachable F0 σ /\ pc σ 0 = TDone 1 5%N 105%N /\ pc σ 1 = TDone 1 5%N 105%N /\
            published σ 1 = [(5%N, 105%N)] /\ mtx σ 1 = None /\ inited σ = true.
Proof. exact nonvacuous_lemma. Qed.

(* a blocked thread exists in some reachable state (progress is not vacuous) *)
Example C06_waiting_nonvacuous :
  exists σ, reachable F0 σ /\ waits (pc σ 1) = Some 1 /\ mtx σ 1 = Some 0.
Proof. exact waiting_lemma. Qed.

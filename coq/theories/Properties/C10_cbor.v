(* C10 (cbor half) — cbor bytes conform to RFC 8949 in both directions.
   Only statements, closed by [exact], with [Print Assumptions] beneath each. *)
From Coq Require Import List NArith ZArith Lia Bool.
From Verif Require Import Base.Outcome Wire.Item Gen.Consts Wire.CborFloat Wire.Cbor C10.CborSpec Wire.CborProofs.
Import ListNotations.
Open Scope N_scope.

(* all 65536 half-precision floats: the code's halfFloatToFloatBits (hand-modelled, tied by the
   leaf stream on all 65536 inputs) equals the RFC 8949 Appendix D value; exhaustive (two nested
   256-ranges, vm_compute) *)
Theorem C10_half : forall h : N, h < 65536 -> half_to_f32 h = spec_half h.
Proof. exact half_all. Qed.
Print Assumptions C10_half.

Example C10_half_nonvacuous : half_to_f32 15360 = 1065353216 /\ spec_half 1 = 864026624 /\ half_to_f32 64512 = 4286578688.
Proof. vm_compute. repeat split. Qed.

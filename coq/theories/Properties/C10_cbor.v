(* C10 (cbor half) — cbor bytes conform to RFC 8949 in both directions; wire-layer lemmas
   other properties build on (dec_enc).  Only statements, closed by [exact], with
   [Print Assumptions] beneath each.

   Vocabulary: Wire.Cbor (model of the library: enc, dec_naked, skip), C10.CborSpec (RFC 8949
   written independently: data model sdata, syntax of well-formed items wtree with every
   width / length-form choice explicit, ser, decoder spec_dec), C10.CborConv (go_of: the Go
   value carrying given data; lib_supports: documented limits; tdepth; tree_of). *)
From Coq Require Import List NArith ZArith Lia Bool.
From Verif Require Import Base.Outcome Wire.Item Gen.Consts Wire.CborFloat Wire.Cbor C10.CborSpec C10.CborConv Wire.CborProofs Wire.CborTime Wire.CborEnc Wire.CborDepth Wire.CborTotal Wire.CborDepthErr.
From Verif Require Import Wire.CborVU Wire.CborVUProofs Wire.CborUtf8 Wire.CborVUEnc Wire.CborDup Wire.CborDupProofs.
From Verif Require Gen.Leaf2 C10.LeafTie.
Import ListNotations.
Open Scope N_scope.

(* IN: every well-formed serialisation [ser t] of a supported item — any permitted head width
   (non-minimal included), definite or indefinite length, any chunking of strings, half / single /
   double floats, null or undefined — followed by arbitrary bytes, is decoded into interface{}
   to the Go value [go_of D] assigns to the data RFC 8949 says it carries, consuming exactly
   the item; for every option vector D (SignedInteger, RawToString, SkipUnexpectedTags,
   MaxDepth) and with fuel linear in the input.  Unbounded in sizes and nesting (nesting below
   MaxDepth is the premise the decoder itself imposes). *)
Theorem C10_cbor_in : forall (D : dopts) (t : wtree) (rest : list N),
  twf t -> lib_supports D t -> (tdepth D t < maxdepth D)%Z ->
  dec_naked D (fuel_for (ser t ++ rest)) (ser t ++ rest) = Ok (go_of D (data_of t), rest).
Proof. exact cbor_in_lemma. Qed.
Print Assumptions C10_cbor_in.

(* the specification's own decoder reads back every well-formed serialisation (the spec pair
   ser / spec_dec is consistent), with fuel linear in the input *)
Theorem C10_cbor_spec_consistent : forall (t : wtree) (rest : list N),
  twf t -> spec_dec (spec_fuel (ser t ++ rest)) (ser t ++ rest) = Some (data_of t, rest).
Proof. exact spec_consistent_lemma. Qed.
Print Assumptions C10_cbor_spec_consistent.

(* OUT: every encoding the library produces - for every option vector (IndefiniteLength, StringToRaw,
   TimeRFC3339, OptimumSize) and every item but a RawExt carrying raw Data (C10_cbor_ext) - is exactly
   one well-formed item for the RFC 8949 decoder, with no trailing bytes, carrying the item's data
   [sdata_of O i] (read off the item alone); floats are compared as values (fnorm: a half or single
   denotes the double it widens to), which is what OptimumSize narrowing preserves.
   For ITime the data is: null for the zero time; tag 0 + the RFC 3339 text; tag 1 + the epoch seconds of
   the instant rounded to the microsecond.  Not proved here: that fmt_rfc3339 is the RFC 3339 rendering
   and that the tag-1 float denotes the instant to the microsecond (both tied by the correspondence and
   checked by the reference-decoder oracle of harness/cmd/wirecbor). *)
Theorem C10_cbor_out : forall (O : eopts) (i : item), wf i -> plain i ->
  exists d, spec_dec (spec_fuel (enc O i)) (enc O i) = Some (d, []) /\ fnorm d = fnorm (sdata_of O i).
Proof. exact cbor_out_lemma. Qed.
Print Assumptions C10_cbor_out.

(* the encoder emits one of the well-formed serialisations (its form choices are tree_of) *)
Theorem C10_cbor_enc_wellformed : forall (O : eopts) (i : item),
  wf i -> plain i -> enc O i = ser (tree_of O i) /\ twf (tree_of O i).
Proof. exact enc_wellformed_lemma. Qed.
Print Assumptions C10_cbor_enc_wellformed.

(* RFC 8949 3.2.3 (F10-4): every chunk the encoder cuts a TEXT string into under IndefiniteLength is itself
   valid UTF-8 ([utf8_valid]: RFC 3629 well-formedness written in C10.CborSpec; [chunks_utf8]: all chunks of
   all indefinite-length text strings of a tree).  Partial: proved by an exhaustive sweep over every text of
   at most 8 characters drawn from 1-, 2-, 3- and 4-byte samples (87381 texts, up to 32 bytes: every alignment
   of a multi-byte character against the cut, chunk lengths 4..8) - the bound is [texts_upto 8]; the general
   statement (any valid UTF-8 text, any length) is not proved, it is covered by the enc stream's
   out:text-chunk-not-utf8 oracle.  With the pre-repair cutting at fixed offsets this statement is false. *)
Theorem C10_cbor_text_chunks_utf8_partial : forall (O : eopts) (s : list N),
  eo_str2raw O = false -> In s (texts_upto 8) -> chunks_utf8 (tree_of O (IStr s)) = true.
Proof. exact text_chunks_lemma. Qed.
Print Assumptions C10_cbor_text_chunks_utf8_partial.

Example C10_cbor_text_chunks_nonvacuous :
  let s := [97; 97; 97; 195; 169; 97; 97; 97; 195; 169; 97; 97; 97; 195; 169] in     (* "aaa\u00e9aaa\u00e9aaa\u00e9" *)
  chunks true (length s) (chunk_len (length s)) s = [[97; 97; 97]; [195; 169; 97; 97]; [97; 195; 169; 97]; [97; 97; 195; 169]]
  /\ chunks false (length s) (chunk_len (length s)) s = [[97; 97; 97; 195]; [169; 97; 97; 97]; [195; 169; 97; 97]; [97; 195; 169]]
  /\ utf8_valid [97; 97; 97; 195] = false /\ existsb (eqbl s) (texts_upto 8) = false
  /\ existsb (eqbl [97; 97; 97; 195; 169; 97; 226; 130; 172]) (texts_upto 8) = true /\ N.of_nat (length (texts_upto 8)) = 87381.
Proof. vm_compute. repeat split. Qed.

(* the same, in general: for EVERY well-formed UTF-8 text, of any length, every chunk the encoder cuts it into under
   IndefiniteLength is well-formed UTF-8 (Wire/CborUtf8.v: cutting well-formed UTF-8 where a character starts leaves two
   well-formed halves; a rune start is found within 4 bytes, and the chunk length is at least 4) *)
Theorem C10_cbor_text_chunks_utf8 : forall (O : eopts) (s : list N),
  eo_str2raw O = false -> utf8_valid s = true -> chunks_utf8 (tree_of O (IStr s)) = true.
Proof. exact text_chunks_general. Qed.
Print Assumptions C10_cbor_text_chunks_utf8.

(* ---- DecodeOptions.ValidateUnicode, destination interface{} ----
   Model: Wire/CborVU.v, [dec_naked_vu vu D] = the decoder of Wire/Cbor.v with one more option (the shared dopts record
   is left alone).  With the option every chunk of an indefinite-length TEXT string is validated as it is read (in every
   caller of DecodeBytes: text values, tag 0, tags 2 / 3) and DecodeStringAsBytes validates the whole once more (text
   values and map keys of major type 3, the content of tag 0 whatever its major type); byte strings are never validated,
   also when RawToString or kMap turn them into Go strings.  Tied to cbor.go by harness/cmd/wirecbor stream vu. *)

(* with the option off the extended model is the model the other theorems are about *)
Theorem C10_cbor_vu_off : forall (D : dopts) (f : nat) (b : list N), dec_naked_vu false D f b = dec_naked D f b.
Proof. exact vu_off. Qed.
Print Assumptions C10_cbor_vu_off.

(* for EVERY input, fuel and option vector: the option only rejects -- the run with it is the run without it, or the
   validation error (class "other"); hence it never changes a value and never runs out of fuel [fuel_for b] *)
Theorem C10_cbor_vu_only_rejects : forall (D : dopts) (f : nat) (b : list N),
  dec_naked_vu true D f b = dec_naked D f b \/ dec_naked_vu true D f b = Err EOther.
Proof. exact vu_rel. Qed.
Print Assumptions C10_cbor_vu_only_rejects.

Theorem C10_cbor_vu_total : forall (vu : bool) (D : dopts) (b : list N), dec_naked_vu vu D (fuel_for b) b <> OutOfFuel.
Proof. exact vu_total. Qed.
Print Assumptions C10_cbor_vu_total.

(* (b) soundness, for EVERY input and fuel: an Ok result holds no ill-formed text in value position -- top level, array
   elements, map values, tag contents ([vals_utf8]).  Two documented exemptions, both byte strings (never text on the
   wire): RawToString (premise) and map keys, which kMap converts from []byte to string (a TEXT key is validated:
   C10_cbor_vu_in / the examples below; the item alone does not tell the two apart, so [vals_utf8] skips keys). *)
Theorem C10_cbor_vu_sound : forall (D : dopts) (f : nat) (b : list N) (i : item) (rest : list N),
  do_raw2str D = false -> dec_naked_vu true D f b = Ok (i, rest) -> vals_utf8 i = true.
Proof. exact vu_sound. Qed.
Print Assumptions C10_cbor_vu_sound.

(* IN under the option: every well-formed serialisation of a supported item (any head width, definite or indefinite,
   any chunking) whose text strings -- each chunk and each whole, map keys included, and the content of tag 0 -- are
   well-formed UTF-8 ([wtexts_utf8]) is accepted, with the value C10_cbor_in_t assigns *)
Theorem C10_cbor_vu_in : forall (D : dopts) (t : wtree) (rest : list N),
  twf t -> lib_supports_t D t -> (tdepth_t D t < maxdepth D)%Z -> wtexts_utf8 t = true ->
  dec_naked_vu true D (fuel_for (ser t ++ rest)) (ser t ++ rest) = Ok (go_of_t D (data_of t), rest).
Proof. exact vu_in. Qed.
Print Assumptions C10_cbor_vu_in.

(* (a) every encoder output for an item whose text leaves (map keys included; the content of a tag 0 counts as text) are
   well-formed UTF-8 still decodes to the same item with the option on -- for every encoder option vector,
   IndefiniteLength included (the chunks are cut at code point boundaries since F10-4) *)
Theorem C10_cbor_vu_accepts : forall (O : eopts) (D : dopts) (i : item) (rest : list N),
  wf i -> plain i -> lib_supports_t D (tree_of O i) -> (tdepth_t D (tree_of O i) < maxdepth D)%Z ->
  text_ok i = true ->
  dec_naked_vu true D (fuel_for (enc O i ++ rest)) (enc O i ++ rest) = Ok (norm_t O D i, rest).
Proof. exact vu_accepts. Qed.
Print Assumptions C10_cbor_vu_accepts.

(* non-vacuity: "é" as text / cut inside the character (whole well-formed, chunks not) / cut at the boundary;
   ill-formed text as a map key is rejected, the same bytes as a byte-string key come back as a Go string;
   RawToString; tag 2 over chunked text; the encoder's chunks of a 15-byte text under IndefiniteLength are accepted *)
Example C10_cbor_vu_nonvacuous :
  let D := mkdo false false false 0 in
  dec_naked_vu true D 20 [0x62; 0xc3; 0xa9] = Ok (IStr [0xc3; 0xa9], []) /\
  dec_naked_vu true D 20 [0x7f; 0x61; 0xc3; 0x61; 0xa9; 0xff] = Err EOther /\
  dec_naked_vu false D 20 [0x7f; 0x61; 0xc3; 0x61; 0xa9; 0xff] = Ok (IStr [0xc3; 0xa9], []) /\
  dec_naked_vu true D 20 [0x7f; 0x62; 0xc3; 0xa9; 0x61; 0x61; 0xff] = Ok (IStr [0xc3; 0xa9; 0x61], []) /\
  dec_naked_vu true D 20 [0xa1; 0x61; 0xff; 0x01] = Err EOther /\
  dec_naked_vu true D 20 [0xa1; 0x41; 0xff; 0x01] = Ok (IMap [(IStr [0xff], IUint 1)], []) /\
  dec_naked_vu true (mkdo false true false 0) 20 [0x41; 0xff] = Ok (IStr [0xff], []) /\
  dec_naked_vu true D 20 [0xc2; 0x7f; 0x61; 0xff; 0xff] = Err EOther /\
  dec_naked_vu true D 20 [0xed; 0xa0; 0x80] <> Ok (IStr [0xed; 0xa0; 0x80], []) /\
  dec_naked_vu true D 20 [0x63; 0xed; 0xa0; 0x80] = Err EOther /\
  (let O := mkeo true false false false in
   let i := IMap [(IStr [195; 169], IArr [IStr [97; 97; 97; 195; 169; 97; 97; 97; 195; 169; 97; 97; 97; 195; 169]])] in
   wf i /\ plain i /\ text_ok i = true /\
   dec_naked_vu true D (fuel_for (enc O i)) (enc O i) = Ok (i, [])).
Proof.
  cbv zeta. repeat apply conj; try (vm_compute; reflexivity); try (vm_compute; discriminate).
  all: cbn; unfold bytes_ok; repeat (apply conj || apply Forall_cons || apply Forall_nil || lia || exact I).
Qed.

(* ---- maps with repeated keys decoded into interface{} ----
   Model: Wire/CborDup.v.  The base model answers "unsupported" at a repeated key; [dec_naked_dup] is the decoder of a
   handle with MapValueReset (or InterfaceReset): the entries are read as they come ([dec_naked_dup_raw]) and assigned
   to a Go map ([map_view], at every nesting level): an entry whose key compares equal (Go ==) to an earlier one
   replaces it, key object and value.  (Both options off: the later value is decoded INTO the earlier one -- typed
   decoding in the generic layer, not modelled.)  Tied to the code by harness/cmd/wirecbor stream dup. *)

(* the extension reads what the base model reads, except where that one gives up *)
Theorem C10_cbor_dup_extends : forall (D : dopts) (f : nat) (b : list N),
  dec_naked_dup_raw D f b = dec_naked D f b \/ dec_naked D f b = Err EUnsupported.
Proof. exact dup_rel. Qed.
Print Assumptions C10_cbor_dup_extends.

(* where the base model answers Ok, the extension gives the same value (the base model never returns a repeated key,
   and the view of a value without repeated keys is the value); every error but "unsupported" carries over *)
Theorem C10_cbor_dup_agrees : forall (D : dopts) (f : nat) (b : list N) (i : item) (rest : list N),
  dec_naked D f b = Ok (i, rest) -> dec_naked_dup D f b = Ok (i, rest).
Proof. exact dup_agrees. Qed.
Print Assumptions C10_cbor_dup_agrees.

Theorem C10_cbor_dup_agrees_err : forall (D : dopts) (f : nat) (b : list N) (e : eclass),
  dec_naked D f b = Err e -> e <> EUnsupported -> dec_naked_dup D f b = Err e.
Proof. exact dup_agrees_err. Qed.
Print Assumptions C10_cbor_dup_agrees_err.

(* IN with repeated keys: every well-formed serialisation of a supported item -- [lib_supports_dup] is lib_supports_t
   without "the keys of a map are pairwise different" -- decodes to the Go value of the data RFC 8949 assigns *)
Theorem C10_cbor_dupkeys : forall (D : dopts) (t : wtree) (rest : list N),
  twf t -> lib_supports_dup D t -> (tdepth_t D t < maxdepth D)%Z ->
  dec_naked_dup D (fuel_for (ser t ++ rest)) (ser t ++ rest) = Ok (map_view (go_of_t D (data_of t)), rest).
Proof. exact dup_in. Qed.
Print Assumptions C10_cbor_dupkeys.

(* the Go map, for ANY list of entries: a lookup finds the value, and the key object, of the LAST entry whose key
   compares equal; the keys are pairwise different; assigning again changes nothing.  (Go == on hashable keys is
   symmetric and transitive: key_eqb_sym / key_eqb_trans in Wire/CborDupProofs.v; NaN equals nothing, itself included.) *)
Theorem C10_cbor_dupkeys_last_wins : forall (l : list (item * item)) (k : item),
  lookup k (assign_all l) = last_value k l /\ lookup_key k (assign_all l) = last_key k l.
Proof. intros l k. split; [exact (view_last_wins l k)|exact (view_last_key l k)]. Qed.
Print Assumptions C10_cbor_dupkeys_last_wins.

Theorem C10_cbor_dupkeys_distinct : forall (l : list (item * item)),
  distinct_keys (assign_all l) /\ assign_all (assign_all l) = assign_all l.
Proof. intros l. split; [exact (view_distinct l)|exact (view_idem l)]. Qed.
Print Assumptions C10_cbor_dupkeys_distinct.

(* non-vacuity: {1: [1,2], 1: [3]}; {1:2, 3:4, 1:5}; a text key and a byte-string key with the same bytes are one key;
   -0.0 then +0.0: one key, and it is the LATER key object (+0.0) the map holds; two NaN keys stay two entries;
   the base model gives up on each of the first four *)
Example C10_cbor_dupkeys_nonvacuous :
  let D := mkdo false false false 0 in
  dec_naked_dup D 50 [0xa2; 0x01; 0x82; 0x01; 0x02; 0x01; 0x81; 0x03] = Ok (IMap [(IUint 1, IArr [IUint 3])], []) /\
  dec_naked D 50 [0xa2; 0x01; 0x82; 0x01; 0x02; 0x01; 0x81; 0x03] = Err EUnsupported /\
  dec_naked_dup D 50 [0xa3; 0x01; 0x02; 0x03; 0x04; 0x01; 0x05] = Ok (IMap [(IUint 1, IUint 5); (IUint 3, IUint 4)], []) /\
  dec_naked_dup D 50 [0xa2; 0x61; 0x61; 0x01; 0x41; 0x61; 0x02] = Ok (IMap [(IStr [97], IUint 2)], []) /\
  dec_naked_dup D 50 [0xa2; 0xf9; 0x80; 0x00; 0x01; 0xf9; 0x00; 0x00; 0x02] = Ok (IMap [(IF64 0, IUint 2)], []) /\
  dec_naked_dup D 50 [0xa2; 0xf9; 0x7e; 0x00; 0x01; 0xf9; 0x7e; 0x00; 0x02]
    = Ok (IMap [(IF64 9221120237041090560, IUint 1); (IF64 9221120237041090560, IUint 2)], []) /\
  (let t := TMapI [(TUint W1 1, TArr W0 [TUint W0 1]); (TText W0 [97], TUint W0 2); (TUint W0 1, TMap W0 [(TBytes W0 [97], TSimple 20); (TText W1 [97], TSimple 21)])] in
   twf t /\ lib_supports_dup D t /\ ~ lib_supports_t D t /\
   map_view (go_of_t D (data_of t)) = IMap [(IUint 1, IMap [(IStr [97], IBool true)]); (IStr [97], IUint 2)]).
Proof.
  cbv zeta. split; [vm_compute; reflexivity|]. split; [vm_compute; reflexivity|]. split; [vm_compute; reflexivity|].
  split; [vm_compute; reflexivity|]. split; [vm_compute; reflexivity|]. split; [vm_compute; reflexivity|].
  split; [|split; [|split]].
  - cbn. unfold bytes_ok. repeat (apply conj || apply Forall_cons || apply Forall_nil || lia || exact I || reflexivity).
  - cbn. unfold keys_hash. repeat (apply conj || apply Forall_cons || apply Forall_nil || lia || exact I || reflexivity || discriminate).
  - intros [_ [Hk _]]. vm_compute in Hk. destruct Hk as (_ & _ & _ & _ & _ & H & _). discriminate H.
  - vm_compute. reflexivity.
Qed.

(* a RawExt carrying Data is the tag followed by Data verbatim: well-formed exactly when Data is *)
Theorem C10_cbor_ext : forall (O : eopts) (t : N) (t' : wtree),
  t < 18446744073709551616 -> enc O (IExt t (ser t')) = ser (TTag (minw t) t t').
Proof. exact ext_lemma. Qed.
Print Assumptions C10_cbor_ext.

(* dec_enc: decoding what the encoder wrote (any options, OptimumSize included) gives [norm O D i] =
   go_of D (sdata_of O i): non-negative integers come back unsigned unless SignedInteger, floats as the
   double of the same value, StringToRaw strings as bytes (or strings again under RawToString), []byte map
   keys as strings, kept tags as ITag / dropped under SkipUnexpectedTags.
   Partial: [lib_supports D (tree_of O i)] excludes tags 0..5, hence non-zero ITime (the zero time is
   covered: nil).  What remains for times is float / calendar arithmetic: time_of_float (f64_add ...) and
   parse_rfc3339 (fmt_rfc3339 ...) returning the microsecond-rounded instant; covered by the enc stream's
   round-trip oracle and the correspondence only. *)
Theorem Wcbor_dec_enc_partial : forall (O : eopts) (D : dopts) (i : item) (rest : list N),
  wf i -> plain i -> lib_supports D (tree_of O i) -> (tdepth D (tree_of O i) < maxdepth D)%Z ->
  dec_naked D (fuel_for (enc O i ++ rest)) (enc O i ++ rest) = Ok (norm O D i, rest).
Proof. exact dec_enc_lemma. Qed.
Print Assumptions Wcbor_dec_enc_partial.

(* ---- tag 0 (RFC 3339 date/time string) and times written under TimeRFC3339 ----
   The [_t] vocabulary (C10.CborConv: go_of_t, lib_supports_t, tdepth_t; CborEnc.norm_t) extends the one
   above to tag 0 and agrees with it wherever the latter applies (Wcbor_norm_t_norm). *)

(* IN, extended: as C10_cbor_in, and a tag 0 item whose content is a byte / text string of any form
   holding text that parses as strict UTC RFC 3339 decodes to that time (no depth consumed) *)
Theorem C10_cbor_in_t : forall (D : dopts) (t : wtree) (rest : list N),
  twf t -> lib_supports_t D t -> (tdepth_t D t < maxdepth D)%Z ->
  dec_naked D (fuel_for (ser t ++ rest)) (ser t ++ rest) = Ok (go_of_t D (data_of t), rest).
Proof. exact cbor_in_t_lemma. Qed.
Print Assumptions C10_cbor_in_t.

(* the calendar arithmetic: civil_from_days yields a valid date and is inverted by days_from_civil, for
   every day number (facts about the day of the 400-year era checked exhaustively over its 146097 days:
   two nested 383-ranges, vm_compute; lifted to all eras arithmetically) *)
Theorem Wcbor_civil_inverse : forall days y m d, civil days = (y, m, d) ->
  (1 <= m <= 12)%Z /\ (1 <= d <= days_in_month y m)%Z /\ days_from_civil y m d = days
  /\ (y - 400 <= (days + 719468) / 146097 * 400 <= y)%Z.
Proof. exact civil_inverse. Qed.
Print Assumptions Wcbor_civil_inverse.

(* parsing the text the encoder prints gives back the instant, rounded to the microsecond as decodeTime
   does for BOTH wire forms; for every instant whose UTC year is 0..9999 ([year_ok], the range Go's
   RFC 3339 formatter accepts: -62167219200 <= sec <= 253402300799) and every nanosecond field *)
Theorem Wcbor_parse_fmt : forall (sec : Z) (nsec : N), year_ok sec = true -> nsec < 1000000000 ->
  parse_rfc3339 (fmt_rfc3339 sec nsec) = Ok (ITime (fst (round_us sec nsec)) (snd (round_us sec nsec))).
Proof. exact parse_rfc3339_fmt. Qed.
Print Assumptions Wcbor_parse_fmt.

(* a time under TimeRFC3339 is supported wherever it occurs, consumes no depth, and its norm_t is the
   microsecond-rounded instant (nil for the zero time) *)
Theorem Wcbor_time_rfc3339 : forall (O : eopts) (D : dopts) (s : Z) (n : N),
  eo_rfc3339 O = true -> year_ok s = true -> n < 1000000000 ->
  lib_supports_t D (tree_of O (ITime s n)) /\ tdepth_t D (tree_of O (ITime s n)) = 0%Z /\
  norm_t O D (ITime s n) =
    (if (s =? zero_time_sec)%Z && (n =? 0) then INil else ITime (fst (round_us s n)) (snd (round_us s n))).
Proof. exact time_rfc3339_lemma. Qed.
Print Assumptions Wcbor_time_rfc3339.

(* dec_enc, extended: every item [lib_supports_t] admits - in particular any nesting of containers
   holding times written under TimeRFC3339 - decodes to norm_t.  (The tag-1 float form of a non-zero
   time stays outside: Wcbor_dec_enc_partial.) *)
Theorem Wcbor_dec_enc : forall (O : eopts) (D : dopts) (i : item) (rest : list N),
  wf i -> plain i -> lib_supports_t D (tree_of O i) -> (tdepth_t D (tree_of O i) < maxdepth D)%Z ->
  dec_naked D (fuel_for (enc O i ++ rest)) (enc O i ++ rest) = Ok (norm_t O D i, rest).
Proof. exact dec_enc_t_lemma. Qed.
Print Assumptions Wcbor_dec_enc.

Theorem Wcbor_norm_t_norm : forall (O : eopts) (D : dopts) (i : item), wf i -> plain i ->
  lib_supports D (tree_of O i) -> norm_t O D i = norm O D i.
Proof. exact norm_t_norm. Qed.
Print Assumptions Wcbor_norm_t_norm.

Theorem Wcbor_compat_t : forall (D : dopts) (t : wtree), lib_supports D t ->
  lib_supports_t D t /\ go_of_t D (data_of t) = go_of D (data_of t) /\ tdepth_t D t = tdepth D t.
Proof. exact compat_t. Qed.
Print Assumptions Wcbor_compat_t.

Theorem Wcbor_dec_depth_err_t : forall (D : dopts) (t : wtree) (rest : list N),
  twf t -> lib_supports_t D t -> (maxdepth D <= tdepth_t D t)%Z ->
  dec_naked D (fuel_for (ser t ++ rest)) (ser t ++ rest) = Err EDepth.
Proof. exact dec_depth_err_t_lemma. Qed.
Print Assumptions Wcbor_dec_depth_err_t.

(* skip (C11 at the wire level): the second parser nextValueBytes, as used to swallow an unknown
   struct field (depth d = 1) or to capture a Raw (d = 0), walks exactly one well-formed item of
   any width / length form and leaves the following bytes untouched; nesting below MaxDepth is
   counted by the walker since the F14-1 repair *)
Theorem Wcbor_skip_wellformed : forall (D : dopts) (t : wtree) (d : Z) (rest : list N),
  twf t -> skippable t -> (d + sdepth t < maxdepth D)%Z ->
  skip D (fuel_for (ser t ++ rest)) d (ser t ++ rest) = Ok rest.
Proof. exact skip_ser_lemma. Qed.
Print Assumptions Wcbor_skip_wellformed.

(* skip_enc: skipping what the encoder wrote - any item but raw-Data RawExt, any options, times and
   narrowed floats included - consumes exactly it *)
Theorem Wcbor_skip_enc : forall (O : eopts) (D : dopts) (i : item) (d : Z) (rest : list N),
  wf i -> plain i -> (d + sdepth (tree_of O i) < maxdepth D)%Z ->
  skip D (fuel_for (enc O i ++ rest)) d (enc O i ++ rest) = Ok rest.
Proof. exact skip_enc_lemma. Qed.
Print Assumptions Wcbor_skip_enc.

(* dec_depth, second half (full): for EVERY byte string, every option vector and every fuel, the
   recursion level the decode-into-interface{} model reaches (instrumented exactly where the code
   recurses: array/map elements, kept tags) never exceeds MaxDepth - 1; likewise for the skip walker.
   (With the pre-repair code this is false: F14-1/2/3.) *)
Theorem Wcbor_dec_maxrec : forall (D : dopts) (f : nat) (b : list N),
  (dec_maxrec D f b <= Z.to_nat (maxdepth D - 1))%nat.
Proof. exact dec_maxrec_lemma. Qed.
Print Assumptions Wcbor_dec_maxrec.

Theorem Wcbor_skip_maxrec : forall (D : dopts) (f : nat) (d : Z) (b : list N),
  (0 <= d)%Z -> (skip_maxrec D f d b <= Z.to_nat (maxdepth D - 1))%nat.
Proof. exact skip_maxrec_lemma. Qed.
Print Assumptions Wcbor_skip_maxrec.

(* TOTALITY (C02 for cbor, on the model): for EVERY byte list and every option vector, decoding into
   interface{} and skipping terminate within fuel 2 * length b + 2 (work linear in the input): the
   result is never OutOfFuel.  (False before the F02-1 repair: the skip cursor could move backwards.) *)
Theorem Wcbor_dec_total : forall (D : dopts) (b : list N), dec_naked D (fuel_for b) b <> OutOfFuel.
Proof. exact dec_total_lemma. Qed.
Print Assumptions Wcbor_dec_total.

Theorem Wcbor_skip_total : forall (D : dopts) (d : Z) (b : list N), skip D (fuel_for b) d b <> OutOfFuel.
Proof. exact skip_total_lemma. Qed.
Print Assumptions Wcbor_skip_total.

(* PROGRESS: a successful decode / skip (any fuel) consumed at least one byte and returns a suffix of
   its input *)
Theorem Wcbor_dec_progress : forall (D : dopts) (f : nat) (b : list N) (i : item) (rest : list N),
  dec_naked D f b = Ok (i, rest) ->
  exists consumed, b = consumed ++ rest /\ (1 <= length consumed)%nat.
Proof. exact dec_progress_lemma. Qed.
Print Assumptions Wcbor_dec_progress.

Theorem Wcbor_skip_progress : forall (D : dopts) (f : nat) (d : Z) (b rest : list N),
  skip D f d b = Ok rest ->
  exists consumed, b = consumed ++ rest /\ (1 <= length consumed)%nat.
Proof. exact skip_progress_lemma. Qed.
Print Assumptions Wcbor_skip_progress.

(* dec_depth, first half (full): every well-formed serialisation of a supported item nested more than
   MaxDepth allows (arrays, maps, kept tags, definite or indefinite, in any mixture; MaxDepth - 1 levels
   are the most the decoder accepts) is rejected with the depth error - never Ok, never another error;
   together with C10_cbor_in this decides every such input.  Same for values skipped inside an unknown
   struct field (d = 1) or captured as Raw (d = 0). *)
Theorem Wcbor_dec_depth_err : forall (D : dopts) (t : wtree) (rest : list N),
  twf t -> lib_supports D t -> (maxdepth D <= tdepth D t)%Z ->
  dec_naked D (fuel_for (ser t ++ rest)) (ser t ++ rest) = Err EDepth.
Proof. exact dec_depth_err_lemma. Qed.
Print Assumptions Wcbor_dec_depth_err.

Theorem Wcbor_skip_depth_err : forall (D : dopts) (t : wtree) (d : Z) (rest : list N),
  twf t -> skippable t -> (0 <= d < maxdepth D)%Z -> (maxdepth D <= d + sdepth t)%Z ->
  skip D (fuel_for (ser t ++ rest)) d (ser t ++ rest) = Err EDepth.
Proof. exact skip_depth_err_lemma. Qed.
Print Assumptions Wcbor_skip_depth_err.

(* all 65536 half-precision floats: the code's halfFloatToFloatBits (hand-modelled, tied by the
   leaf stream on all 65536 inputs) equals the RFC 8949 Appendix D value; exhaustive (two nested
   256-ranges, vm_compute) *)
Theorem C10_half : forall h : N, h < 65536 -> half_to_f32 h = spec_half h.
Proof. exact half_all. Qed.
Print Assumptions C10_half.

(* source tie of C10_half (and of the OptimumSize branch of the encoder model): the hand-written
   half_to_f32 / f32_to_half of Wire/CborFloat.v EQUAL the functions the translator regenerates from the
   current helper.go halfFloatToFloatBits / floatToHalfFloatBits on every run (Gen/Leaf2.v): all 65536
   uint16 (the renormalisation loop of the Go code ends within 10 turns: for every fuel >= 11 the
   translation answers Ok, never OutOfFuel) and all 2^32 uint32.  A behaviour-changing edit of either Go
   function breaks this obligation. *)
Theorem C10_half_src_tie :
  (forall h : N, h < 65536 -> forall fuel : nat, (11 <= fuel)%nat ->
     Leaf2.halfFloatToFloatBits fuel (Z.of_N h) = Ok (Z.of_N (half_to_f32 h))) /\
  (forall i : N, i < 4294967296 -> Leaf2.floatToHalfFloatBits (Z.of_N i) = Z.of_N (f32_to_half i)).
Proof. exact LeafTie.half_src_tie. Qed.
Print Assumptions C10_half_src_tie.

(* source tie of the big-endian fields of every cbor head / float: be_put 2/4/8 and be_get of
   Wire/Cbor.v EQUAL the translated bigen.PutUint16/32/64 and bigen.Uint16/32/64 (helper.go) for every
   uint16 / uint32 / uint64 and every [2]byte / [4]byte / [8]byte *)
Theorem C10_cbor_bigen_src_tie :
  (forall v, v < 65536 ->
     (let '(a, b) := Leaf2.bigenHelper_PutUint16 (Z.of_N v) in [a; b]) = map Z.of_N (be_put 2 v)) /\
  (forall v, v < 4294967296 -> Leaf2.bigenHelper_PutUint32 (Z.of_N v) = map Z.of_N (be_put 4 v)) /\
  (forall v, v < 18446744073709551616 -> Leaf2.bigenHelper_PutUint64 (Z.of_N v) = map Z.of_N (be_put 8 v)) /\
  (forall a b, a < 256 -> b < 256 -> Leaf2.bigenHelper_Uint16 (map Z.of_N [a; b]) = Z.of_N (be_get [a; b])) /\
  (forall a b c d, a < 256 -> b < 256 -> c < 256 -> d < 256 ->
     Leaf2.bigenHelper_Uint32 (map Z.of_N [a; b; c; d]) = Z.of_N (be_get [a; b; c; d])) /\
  (forall a b c d e f g h,
     a < 256 -> b < 256 -> c < 256 -> d < 256 -> e < 256 -> f < 256 -> g < 256 -> h < 256 ->
     Leaf2.bigenHelper_Uint64 (map Z.of_N [a; b; c; d; e; f; g; h]) = Z.of_N (be_get [a; b; c; d; e; f; g; h])).
Proof. exact LeafTie.bigen_src_tie. Qed.
Print Assumptions C10_cbor_bigen_src_tie.

Example C10_src_tie_nonvacuous :
  Leaf2.halfFloatToFloatBits 11 15360 = Ok 1065353216%Z /\ Leaf2.halfFloatToFloatBits 11 1 = Ok 864026624%Z /\
  Leaf2.halfFloatToFloatBits 9 1 = OutOfFuel /\   (* the smallest subnormal needs all 10 turns (and one more call to see the end) *)
  Leaf2.floatToHalfFloatBits 1065353216 = 15360%Z /\ Leaf2.floatToHalfFloatBits 2139095041 = 31745%Z /\
  Leaf2.bigenHelper_PutUint32 16909060 = [1; 2; 3; 4]%Z /\ Leaf2.bigenHelper_Uint16 [1; 2]%Z = 258%Z.
Proof. vm_compute. repeat apply conj; reflexivity. Qed.

(* ---- non-vacuity ---- *)
Example C10_half_nonvacuous : half_to_f32 15360 = 1065353216 /\ spec_half 1 = 864026624 /\ half_to_f32 64512 = 4286578688.
Proof. vm_compute. repeat split. Qed.

(* {"a": [1, -2, h'01', 1.5 (half)], 2: <tag 100>(indefinite text "xy" in two chunks)} with non-minimal heads,
   an indefinite array inside a definite map *)
Definition ex_tree : wtree :=
  TMap W1 [ (TText W2 [97], TArrI [TUint W4 1; TNint W0 1; TBytes W1 [1]; THalf 15872]);
            (TUint W0 2, TTag W2 100 (TTextI [(W0, [120]); (W1, [121])])) ].
Definition ex_D : dopts := mkdo false false false 0.

Example C10_cbor_in_nonvacuous :
  twf ex_tree /\ lib_supports ex_D ex_tree /\ (tdepth ex_D ex_tree < maxdepth ex_D)%Z /\
  ser ex_tree = [184; 2; 121; 0; 1; 97; 159; 26; 0; 0; 0; 1; 33; 88; 1; 1; 249; 62; 0; 255; 2; 217; 0; 100; 127; 97; 120; 120; 1; 121; 255] /\
  dec_naked ex_D (fuel_for (ser ex_tree)) (ser ex_tree) =
    Ok (IMap [(IStr [97], IArr [IUint 1; IInt (-2); IBytes [1]; IF64 4609434218613702656]);
              (IUint 2, ITag 100 (IStr [120; 121]))], []).
Proof.
  split; [| split; [| split; [| split]]].
  - cbn. repeat (apply conj || apply Forall_cons || apply Forall_nil || lia || exact I || (cbn; lia)).
  - cbn. repeat (apply conj || apply Forall_cons || apply Forall_nil || lia || exact I || discriminate || reflexivity).
  - vm_compute. reflexivity.
  - vm_compute. reflexivity.
  - vm_compute. reflexivity.
Qed.

Example C10_cbor_out_nonvacuous :
  let O := mkeo true false false true in
  let i := IArr [IInt (-500); IStr [104; 105]; IMap [(IUint 1, IF64 4609434218613702656)]; ITag 32 INil; ITime 1 500000000; IF32 1078530011] in
  wf i /\ plain i /\
  enc O i = [159; 57; 1; 243; 127; 98; 104; 105; 255; 191; 1; 249; 62; 0; 255; 216; 32; 246; 193; 249; 62; 0; 250; 64; 73; 15; 219; 255]
  /\ spec_dec (spec_fuel (enc O i)) (enc O i)
     = Some (DArr [DNint 499; DText [104; 105]; DMap [(DUint 1, DFloat 16 15872)]; DTag 32 (DSimple 22);
                   DTag 1 (DFloat 16 15872); DFloat 32 1078530011], [])
  /\ fnorm (DFloat 16 15872) = fnorm (sdata_of O (IF64 4609434218613702656)).
Proof.
  cbv zeta. split; [| split; [| split; [| split]]].
  - cbn. repeat (apply conj || apply Forall_cons || apply Forall_nil || lia || exact I).
  - cbn. repeat (apply conj || lia || exact I).
  - vm_compute. reflexivity.
  - vm_compute. reflexivity.
  - vm_compute. reflexivity.
Qed.

Example Wcbor_skip_nonvacuous :
  twf ex_tree /\ skippable ex_tree /\ (1 + sdepth ex_tree < maxdepth ex_D)%Z /\
  skip ex_D (fuel_for (ser ex_tree ++ [1; 2; 3])) 1 (ser ex_tree ++ [1; 2; 3]) = Ok [1; 2; 3].
Proof.
  split; [| split; [| split]].
  - cbn. repeat (apply conj || apply Forall_cons || apply Forall_nil || lia || exact I || (cbn; lia)).
  - cbn. repeat (apply conj || lia || exact I).
  - vm_compute. reflexivity.
  - vm_compute. reflexivity.
Qed.

(* nesting beyond MaxDepth is rejected with the depth error, and a run of tags no longer recurses
   (instances; the general statements dec_depth / dec_total are not proved, see the report) *)
Example Wcbor_depth_instances :
  dec_naked (mkdo false false false 3) 100 [129; 129; 129; 1] = Err EDepth /\
  dec_naked (mkdo false false false 3) 100 [129; 129; 1] = Ok (IArr [IArr [IUint 1]], []) /\
  dec_naked (mkdo false false false 3) 100 [198; 198; 198; 1] = Err EDepth /\
  dec_maxrec (mkdo false false true 3) 100 [198; 198; 198; 198; 198; 198; 129; 1] = 1%nat /\
  skip (mkdo false false false 3) 100 1 [129; 129; 1] = Err EDepth /\
  dec_naked (mkdo false false false 0) 100 [155; 255; 255; 255; 255; 128; 0; 0; 0; 1] = Err EOverflow /\
  skip (mkdo false false false 0) 100 0 [91; 255; 255; 255; 255; 255; 255; 255; 247; 1] = Err EEof.
Proof. vm_compute. repeat split. Qed.

Example Wcbor_depth_err_nonvacuous :
  let D := mkdo false false false 3 in
  let t := TArr W0 [TMapI [(TUint W0 1, TTag W1 100 (TArrI [THalf 0]))]] in
  twf t /\ lib_supports D t /\ (maxdepth D <= tdepth D t)%Z /\ skippable t /\ (maxdepth D <= 0 + sdepth t)%Z.
Proof.
  cbv zeta. split; [| split; [| split; [| split]]].
  - cbn. repeat (apply conj || apply Forall_cons || apply Forall_nil || lia || exact I || (cbn; lia)).
  - cbn. repeat (apply conj || apply Forall_cons || apply Forall_nil || lia || exact I || discriminate || reflexivity).
  - vm_compute. discriminate.
  - cbn. repeat (apply conj || lia || exact I).
  - vm_compute. discriminate.
Qed.

(* [2000-02-29T23:59:59.999999999Z, {1: 0001-01-01T00:00:00Z (nil), "k": 9999-12-31T23:59:59.5Z}] under
   TimeRFC3339 + IndefiniteLength: round trip to the microsecond (the first rolls over to March 1st) *)
Example Wcbor_time_roundtrip_nonvacuous :
  let O := mkeo true true false false in
  let D := mkdo false false false 0 in
  let i := IArr [ITime 951868799 999999999; IMap [(IUint 1, ITime (-62135596800) 0); (IStr [107], ITime 253402300799 500000000)]] in
  wf i /\ plain i /\ year_ok 951868799 = true /\ year_ok 253402300799 = true /\
  dec_naked D (fuel_for (enc O i)) (enc O i) =
    Ok (IArr [ITime 951868800 0; IMap [(IUint 1, INil); (IStr [107], ITime 253402300799 500000000)]], []) /\
  norm_t O D i = IArr [ITime 951868800 0; IMap [(IUint 1, INil); (IStr [107], ITime 253402300799 500000000)]].
Proof.
  cbv zeta. split; [| split; [| split; [| split; [| split]]]].
  - cbn. repeat (apply conj || apply Forall_cons || apply Forall_nil || lia || exact I).
  - cbn. repeat (apply conj || lia || exact I).
  - vm_compute. reflexivity.
  - vm_compute. reflexivity.
  - vm_compute. reflexivity.
  - vm_compute. reflexivity.
Qed.

(* C02 — "Decoding arbitrary bytes is total: error or value, never a crash or hang".
   Only statements, closed by [exact], with [Print Assumptions] beneath each.

   Per format F: decoding (into interface{}) and skipping / raw-capturing ANY byte list b with
   fuel K * (length b + 1), K = 2, never returns OutOfFuel (C02_F_terminates) — the wire-layer
   totality lemmas (every loop iteration advances the cursor), assembled in C02/Bridge.v;
   every outcome is a value or an [Err] class, which is what the Decode boundary recovers
   (C02_only_recoverable; the unrecoverable classes are stack exhaustion — excluded by C14 — and
   memory exhaustion — C02_alloc); allocation requests are bounded by K0 + K1 * length b
   whatever lengths the input claims (C02_alloc, on the run model of C02/Alloc.v).

   Steps: the wire models expose fuel, not a step counter; C02_walker_steps_partial bounds the
   steps of a step-counting skeleton of the recursive walkers for EVERY head parser that makes
   progress; C02_msgpack_walker_steps instantiates it with the head parser of the msgpack skip
   walker and proves that the instance computes the msgpack wire model's skip; likewise
   C02_simple_walker_steps, C02_binc_walker_steps (the symbol table projected away: it does not steer
   the walker) and C02_cbor_walker_steps (tags = one-value containers, indefinite lengths with the
   break byte, the chunk loop of indefinite strings inside the leaf; equal to the model's skip up to
   one characterised error-class difference, C02_cbor_walker_exact_refuted).
   json (C02_json_terminates, C02_only_recoverable_json, assembled in C02/JsonBridge.v from
   Wire/JsonTotal.v / JsonProofs.v / JsonLeaf.v): the same fuel, for every leaf implementation with a
   total string decoder and in particular for C09's string code (the leaf the Wjson correspondence runs).
   NOT here (see checks/C02.py): typed destinations of the binary formats and io.Reader transports;
   real time and memory (harness oracle). *)
From Coq Require Import List NArith ZArith Lia Bool.
From Verif Require Import Base.Outcome Wire.Item Gen.Consts.
From Verif Require Wire.Cbor Wire.Msgpack Wire.Simple Wire.Binc Wire.Json.
From Verif Require Import C02.Bridge C02.Alloc C02.AllocProofs C02.Steps C02.StepsProofs.
From Verif Require Wire.JsonTotal Wire.JsonLeaf C02.JsonBridge.
From Verif Require C02.StepsMsgpack.
From Verif Require Wire.SimpleTotal C02.StepsSimple C02.StepsBinc C02.StepsCbor.
From Verif Require Base.Word Gen.Leaf2 C02.LeafTie.
Import ListNotations.

(* from Wcbor dec_total / skip_total (Wire/CborTotal.v); the walker from any entry depth d *)
Theorem C02_cbor_terminates : forall (D : Cbor.dopts) (b : list N),
  Cbor.dec_naked D (fuelK b) b <> OutOfFuel /\ (forall d, Cbor.skip D (fuelK b) d b <> OutOfFuel).
Proof. exact cbor_terminates. Qed.
Print Assumptions C02_cbor_terminates.

(* from Wmsgpack_dec_total / Wmsgpack_skip_total (stated by the wire layer for the fuel
   dec_fuel b = 2*len + 1, which is at most K*(len+1)) *)
Theorem C02_msgpack_terminates : forall (D : Msgpack.dopts) (b : list N),
  (Msgpack.dec_fuel b <= fuelK b)%nat /\
  Msgpack.dec_naked D (Msgpack.dec_fuel b) b <> OutOfFuel /\ (forall d0, Msgpack.skip_at D d0 (Msgpack.dec_fuel b) b <> OutOfFuel).
Proof. exact msgpack_terminates. Qed.
Print Assumptions C02_msgpack_terminates.

(* from W_simple_dec_total / W_simple_skip_total; from any depth *)
Theorem C02_simple_terminates : forall (D : Simple.dopts) (b : list N) (dp : Z),
  Simple.dec D (fuelK b) dp b <> OutOfFuel /\ Simple.nvb D (fuelK b) dp (Simple.rd_init b) <> OutOfFuel.
Proof. exact simple_terminates. Qed.
Print Assumptions C02_simple_terminates.

(* from W_binc_dec_total / W_binc_skip_total; any symbol table; recursion fuel MaxDepth (C14) *)
Theorem C02_binc_terminates : forall (o : Binc.dopts) (st : Binc.dstate) (b : list N),
  (1 <= Binc.maxdepth o)%N ->
  (Binc.fuel_l b <= fuelK b)%nat /\ Binc.dec_naked o st b <> OutOfFuel /\ Binc.skip_value o st b <> OutOfFuel.
Proof. exact binc_terminates. Qed.
Print Assumptions C02_binc_terminates.

(* PARTIAL (kept; superseded by C02_json_terminates): the skip / raw scanner only (W_json_skip_total) *)
Theorem C02_json_skip_terminates_partial : forall (b : list N), Json.skip (fuelK b) b <> OutOfFuel.
Proof. exact json_skip_terminates. Qed.
Print Assumptions C02_json_skip_terminates_partial.

(* json, FULL (from W_json_dec_total / W_json_dec_naked_total / W_json_skip_total and
   W_json_leaf_total).  For EVERY leaf implementation L whose string decoder ends and never hands
   back more unread input than it was given ([leaf_total], the only thing totality needs of the
   lexical leaves), every option vector and every byte list b, never OutOfFuel:
   Decode(&interface{}) on a fresh Decoder with fuel K*(len+1); one decode call from ANY tokenizer
   state (any input, any pending token), depth and position — value, key of a
   map[interface{}]interface{} (key = true) — with fuel 2*pending+1; the typed string read of a
   map[string]interface{} key (DecodeStringAsBytes: no fuel); any number of successive Decode calls
   on one Decoder; the skip scanner and Raw capture (nextValueBytes), fresh or from any state. *)
Theorem C02_json_terminates_anyleaf : forall (L : Json.leaf), JsonTotal.leaf_total L ->
  forall (D : Json.dopts) (b : list N),
    Json.dec_naked L D (fuelK b) b <> OutOfFuel /\
    (forall (s : Json.st) (fuel : nat) (dp : Z) (key : bool),
       (2 * Json.pending s + 1 <= fuel)%nat -> Json.dec L D fuel dp key s <> OutOfFuel) /\
    (forall s, Json.dec_strkey L s <> OutOfFuel) /\
    (forall (n : nat) (total : N) (s : Json.st), Json.dec_seq L D n total s <> OutOfFuel) /\
    Json.skip (fuelK b) b <> OutOfFuel /\ Json.raw b <> OutOfFuel /\ (forall s, Json.nvb s <> OutOfFuel).
Proof. exact JsonBridge.json_total. Qed.
Print Assumptions C02_json_terminates_anyleaf.

(* [JsonBridge.json_total_stmt L] is, literally, the conclusion of C02_json_terminates_anyleaf
   (everything after "leaf_total L ->"; see C02_json_stmt_is below).  It holds for every leaf with a
   total string decoder, UNCONDITIONALLY for C09's string code (quoteStr / dblQuoteStringAsBytes
   model; its totality is proved in Wire/JsonLeaf.v) under every float/time oracle O, and for the
   concrete leaf [c09_leaf T] (C09's string code + tables of observed float / time texts) that the
   Wjson correspondence evaluates against the implementation. *)
Theorem C02_json_terminates :
  (forall L : Json.leaf, JsonTotal.leaf_total L -> JsonBridge.json_total_stmt L) /\
  (forall O : JsonLeaf.oracle, JsonBridge.json_total_stmt (JsonLeaf.c09_leaf_of O)) /\
  (forall T : Json.tables, JsonBridge.json_total_stmt (Json.c09_leaf T)).
Proof. exact JsonBridge.json_terminates. Qed.
Print Assumptions C02_json_terminates.

Example C02_json_stmt_is : forall L, JsonBridge.json_total_stmt L =
  (forall (D : Json.dopts) (b : list N),
    Json.dec_naked L D (fuelK b) b <> OutOfFuel /\
    (forall (s : Json.st) (fuel : nat) (dp : Z) (key : bool),
       (2 * Json.pending s + 1 <= fuel)%nat -> Json.dec L D fuel dp key s <> OutOfFuel) /\
    (forall s, Json.dec_strkey L s <> OutOfFuel) /\
    (forall (n : nat) (total : N) (s : Json.st), Json.dec_seq L D n total s <> OutOfFuel) /\
    Json.skip (fuelK b) b <> OutOfFuel /\ Json.raw b <> OutOfFuel /\ (forall s, Json.nvb s <> OutOfFuel)).
Proof. reflexivity. Qed.

(* json: every outcome of both parsers is a value or an Err class (what the Decode boundary
   recovers) — Decode on a fresh Decoder, a decode call from any state / depth / position with the
   fuel of that state, sequences of Decode calls, skip, Raw capture, nextValueBytes from any state;
   for every total leaf, for C09's string code under every oracle, for [c09_leaf T] *)
Theorem C02_only_recoverable_json :
  (forall L : Json.leaf, JsonTotal.leaf_total L -> JsonBridge.json_recoverable_stmt L) /\
  (forall O : JsonLeaf.oracle, JsonBridge.json_recoverable_stmt (JsonLeaf.c09_leaf_of O)) /\
  (forall T : Json.tables, JsonBridge.json_recoverable_stmt (Json.c09_leaf T)).
Proof. exact JsonBridge.only_recoverable_json. Qed.
Print Assumptions C02_only_recoverable_json.

Example C02_json_recoverable_stmt_is : forall L, JsonBridge.json_recoverable_stmt L =
  (forall (D : Json.dopts) (b : list N),
    ((exists v, Json.dec_naked L D (fuelK b) b = Ok v) \/ (exists e, Json.dec_naked L D (fuelK b) b = Err e)) /\
    (forall (s : Json.st) (dp : Z) (key : bool),
       (exists v, Json.dec L D (Json.dec_fuel s) dp key s = Ok v) \/ (exists e, Json.dec L D (Json.dec_fuel s) dp key s = Err e)) /\
    (forall (n : nat) (total : N) (s : Json.st),
       (exists v, Json.dec_seq L D n total s = Ok v) \/ (exists e, Json.dec_seq L D n total s = Err e)) /\
    ((exists v, Json.skip (fuelK b) b = Ok v) \/ (exists e, Json.skip (fuelK b) b = Err e)) /\
    ((exists v, Json.raw b = Ok v) \/ (exists e, Json.raw b = Err e)) /\
    (forall s, (exists v, Json.nvb s = Ok v) \/ (exists e, Json.nvb s = Err e))).
Proof. reflexivity. Qed.

(* json non-vacuity, with C09's string code as the leaf: unterminated containers / escapes end in an
   error; a document decodes with the stated fuel and with 7 units, 3 are too few (the bound is not
   met by accident); a sequence of Decode calls ends at the end of input; the scanner skips braces
   inside strings *)
Example C02_json_nonvacuous :
  let Lf := Json.c09_leaf (Json.mktables [] [] [] []) in
  let D := Json.mkdopts false false false false 0 in
  JsonTotal.leaf_total Lf /\
  Json.dec_naked Lf D (fuelK [91; 91; 91]%N) [91; 91; 91]%N = Err EEof /\
  Json.dec_naked Lf D (fuelK [34; 92; 117]%N) [34; 92; 117]%N = Err EEof /\
  fuelK [91; 49; 44; 34; 97; 34; 93; 32]%N = 18%nat /\
  Json.dec_naked Lf D 18 [91; 49; 44; 34; 97; 34; 93; 32]%N = Ok (IArr [IUint 1; IStr [97%N]], [32%N]) /\
  Json.dec_naked Lf D 7 [91; 49; 44; 34; 97; 34; 93; 32]%N = Ok (IArr [IUint 1; IStr [97%N]], [32%N]) /\
  Json.dec_naked Lf D 3 [91; 49; 44; 34; 97; 34; 93; 32]%N = OutOfFuel /\
  Json.dec_seq Lf D 3 6 (Json.st0 [49; 32; 91; 93; 32; 123]%N) = Err EEof /\
  Json.skip 0 [123; 34; 125; 34; 58; 91; 93; 125; 55]%N = Ok [55%N] /\ Json.skip 0 [123; 34; 125]%N = Err EEof.
Proof.
  cbv zeta. split; [rewrite JsonLeaf.c09_leaf_eq; apply JsonLeaf.c09_leaf_total |].
  vm_compute. repeat apply conj; reflexivity.
Qed.

(* every outcome of both parsers of the four binary formats is a value or an Err class *)
Theorem C02_only_recoverable :
  (forall (D : Cbor.dopts) (b : list N) (d : Z),
     ((exists v, Cbor.dec_naked D (fuelK b) b = Ok v) \/ (exists e, Cbor.dec_naked D (fuelK b) b = Err e)) /\
     ((exists v, Cbor.skip D (fuelK b) d b = Ok v) \/ (exists e, Cbor.skip D (fuelK b) d b = Err e))) /\
  (forall (D : Msgpack.dopts) (b : list N) (d0 : Z),
     ((exists v, Msgpack.dec_naked D (Msgpack.dec_fuel b) b = Ok v) \/ (exists e, Msgpack.dec_naked D (Msgpack.dec_fuel b) b = Err e)) /\
     ((exists v, Msgpack.skip_at D d0 (Msgpack.dec_fuel b) b = Ok v) \/ (exists e, Msgpack.skip_at D d0 (Msgpack.dec_fuel b) b = Err e))) /\
  (forall (D : Simple.dopts) (b : list N) (dp : Z),
     ((exists v, Simple.dec D (fuelK b) dp b = Ok v) \/ (exists e, Simple.dec D (fuelK b) dp b = Err e)) /\
     ((exists v, Simple.nvb D (fuelK b) dp (Simple.rd_init b) = Ok v) \/ (exists e, Simple.nvb D (fuelK b) dp (Simple.rd_init b) = Err e))) /\
  (forall (o : Binc.dopts) (st : Binc.dstate) (b : list N), (1 <= Binc.maxdepth o)%N ->
     ((exists v, Binc.dec_naked o st b = Ok v) \/ (exists e, Binc.dec_naked o st b = Err e)) /\
     ((exists v, Binc.skip_value o st b = Ok v) \/ (exists e, Binc.skip_value o st b = Err e))).
Proof. exact only_recoverable. Qed.
Print Assumptions C02_only_recoverable.

(* allocation requests of one Decode call: for every run tree that satisfies the decoder's
   invariants [wf] (progress of every leaf and head, nesting below MaxDepth, pre-sizing by
   decInferLen capped at max(1024, MaxInitLen), only the last child of a container incomplete),
   every MaxDepth md, MaxInitLen mil (negative = default, F02-2), element size bound U (0 included:
   zero-size elements, F02-3), per-element bookkeeping OV (map buckets), per-byte leaf cost KL and
   input length len:  Sigma allocations <= K0 + K1 * len  with
   K0 = md * max(1024, mil) * (U + OV)   and   K1 = KL + 64 + 64 * OV + 13 * (U + OV)
   — whatever lengths are claimed.  With the decInferLen of before F02-3 (claimed length returned
   as is for unit = 0) the statement is false for OV > 0: see C02_alloc_nonvacuous. *)
Theorem C02_alloc : forall (md mil U KL OV : Z), (0 <= U)%Z -> (0 <= KL)%Z -> (0 <= OV)%Z -> forall (r : run) (len : Z),
  wf md U KL 0 r -> (0 < md)%Z -> (consumed r <= len)%Z ->
  (alloc mil OV r <= md * (maxInitLen mil * (U + OV)) + (KL + 64 + 64 * OV + 13 * (U + OV)) * len)%Z.
Proof. exact alloc_lemma. Qed.
Print Assumptions C02_alloc.

(* source tie of C02_alloc: the two caps the statement rests on — decInferLen and usable_len of
   C02/Alloc.v, written by hand — EQUAL the functions the translator regenerates from the current
   decode.base.go decInferLen / helper.go usableByteSlice on every run (Gen/Leaf2.v), for every
   argument of their Go types (int = int64, uint = uint64; a []byte is its (len, cap), the content is
   not looked at); in particular the Go functions never divide by zero nor panic on a slice bound.
   A behaviour-changing edit of either function breaks this obligation. *)
Theorem C02_alloc_src_tie :
  (forall clen maxlen unit : Z, Word.in_s 64 clen -> Word.in_u 64 maxlen -> Word.in_u 64 unit ->
     Leaf2.decInferLen clen maxlen unit = Ok (decInferLen clen maxlen unit)) /\
  (forall l c slen : Z, (0 <= l <= c)%Z -> Word.in_s 64 c -> Word.in_s 64 slen ->
     Leaf2.usableByteSlice (l, c) slen =
       Ok ((fst (usable_len c slen), LeafTie.usable_cap c slen), snd (usable_len c slen))).
Proof. exact LeafTie.alloc_src_tie. Qed.
Print Assumptions C02_alloc_src_tie.

Example C02_alloc_src_tie_nonvacuous :
  Leaf2.decInferLen 1073741824 1024 0 = Ok 1024%Z /\ Leaf2.decInferLen (-1) 0 16 = Ok 8%Z /\
  Leaf2.decInferLen 5000000 0 8 = Ok 131072%Z /\
  Leaf2.usableByteSlice (0, 16)%Z 1099511627776 = Ok ((67108864, 67108864)%Z, true) /\
  Leaf2.usableByteSlice (3, 16)%Z 9 = Ok ((9, 16)%Z, false) /\
  Word.in_s 64 1099511627776 /\ Word.in_u 64 0.
Proof. vm_compute. repeat apply conj; try reflexivity; intro; discriminate. Qed.

(* PARTIAL (a skeleton, not the per-format models): the recursive value walker — read a head, walk
   n values / values until a break — with a step counter (one step per call and per loop
   iteration), over ANY head parser that consumes at least one byte (the wire-layer progress
   theorems say the real ones do), any break byte, any depth policy, any fuel: at most
   4 * length b + 2 steps, whatever lengths the heads claim *)
Theorem C02_walker_steps_partial : forall (head : list N -> res shape) (is_break : N -> bool) (depth_ok : Z -> bool),
  (forall b s, head b = Ok s -> (length (rest_of s) < length b)%nat) ->
  forall (f : nat) (d : Z) (b : list N), (snd (walk head is_break depth_ok f d b) <= 4 * length b + 2)%nat.
Proof. exact steps_lemma. Qed.
Print Assumptions C02_walker_steps_partial.

(* the skeleton instantiated for msgpack: head parser = the descriptor switch of
   nextValueBytesBdReadR as the wire model Wire/Msgpack.v has it (leaf: descriptor + payload / length
   field + body; array of n: SSeq n; map of n pairs: SSeq (2n)), no break byte, depth policy
   depthIncr (one more level iff depth + 1 < MaxDepth).  For EVERY option vector, entry depth and
   input: (1) with fuel >= 2*dec_fuel b + 1 the instance returns exactly what the msgpack wire
   model's skip returns (same rest of input or same error class) — the step-counted walker IS the
   model's walker; (2) with ANY fuel it takes at most 4 * length b + 2 steps (one per call and per
   loop iteration), whatever lengths the heads claim. *)
Theorem C02_msgpack_walker_steps : forall (D : Msgpack.dopts) (d0 : Z) (b : list N),
  (forall F, (2 * Msgpack.dec_fuel b + 1 <= F)%nat ->
     fst (walk (StepsMsgpack.mp_head D) StepsMsgpack.mp_break (StepsMsgpack.mp_depth_ok D) F d0 b)
       = Msgpack.skip_at D d0 (Msgpack.dec_fuel b) b) /\
  (forall F, (snd (walk (StepsMsgpack.mp_head D) StepsMsgpack.mp_break (StepsMsgpack.mp_depth_ok D) F d0 b) <= 4 * length b + 2)%nat).
Proof. exact StepsMsgpack.msgpack_walker_steps. Qed.
Print Assumptions C02_msgpack_walker_steps.

(* [[{1: [nil]}, "a"], 7...: 14 steps for 8 bytes, the model's outcome; an array32 head claiming
   2^32-1 elements followed by two: 7 steps, then the end of input; MaxDepth 2 refuses the second
   level after 3 steps; 4000 nested array heads stop at the depth bound after 2047 steps *)
Example C02_msgpack_steps_nonvacuous :
  let D := Msgpack.mkdopts true false false 0 in
  let w := walk (StepsMsgpack.mp_head D) StepsMsgpack.mp_break (StepsMsgpack.mp_depth_ok D) in
  w 40%nat 0%Z [146; 129; 1; 145; 192; 161; 97; 7]%N = (Ok [7%N], 14%nat) /\
  Msgpack.skip_at D 0 (Msgpack.dec_fuel [146; 129; 1; 145; 192; 161; 97; 7]%N) [146; 129; 1; 145; 192; 161; 97; 7]%N = Ok [7%N] /\
  w 40%nat 0%Z [221; 255; 255; 255; 255; 1; 2]%N = (Err EEof, 7%nat) /\
  walk (StepsMsgpack.mp_head D) StepsMsgpack.mp_break (StepsMsgpack.mp_depth_ok (Msgpack.mkdopts true false false 2)) 40 0
       [146; 129; 1; 145; 192; 161; 97; 7]%N = (Err EDepth, 3%nat) /\
  snd (w (N.to_nat 9000%N) 0%Z (repeat 145%N (N.to_nat 4000%N))) = 2047%nat.
Proof. vm_compute. repeat apply conj; reflexivity. Qed.

(* the skeleton instantiated for simple: head parser = the descriptor switch of the simple walker as
   the wire model Wire/Simple.v has it (sclassify / skip_head; a leaf is consumed by the model's own
   skipv; non-empty array of n: SSeq n; non-empty map of n pairs: SSeq (2n); an EMPTY container is a
   leaf, the model does no depthIncr for it), no break byte, depth policy depthIncr.  For EVERY option
   vector, entry depth and input: (1) with fuel >= 2*dec_fuel b + 1 the instance returns exactly the
   rest of input / the error class of the wire model's walker nvb entered at depth d0 on b (at d0 = 0
   this is Simple.skip: C02_simple_steps_nonvacuous); (2) with ANY fuel at most 4 * length b + 2 steps. *)
Theorem C02_simple_walker_steps : forall (D : Simple.dopts) (d0 : Z) (b : list N),
  (forall F, (2 * Simple.dec_fuel b + 1 <= F)%nat ->
     fst (walk (StepsSimple.sp_head D) StepsSimple.sp_break (StepsSimple.sp_depth_ok D) F d0 b)
       = (do (_, z) <- Simple.nvb D (Simple.dec_fuel b) d0 (Simple.rd_init b) ;; Ok (Simple.suf z))) /\
  (forall F, (snd (walk (StepsSimple.sp_head D) StepsSimple.sp_break (StepsSimple.sp_depth_ok D) F d0 b) <= 4 * length b + 2)%nat).
Proof. exact StepsSimple.simple_walker_steps. Qed.
Print Assumptions C02_simple_walker_steps.

(* the skeleton instantiated for binc: head parser = the descriptor switch of the binc walker
   (Wire/Binc.v skip: array of n: SSeq n; map of n pairs: SSeq (2n); anything else a leaf consumed by the
   model's own skip_scalar), no break byte, depth policy depthIncr.  The binc walker threads the symbol
   table (F11-1: definitions met inside skipped values are recorded); the table does not influence WHERE
   the walker goes, so the skeleton, which has no state, computes the rest-of-input projection [prj] of
   the model's outcome from EVERY starting table.  For every option vector with MaxDepth >= 1, entry
   depth, table and input: (1) from entry depth d0 and (2) for the API entry skip_value, with fuel >=
   3*fuel_l b + 2 (a map iteration is two skeleton values) the instance returns exactly the model's
   rest / error class; (3) with ANY fuel and depth at most 4 * length b + 2 steps. *)
Theorem C02_binc_walker_steps : forall (o : Binc.dopts) (d0 : N) (st : Binc.dstate) (b : list N),
  (1 <= Binc.maxdepth o)%N ->
  (forall F, (3 * Binc.fuel_l b + 2 <= F)%nat ->
     fst (walk StepsBinc.bn_head StepsBinc.bn_break (StepsBinc.bn_depth_ok o) F (Z.of_N d0) b)
       = StepsBinc.prj (Binc.skip o (Binc.fuel_r o) (Binc.fuel_l b) d0 st b)) /\
  (forall F, (3 * Binc.fuel_l b + 2 <= F)%nat ->
     fst (walk StepsBinc.bn_head StepsBinc.bn_break (StepsBinc.bn_depth_ok o) F 0 b)
       = StepsBinc.prj (Binc.skip_value o st b)) /\
  (forall (F : nat) (d : Z),
     (snd (walk StepsBinc.bn_head StepsBinc.bn_break (StepsBinc.bn_depth_ok o) F d b) <= 4 * length b + 2)%nat).
Proof. exact StepsBinc.binc_walker_steps. Qed.
Print Assumptions C02_binc_walker_steps.

(* the skeleton instantiated for cbor: head parser = the major-type switch of the cbor walker
   (Wire/Cbor.v skipw / skip_body: array of n: SSeq n; map of n pairs: SSeq (2n); indefinite-length array /
   map: SIndef, closed by the break byte 0xff; a TAG: its number, then ONE value one level deeper: SSeq 1 —
   the model does depthIncr around a tagged value as around container elements; everything else, the whole
   chunk loop of an indefinite-length string included, a leaf consumed by the model's own skip_body),
   depth policy depthIncr.  For EVERY option vector, entry depth and input, with fuel >= 2*fuel_for b + 1:
   (1) the instance's outcome is the wire model's skip outcome up to [tie]: equal, or the model says EDepth
   where the skeleton says EBadDesc (an array / map head with a RESERVED additional information met at the
   depth bound: the model, like the code, does depthIncr before it reads the length; the skeleton reads the
   head first); (2) exactly equal whenever the model's outcome is not the depth error; (3) with ANY fuel at
   most 4 * length b + 2 steps — tags and indefinite-length chunk loops included. *)
Theorem C02_cbor_walker_steps : forall (D : Cbor.dopts) (d0 : Z) (b : list N),
  (forall F, (2 * Cbor.fuel_for b + 1 <= F)%nat ->
     let m := Cbor.skip D (Cbor.fuel_for b) d0 b in
     let w := fst (walk (StepsCbor.cb_head D) StepsCbor.cb_break (StepsCbor.cb_depth_ok D) F d0 b) in
     m = w \/ (m = Err EDepth /\ w = Err EBadDesc)) /\
  (forall F, (2 * Cbor.fuel_for b + 1 <= F)%nat ->
     Cbor.skip D (Cbor.fuel_for b) d0 b <> Err EDepth ->
     fst (walk (StepsCbor.cb_head D) StepsCbor.cb_break (StepsCbor.cb_depth_ok D) F d0 b)
       = Cbor.skip D (Cbor.fuel_for b) d0 b) /\
  (forall F, (snd (walk (StepsCbor.cb_head D) StepsCbor.cb_break (StepsCbor.cb_depth_ok D) F d0 b) <= 4 * length b + 2)%nat).
Proof. exact StepsCbor.cbor_walker_steps. Qed.
Print Assumptions C02_cbor_walker_steps.

(* the exception in (1) is real: 0x9c (array, additional information 28) at depth MaxDepth - 1 *)
Theorem C02_cbor_walker_exact_refuted :
  let D := Cbor.mkdo false false false 0 in
  forall F, (1 <= F)%nat ->
    Cbor.skip D (Cbor.fuel_for [156%N]) 1023 [156%N] = Err EDepth /\
    fst (walk (StepsCbor.cb_head D) StepsCbor.cb_break (StepsCbor.cb_depth_ok D) F 1023 [156%N]) = Err EBadDesc.
Proof. exact StepsCbor.cbor_walker_exact_refuted. Qed.
Print Assumptions C02_cbor_walker_exact_refuted.

(* simple: [[{1:[nil]}, "a"], true...: 14 steps, the model's outcome (nvb at depth 0 = Simple.skip); an
   8-byte-length array head claiming 2^64-1 elements followed by two: 7 steps, then the end of input;
   MaxDepth 2 refuses the second level after 3 steps; 4000 nested array heads stop at the depth bound *)
Example C02_simple_steps_nonvacuous :
  let D := Simple.mkdopts false false 0 in
  let w := walk (StepsSimple.sp_head D) StepsSimple.sp_break (StepsSimple.sp_depth_ok D) in
  let v := [233; 2; 241; 1; 8; 1; 233; 1; 1; 217; 1; 97; 3]%N in
  w 60%nat 0%Z v = (Ok [3%N], 14%nat) /\
  (do (_, z) <- Simple.nvb D (Simple.dec_fuel v) 0 (Simple.rd_init v) ;; Ok (Simple.suf z)) = Ok [3%N] /\
  Simple.skip D (Simple.dec_fuel v) v = Ok [3%N] /\
  (forall fuel b, (do (_, z) <- Simple.nvb D fuel 0 (Simple.rd_init b) ;; Ok (Simple.suf z)) = Simple.skip D fuel b) /\
  w 60%nat 0%Z [236; 255; 255; 255; 255; 255; 255; 255; 255; 1; 1]%N = (Err EEof, 7%nat) /\
  walk (StepsSimple.sp_head D) StepsSimple.sp_break (StepsSimple.sp_depth_ok (Simple.mkdopts false false 2)) 60 0 v = (Err EDepth, 3%nat) /\
  (do (_, z) <- Simple.nvb (Simple.mkdopts false false 2) (Simple.dec_fuel v) 0 (Simple.rd_init v) ;; Ok (Simple.suf z)) = Err EDepth /\
  w (N.to_nat 9000%N) 0%Z (concat (repeat [233; 1]%N (N.to_nat 4000%N))) = (Err EDepth, 2047%nat).
Proof. cbv zeta. repeat apply conj; try (vm_compute; reflexivity). Qed.

(* binc: a nested value, 14 steps; a value that DEFINES symbol 1 and then uses it: the model records it, the
   walk's end does not depend on the starting table; a head claiming 2^64-1 elements; MaxDepth 2; 4000 heads *)
Example C02_binc_steps_nonvacuous :
  let D := Binc.Build_dopts 1024 false false in
  let D2 := Binc.Build_dopts 2 false false in
  let w := walk StepsBinc.bn_head StepsBinc.bn_break (StepsBinc.bn_depth_ok D) in
  let v := [102; 117; 144; 101; 0; 69; 97; 2]%N in
  let vs := [102; 180; 1; 2; 97; 98; 176; 1; 2]%N in
  w 60%nat 0%Z v = (Ok [2%N], 14%nat) /\
  Binc.skip_value D Binc.dstate0 v = Ok (tt, [2%N], Binc.dstate0) /\
  w 60%nat 0%Z vs = (Ok [2%N], 6%nat) /\
  Binc.skip_value D Binc.dstate0 vs = Ok (tt, [2%N], [(1%N, [97%N; 98%N])]) /\
  StepsBinc.prj (Binc.skip_value D [(1, [7; 7; 7])]%N vs) = Ok [2%N] /\
  w 60%nat 0%Z [99; 255; 255; 255; 255; 255; 255; 255; 255; 0; 0]%N = (Err EEof, 7%nat) /\
  walk StepsBinc.bn_head StepsBinc.bn_break (StepsBinc.bn_depth_ok D2) 60 0 v = (Err EDepth, 3%nat) /\
  Binc.skip_value D2 Binc.dstate0 v = Err EDepth /\
  w (N.to_nat 9000%N) 0%Z (repeat 101%N (N.to_nat 4000%N)) = (Err EDepth, 2047%nat).
Proof. vm_compute. repeat apply conj; reflexivity. Qed.

(* cbor: [{1:[null]}, "a"], 7...; an indefinite array holding tag 0 of 1, an indefinite byte string of one
   chunk and an indefinite map {1:2}; a head claiming 2^64-1 elements; a 2-byte length cut short (the
   deferred end of input, and the depth error when met at the bound); MaxDepth 2; 4000 nested array heads
   and 4000 nested TAGS both stop at the depth bound after 2047 steps; the [tie] exception *)
Example C02_cbor_steps_nonvacuous :
  let D := Cbor.mkdo false false false 0 in
  let D2 := Cbor.mkdo false false false 2 in
  let w := walk (StepsCbor.cb_head D) StepsCbor.cb_break (StepsCbor.cb_depth_ok D) in
  let v := [130; 161; 1; 129; 246; 97; 97; 7]%N in
  let vi := [159; 192; 1; 95; 65; 9; 255; 191; 1; 2; 255; 255; 7]%N in
  w 60%nat 0%Z v = (Ok [7%N], 14%nat) /\ Cbor.skip D (Cbor.fuel_for v) 0 v = Ok [7%N] /\
  w 60%nat 0%Z vi = (Ok [7%N], 15%nat) /\ Cbor.skip D (Cbor.fuel_for vi) 0 vi = Ok [7%N] /\
  w 60%nat 0%Z [155; 255; 255; 255; 255; 255; 255; 255; 255; 1; 1]%N = (Err EEof, 7%nat) /\
  w 60%nat 0%Z [153; 0]%N = (Err EEof, 3%nat) /\ Cbor.skip D (Cbor.fuel_for [153; 0]%N) 0 [153; 0]%N = Err EEof /\
  w 60%nat 1023%Z [153; 0]%N = (Err EDepth, 1%nat) /\ Cbor.skip D (Cbor.fuel_for [153; 0]%N) 1023 [153; 0]%N = Err EDepth /\
  walk (StepsCbor.cb_head D2) StepsCbor.cb_break (StepsCbor.cb_depth_ok D2) 60 0 v = (Err EDepth, 3%nat) /\
  Cbor.skip D2 (Cbor.fuel_for v) 0 v = Err EDepth /\
  w (N.to_nat 9000%N) 0%Z (repeat 129%N (N.to_nat 4000%N)) = (Err EDepth, 2047%nat) /\
  w (N.to_nat 9000%N) 0%Z (repeat 192%N (N.to_nat 4000%N)) = (Err EDepth, 2047%nat) /\
  w 60%nat 0%Z [156]%N = (Err EBadDesc, 1%nat) /\ Cbor.skip D (Cbor.fuel_for [156]%N) 0 [156]%N = Err EBadDesc.
Proof. vm_compute. repeat apply conj; reflexivity. Qed.

(* ------------------------------ non-vacuity ------------------------------ *)
(* a toy head: 0 = leaf, 255 = container until break (254), n = container of n values *)
Definition toy_head (b : list N) : res shape :=
  match b with
  | [] => Err EEof
  | x :: r => if (x =? 0)%N then Ok (SLeaf r) else if (x =? 255)%N then Ok (SIndef false r) else Ok (SSeq x r)
  end.
Example C02_steps_nonvacuous :
  (forall b s, toy_head b = Ok s -> (length (rest_of s) < length b)%nat) /\
  walk toy_head (fun c => (c =? 254)%N) (fun _ => true) 50 0 [2; 0; 255; 0; 0; 254; 9]%N = (Ok [9]%N, 11%nat) /\
  (* a head claiming 200 values followed by two: the walk stops at the end of input after 7 steps *)
  walk toy_head (fun c => (c =? 254)%N) (fun _ => true) 50 0 [200; 0; 0]%N = (Err EEof, 7%nat).
Proof.
  repeat apply conj; try (vm_compute; reflexivity).
  intros [| x r] s H; [discriminate |]. unfold toy_head in H.
  destruct (x =? 0)%N; [inversion H; subst; cbn; lia |]. destruct (x =? 255)%N; inversion H; subst; cbn; lia.
Qed.

(* hostile lengths end in an error, not in a loop; the fuel K*(len+1) is reached from below *)
Example C02_terminates_nonvacuous :
  Cbor.dec_naked (Cbor.mkdo false false false 0) (fuelK [155; 255; 255; 255; 255; 255; 255; 255; 255]%N) [155; 255; 255; 255; 255; 255; 255; 255; 255]%N = Err EOverflow /\
  Cbor.skip (Cbor.mkdo false false false 0) (fuelK [91; 255; 255; 255; 255; 255; 255; 255; 247; 1]%N) 0 [91; 255; 255; 255; 255; 255; 255; 255; 247; 1]%N = Err EEof /\
  Msgpack.dec_naked (Msgpack.mkdopts true false false 0) (Msgpack.dec_fuel [221; 255; 255; 255; 255]%N) [221; 255; 255; 255; 255]%N = Err EEof /\
  fuelK [1; 2; 3]%N = 8%nat.
Proof. vm_compute. repeat apply conj; reflexivity. Qed.

(* a run that claims 2^40 elements of 16 bytes three levels deep and then ends: the requests stay
   near 3 * 1024 * 16, and the premises hold; a map of ZERO-size entries claiming 2^30 of them over
   an io.Reader with MaxInitLen = -1 is pre-sized for 1024 entries (16 bookkeeping bytes each) *)
Example C02_alloc_nonvacuous :
  let r := Cont 1099511627776 16 9 (RCons (Cont 1099511627776 16 9 (RCons (Cont 1099511627776 16 9 RNil false) RNil) false) RNil) false in
  wf 1024 16 1 0 r /\ consumed r = 27%Z /\ alloc 0 0 r = 49280%Z /\
  (alloc 0 0 r <= 1024 * (maxInitLen 0 * (16 + 0)) + (1 + 64 + 64 * 0 + 13 * (16 + 0)) * 27)%Z /\
  (* a completed container is paid for by its elements *)
  alloc 0 0 (Cont 3 16 1 (RCons (Leaf 1 1) (RCons (Leaf 1 1) (RCons (Leaf 1 1) RNil))) true) = 243%Z /\
  wf 1024 0 1 0 (Cont 1073741824 0 9 RNil false) /\ alloc (-1) 16 (Cont 1073741824 0 9 RNil false) = 16384%Z /\
  decInferLen 1073741824 (maxInitLen (-1)) 0 = 1024%Z /\ maxInitLen (-9223372036854775808) = 1024%Z.
Proof.
  cbv zeta. repeat apply conj; try (vm_compute; reflexivity); try (cbn; lia); try exact I;
    try (intros; discriminate); try (vm_compute; intro; discriminate).
Qed.

(* C13 — decoded values own their memory; Encode does not disturb its input.
   Only statements, closed by [exact], with [Print Assumptions] beneath each.

   PARTIAL by nature (see checks/C13.py): the theorems are about the DETACH LOGIC
   — the decision, per flow, whether the generic layer copies or keeps a view,
   as a function of the options, the transport and the attach state the driver
   reports — and about the region discipline of later operations.  That a Go
   slice really lives where the model says is a runtime fact of `unsafe` views;
   it is tied by the harness (pointer-range tests, attach states through the
   hook, and the behavioural oracle), not proved.

   Domain swept (finite, enumerated in C13/Model.v): 4 option vectors
   (ZeroCopy x InternString) x 3 transports (bytes, unbuffered io, buffered io)
   x 5 formats x 34 driver operations (10 kinds x 5 length classes) x 11 flows;
   the consumer lemma additionally covers all 150 (region, attach state, length
   class) views, truthful or not.  [kept o t r]: r is the region of a kept
   string / []byte leaf, i.e. keep o t f b for a driver-produced view b and a
   flow f, or the Raw flow on the recorded view, or a leaf kept by the side (bytes)
   Decoder that decodes a SelfExt extension from the extension's payload. *)
From Coq Require Import List ZArith NArith Bool Arith.
From Verif Require Import Gen.Consts C13.Model C13.Proofs C13.EncModel C13.EncProofs.
Import ListNotations.
Open Scope bool_scope.

(* ZeroCopy = false: every kept leaf lives in memory no later operation writes
   (a fresh copy; or write-once table memory for interned strings and binc symbols;
   or never-written static memory for empty values and json true/false) *)
Theorem C13_owned : forall o t r,
  zerocopy o = false -> kept o t r -> owned r = true.
Proof. exact owned_lemma. Qed.
Print Assumptions C13_owned.

(* ... and precisely which: Fresh except in the named cases *)
Theorem C13_owned_fresh : forall o t fm p f b,
  zerocopy o = false -> produce o t fm p = Some b -> att_flow f = true ->
  keep o t f b = Fresh
  \/ (keep o t f b = Table /\
      ((intern o = true /\ (f = FString true \/ f = FMapKeyStr \/ f = FIfaceBytesKey)) \/ (exists l, p = PSymDef l \/ p = PSymRef l)))
  \/ (keep o t f b = Static /\ (len_is0 (len b) = true \/ p = PJsonLit)).
Proof. exact fresh_lemma. Qed.
Print Assumptions C13_owned_fresh.

(* any options: a kept leaf never lives in the reader's buffer or in decoder scratch,
   and it is a view of the input only if ZeroCopy was requested on a bytes transport *)
Theorem C13_zerocopy : forall o t r, kept o t r ->
  r <> ReaderBuf /\ r <> Scratch /\ (r = Input -> zerocopy o = true /\ is_bytes t = true).
Proof. exact zerocopy_lemma. Qed.
Print Assumptions C13_zerocopy.

(* the generic layer alone: given ANY truthful view (not only those the five
   drivers produce today) every flow keeps only what may be kept *)
Theorem C13_consumers : forall o t f b,
  att_flow f = true -> truthful o t b = true -> keepable o t (keep o t f b) = true.
Proof. exact consumers_lemma. Qed.
Print Assumptions C13_consumers.

(* each driver's reported attach state is truthful for the reader operation it used *)
Theorem C13_driver_att : forall o t f p b,
  produce o t f p = Some b -> truthful o t b = true.
Proof. exact drivers_lemma. Qed.
Print Assumptions C13_driver_att.

(* Raw values: a view of the input only with ZeroCopy on a bytes transport, else a copy *)
Theorem C13_raw : forall o t l,
  keep o t FRaw (raw_view t l) = (if is_bytes t && zerocopy o then Input else Fresh).
Proof. exact raw_lemma. Qed.
Print Assumptions C13_raw.

(* later history (scribbling the input, refilling the reader buffer, reusing scratch,
   allocating, Reset — any number, any order) leaves a kept leaf unchanged;
   with ZeroCopy as long as the input is not overwritten *)
Theorem C13_stable : forall o t r i m ops,
  kept o t r -> leaf_wf m (r, i) ->
  (zerocopy o = false \/ forallb (fun h => negb (scribbles h)) ops = true) ->
  cells (run m ops) (r, i) = cells m (r, i).
Proof. exact stable_lemma. Qed.
Print Assumptions C13_stable.

(* sharpness: a leaf anywhere else (Input, ReaderBuf, Scratch) is changed by some later operation *)
Theorem C13_unstable_elsewhere : forall r i m, owned r = false ->
  exists h, cells (step m h) (r, i) <> cells m (r, i).
Proof. exact unstable_lemma. Qed.
Print Assumptions C13_unstable_elsewhere.

(* ZeroCopy is honoured, not merely safe *)
Theorem C13_zerocopy_views : forall i fm l b f,
  produce (mkopts true i) TBytes fm (PReadxb l) = Some b ->
  len_le1 l = false ->
  In f [FString false; FString true; FMapKeyStr; FNakedBytes; FBytesInto false; FRawExt] ->
  keep (mkopts true i) TBytes f b = Input.
Proof. exact zerocopy_views_lemma. Qed.
Print Assumptions C13_zerocopy_views.

(* SelfExt: the side Decoder's input is never reader-buffer memory when its results can be views of it *)
Theorem C13_side_input : forall o t,
  side_input o t = Input /\ is_bytes t = true
  \/ side_input o t = Fresh /\ zerocopy o = true /\ is_bytes t = false
  \/ side_input o t = ReaderBuf /\ zerocopy o = false /\ is_bytes t = false.
Proof. exact side_input_lemma. Qed.
Print Assumptions C13_side_input.

(* trivial in Gallina (a function has no state to disturb); the content is in the tie *)
Theorem C13_pure : forall (V : Type) (enc : V -> list N) (v : V), fst (encode_model enc v) = v.
Proof. exact pure_lemma. Qed.
Print Assumptions C13_pure.

(* Encode runs user code: which memory does a receiver-writing encode callback get?
   (C13/EncModel.v mirrors the tail of encodeValue, addrRV, kStruct's MissingFielder branch
   and how interfaces, pointers, slices, arrays, structs and maps hand out their elements.)
   With EncodeOptions.NoAddressableReadonly, for EVERY position chain under the argument of
   Encode that is not addressable by the rules of the language (held in an interface, map
   entry, field / element of those, the argument itself), every receiver kind and Canonical
   on or off: the callback runs on a copy, the caller's value is not written. *)
Theorem C13_pure_recv : forall o ptr_recv chain,
  noaddr_ro o = true -> go_addressable chain = false ->
  callback_recv o ptr_recv (position o chain) = RCopy.
Proof. exact pure_recv_lemma. Qed.
Print Assumptions C13_pure_recv.

Theorem C13_pure_recv_unwritten : forall o ptr_recv chain,
  noaddr_ro o = true -> go_addressable chain = false -> caller_written o ptr_recv chain = false.
Proof. exact pure_recv_unwritten_lemma. Qed.
Print Assumptions C13_pure_recv_unwritten.

(* a value-receiver callback never reaches the caller's value, whatever the options *)
Theorem C13_pure_recv_value : forall o chain, caller_written o false chain = false.
Proof. exact recv_value_lemma. Qed.
Print Assumptions C13_pure_recv_value.

(* sharpness: the option is what makes the difference (without it every pointer-receiver
   callback is handed the caller's own storage, in every position), and a pointer / slice the
   caller hands out is always passed through as it is *)
Theorem C13_pure_recv_default_reaches_caller : forall chain,
  caller_written (mkeopts false false) true chain = true.
Proof. exact recv_default_lemma. Qed.
Print Assumptions C13_pure_recv_default_reaches_caller.

Theorem C13_pure_recv_user_pointer : forall o chain s,
  s = SPtr \/ s = SSlice -> caller_written o true (chain ++ [s]) = true.
Proof. exact recv_user_pointer_lemma. Qed.
Print Assumptions C13_pure_recv_user_pointer.

Example C13_pure_recv_nonvacuous :
  (* a struct held in a []interface{} element, in an interface-typed field of it, a map value,
     an element of an array held by value: copies with the option, the caller's storage without *)
  caller_written (mkeopts true false) true [SSlice; SIface] = false
  /\ caller_written (mkeopts false false) true [SSlice; SIface] = true
  /\ caller_written (mkeopts true true) true [SSlice; SIface; SField; SIface] = false
  /\ caller_written (mkeopts true false) true [SMapVal] = false
  /\ caller_written (mkeopts true false) true [SMapVal; SIface; SArray] = false
  /\ caller_written (mkeopts false true) true [SMapKey; SField] = false
  /\ caller_written (mkeopts true false) true [SMapVal; SPtr; SField] = true
  /\ go_addressable [SMapVal; SIface; SArray] = false /\ go_addressable [SMapVal; SPtr; SField] = true.
Proof. vm_compute. repeat apply conj; reflexivity. Qed.

(* non-vacuity: kept leaves exist in every region the theorems allow, and the
   dangerous views are really produced by the drivers (so the copies matter) *)
Example C13_nonvacuous_copy :
  produce (mkopts false false) TIoBuf Cbor (PReadxb LSmall) = Some (mkview ReaderBuf ABuffer LSmall)
  /\ keep (mkopts false false) TIoBuf (FString false) (mkview ReaderBuf ABuffer LSmall) = Fresh
  /\ produce (mkopts true false) TBytes Json (PScratch LBig) = Some (mkview Scratch ABuffer LBig)
  /\ keep (mkopts true false) TBytes FMapKeyStr (mkview Scratch ABuffer LBig) = Fresh.
Proof. vm_compute. repeat apply conj; reflexivity. Qed.

Example C13_nonvacuous_view :
  kept (mkopts true false) TBytes Input /\ kept (mkopts false true) TBytes Table /\ kept (mkopts false false) TIoUnbuf Fresh.
Proof.
  repeat apply conj.
  - exact (kept_att (mkopts true false) TBytes Msgpack (PReadxb LBig) (FBytesInto false) _ eq_refl eq_refl).
  - exact (kept_att (mkopts false true) TBytes Simple (PReadxb LSmall) (FString true) _ eq_refl eq_refl).
  - exact (kept_raw (mkopts false false) TIoUnbuf LBig).
Qed.

(* an untruthful driver breaks it: reporting Detach for reader-buffer bytes makes kString keep them *)
Example C13_untruthful_breaks :
  truthful (mkopts false false) TIoBuf (mkview ReaderBuf ADetach LSmall) = false
  /\ keep (mkopts false false) TIoBuf (FString false) (mkview ReaderBuf ADetach LSmall) = ReaderBuf.
Proof. vm_compute. split; reflexivity. Qed.

Example C13_history_nonvacuous :
  let m := mkmem (fun _ => [7%N]) 3 in
  let ops := [HScribble 0 [1%N]; HRefill 0 [2%N]; HAlloc false [3%N]; HReset; HScratch 0 [4%N]] in
  cells (run m ops) (Fresh, 2) = [7%N] /\ cells (run m ops) (Input, 0) = [1%N] /\ cells (run m ops) (Fresh, 3) = [3%N].
Proof. vm_compute. repeat apply conj; reflexivity. Qed.

(* W_simple — the wire layer of the "simple" format (simple.go): what the Encoder driver
   writes is what Decode(&interface{}) reads back, what nextValueBytes skips and captures;
   decoding and skipping arbitrary bytes terminate; nesting is bounded by MaxDepth.
   Only statements, closed by [exact], with [Print Assumptions] beneath each. *)
From Coq Require Import List NArith ZArith Bool Lia.
From Verif Require Import Base.Outcome Wire.Item Gen.Consts Wire.Simple Wire.SimpleProofs Wire.SimpleTotal Wire.SimpleDepth Wire.SimpleSkip.
Import ListNotations.
Open Scope N_scope.

(* C01 at the wire level.  For every encoder option vector, decoder option vector, item the
   encoder can be handed ([swf]: ranges, lengths fit an int, no tags, map keys hashable and
   pairwise different once decoded), position (map key or not), trailing bytes and fuel linear
   in the input length: decoding the encoding yields exactly [norm] of the item and leaves
   exactly the trailing bytes.  [norm] spells the documented changes out: integers >= 0 read
   back unsigned (signed under SignedInteger), float32 widens to float64, zero values are nil
   under EncZeroValuesAsNil (except map keys), zero time is nil, strings are byte strings under
   StringToRaw and byte strings are strings under RawToString / as map keys.
   Guard [sint_ok]: with SignedInteger an unsigned value >= 2^63 cannot come back as an int64
   (see W_simple_dec_enc_signed_overflow). *)
Theorem W_simple_dec_enc : forall (o : eopts) (D : dopts) (i : item) (key : bool) (rest : list N) (fuel : nat) (dp : Z),
  swf o D i -> (signedInteger D = false \/ sint_ok i) ->
  (2 * length (enc o key i ++ rest) + 1 <= fuel)%nat ->
  (dp + Z.of_nat (depth i) < maxdepth D)%Z ->
  dec D fuel dp (enc o key i ++ rest) = Ok (norm o D key i, rest).
Proof. exact W_simple_dec_enc_lemma. Qed.
Print Assumptions W_simple_dec_enc.

(* the API form: a fresh decoder (depth 0) with the standard fuel *)
Theorem W_simple_dec_naked_enc : forall (o : eopts) (D : dopts) (i : item) (rest : list N),
  swf o D i -> (signedInteger D = false \/ sint_ok i) -> (Z.of_nat (depth i) < maxdepth D)%Z ->
  dec_naked D (dec_fuel (enc o false i ++ rest)) (enc o false i ++ rest) = Ok (norm o D false i, rest).
Proof. exact W_simple_dec_naked_enc_lemma. Qed.
Print Assumptions W_simple_dec_naked_enc.

(* outside the guard: with SignedInteger an unsigned value >= 2^63 is refused (overflow), never
   sign-flipped (this was F07-1 before helper.go was repaired; int64v comes from Gen/Leaf.v) *)
Theorem W_simple_dec_enc_signed_overflow : forall (o : eopts) (D : dopts) (n : N) (rest : list N) (fuel : nat) (dp : Z),
  signedInteger D = true -> 2 ^ 63 <= n -> n < 2 ^ 64 -> (1 <= fuel)%nat ->
  dec D fuel dp (enc o false (IUint n) ++ rest) = Err EOverflow.
Proof. exact W_simple_dec_enc_signed_overflow_lemma. Qed.
Print Assumptions W_simple_dec_enc_signed_overflow.

(* C11 at the wire level: the second parser (nextValueBytes, used to skip unknown struct fields and
   to capture Raw) run on an encoding -- at any cursor position, with any bytes before and after,
   at any container-state depth [dp] that leaves room for the value's nesting -- captures exactly the
   encoding and leaves the reader exactly behind it: decode, skip and raw agree on extents. *)
Theorem W_simple_skip_enc : forall (o : eopts) (D : dopts) (i : item) (key : bool) (before rest : list N) (fuel : nat) (dp : Z),
  swf o D i -> (2 * length (enc o key i ++ rest) + 1 <= fuel)%nat -> (dp + Z.of_nat (depth i) < maxdepth D)%Z ->
  nvb D fuel dp (rd_at before (enc o key i ++ rest)) = Ok (enc o key i, rd_at (before ++ enc o key i) rest).
Proof. exact W_simple_skip_enc_lemma. Qed.
Print Assumptions W_simple_skip_enc.

Theorem W_simple_skip_raw_enc : forall (o : eopts) (D : dopts) (i : item) (rest : list N),
  swf o D i -> (Z.of_nat (depth i) < maxdepth D)%Z ->
  skip D (dec_fuel (enc o false i ++ rest)) (enc o false i ++ rest) = Ok rest /\
  raw D (dec_fuel (enc o false i ++ rest)) (enc o false i ++ rest) = Ok (enc o false i, rest).
Proof. exact W_simple_skip_enc_top_lemma. Qed.
Print Assumptions W_simple_skip_raw_enc.

(* C02 at the wire level: for EVERY byte list, option vector and starting depth, fuel linear in the
   input length suffices: decoding into interface{} never runs out of fuel, and a successful decode
   consumed at least one byte (every loop iteration advances the cursor). *)
Theorem W_simple_dec_total : forall (D : dopts) (l : list N) (fuel : nat) (dp : Z),
  (2 * length l + 1 <= fuel)%nat -> dec D fuel dp l <> OutOfFuel.
Proof. exact W_simple_dec_total_lemma. Qed.
Print Assumptions W_simple_dec_total.

Theorem W_simple_dec_progress : forall (D : dopts) (l : list N) (fuel : nat) (dp : Z) (x : item) (r : list N),
  (2 * length l + 1 <= fuel)%nat -> dec D fuel dp l = Ok (x, r) -> (length r < length l)%nat.
Proof. exact W_simple_dec_progress_lemma. Qed.
Print Assumptions W_simple_dec_progress.

(* the same for the skip walker, from any reader state (since the F02-1 repair of bytesDecReader.skip
   the cursor only moves forward; before it W_simple_skip_total was false: ec ff*8 e4 ff*7 f7) *)
Theorem W_simple_skip_total : forall (D : dopts) (dp : Z) (z : rd) (fuel : nat),
  (2 * length (suf z) + 1 <= fuel)%nat -> nvb D fuel dp z <> OutOfFuel.
Proof. exact W_simple_skip_total_lemma. Qed.
Print Assumptions W_simple_skip_total.

(* C14 at the wire level.  The instrumented decoder is the decoder; it never meets a container
   head whose length equals the containerLenNil sentinel (F14-3 repaired: lengths above MaxInt are
   refused); its deepest recursion level is at most MaxDepth, for EVERY input and fuel. *)
Theorem W_simple_depth : forall (D : dopts) (l : list N) (fuel : nat),
  fst (dec_naked_i D fuel l) = dec_naked D fuel l /\
  sentinel (snd (dec_naked_i D fuel l)) = false /\
  (Z.of_nat (maxrec (snd (dec_naked_i D fuel l))) <= maxdepth D)%Z.
Proof. exact W_simple_depth_bound_lemma. Qed.
Print Assumptions W_simple_depth.

(* the skip walker recurses at most MaxDepth - depth levels (F14-1 repaired: it had no accounting) *)
Theorem W_simple_skip_depth : forall (D : dopts) (dp : Z) (z : rd) (fuel : nat),
  (2 * length (suf z) + 1 <= fuel)%nat -> (0 <= dp)%Z ->
  (Z.of_nat (snd (nvb_i D fuel dp z)) <= Z.max 1 (maxdepth D - dp))%Z.
Proof. exact W_simple_skip_depth_lemma. Qed.
Print Assumptions W_simple_skip_depth.

(* an encoded value nested MaxDepth deep or deeper is refused with the depth error *)
Theorem W_simple_depth_error : forall (o : eopts) (D : dopts) (i : item) (rest : list N),
  swf o D i -> (signedInteger D = false \/ sint_ok i) -> (maxdepth D <= Z.of_nat (depth i))%Z ->
  dec_naked D (dec_fuel (enc o false i ++ rest)) (enc o false i ++ rest) = Err EDepth.
Proof. exact W_simple_depth_error_lemma. Qed.
Print Assumptions W_simple_depth_error.

Example W_simple_dec_enc_nonvacuous :
  let o := mkeopts true false in
  let D := mkdopts false false 0 in
  let i := IMap [(IStr [97], IArr [IInt (-300); IUint 65536; IF32 1065353216; INil; IStr []]);
                 (IInt 0, ITime 1700000000 5); (IBytes [1; 2], IExt 7 [9; 9])] in
  swf o D i /\ sint_ok i /\ (Z.of_nat (depth i) < maxdepth D)%Z /\
  enc o false i = [241; 3; 217; 1; 97; 233; 5; 13; 1; 44; 10; 0; 1; 0; 0; 4; 63; 128; 0; 0;
                   1; 1; 8; 0; 24; 15; 1; 0; 0; 0; 14; 220; 229; 232; 0; 0; 0; 0; 5; 255;
                   255; 225; 2; 1; 2; 249; 2; 7; 9; 9]
  /\ norm o D false i = IMap [(IStr [97], IArr [IInt (-300); IUint 65536; IF64 4607182418800017408; INil; INil]);
                              (IUint 0, ITime 1700000000 5); (IStr [1; 2], IExt 7 [9; 9])].
Proof.
  cbv zeta. split; [|split; [|split; [|split]]].
  - vm_compute. intuition (try discriminate; try reflexivity).
  - cbn. intuition lia.
  - vm_compute. reflexivity.
  - vm_compute. reflexivity.
  - vm_compute. reflexivity.
Qed.

(* non-vacuity of the depth statements: MaxDepth 3 accepts nesting 2 and refuses nesting 3,
   on both parsers; hostile input stays within the recursion bound *)
Example W_simple_depth_nonvacuous :
  let D := mkdopts false false 3 in
  let o := mkeopts false false in
  let i2 := IArr [IArr [IUint 1]] in
  let i3 := IArr [IMap [(IUint 1, IArr [INil])]] in
  dec_naked D 100 (enc o false i2) = Ok (i2, []) /\
  dec_naked D 100 (enc o false i3) = Err EDepth /\
  skip D 100 (enc o false i2) = Ok [] /\
  skip D 100 (enc o false i3) = Err EDepth /\
  maxrec (snd (dec_naked_i D 100 (enc o false i2))) = 3%nat /\
  snd (nvb_i (mkdopts false false 0) (N.to_nat 10000) 0 (rd_init (repeat 233 (N.to_nat 4000)))) = 1024%nat.
Proof. vm_compute. repeat apply conj; reflexivity. Qed.

Example W_simple_hostile_nonvacuous :
  (* 8-byte length >= 2^63 (was: negative int / nil sentinel) *)
  dec_naked (mkdopts false false 0) 100 [236; 255; 255; 255; 255; 128; 0; 0; 0; 1] = Err EOverflow /\
  (* crafted length that used to wrap the cursor *)
  skip (mkdopts false false 0) 100 [236; 0; 0; 0; 0; 0; 0; 0; 2; 228; 255; 255; 255; 255; 255; 255; 255; 247] = Err EEof /\
  (* descriptor 221 (string + 5): refused by DecodeNaked, accepted with length 0 by the skip walker *)
  dec_naked (mkdopts false false 0) 100 [221] = Err EBadDesc /\ skip (mkdopts false false 0) 100 [221; 7] = Ok [7].
Proof. vm_compute. repeat apply conj; reflexivity. Qed.

(* W_simple — the wire layer of the "simple" format (simple.go): what the Encoder driver
   writes is what Decode(&interface{}) reads back, what nextValueBytes skips and captures;
   decoding and skipping arbitrary bytes terminate; nesting is bounded by MaxDepth.
   Only statements, closed by [exact], with [Print Assumptions] beneath each. *)
From Coq Require Import List NArith ZArith Bool Lia.
From Verif Require Import Base.Outcome Wire.Item Gen.Consts Wire.Simple Wire.SimpleProofs.
Import ListNotations.
Open Scope N_scope.

(* C01 at the wire level.  For every encoder option vector, decoder option vector, item the
   encoder can be handed ([swf]: ranges, lengths fit an int, no tags, map keys hashable and
   pairwise different once decoded), position (map key or not), trailing bytes and fuel linear
   in the input length: decoding the encoding yields exactly [norm] of the item and leaves
   exactly the trailing bytes.  [norm] spells the documented changes out: integers >= 0 read
   back unsigned (signed under SignedInteger), float32 widens to float64, zero values are nil
   under EncZeroValuesAsNil (except map keys), zero time is nil, strings are byte strings under
   StringToRaw and byte strings are strings under RawToString / as map keys.
   Guard [sint_ok]: with SignedInteger an unsigned value >= 2^63 cannot come back as an int64
   (see W_simple_dec_enc_signed_overflow). *)
Theorem W_simple_dec_enc : forall (o : eopts) (D : dopts) (i : item) (key : bool) (rest : list N) (fuel : nat) (dp : Z),
  swf o D i -> (signedInteger D = false \/ sint_ok i) ->
  (2 * length (enc o key i ++ rest) + 1 <= fuel)%nat ->
  (dp + Z.of_nat (depth i) < maxdepth D)%Z ->
  dec D fuel dp (enc o key i ++ rest) = Ok (norm o D key i, rest).
Proof. exact W_simple_dec_enc_lemma. Qed.
Print Assumptions W_simple_dec_enc.

(* the API form: a fresh decoder (depth 0) with the standard fuel *)
Theorem W_simple_dec_naked_enc : forall (o : eopts) (D : dopts) (i : item) (rest : list N),
  swf o D i -> (signedInteger D = false \/ sint_ok i) -> (Z.of_nat (depth i) < maxdepth D)%Z ->
  dec_naked D (dec_fuel (enc o false i ++ rest)) (enc o false i ++ rest) = Ok (norm o D false i, rest).
Proof. exact W_simple_dec_naked_enc_lemma. Qed.
Print Assumptions W_simple_dec_naked_enc.

(* outside the guard: with SignedInteger an unsigned value >= 2^63 is refused (overflow), never
   sign-flipped (this was F07-1 before helper.go was repaired; int64v comes from Gen/Leaf.v) *)
Theorem W_simple_dec_enc_signed_overflow : forall (o : eopts) (D : dopts) (n : N) (rest : list N) (fuel : nat) (dp : Z),
  signedInteger D = true -> 2 ^ 63 <= n -> n < 2 ^ 64 -> (1 <= fuel)%nat ->
  dec D fuel dp (enc o false (IUint n) ++ rest) = Err EOverflow.
Proof. exact W_simple_dec_enc_signed_overflow_lemma. Qed.
Print Assumptions W_simple_dec_enc_signed_overflow.

Example W_simple_dec_enc_nonvacuous :
  let o := mkeopts true false in
  let D := mkdopts false false 0 in
  let i := IMap [(IStr [97], IArr [IInt (-300); IUint 65536; IF32 1065353216; INil; IStr []]);
                 (IInt 0, ITime 1700000000 5); (IBytes [1; 2], IExt 7 [9; 9])] in
  swf o D i /\ sint_ok i /\ (Z.of_nat (depth i) < maxdepth D)%Z /\
  enc o false i = [241; 3; 217; 1; 97; 233; 5; 13; 1; 44; 10; 0; 1; 0; 0; 4; 63; 128; 0; 0;
                   1; 1; 8; 0; 24; 15; 1; 0; 0; 0; 14; 220; 229; 232; 0; 0; 0; 0; 5; 255;
                   255; 225; 2; 1; 2; 249; 2; 7; 9; 9]
  /\ norm o D false i = IMap [(IStr [97], IArr [IInt (-300); IUint 65536; IF64 4607182418800017408; INil; INil]);
                              (IUint 0, ITime 1700000000 5); (IStr [1; 2], IExt 7 [9; 9])].
Proof.
  cbv zeta. split; [|split; [|split; [|split]]].
  - vm_compute. intuition (try discriminate; try reflexivity).
  - cbn. intuition lia.
  - vm_compute. reflexivity.
  - vm_compute. reflexivity.
  - vm_compute. reflexivity.
Qed.

(* C01 — typed round-trip fidelity in every format and wire option: the generic
   (format independent) layer, proved against the explicit driver interface
   [wire_ok] (Generic/Dec.v); per format the statement is instantiated with the
   format's documented losses and holds under the interface hypothesis
   ([..._partial]: the hypothesis is discharged when Wire/<Fmt>.v is composed).
   Only statements, closed by [exact], with [Print Assumptions] beneath each. *)
From Coq Require Import List NArith ZArith Bool Permutation.
From Verif Require Import Base.Outcome Gen.Consts Wire.Item Generic.Types Generic.Enc Generic.Dec C01.Model C01.Proofs.
Import ListNotations.

(* The heart: the generic decoder applied to what a [wire_ok] driver hands back
   for the generic encoder's calls yields the value up to the documented losses
   [norm], for every option vector, every supported static type, every
   well-typed value with supported leaves, at every depth the decoder's MaxDepth
   admits.  (Map entries in the listed order.) *)
Theorem C01_generic_core : forall (W : wire) (O : gopts), wire_ok W ->
  forall (v : gv) (t : ty) (d : nat),
  wt t v = true -> supported t = true -> leaves_ok W (enc O v) = true ->
  (Z.of_nat d + Z.of_nat (depth (enc O v)) < maxdepth O)%Z ->
  of_item W O d t (wn W (enc O v)) = Ok (norm W O v).
Proof. exact core_rt. Qed.
Print Assumptions C01_generic_core.

(* Whatever order [pi] the encoder iterates the maps in (sorted under Canonical),
   Decode(Encode(v)) into a zero value of the same type is the value up to the
   documented losses and up to the order of map entries. *)
Theorem C01_generic_roundtrip : forall (W : wire) (O : gopts) (pi : order) (t : ty) (v : gv),
  wire_ok W -> order_ok pi ->
  wt t v = true -> supported t = true -> leaves_ok W (to_item O pi v) = true ->
  (Z.of_nat (depth (to_item O pi v)) < maxdepth O)%Z ->
  of_item W O 0 t (wn W (to_item O pi v)) = Ok (norm W O (arrange O pi v)) /\
  veq (norm W O (arrange O pi v)) (norm W O v).
Proof. exact generic_roundtrip. Qed.
Print Assumptions C01_generic_roundtrip.

(* The same with the losses a format documents spelled out as functions that do
   not mention the wire record. *)
Definition roundtrip_for (L : losses) : Prop :=
  forall (W : wire) (O : gopts) (pi : order) (t : ty) (v : gv),
  wire_ok W -> same_losses (losses_of W) L -> order_ok pi ->
  wt t v = true -> supported t = true -> leaves_ok W (to_item O pi v) = true ->
  (Z.of_nat (depth (to_item O pi v)) < maxdepth O)%Z ->
  of_item W O 0 t (wn W (to_item O pi v)) = Ok (normL L O (arrange O pi v)) /\
  veq (normL L O (arrange O pi v)) (normL L O v).

(* cbor: floats exact, time to the microsecond, zero time as nil.  PARTIAL: holds for
   every wire meeting the interface; that Wire/Cbor.v meets it is the composition step. *)
Theorem C01_cbor_roundtrip_partial : roundtrip_for cbor_losses.
Proof. exact (roundtrip_losses cbor_losses). Qed.
Print Assumptions C01_cbor_roundtrip_partial.

(* msgpack, simple, json: floats and nanosecond time exact.  PARTIAL as above
   (json has no wire model yet: the interface for it additionally asks [leaf_ok]
   to restrict strings to valid UTF-8 and floats to finite ones). *)
Theorem C01_msgpack_roundtrip_partial : roundtrip_for exact_losses.
Proof. exact (roundtrip_losses exact_losses). Qed.
Print Assumptions C01_msgpack_roundtrip_partial.

Theorem C01_simple_roundtrip_partial : roundtrip_for exact_losses.
Proof. exact (roundtrip_losses exact_losses). Qed.
Print Assumptions C01_simple_roundtrip_partial.

Theorem C01_json_roundtrip_partial : roundtrip_for exact_losses.
Proof. exact (roundtrip_losses exact_losses). Qed.
Print Assumptions C01_json_roundtrip_partial.

(* binc: the sign of a zero float and the NaN payload are lost.  PARTIAL as above. *)
Theorem C01_binc_roundtrip_partial : roundtrip_for binc_losses.
Proof. exact (roundtrip_losses binc_losses). Qed.
Print Assumptions C01_binc_roundtrip_partial.

(* The interface is satisfiable, by the identity wire and by a cbor-shaped wire
   (non-negative integers come back unsigned, zero time as nil, times rounded to
   the microsecond) whose losses are the ones stated for cbor. *)
Theorem C01_interface_satisfiable :
  wire_ok id_wire /\ wire_ok cb_wire /\ same_losses (losses_of cb_wire) cbor_losses.
Proof. exact (conj id_wire_ok (conj cb_wire_ok cb_wire_losses)). Qed.
Print Assumptions C01_interface_satisfiable.

(* hence, with no hypothesis left on the wire: the round trip through the cbor-shaped wire *)
Theorem C01_cbwire_roundtrip : forall (O : gopts) (pi : order) (t : ty) (v : gv),
  order_ok pi -> wt t v = true -> supported t = true ->
  (Z.of_nat (depth (to_item O pi v)) < maxdepth O)%Z ->
  of_item cb_wire O 0 t (cb_wn (to_item O pi v)) = Ok (normL cbor_losses O (arrange O pi v)) /\
  veq (normL cbor_losses O (arrange O pi v)) (normL cbor_losses O v).
Proof. exact cbwire_roundtrip. Qed.
Print Assumptions C01_cbwire_roundtrip.

(* ---- non-vacuity: a nested struct / map / slice / pointer / array / time value meets the
   premises and round-trips (Canonical, struct as map; then struct as array with
   NilCollectionToZeroLength, where the nil slice comes back empty) ---- *)
Definition ex_ty : ty :=
  TStruct [([110; 97]%N, TMap TString (TSlice (TPtr (TInt W16))));
           ([98]%N, TPtr (TStruct [([120]%N, TFloat F64); ([121]%N, TBytes); ([122]%N, TByteArray 2)]));
           ([99]%N, TArray 2 TTime);
           ([97]%N, TSlice TBool);
           ([100]%N, TMap (TInt W8) (TPtr (TPtr TString)))].

Definition ex_val : gv :=
  GStruct [([110; 97]%N, GMap (Some [(GStr [122]%N, GList (Some [GPtr (Some (GInt (-300)%Z)); GPtr None]));
                                     (GStr [97]%N, GList None)]));
           ([98]%N, GPtr (Some (GStruct [([120]%N, GF64 4609434218613702656%N); ([121]%N, GBytes (Some [1; 2; 3]%N));
                                         ([122]%N, GBArr [7; 8]%N)])));
           ([99]%N, GArr [GTime 1700000000%Z 123456789%N; GTime time_zero_sec 0%N]);
           ([97]%N, GList None);
           ([100]%N, GMap (Some [(GInt 5%Z, GPtr (Some (GPtr None))); (GInt (-5)%Z, GPtr (Some (GPtr (Some (GStr [104; 105]%N)))))]))].

Definition ex_O1 : gopts := mkgopts false true false 0%Z false.     (* Canonical, struct as map *)
Definition ex_O2 : gopts := mkgopts true false true 0%Z true.       (* StructToArray, NilCollectionToZeroLength *)
Definition ex_pi : order := fun _ l => rev l.                       (* maps iterated backwards *)

Example C01_nonvacuous :
  wt ex_ty ex_val = true /\ supported ex_ty = true /\
  (Z.of_nat (depth (to_item ex_O1 ex_pi ex_val)) < maxdepth ex_O1)%Z /\
  (* under Canonical the order experienced does not matter, keys and field names are sorted *)
  to_item ex_O1 ex_pi ex_val = to_item ex_O1 (fun _ l => l) ex_val /\
  (* the round trip: time rounded to the microsecond, pointer to nil pointer comes back nil *)
  of_item cb_wire ex_O1 0 ex_ty (cb_wn (to_item ex_O1 ex_pi ex_val))
    = Ok (normL cbor_losses ex_O1 (arrange ex_O1 ex_pi ex_val)) /\
  normL cbor_losses ex_O1 (arrange ex_O1 ex_pi ex_val) <> ex_val /\
  (* struct as array, nil collections written empty: they come back empty, map in reverse order *)
  of_item cb_wire ex_O2 0 ex_ty (cb_wn (to_item ex_O2 ex_pi ex_val))
    = Ok (normL cbor_losses ex_O2 (arrange ex_O2 ex_pi ex_val)) /\
  normL cbor_losses ex_O2 (arrange ex_O2 ex_pi ex_val) <> normL cbor_losses ex_O2 ex_val.
Proof.
  repeat apply conj; try (vm_compute; reflexivity); try (vm_compute; discriminate).
Qed.

(* a depth the decoder refuses: the premise on MaxDepth is needed *)
Example C01_depth_premise_needed :
  let O := mkgopts false false false 2%Z false in
  of_item cb_wire O 0 (TSlice (TSlice (TInt W8))) (cb_wn (to_item O ex_pi (GList (Some [GList (Some [GInt 1%Z])]))))
  = Err EDepth.
Proof. vm_compute. reflexivity. Qed.

(* C17 — custom codecs are chosen symmetrically in every position.
   Statements only.  [enc_choice] / [dec_choice] are Gen/Choice.v: the guard chains of encFnLoad
   (encode.go) and decFnLoad (decode.go) translated from the current source on every run.
   Every theorem quantifies over ALL 2^24 flag vectors (the record has 24 booleans); the proofs
   are exhaustive case analyses driven by the conditions the chains test. *)
From Coq Require Import Bool List String.
From Verif Require Import Gen.Choice Gen.ChoicePre C17.Model C17.Proofs C17.ModelPre C17.ProofsPre.
Import ListNotations.
Open Scope bool_scope.

(* the same mechanism on both sides, for every type and handle *)
Theorem C17_choice : forall f : flags, fst (enc_choice f) = fst (dec_choice f).
Proof. exact choice_lemma. Qed.
Print Assumptions C17_choice.

(* a custom mechanism is chosen only when both halves exist (and the format class fits) *)
Theorem C17_both_halves : forall f : flags,
  halves_ok f (fst (enc_choice f)) = true /\ halves_ok f (fst (dec_choice f)) = true.
Proof. exact both_halves_lemma. Qed.
Print Assumptions C17_both_halves.

(* the documented order: built-ins, extension (when the caller asks for the lookup), Selfer,
   Binary (binary formats) | JSON then Text (text formats), kind *)
Theorem C17_precedence : forall f : flags,
  fst (enc_choice f) = spec_choice f /\ fst (dec_choice f) = spec_choice f.
Proof. exact precedence_both_lemma. Qed.
Print Assumptions C17_precedence.

(* whatever is chosen, the type assertion the chosen function performs on what it is handed
   (value or pointer, by addrE/addrD) succeeds: the hook is reachable *)
Theorem C17_cast_ok : forall f : flags, enc_cast_ok f = true /\ dec_cast_ok f = true.
Proof. exact cast_lemma. Qed.
Print Assumptions C17_cast_ok.

(* in every position: with addrE/addrD the function receives a pointer (given, taken, or of a
   copy), without it the value; Decode never refuses a settable destination *)
Theorem C17_position : forall (p : pos) (a df : bool),
  is_ptr (enc_handed p a) = a /\
  ((viaPtr p || canAddr p) = true -> is_ptr (dec_handed p a df) = a /\ dec_handed p a df <> HHalt).
Proof. exact handed_lemma. Qed.
Print Assumptions C17_position.

Theorem C17_positions_settable : forall q : position, (viaPtr (dec_pos q) || canAddr (dec_pos q)) = true.
Proof. exact positions_settable. Qed.
Print Assumptions C17_positions_settable.

(* with Go's method-set rule (value receiver => the pointer has the method too) every custom
   mechanism goes through the pointer on both sides *)
Theorem C17_addr : forall f : flags, type_facts f ->
  match fst (enc_choice f) with
  | MSelfer | MBinary | MJson | MText => snd (enc_choice f) = true /\ snd (dec_choice f) = true
  | _ => True
  end.
Proof. exact addr_lemma. Qed.
Print Assumptions C17_addr.

(* the builtin shortcut (struct fields, slice/array elements, map keys/values, top-level values of
   a builtin type: numbers, string, []byte, time.Time, Raw) is taken on both sides or on neither,
   in every position, for every type the encoder treats as builtin: the lists translated from
   encode.base.go and decode.base.go agree, and so do the two time cases about TimeNotBuiltin. *)
Theorem C17_builtin_positions : forall (t : string) (q : position) (f : flags),
  is_enc_builtin t = true -> enc_mech_at q (is_enc_builtin t) f = dec_mech_at q (is_dec_builtin t) f.
Proof. exact builtin_types_lemma. Qed.
Print Assumptions C17_builtin_positions.

(* since the repair of F17-2: with TimeNotBuiltin a time.Time is coded by what the guard chain
   chooses in EVERY position, on both sides (the builtin shortcut is not taken) *)
Theorem C17_time_not_builtin : forall (q : position) (b : bool) (f : flags),
  isTime f = true -> timeBuiltin f = false ->
  enc_mech_at q b f = fst (enc_choice f) /\ dec_mech_at q b f = fst (dec_choice f).
Proof. exact time_not_builtin_lemma. Qed.
Print Assumptions C17_time_not_builtin.

Theorem C17_time_is_builtin : is_enc_builtin "time.Time" = true /\ is_dec_builtin "time.Time" = true.
Proof. exact time_is_builtin_lemma. Qed.
Print Assumptions C17_time_is_builtin.

(* if each mechanism's two halves are inverse to each other, a value goes through its custom form
   and back unchanged, for every type and handle: decode undoes with the mechanism encode used *)
Theorem C17_rt : forall (X W : Type) (marshal : mech -> X -> W) (unmarshal : mech -> W -> X),
  (forall m x, unmarshal m (marshal m x) = x) ->
  forall f x, decX X W unmarshal f (encX X W marshal f x) = x.
Proof. exact rt_lemma. Qed.
Print Assumptions C17_rt.

(* ---- F17-1 (known finding): a registered extension is never looked up on the normal path.
   encoder.fn and decoder.fn pass checkExt = false (fnNoExt passes true): the statement "a type
   with a registered extension is encoded by it" is false of the code as it stands. ---- *)
Definition C17_ext_full_statement : Prop :=
  forall f : flags,
    checkExt f = enc_fn_checkExt -> extRegistered f = true ->
    isTime f = false -> isRaw f = false -> isRawExt f = false ->
    fst (enc_choice f) = MExt.

Theorem C17_ext_refuted : ~ C17_ext_full_statement.
Proof. exact ext_refuted_lemma. Qed.
Print Assumptions C17_ext_refuted.

(* the guarded form: whenever the caller does ask for the lookup, the extension precedes
   everything but the built-ins, on both sides *)
Theorem C17_ext_when_checked : forall f : flags,
  checkExt f = true -> extRegistered f = true ->
  isTime f = false -> isRaw f = false -> isRawExt f = false ->
  fst (enc_choice f) = MExt /\ fst (dec_choice f) = MExt.
Proof. exact ext_when_checked_lemma. Qed.
Print Assumptions C17_ext_when_checked.

(* the two sides at least agree on what they pass *)
Theorem C17_checkExt_symmetric :
  enc_fn_checkExt = dec_fn_checkExt /\ enc_fnNoExt_checkExt = dec_fnNoExt_checkExt.
Proof. exact checkExt_symmetric_lemma. Qed.
Print Assumptions C17_checkExt_symmetric.

(* ---- the step before the function lookup (Gen/ChoicePre.v: the kind switch of encodeValue and the
   TryNil test / pointer loop of decodeValue, translated from the current source).  What leaves
   there is coded without the custom mechanism of its type. ---- *)

(* a value that is not nil is never written before the lookup, whatever its kind (an empty map, an
   empty slice, a zero value ... all reach the function chosen for the type); funcs and invalid
   values are not encodable *)
Theorem C17_pre_nonnil_looks_up : forall k nz u8 w,
  encodable k = true -> enc_pre k false nz u8 <> PreExit w.
Proof. exact pre_nonnil_lemma. Qed.
Print Assumptions C17_pre_nonnil_looks_up.

(* ... and an item that is not nil never leaves the decoder before its lookup *)
Theorem C17_pre_dec_nonnil_looks_up : forall k w, dec_pre false k <> PreExit w.
Proof. exact dec_pre_nonnil_lemma. Qed.
Print Assumptions C17_pre_dec_nonnil_looks_up.

(* without NilCollectionToZeroLength, what leaves the encoder before the lookup is written as nil,
   and on that item the decoder leaves before its lookup too: the hooks run on neither side *)
Theorem C17_pre_nil_symmetric : forall k isNil u8 w,
  enc_pre k isNil false u8 = PreExit w -> w = WNil /\ dec_pre (writes_nil w) k = PreExit WNil.
Proof. exact pre_nil_lemma. Qed.
Print Assumptions C17_pre_nil_symmetric.

(* hooks observed at the top level (the correspondence cases): the same class on both sides *)
Theorem C17_pre_hooks_symmetric : forall k isNil u8 eb db f,
  hookclass_of (enc_mech_at PTop eb f) = hookclass_of (dec_mech_at PTop db f) ->
  k <> KPtr ->
  enc_hook_top k isNil false u8 eb f = dec_hook_top k isNil false u8 db f.
Proof. exact hook_top_sym_lemma. Qed.
Print Assumptions C17_pre_hooks_symmetric.

(* the full statement -- only nil is written before the lookup -- is refuted on the current tree
   (finding F17-4): with NilCollectionToZeroLength a nil map / slice / chan is written as an EMPTY
   collection there, also for a custom-coded type, and the decoder looks the function up for that
   item: the decode hook runs on something the encode hook never wrote *)
Definition C17_pre_full_statement : Prop :=
  forall k isNil nz u8 w, enc_pre k isNil nz u8 = PreExit w -> w = WNil.

Theorem C17_pre_refuted :
  exists k u8 w, enc_pre k true true u8 = PreExit w /\ w <> WNil /\ dec_pre (writes_nil w) k = PreLookup.
Proof. exact pre_refuted_lemma. Qed.
Print Assumptions C17_pre_refuted.

Theorem C17_pre_full_statement_refuted : ~ C17_pre_full_statement.
Proof. exact pre_not_full_lemma. Qed.
Print Assumptions C17_pre_full_statement_refuted.

Example C17_pre_nonvacuous :
  enc_pre KMap true false false = PreExit WNil /\ enc_pre KMap false false false = PreLookup /\
  enc_pre KSlice true true true = PreExit WNilBytes /\ enc_pre KPtr false false false = PreDeref /\
  dec_pre true KMap = PreExit WNil /\ dec_pre false KPtr = PreDeref.
Proof. repeat apply conj; reflexivity. Qed.

(* ---- non-vacuity ---- *)
(* a pointer-receiver BinaryMarshaler pair under a binary handle; the same type under json *)
Definition f_bp (bin js : bool) : flags :=
  mkflags false false false false false false bin js true false
          false false false true false true false false false false false false false false.

Example C17_nonvacuous :
  type_facts (f_bp true false) /\
  enc_choice (f_bp true false) = (MBinary, true) /\ dec_choice (f_bp true false) = (MBinary, true) /\
  enc_choice (f_bp false true) = (MKind, false) /\
  enc_handed (enc_pos PMapValue false) true = HAddrOfCopy /\
  dec_handed (dec_pos PMapValue) true true = HAddrOf.
Proof. repeat apply conj; try reflexivity; intros; discriminate. Qed.

(* C01, composed per format down to BYTES: the generic (format independent) typed
   round trip of Properties/C01.v instantiated with the driver record built from
   each format's wire model (C01/Compose<Fmt>.v), whose interface obligations
   [wire_ok] and documented losses [same_losses] are PROVED there, and joined with
   the format's byte-level lemma dec (enc i ++ rest) = Ok (norm i, rest).

   Shape of every statement: for all format options, generic options, static types,
   well-typed values, map iteration orders and trailing bytes,
     (1) the bytes the driver model writes for the generic encoder's calls
         [to_item O pi v], followed by anything, are read back by the driver model
         (DecodeNaked's walk) as exactly the normalised item [wn W (to_item O pi v)]
         and exactly the trailing bytes are left;
     (2) the generic decoder, reading that item through the driver's typed reads
         [rd_*], returns the value up to the documented losses;
     (3) which equals the original up to the order of map entries.

   What stays OUTSIDE these theorems (modelling steps, tied by the correspondence
   checks and the direct oracles of C01 / W<fmt> / C07, not by proof):
     - the TYPED decoder reads the byte stream directly (DecodeInt64, DecodeBytes,
       ReadArrayStart + element walk ...); here it consumes the ITEM that the
       byte-level walk [dec_naked] produces, and each typed read is modelled as a
       function [rd_*] of that item (C01/Compose<Fmt>.v, from the driver source).
       For msgpack and simple the numeric reads are no longer only transcribed:
       C01_msgpack_typed_reads / C01_simple_typed_reads below prove that, on the bytes
       of every integer / nil / float leaf the encoder writes, C07's byte-level typed
       decoder model (C07/Model.v, tied to the real DecodeInt64 / DecodeUint64 /
       DecodeFloat64 by the C07 correspondence) returns what the generic decoder
       returns reading [rd_*] on the item.  Still transcribed for msgpack / simple: float32
       destinations, the string / bytes / time / bool reads, the container walk.
       For cbor and binc: C01_cbor_typed_reads / C01_binc_typed_reads (the same numeric
       statement, every option vector incl. OptimumSize float narrowing and binc's pruned /
       special forms) and C01_cbor_typed_reads_leaves_partial / C01_binc_typed_reads_leaves_partial
       (TryNil, CheckBreak, DecodeBool, DecodeStringAsBytes incl. cbor chunks and binc symbols --
       stateful --, DecodeBytes, DecodeTime, ReadArrayStart / ReadMapStart against byte-level
       reader models C01/TypedRd.v); C01_typed_reads_float32 (all four binary formats): a float32
       item into a float32 destination.  Still transcribed there: cbor tag-1 times, the element
       walk between a container head and its end;
     - reflection / unsafe value access (a Go value is a [gv] tree), the resolved
       struct field list (C16), and everything Generic/Dec.v lists as not modelled:
       merge into non-zero destinations (C19), interface slots (C15), extensions /
       Selfer (C17), numeric cross-kind conversions and inexact float narrowing (C07);
     - io transport (bytes only).
   Only statements, closed by [exact], with [Print Assumptions] beneath each. *)
From Coq Require Import List NArith ZArith Bool Permutation.
From Verif Require Import Base.Outcome Gen.Consts Wire.Item Generic.Types Generic.Enc Generic.Dec.
From Verif Require Import C01.ComposeFloat C01.ComposeSimple C01.ComposeMsgpack C01.ComposeCbor C01.ComposeCborTime C01.ComposeBinc C01.ComposeTyped.
From Verif Require Import C01.TypedRd C01.TypedCbor C01.TypedBinc C01.TypedF32.
From Verif Require Wire.Simple Wire.Msgpack Wire.Cbor C10.CborConv Wire.Binc Wire.BincProofs Wire.CborTime C07.Model.
Import ListNotations.

(* ---------------- simple ---------------- *)

(* The driver record built from Wire/Simple.v meets the generic decoder's interface and its
   losses are the documented ones: floats and nanosecond times exact, the zero time as nil. *)
Theorem C01_simple_wire_ok : forall (o : Simple.eopts) (D : Simple.dopts),
  wire_ok (W_simple o D) /\ same_losses (losses_of (W_simple o D)) exact_losses.
Proof. exact (fun o D => conj (W_simple_ok o D) (W_simple_losses o D)). Qed.
Print Assumptions C01_simple_wire_ok.

(* simple, FULL (no hypothesis on the wire left).  Premises, all boolean / decidable:
     wt, supported            the value has the static type; the type is in the property's domain;
     maxDepthOpt D = max_depth O   one MaxDepth for both layers (they read the same DecodeOptions);
     swfb                     Wire/Simple.v's well-formedness [swf] as a boolean: ranges, lengths fit an
                              int, time.Time's second range, no tags, map keys hashable and pairwise
                              different once decoded;
     leaves_ok                no zero scalar in value position under EncZeroValuesAsNil, no float32
                              signalling NaN (comes back quiet), no unsigned >= 2^63 under SignedInteger
                              (DecodeNaked refuses it);
     depth < MaxDepth         decoderBase.depthIncr. *)
Theorem C01_simple_roundtrip :
  forall (o : Simple.eopts) (D : Simple.dopts) (O : gopts) (pi : order) (t : ty) (v : gv) (rest : list N),
  order_ok pi -> wt t v = true -> supported t = true ->
  Simple.maxDepthOpt D = max_depth O ->
  swfb o D (to_item O pi v) = true ->
  leaves_ok (W_simple o D) (to_item O pi v) = true ->
  (Z.of_nat (depth (to_item O pi v)) < maxdepth O)%Z ->
  Simple.dec_naked D (Simple.dec_fuel (Simple.enc o false (to_item O pi v) ++ rest))
                     (Simple.enc o false (to_item O pi v) ++ rest)
    = Ok (wn (W_simple o D) (to_item O pi v), rest) /\
  of_item (W_simple o D) O 0 t (wn (W_simple o D) (to_item O pi v)) = Ok (normL exact_losses O (arrange O pi v)) /\
  veq (normL exact_losses O (arrange O pi v)) (normL exact_losses O v).
Proof. exact simple_compose. Qed.
Print Assumptions C01_simple_roundtrip.

(* ---------------- msgpack ---------------- *)

Theorem C01_msgpack_wire_ok : forall (Of : Msgpack.eopts) (D : Msgpack.dopts),
  wire_ok (W_msgpack Of D) /\ same_losses (losses_of (W_msgpack Of D)) exact_losses.
Proof. exact (fun Of D => conj (W_msgpack_ok Of D) (W_msgpack_losses Of D)). Qed.
Print Assumptions C01_msgpack_wire_ok.

(* msgpack, FULL.  Premises:
     d_maxdepth D = max_depth O   one MaxDepth for both layers;
     supportedb               Wire/MsgpackRT.v's [supported] as a boolean: ranges, lengths a 32-bit head
                              can carry, hashable map keys, no tags, time seconds within int64;
     leaves_ok                no float32 signalling NaN (comes back quiet), no unsigned >= 2^63 under
                              SignedInteger (DecodeNaked reports an overflow since the F07-1n repair), time
                              seconds within int64;
     depth < MaxDepth; the whole input is a Go slice (len < 2^63).
   Every MsgpackHandle option vector (WriteExt, NoFixedNum, PositiveIntUnsigned, StringToRaw; decode side
   WriteExt, RawToString, SignedInteger): with WriteExt off a time travels as a 4/8/12-byte raw string
   and DecodeTime reads it back from there. *)
Theorem C01_msgpack_roundtrip :
  forall (Of : Msgpack.eopts) (D : Msgpack.dopts) (O : gopts) (pi : order) (t : ty) (v : gv) (rest : list N),
  order_ok pi -> wt t v = true -> supported t = true ->
  Msgpack.d_maxdepth D = max_depth O ->
  supportedb (to_item O pi v) = true ->
  leaves_ok (W_msgpack Of D) (to_item O pi v) = true ->
  (Z.of_nat (depth (to_item O pi v)) < maxdepth O)%Z ->
  (Msgpack.len (Msgpack.enc Of (to_item O pi v) ++ rest) < 2 ^ 63)%N ->
  Msgpack.dec_naked D (Msgpack.dec_fuel (Msgpack.enc Of (to_item O pi v) ++ rest))
                      (Msgpack.enc Of (to_item O pi v) ++ rest)
    = Ok (wn (W_msgpack Of D) (to_item O pi v), rest) /\
  of_item (W_msgpack Of D) O 0 t (wn (W_msgpack Of D) (to_item O pi v)) = Ok (normL exact_losses O (arrange O pi v)) /\
  veq (normL exact_losses O (arrange O pi v)) (normL exact_losses O v).
Proof. exact msgpack_compose. Qed.
Print Assumptions C01_msgpack_roundtrip.

(* ---------------- cbor ---------------- *)

Theorem C01_cbor_wire_ok : forall (Oc : Cbor.eopts) (D : Cbor.dopts),
  wire_ok (W_cbor Oc D) /\ same_losses (losses_of (W_cbor Oc D)) cbor_losses.
Proof. exact (fun Oc D => conj (W_cbor_ok Oc D) (W_cbor_losses Oc D)). Qed.
Print Assumptions C01_cbor_wire_ok.

(* cbor, the tag-1 form of times (TimeRFC3339 = false; the statement itself holds for every option vector),
   PARTIAL: every value WITHOUT A NON-ZERO time.Time.  Under TimeRFC3339 = true non-zero times ARE covered:
   C01_cbor_rfc3339_roundtrip below.
   Missing here: non-zero times written as tag 1 (epoch seconds, integer or float64).  Wire/Cbor's byte-level
   lemma for this vocabulary (Wcbor_dec_enc_partial) does not cover tag 1 ([lib_supports] excludes tags 0..5):
   what it lacks is the float arithmetic time_of_float (f64_add ..) returning the microsecond-rounded instant.
   [leaves_ok] therefore admits only the zero time (written as nil, read back as the zero time); the time
   clause of [wire_ok] is met for that instant only, and [round_us] in cbor_losses is exercised only there.
   Premises: the wire lemma's own (Item.wf: ranges; plain: lengths are 64-bit; lib_supports of the
   encoder's tree: lengths fit an int, map keys hashable and pairwise different, unsigned < 2^63 under
   SignedInteger; tdepth < MaxDepth as the cbor decoder counts it) plus leaves_ok (no float32 signalling
   NaN, no non-zero time) and the generic layer's depth < MaxDepth. *)
Theorem C01_cbor_roundtrip_bytes_partial :
  forall (Oc : Cbor.eopts) (D : Cbor.dopts) (O : gopts) (pi : order) (t : ty) (v : gv) (rest : list N),
  order_ok pi -> wt t v = true -> supported t = true ->
  wf (to_item O pi v) -> CborConv.plain (to_item O pi v) ->
  CborConv.lib_supports D (CborConv.tree_of Oc (to_item O pi v)) ->
  (CborConv.tdepth D (CborConv.tree_of Oc (to_item O pi v)) < Cbor.maxdepth D)%Z ->
  leaves_ok (W_cbor Oc D) (to_item O pi v) = true ->
  (Z.of_nat (depth (to_item O pi v)) < maxdepth O)%Z ->
  Cbor.dec_naked D (Cbor.fuel_for (Cbor.enc Oc (to_item O pi v) ++ rest)) (Cbor.enc Oc (to_item O pi v) ++ rest)
    = Ok (wn (W_cbor Oc D) (to_item O pi v), rest) /\
  of_item (W_cbor Oc D) O 0 t (wn (W_cbor Oc D) (to_item O pi v)) = Ok (normL cbor_losses O (arrange O pi v)) /\
  veq (normL cbor_losses O (arrange O pi v)) (normL cbor_losses O v).
Proof. exact cbor_compose_partial. Qed.
Print Assumptions C01_cbor_roundtrip_bytes_partial.

(* cbor with CborHandle.TimeRFC3339 = true: times included.  The driver record [W_cbor_t] spells the
   normalisation of a time out (nil for the zero time, else the instant rounded to the microsecond), so its
   losses are cbor_losses for every instant. *)
Theorem C01_cbor_rfc3339_wire_ok : forall (Oc : Cbor.eopts) (D : Cbor.dopts),
  wire_ok (W_cbor_t Oc D) /\ same_losses (losses_of (W_cbor_t Oc D)) cbor_losses.
Proof. exact (fun Oc D => conj (W_cbor_t_ok Oc D) (W_cbor_t_losses Oc D)). Qed.
Print Assumptions C01_cbor_rfc3339_wire_ok.

(* cbor, TimeRFC3339 = true, FULL (every other option free: IndefiniteLength, StringToRaw, OptimumSize;
   SignedInteger, RawToString, SkipUnexpectedTags): a time.Time is written as tag 0 + the RFC 3339 text of
   its UTC instant and comes back rounded to the microsecond (time as microseconds: cbor_losses), the zero
   time as nil.  Premises: the extended wire lemma's own (Wcbor_dec_enc: wf, plain, lib_supports_t and
   tdepth_t of the encoder's tree -- a tag-0 time costs no depth) plus leaves_ok: no float32 signalling NaN,
   no unsigned >= 2^63 under SignedInteger, every time has nsec < 10^9 and a UTC year in 0..9999
   ([CborTime.year_ok]: the range Go's RFC 3339 formatter accepts). *)
Theorem C01_cbor_rfc3339_roundtrip :
  forall (Oc : Cbor.eopts) (D : Cbor.dopts) (O : gopts) (pi : order) (t : ty) (v : gv) (rest : list N),
  Cbor.eo_rfc3339 Oc = true ->
  order_ok pi -> wt t v = true -> supported t = true ->
  wf (to_item O pi v) -> CborConv.plain (to_item O pi v) ->
  CborConv.lib_supports_t D (CborConv.tree_of Oc (to_item O pi v)) ->
  (CborConv.tdepth_t D (CborConv.tree_of Oc (to_item O pi v)) < Cbor.maxdepth D)%Z ->
  leaves_ok (W_cbor_t Oc D) (to_item O pi v) = true ->
  (Z.of_nat (depth (to_item O pi v)) < maxdepth O)%Z ->
  Cbor.dec_naked D (Cbor.fuel_for (Cbor.enc Oc (to_item O pi v) ++ rest)) (Cbor.enc Oc (to_item O pi v) ++ rest)
    = Ok (wn (W_cbor_t Oc D) (to_item O pi v), rest) /\
  of_item (W_cbor_t Oc D) O 0 t (wn (W_cbor_t Oc D) (to_item O pi v)) = Ok (normL cbor_losses O (arrange O pi v)) /\
  veq (normL cbor_losses O (arrange O pi v)) (normL cbor_losses O v).
Proof. exact cbor_rfc3339_compose. Qed.
Print Assumptions C01_cbor_rfc3339_roundtrip.

(* ---------------- binc ---------------- *)

Theorem C01_binc_wire_ok : forall (e : Binc.eopts) (d : Binc.dopts),
  wire_ok (W_binc e d) /\ same_losses (losses_of (W_binc e d)) binc_losses.
Proof. exact (fun e d => conj (W_binc_ok e d) (W_binc_losses e d)). Qed.
Print Assumptions C01_binc_wire_ok.

(* binc, FULL, stateful: in ANY Encoder symbol table [est] and Decoder symbol table [dst] related by
   BincProofs.R (a fresh pair is: R_init; successive Encode / Decode calls keep them related), for every
   option vector (AsSymbols, StringToRaw; SignedInteger, RawToString).  Losses: the sign of a zero float
   and the NaN payload (binc_losses).  Premises:
     Z.of_N (maxdepth d) = maxdepth O   one effective MaxDepth for both layers;
     wfbb                     Wire/Binc.v's [wfb] as a boolean: ranges, lengths fit an int, seconds within
                              int64, no tags, map keys hashable and pairwise different once decoded, no
                              unsigned >= 2^63 under SignedInteger;
     leaves_ok                no unsigned >= 2^63 under SignedInteger (DecodeNaked reports an overflow since
                              the F07-1n repair);
     depth < MaxDepth. *)
Theorem C01_binc_roundtrip :
  forall (e : Binc.eopts) (d : Binc.dopts) (O : gopts) (pi : order) (t : ty) (v : gv)
         (est : Binc.estate) (dst : Binc.dstate) (rest : list N),
  order_ok pi -> wt t v = true -> supported t = true ->
  Z.of_N (Binc.maxdepth d) = maxdepth O ->
  BincProofs.R est dst ->
  wfbb e d (to_item O pi v) = true ->
  leaves_ok (W_binc e d) (to_item O pi v) = true ->
  (Z.of_nat (depth (to_item O pi v)) < maxdepth O)%Z ->
  (exists dst',
     Binc.dec_naked d dst (fst (Binc.enc e false (to_item O pi v) est) ++ rest)
       = Ok (wn (W_binc e d) (to_item O pi v), rest, dst')
     /\ BincProofs.R (snd (Binc.enc e false (to_item O pi v) est)) dst') /\
  of_item (W_binc e d) O 0 t (wn (W_binc e d) (to_item O pi v)) = Ok (normL binc_losses O (arrange O pi v)) /\
  veq (normL binc_losses O (arrange O pi v)) (normL binc_losses O v).
Proof. exact binc_compose. Qed.
Print Assumptions C01_binc_roundtrip.

(* ---------------- typed reads on bytes = typed reads on the item (msgpack, simple) ---------------- *)

(* [typed W O k j] = the generic decoder of_item W O 0 (ty_of k) j (through is_nil / rd_int / rd_uint /
   rd_f64 of the driver record), the stored value read off as C07 does; [zb] = the bytes as C07's Z list.
   For every option vector and ANY trailing bytes (the answer does not depend on them):
     - every integer item in the encoder's range (IInt: int64, IUint: uint64; leaf_ok: not >= 2^63 under
       SignedInteger) into each of the 11 integer kinds: the same value, or the same error class
       (EOverflow out of range, EOther negative into unsigned);
     - nil into each of the 13 kinds: zero;
     - a float64 / float32 item into float64: the same bits (the float32 widened exactly).
   Not covered: float32 destinations (C07 rounds with f64_to_f32; exactness on widened float32s not
   proved), integer <-> float cross-kind reads (rd_* abstain: Err EUnsupported), cbor, binc. *)
Theorem C01_msgpack_typed_reads : forall (Of : Msgpack.eopts) (D : Msgpack.dopts) (O : gopts) (rest : list N),
  (forall k i, C07.Model.is_int_kind k = true -> int_item i -> leaf_ok (W_msgpack Of D) i = true ->
     C07.Model.decode C07.Model.msgpack k (zb (Msgpack.enc Of i ++ rest)) = typed (W_msgpack Of D) O k (wn (W_msgpack Of D) i)) /\
  (forall k, C07.Model.decode C07.Model.msgpack k (zb (Msgpack.enc Of INil ++ rest)) = typed (W_msgpack Of D) O k (wn (W_msgpack Of D) INil)) /\
  (forall b, (b < 2 ^ 64)%N ->
     C07.Model.decode C07.Model.msgpack C07.Model.KFloat64 (zb (Msgpack.enc Of (IF64 b) ++ rest))
       = typed (W_msgpack Of D) O C07.Model.KFloat64 (wn (W_msgpack Of D) (IF64 b))) /\
  (forall b, (b < 2 ^ 32)%N ->
     C07.Model.decode C07.Model.msgpack C07.Model.KFloat64 (zb (Msgpack.enc Of (IF32 b) ++ rest))
       = typed (W_msgpack Of D) O C07.Model.KFloat64 (wn (W_msgpack Of D) (IF32 b))).
Proof. exact msgpack_typed_reads. Qed.
Print Assumptions C01_msgpack_typed_reads.

(* simple: the same, in value or map-key position [key]; leaf_ok additionally excludes a zero scalar
   under EncZeroValuesAsNil (written as nil) *)
Theorem C01_simple_typed_reads : forall (o : Simple.eopts) (D : Simple.dopts) (O : gopts) (key : bool) (rest : list N),
  (forall k i, C07.Model.is_int_kind k = true -> int_item i -> leaf_ok (W_simple o D) i = true ->
     C07.Model.decode C07.Model.simple k (zb (Simple.enc o key i ++ rest)) = typed (W_simple o D) O k (wn (W_simple o D) i)) /\
  (forall k, C07.Model.decode C07.Model.simple k (zb (Simple.enc o key INil ++ rest)) = typed (W_simple o D) O k (wn (W_simple o D) INil)) /\
  (forall b, (b < 2 ^ 64)%N -> leaf_ok (W_simple o D) (IF64 b) = true ->
     C07.Model.decode C07.Model.simple C07.Model.KFloat64 (zb (Simple.enc o key (IF64 b) ++ rest))
       = typed (W_simple o D) O C07.Model.KFloat64 (wn (W_simple o D) (IF64 b))) /\
  (forall b, (b < 2 ^ 32)%N -> leaf_ok (W_simple o D) (IF32 b) = true ->
     C07.Model.decode C07.Model.simple C07.Model.KFloat64 (zb (Simple.enc o key (IF32 b) ++ rest))
       = typed (W_simple o D) O C07.Model.KFloat64 (wn (W_simple o D) (IF32 b))).
Proof. exact simple_typed_reads. Qed.
Print Assumptions C01_simple_typed_reads.

(* ---------------- non-vacuity ---------------- *)
Definition cx_ty : ty :=
  TStruct [([110; 97]%N, TMap TString (TSlice (TPtr (TInt W16))));
           ([98]%N, TPtr (TStruct [([120]%N, TFloat F64); ([121]%N, TBytes); ([122]%N, TByteArray 2); ([119]%N, TFloat F32)]));
           ([99]%N, TArray 2 TTime);
           ([97]%N, TSlice TBool);
           ([100]%N, TMap (TInt W8) (TPtr (TPtr TString)));
           ([117]%N, TUint W64)].

Definition cx_val : gv :=
  GStruct [([110; 97]%N, GMap (Some [(GStr [122]%N, GList (Some [GPtr (Some (GInt (-300)%Z)); GPtr None]));
                                     (GStr [97]%N, GList None)]));
           ([98]%N, GPtr (Some (GStruct [([120]%N, GF64 4609434218613702656%N); ([121]%N, GBytes (Some [1; 2; 3]%N));
                                         ([122]%N, GBArr [7; 8]%N); ([119]%N, GF32 1069547520%N)])));
           ([99]%N, GArr [GTime 1700000000%Z 123456789%N; GTime time_zero_sec 0%N]);
           ([97]%N, GList None);
           ([100]%N, GMap (Some [(GInt 5%Z, GPtr (Some (GPtr None))); (GInt (-5)%Z, GPtr (Some (GPtr (Some (GStr [104; 105]%N)))))]));
           ([117]%N, GUint 18446744073709551615%N)].

Definition cx_O1 : gopts := mkgopts false true false 0%Z false.     (* Canonical, struct as map *)
Definition cx_O2 : gopts := mkgopts true false true 0%Z true.       (* StructToArray, NilCollectionToZeroLength *)
Definition cx_pi : order := fun _ l => rev l.                       (* maps iterated backwards *)

Example C01_simple_nonvacuous :
  let o := Simple.mkeopts false true in                    (* StringToRaw *)
  let D := Simple.mkdopts false false 0 in
  wt cx_ty cx_val = true /\ supported cx_ty = true /\
  swfb o D (to_item cx_O1 cx_pi cx_val) = true /\ leaves_ok (W_simple o D) (to_item cx_O1 cx_pi cx_val) = true /\
  swfb o D (to_item cx_O2 cx_pi cx_val) = true /\ leaves_ok (W_simple o D) (to_item cx_O2 cx_pi cx_val) = true /\
  (Z.of_nat (depth (to_item cx_O1 cx_pi cx_val)) < maxdepth cx_O1)%Z /\
  (* the conclusion, computed: bytes -> item -> value; the value differs from the original
     (pointer to nil pointer, nil slice under NilCollectionToZeroLength) *)
  (do ir <- Simple.dec_naked D 1000 (Simple.enc o false (to_item cx_O2 cx_pi cx_val) ++ [7]%N);;
   of_item (W_simple o D) cx_O2 0 cx_ty (fst ir)) = Ok (normL exact_losses cx_O2 (arrange cx_O2 cx_pi cx_val)) /\
  normL exact_losses cx_O2 (arrange cx_O2 cx_pi cx_val) <> cx_val /\
  (* StringToRaw + SignedInteger: the string leaves come back as byte strings, integers signed *)
  wn (W_simple o (Simple.mkdopts true false 0)) (IArr [IStr [104]%N; IInt 5%Z; IF32 1069547520%N])
    = IArr [IBytes [104]%N; IInt 5%Z; IF64 4609434218613702656%N].
Proof.
  cbv zeta. repeat apply conj; try (vm_compute; reflexivity); try (vm_compute; discriminate).
Qed.

(* the leaf premise is needed: under EncZeroValuesAsNil a pointer to false comes back nil *)
Example C01_simple_zero_as_nil_loss :
  let o := Simple.mkeopts true false in
  let D := Simple.mkdopts false false 0 in
  let v := GPtr (Some (GBool false)) in
  leaves_ok (W_simple o D) (to_item cx_O1 cx_pi v) = false /\
  of_item (W_simple o D) cx_O1 0 (TPtr TBool) (wn (W_simple o D) (to_item cx_O1 cx_pi v)) = Ok (GPtr None).
Proof. cbv zeta. split; vm_compute; reflexivity. Qed.

Example C01_msgpack_nonvacuous :
  let Of := Msgpack.mkeopts false false true false in        (* legacy layout (WriteExt off), PositiveIntUnsigned *)
  let D := Msgpack.mkdopts false false false 0 in
  supportedb (to_item cx_O1 cx_pi cx_val) = true /\ leaves_ok (W_msgpack Of D) (to_item cx_O1 cx_pi cx_val) = true /\
  supportedb (to_item cx_O2 cx_pi cx_val) = true /\ leaves_ok (W_msgpack Of D) (to_item cx_O2 cx_pi cx_val) = true /\
  (Msgpack.len (Msgpack.enc Of (to_item cx_O2 cx_pi cx_val) ++ [7]%N) < 2 ^ 63)%N /\
  (* the time travels as raw bytes and is read back by DecodeTime from there *)
  wn (W_msgpack Of D) (ITime 1700000000%Z 123456789%N) = IBytes [29; 111; 52; 84; 101; 83; 241; 0]%N /\
  rd_time (W_msgpack Of D) (IBytes [29; 111; 52; 84; 101; 83; 241; 0]%N) = Ok (1700000000%Z, 123456789%N) /\
  (do ir <- Msgpack.dec_naked D 1000 (Msgpack.enc Of (to_item cx_O2 cx_pi cx_val) ++ [7]%N);;
   of_item (W_msgpack Of D) cx_O2 0 cx_ty (fst ir)) = Ok (normL exact_losses cx_O2 (arrange cx_O2 cx_pi cx_val)) /\
  (* with the timestamp extension *)
  (do ir <- Msgpack.dec_naked (Msgpack.mkdopts true true true 0) 1000
              (Msgpack.enc (Msgpack.mkeopts true true false true) (to_item cx_O1 cx_pi (GList (Some [GTime 5%Z 6%N; GTime (-5)%Z 0%N]))));;
   of_item (W_msgpack (Msgpack.mkeopts true true false true) (Msgpack.mkdopts true true true 0)) cx_O1 0 (TSlice TTime) (fst ir))
    = Ok (GList (Some [GTime 5%Z 6%N; GTime (-5)%Z 0%N])).
Proof.
  cbv zeta. repeat apply conj; try (vm_compute; reflexivity); try (vm_compute; discriminate).
Qed.

(* cbor: the same value with zero times only *)
Definition cx_val0 : gv :=
  GStruct [([110; 97]%N, GMap (Some [(GStr [122]%N, GList (Some [GPtr (Some (GInt (-300)%Z)); GPtr None]));
                                     (GStr [97]%N, GList None)]));
           ([98]%N, GPtr (Some (GStruct [([120]%N, GF64 4609434218613702656%N); ([121]%N, GBytes (Some [1; 2; 3]%N));
                                         ([122]%N, GBArr [7; 8]%N); ([119]%N, GF32 1069547520%N)])));
           ([99]%N, GArr [GTime time_zero_sec 0%N; GTime time_zero_sec 0%N]);
           ([97]%N, GList None);
           ([100]%N, GMap (Some [(GInt 5%Z, GPtr (Some (GPtr None))); (GInt (-5)%Z, GPtr (Some (GPtr (Some (GStr [104; 105]%N)))))]));
           ([117]%N, GUint 18446744073709551615%N)].

Example C01_cbor_nonvacuous :
  let Oc := Cbor.mkeo false false true true in             (* StringToRaw, OptimumSize *)
  let Oi := Cbor.mkeo true false false true in             (* IndefiniteLength, OptimumSize *)
  let D := Cbor.mkdo false false false 0 in
  let i := to_item cx_O2 cx_pi cx_val0 in
  wt cx_ty cx_val0 = true /\
  wf i /\ CborConv.plain i /\ CborConv.lib_supports D (CborConv.tree_of Oc i) /\
  (CborConv.tdepth D (CborConv.tree_of Oc i) < Cbor.maxdepth D)%Z /\
  leaves_ok (W_cbor Oc D) i = true /\
  (do ir <- Cbor.dec_naked D 1000 (Cbor.enc Oc i ++ [7]%N);;
   of_item (W_cbor Oc D) cx_O2 0 cx_ty (fst ir)) = Ok (normL cbor_losses cx_O2 (arrange cx_O2 cx_pi cx_val0)) /\
  (do ir <- Cbor.dec_naked D 1000 (Cbor.enc Oi i ++ [7]%N);;
   of_item (W_cbor Oi D) cx_O2 0 cx_ty (fst ir)) = Ok (normL cbor_losses cx_O2 (arrange cx_O2 cx_pi cx_val0)) /\
  (* a non-zero time is outside the leaf premise *)
  leaves_ok (W_cbor Oc D) (to_item cx_O2 cx_pi cx_val) = false.
Proof.
  cbv zeta.
  split; [vm_compute; reflexivity|].
  split; [vm_compute; repeat apply conj; try exact I; try reflexivity; try (intro; discriminate); repeat constructor; reflexivity|].
  split; [vm_compute; repeat apply conj; try exact I; try reflexivity; try (intro; discriminate)|].
  split; [vm_compute; repeat apply conj; try exact I; try reflexivity; try (intro; discriminate); repeat constructor; try reflexivity|].
  repeat apply conj; vm_compute; reflexivity.
Qed.

Example C01_binc_nonvacuous :
  let e := Binc.Build_eopts true false in                  (* AsSymbols *)
  let d := Binc.Build_dopts 1024 false false in
  Z.of_N (Binc.maxdepth d) = maxdepth cx_O1 /\
  BincProofs.R Binc.estate0 Binc.dstate0 /\
  wfbb e d (to_item cx_O1 cx_pi cx_val) = true /\ leaves_ok (W_binc e d) (to_item cx_O1 cx_pi cx_val) = true /\
  wfbb e d (to_item cx_O2 cx_pi cx_val) = true /\ leaves_ok (W_binc e d) (to_item cx_O2 cx_pi cx_val) = true /\
  (do irs <- Binc.dec_naked d Binc.dstate0 (fst (Binc.enc e false (to_item cx_O1 cx_pi cx_val) Binc.estate0) ++ [7]%N);;
   of_item (W_binc e d) cx_O1 0 cx_ty (fst (fst irs))) = Ok (normL binc_losses cx_O1 (arrange cx_O1 cx_pi cx_val)) /\
  (* the documented losses: -0.0 comes back +0.0, a float32 NaN comes back as the canonical one *)
  of_item (W_binc e d) cx_O1 0 (TSlice (TFloat F32)) (wn (W_binc e d) (to_item cx_O1 cx_pi (GList (Some [GF32 2147483648%N; GF32 2139095041%N]))))
    = Ok (GList (Some [GF32 0%N; GF32 2143289344%N])).
Proof.
  cbv zeta. split; [reflexivity|]. split; [exact BincProofs.R_init|].
  repeat apply conj; vm_compute; reflexivity.
Qed.

(* cbor with TimeRFC3339: times at top level, behind pointers, as map values; rounding up and down, the
   zero time, the last second of year 9999 *)
Definition ct_ty : ty := TStruct [([116]%N, TTime); ([108]%N, TSlice (TPtr TTime)); ([109]%N, TMap TString TTime)].
Definition ct_val : gv :=
  GStruct [([116]%N, GTime 1700000000%Z 123456789%N);
           ([108]%N, GList (Some [GPtr (Some (GTime time_zero_sec 0%N)); GPtr (Some (GTime (-5)%Z 999999500%N)); GPtr None]));
           ([109]%N, GMap (Some [(GStr [97]%N, GTime 253402300799%Z 999999499%N)]))].

Example C01_cbor_rfc3339_nonvacuous :
  let Oc := Cbor.mkeo false true false true in             (* TimeRFC3339, OptimumSize *)
  let D := Cbor.mkdo false false false 0 in
  let i := to_item cx_O1 cx_pi ct_val in
  Cbor.eo_rfc3339 Oc = true /\ wt ct_ty ct_val = true /\ supported ct_ty = true /\
  wf i /\ CborConv.plain i /\ CborConv.lib_supports_t D (CborConv.tree_of Oc i) /\
  (CborConv.tdepth_t D (CborConv.tree_of Oc i) < Cbor.maxdepth D)%Z /\
  leaves_ok (W_cbor_t Oc D) i = true /\
  (do ir <- Cbor.dec_naked D 1000 (Cbor.enc Oc i ++ [7]%N);;
   of_item (W_cbor_t Oc D) cx_O1 0 ct_ty (fst ir)) = Ok (normL cbor_losses cx_O1 (arrange cx_O1 cx_pi ct_val)) /\
  normL cbor_losses cx_O1 ct_val =
    GStruct [([116]%N, GTime 1700000000%Z 123457000%N);
             ([108]%N, GList (Some [GPtr None; GPtr (Some (GTime (-4)%Z 0%N)); GPtr None]));
             ([109]%N, GMap (Some [(GStr [97]%N, GTime 253402300799%Z 999999000%N)]))] /\
  (* year 10000 is outside the leaf premise *)
  leaves_ok (W_cbor_t Oc D) (ITime 253402300800%Z 0%N) = false.
Proof.
  cbv zeta.
  split; [reflexivity|]. split; [vm_compute; reflexivity|]. split; [vm_compute; reflexivity|].
  split; [vm_compute; repeat first [reflexivity | exact I | (intro; discriminate) | apply conj | constructor]|].
  split; [vm_compute; repeat first [reflexivity | exact I | (intro; discriminate) | apply conj]|].
  split; [vm_compute; repeat first [reflexivity | exact I | (intro; discriminate) | apply conj | right | eexists]|].
  repeat apply conj; vm_compute; reflexivity.
Qed.

(* typed reads: both sides computed -- a value, an overflow, a negative into unsigned, unsigned >= 2^63
   into int64, nil, a widened float32 *)
Example C01_typed_reads_nonvacuous :
  let Of := Msgpack.mkeopts true false false false in
  let D := Msgpack.mkdopts true false false 0 in
  let W := W_msgpack Of D in
  let dec k i := C07.Model.decode C07.Model.msgpack k (zb (Msgpack.enc Of i ++ [7; 7]%N)) in
  dec C07.Model.KInt16 (IInt (-300)%Z) = Ok (-300)%Z /\ typed W cx_O1 C07.Model.KInt16 (wn W (IInt (-300)%Z)) = Ok (-300)%Z /\
  dec C07.Model.KUint8 (IUint 300%N) = Err EOverflow /\ typed W cx_O1 C07.Model.KUint8 (wn W (IUint 300%N)) = Err EOverflow /\
  dec C07.Model.KUint16 (IInt (-5)%Z) = Err EOther /\ typed W cx_O1 C07.Model.KUint16 (wn W (IInt (-5)%Z)) = Err EOther /\
  dec C07.Model.KInt64 (IUint 18446744073709551615%N) = Err EOverflow /\
  typed W cx_O1 C07.Model.KInt64 (wn W (IUint 18446744073709551615%N)) = Err EOverflow /\
  dec C07.Model.KFloat32 INil = Ok 0%Z /\ typed W cx_O1 C07.Model.KFloat32 (wn W INil) = Ok 0%Z /\
  dec C07.Model.KFloat64 (IF32 1069547520%N) = Ok 4609434218613702656%Z /\
  typed W cx_O1 C07.Model.KFloat64 (wn W (IF32 1069547520%N)) = Ok 4609434218613702656%Z /\
  (* simple, EncZeroValuesAsNil off, SignedInteger on *)
  C07.Model.decode C07.Model.simple C07.Model.KUint32 (zb (Simple.enc (Simple.mkeopts false false) true (IInt 70000%Z) ++ [9]%N)) = Ok 70000%Z /\
  typed (W_simple (Simple.mkeopts false false) (Simple.mkdopts true false 0)) cx_O1 C07.Model.KUint32
        (wn (W_simple (Simple.mkeopts false false) (Simple.mkdopts true false 0)) (IInt 70000%Z)) = Ok 70000%Z.
Proof. cbv zeta. repeat apply conj; vm_compute; reflexivity. Qed.

(* ---------------- typed reads on bytes = typed reads on the item (cbor, binc) ---------------- *)

(* cbor, numbers: the statement of C01_msgpack_typed_reads for the cbor driver, every option vector.
   Under OptimumSize a float64 / float32 item may travel as a float32 / float16: it is read back widened,
   exactly ([IF64 b] comes back as [b]).  Not covered: float32 destinations, integer <-> float cross-kind
   reads (rd_* abstain). *)
Theorem C01_cbor_typed_reads : forall (Oc : Cbor.eopts) (D : Cbor.dopts) (O : gopts) (rest : list N),
  (forall k i, C07.Model.is_int_kind k = true -> int_item i -> leaf_ok (W_cbor Oc D) i = true ->
     C07.Model.decode C07.Model.cbor k (zb (Cbor.enc Oc i ++ rest)) = typed (W_cbor Oc D) O k (wn (W_cbor Oc D) i)) /\
  (forall k, C07.Model.decode C07.Model.cbor k (zb (Cbor.enc Oc INil ++ rest)) = typed (W_cbor Oc D) O k (wn (W_cbor Oc D) INil)) /\
  (forall b, (b < 2 ^ 64)%N ->
     C07.Model.decode C07.Model.cbor C07.Model.KFloat64 (zb (Cbor.enc Oc (IF64 b) ++ rest))
       = typed (W_cbor Oc D) O C07.Model.KFloat64 (wn (W_cbor Oc D) (IF64 b))) /\
  (forall b, (b < 2 ^ 32)%N ->
     C07.Model.decode C07.Model.cbor C07.Model.KFloat64 (zb (Cbor.enc Oc (IF32 b) ++ rest))
       = typed (W_cbor Oc D) O C07.Model.KFloat64 (wn (W_cbor Oc D) (IF32 b))).
Proof. exact cbor_typed_reads. Qed.
Print Assumptions C01_cbor_typed_reads.

(* cbor, the other typed reads, against the byte-level reader models of C01/TypedRd.v (glue around the
   pieces of Wire/Cbor.v).  [stored g r] = the read's answer as the generic layer stores it + the remaining
   input; [leaving r rest] = the item-level answer [of_item W O 0 t (wn W i)] + [rest].  For every option
   vector, any trailing bytes, fuel [f] at least twice the encoding's length (the chunk loop):
     TryNil            every item the generic encoder produces (no tags / extensions): nil consumed, anything
                       else left unread; CheckBreak does not fire on an item and consumes the break byte;
     DecodeBool; DecodeStringAsBytes / DecodeBytes on text and byte strings, definite or cut into chunks
                       (IndefiniteLength), StringToRaw / RawToString;
     ReadArrayStart / ReadMapStart: the length (or "unknown" under IndefiniteLength), leaving exactly the
                       elements' encodings (+ break) + rest, and the item is the element-wise normalised one;
     DecodeTime        the zero time (nil), and under TimeRFC3339 every instant of a year 0..9999: tag 0 +
                       text, parsed and rounded to the microsecond (driver record W_cbor_t).
   PARTIAL -- kinds NOT covered: float32 destinations; times written as tag 1 (epoch seconds, TimeRFC3339
   off: the float arithmetic is not proved); DecodeBytes on an array of small integers (never written for a
   []byte); ValidateUnicode; the element walk is not composed (head and leaves only). *)
Theorem C01_cbor_typed_reads_leaves_partial : forall (Oc : Cbor.eopts) (D : Cbor.dopts) (O : gopts) (rest : list N),
  (forall i, TypedCbor.gen_item i ->
     c_TryNil (Cbor.enc Oc i ++ rest)
       = Ok (is_nil (W_cbor Oc D) (wn (W_cbor Oc D) i),
             if is_nil (W_cbor Oc D) (wn (W_cbor Oc D) i) then rest else Cbor.enc Oc i ++ rest)
     /\ (is_nil (W_cbor Oc D) (wn (W_cbor Oc D) i) = false ->
         c_CheckBreak (Cbor.enc Oc i ++ rest) = Ok (false, Cbor.enc Oc i ++ rest))) /\
  c_CheckBreak (Cbor.bdBreak :: rest) = Ok (true, rest) /\
  (forall f x, (1 <= f)%nat ->
     stored GBool (c_DecodeBool D f (Cbor.enc Oc (IBool x) ++ rest))
       = leaving (of_item (W_cbor Oc D) O 0 TBool (wn (W_cbor Oc D) (IBool x))) rest) /\
  (forall f s, Forall (fun x => x < 256)%N s -> (N.of_nat (length s) < 2 ^ 63)%N -> (2 * length (Cbor.enc Oc (IStr s)) <= f)%nat ->
     stored GStr (c_DecodeBytes D f (Cbor.enc Oc (IStr s) ++ rest))
       = leaving (of_item (W_cbor Oc D) O 0 TString (wn (W_cbor Oc D) (IStr s))) rest) /\
  (forall f s, Forall (fun x => x < 256)%N s -> (N.of_nat (length s) < 2 ^ 63)%N -> (2 * length (Cbor.enc Oc (IBytes s)) <= f)%nat ->
     stored (fun x => GBytes (Some x)) (c_DecodeBytes D f (Cbor.enc Oc (IBytes s) ++ rest))
       = leaving (of_item (W_cbor Oc D) O 0 TBytes (wn (W_cbor Oc D) (IBytes s))) rest) /\
  (forall f l, (1 <= f)%nat -> (N.of_nat (length l) < 2 ^ 63)%N ->
     c_ReadArrayStart D f (Cbor.enc Oc (IArr l) ++ rest)
       = Ok (if Cbor.eo_indef Oc then LUnknown else LKnown (N.of_nat (length l)), c_body Oc l (Cbor.enc Oc) ++ rest)
     /\ wn (W_cbor Oc D) (IArr l) = IArr (map (wn (W_cbor Oc D)) l)) /\
  (forall f l, (1 <= f)%nat -> (N.of_nat (length l) < 2 ^ 63)%N ->
     c_ReadMapStart D f (Cbor.enc Oc (IMap l) ++ rest)
       = Ok (if Cbor.eo_indef Oc then LUnknown else LKnown (N.of_nat (length l)),
             c_body Oc l (fun kv => Cbor.enc Oc (fst kv) ++ Cbor.enc Oc (snd kv)) ++ rest)
     /\ wn (W_cbor Oc D) (IMap l) = IMap (map (fun kv => (wnk (W_cbor Oc D) (fst kv), wn (W_cbor Oc D) (snd kv))) l)) /\
  (forall f,
     stored (fun sn : Z * N => GTime (fst sn) (snd sn)) (c_DecodeTime D f (Cbor.enc Oc (ITime time_zero_sec 0) ++ rest))
       = leaving (of_item (W_cbor Oc D) O 0 TTime (wn (W_cbor Oc D) (ITime time_zero_sec 0))) rest) /\
  (forall f s n, Cbor.eo_rfc3339 Oc = true -> CborTime.year_ok s = true -> (n < 1000000000)%N ->
     (2 * length (Cbor.enc Oc (ITime s n)) <= f)%nat ->
     stored (fun sn : Z * N => GTime (fst sn) (snd sn)) (c_DecodeTime D f (Cbor.enc Oc (ITime s n) ++ rest))
       = leaving (of_item (W_cbor_t Oc D) O 0 TTime (wn (W_cbor_t Oc D) (ITime s n))) rest).
Proof. exact cbor_typed_reads_leaves. Qed.
Print Assumptions C01_cbor_typed_reads_leaves_partial.

(* binc, numbers, in value or map-key position [key] and ANY encoder symbol table [est] (numbers do not touch
   it: the state comes back unchanged): the statement of C01_msgpack_typed_reads for the binc driver -- special
   zero / -1, small ints, pruned 1..8-byte magnitudes; special float codes, the pruned and the full float64
   form, float32.  A float comes back as binc_losses says (one zero, one NaN).  Not covered: float32
   destinations, integer <-> float cross-kind reads (rd_* abstain). *)
Theorem C01_binc_typed_reads : forall (e : Binc.eopts) (d : Binc.dopts) (O : gopts) (key : bool) (est : Binc.estate) (rest : list N),
  (forall k i, C07.Model.is_int_kind k = true -> int_item i -> leaf_ok (W_binc e d) i = true ->
     C07.Model.decode C07.Model.binc k (zb (fst (Binc.enc e key i est) ++ rest)) = typed (W_binc e d) O k (wn (W_binc e d) i)
     /\ snd (Binc.enc e key i est) = est) /\
  (forall k, C07.Model.decode C07.Model.binc k (zb (fst (Binc.enc e key INil est) ++ rest)) = typed (W_binc e d) O k (wn (W_binc e d) INil)
     /\ snd (Binc.enc e key INil est) = est) /\
  (forall b, (b < 2 ^ 64)%N ->
     C07.Model.decode C07.Model.binc C07.Model.KFloat64 (zb (fst (Binc.enc e key (IF64 b) est) ++ rest))
       = typed (W_binc e d) O C07.Model.KFloat64 (wn (W_binc e d) (IF64 b))
     /\ snd (Binc.enc e key (IF64 b) est) = est) /\
  (forall b, (b < 2 ^ 32)%N ->
     C07.Model.decode C07.Model.binc C07.Model.KFloat64 (zb (fst (Binc.enc e key (IF32 b) est) ++ rest))
       = typed (W_binc e d) O C07.Model.KFloat64 (wn (W_binc e d) (IF32 b))
     /\ snd (Binc.enc e key (IF32 b) est) = est).
Proof. exact binc_typed_reads_num. Qed.
Print Assumptions C01_binc_typed_reads.

(* binc, the other typed reads, STATEFUL: in ANY Encoder symbol table [est] and Decoder symbol table [dst]
   related by BincProofs.R, value or map-key position, every option vector (AsSymbols, StringToRaw;
   RawToString), any trailing bytes:
     TryNil            every item the generic encoder produces;
     DecodeBool;
     DecodeStringAsBytes  plain string, raw bytes (StringToRaw), a symbol DEFINITION (first occurrence of a
                       map key under AsSymbols: the decoder table learns it) and a symbol REFERENCE (looked up
                       in [dst]): the same bytes come back, exactly [rest] is left, and the tables after the
                       read are again related -- so the next read starts from the theorem's premise;
     DecodeBytes; DecodeTime (nanoseconds, any int64 second; the zero time as nil);
     ReadArrayStart / ReadMapStart: the length, leaving the elements' encodings written in the threaded
                       encoder state + rest; the item is the element-wise normalised one.
   PARTIAL -- kinds NOT covered: float32 destinations; DecodeBytes on an array of small integers (never written
   for a []byte) and on a symbol; ValidateUnicode; the element walk is not composed (head and leaves only). *)
Theorem C01_binc_typed_reads_leaves_partial : forall (e : Binc.eopts) (d : Binc.dopts) (O : gopts) (key : bool)
    (est : Binc.estate) (dst : Binc.dstate) (rest : list N),
  BincProofs.R est dst ->
  (forall i, TypedBinc.gen_item i ->
     b_TryNil (fst (Binc.enc e key i est) ++ rest)
       = Ok (is_nil (W_binc e d) (wn (W_binc e d) i),
             if is_nil (W_binc e d) (wn (W_binc e d) i) then rest else fst (Binc.enc e key i est) ++ rest)) /\
  (forall x, stored GBool (b_DecodeBool (fst (Binc.enc e key (IBool x) est) ++ rest))
               = leaving (of_item (W_binc e d) O 0 TBool (wn (W_binc e d) (IBool x))) rest) /\
  (forall s, Binc.lenok s ->
     exists dst',
       b_DecodeStringAsBytes dst (fst (Binc.enc e key (IStr s) est) ++ rest) = Ok (s, rest, dst')
       /\ BincProofs.R (snd (Binc.enc e key (IStr s) est)) dst'
       /\ of_item (W_binc e d) O 0 TString (wn (W_binc e d) (IStr s)) = Ok (GStr s)) /\
  (forall s, Binc.lenok s ->
     stored (fun x => GBytes (Some x)) (b_DecodeBytes (fst (Binc.enc e key (IBytes s) est) ++ rest))
       = leaving (of_item (W_binc e d) O 0 TBytes (wn (W_binc e d) (IBytes s))) rest) /\
  (forall s n, (- 2 ^ 63 <= s < 2 ^ 63)%Z -> (n < 1000000000)%N ->
     stored (fun sn : Z * N => GTime (fst sn) (snd sn)) (b_DecodeTime (fst (Binc.enc e key (ITime s n) est) ++ rest))
       = leaving (of_item (W_binc e d) O 0 TTime (wn (W_binc e d) (ITime s n))) rest) /\
  (forall l, Binc.lenok l ->
     b_ReadArrayStart (fst (Binc.enc e key (IArr l) est) ++ rest) = Ok (LKnown (Binc.len l), fst (BincProofs.enc_list e l est) ++ rest)
     /\ snd (Binc.enc e key (IArr l) est) = snd (BincProofs.enc_list e l est)
     /\ wn (W_binc e d) (IArr l) = IArr (map (wn (W_binc e d)) l)) /\
  (forall l, Binc.lenok l ->
     b_ReadMapStart (fst (Binc.enc e key (IMap l) est) ++ rest) = Ok (LKnown (Binc.len l), fst (BincProofs.enc_pairs e l est) ++ rest)
     /\ snd (Binc.enc e key (IMap l) est) = snd (BincProofs.enc_pairs e l est)
     /\ wn (W_binc e d) (IMap l) = IMap (map (fun kv => (wnk (W_binc e d) (fst kv), wn (W_binc e d) (snd kv))) l)).
Proof. exact binc_typed_reads_leaves. Qed.
Print Assumptions C01_binc_typed_reads_leaves_partial.

(* float32 DESTINATIONS, the four binary formats: DecodeFloat32 = float32(chkOvf.Float32V(DecodeFloat64())) on the
   bytes of a float32 item (C07's [narrow_f32]: the translated overflow check, then CVTSD2SS round-to-nearest) returns
   what the driver record's rd_f32 returns on the normalised item: the float32 itself, bit for bit (quiet NaN
   payloads included; binc: its single zero / single NaN).  Leaf premise: no signalling NaN (it comes back quiet),
   simple: no zero under EncZeroValuesAsNil.  Not covered: a float64 item into a float32 destination (inexact
   narrowing is C07's; rd_f32 abstains). *)
Theorem C01_typed_reads_float32 :
  (forall Of D O b rest, (b < 2 ^ 32)%N -> leaf_ok (W_msgpack Of D) (IF32 b) = true ->
     C07.Model.decode C07.Model.msgpack C07.Model.KFloat32 (zb (Msgpack.enc Of (IF32 b) ++ rest))
       = typed (W_msgpack Of D) O C07.Model.KFloat32 (wn (W_msgpack Of D) (IF32 b))) /\
  (forall o D O key b rest, (b < 2 ^ 32)%N -> leaf_ok (W_simple o D) (IF32 b) = true ->
     C07.Model.decode C07.Model.simple C07.Model.KFloat32 (zb (Simple.enc o key (IF32 b) ++ rest))
       = typed (W_simple o D) O C07.Model.KFloat32 (wn (W_simple o D) (IF32 b))) /\
  (forall Oc D O b rest, (b < 2 ^ 32)%N -> leaf_ok (W_cbor Oc D) (IF32 b) = true ->
     C07.Model.decode C07.Model.cbor C07.Model.KFloat32 (zb (Cbor.enc Oc (IF32 b) ++ rest))
       = typed (W_cbor Oc D) O C07.Model.KFloat32 (wn (W_cbor Oc D) (IF32 b))) /\
  (forall e d O key est b rest, (b < 2 ^ 32)%N ->
     C07.Model.decode C07.Model.binc C07.Model.KFloat32 (zb (fst (Binc.enc e key (IF32 b) est) ++ rest))
       = typed (W_binc e d) O C07.Model.KFloat32 (wn (W_binc e d) (IF32 b))).
Proof. exact typed_reads_f32. Qed.
Print Assumptions C01_typed_reads_float32.

(* a quiet NaN with a payload, 1.5 under cbor OptimumSize (written as a half float), binc's canonical NaN *)
Example C01_typed_reads_float32_nonvacuous :
  let Oc := Cbor.mkeo false false false true in let Dc := Cbor.mkdo false false false 0 in
  C07.Model.decode C07.Model.cbor C07.Model.KFloat32 (zb (Cbor.enc Oc (IF32 2143289349%N) ++ [7]%N)) = Ok 2143289349%Z /\
  typed (W_cbor Oc Dc) cx_O1 C07.Model.KFloat32 (wn (W_cbor Oc Dc) (IF32 2143289349%N)) = Ok 2143289349%Z /\
  Cbor.enc Oc (IF32 1069547520%N) = [249; 62; 0]%N /\
  C07.Model.decode C07.Model.cbor C07.Model.KFloat32 (zb (Cbor.enc Oc (IF32 1069547520%N) ++ [7]%N)) = Ok 1069547520%Z /\
  C07.Model.decode C07.Model.binc C07.Model.KFloat32
    (zb (fst (Binc.enc (Binc.Build_eopts false false) false (IF32 2143289349%N) Binc.estate0) ++ [7]%N)) = Ok 2143289344%Z /\
  typed (W_binc (Binc.Build_eopts false false) (Binc.Build_dopts 1024 false false)) cx_O1 C07.Model.KFloat32
        (wn (W_binc (Binc.Build_eopts false false) (Binc.Build_dopts 1024 false false)) (IF32 2143289349%N)) = Ok 2143289344%Z /\
  (* a signalling NaN is outside the leaf premise: it comes back quiet *)
  leaf_ok (W_cbor Oc Dc) (IF32 2139095041%N) = false /\
  C07.Model.decode C07.Model.cbor C07.Model.KFloat32 (zb (Cbor.enc Oc (IF32 2139095041%N))) = Ok 2143289345%Z.
Proof. cbv zeta. repeat apply conj; vm_compute; reflexivity. Qed.

(* cbor typed reads, both sides computed: OptimumSize narrows 1.5 to a half float, an integral float64 to a
   float32; 2^64-1 into int64 overflows; -1 into uint8 is refused; a chunked text string; an indefinite array head;
   an RFC 3339 time with a fraction *)
Example C01_cbor_typed_reads_nonvacuous :
  let Oc := Cbor.mkeo true true false true in              (* IndefiniteLength, TimeRFC3339, OptimumSize *)
  let D := Cbor.mkdo false false true 0 in                 (* SkipUnexpectedTags *)
  let W := W_cbor Oc D in
  let dec k i := C07.Model.decode C07.Model.cbor k (zb (Cbor.enc Oc i ++ [7; 7]%N)) in
  Cbor.enc Oc (IF64 4609434218613702656%N) = [249; 62; 0]%N /\
  dec C07.Model.KFloat64 (IF64 4609434218613702656%N) = Ok 4609434218613702656%Z /\
  typed W cx_O1 C07.Model.KFloat64 (wn W (IF64 4609434218613702656%N)) = Ok 4609434218613702656%Z /\
  Cbor.enc Oc (IF64 4715268809856909312%N) = [250; 75; 128; 0; 0]%N /\
  dec C07.Model.KFloat64 (IF64 4715268809856909312%N) = Ok 4715268809856909312%Z /\
  dec C07.Model.KInt64 (IUint 18446744073709551615%N) = Err EOverflow /\
  typed W cx_O1 C07.Model.KInt64 (wn W (IUint 18446744073709551615%N)) = Err EOverflow /\
  dec C07.Model.KUint8 (IInt (-1)%Z) = Err EOther /\ typed W cx_O1 C07.Model.KUint8 (wn W (IInt (-1)%Z)) = Err EOther /\
  dec C07.Model.KInt16 (IInt (-300)%Z) = Ok (-300)%Z /\ typed W cx_O1 C07.Model.KInt16 (wn W (IInt (-300)%Z)) = Ok (-300)%Z /\
  (* a 9-byte text string is cut into chunks of 4 *)
  Cbor.enc Oc (IStr [97; 98; 99; 100; 101; 102; 103; 104; 105]%N)
    = [127; 100; 97; 98; 99; 100; 100; 101; 102; 103; 104; 97; 105; 255]%N /\
  c_DecodeBytes D 40 (Cbor.enc Oc (IStr [97; 98; 99; 100; 101; 102; 103; 104; 105]%N) ++ [7]%N)
    = Ok ([97; 98; 99; 100; 101; 102; 103; 104; 105]%N, [7]%N) /\
  c_ReadArrayStart D 1 (Cbor.enc Oc (IArr [IInt 1%Z; INil]) ++ [7]%N) = Ok (LUnknown, [1; 246; 255; 7]%N) /\
  c_TryNil [246; 255; 7]%N = Ok (true, [255; 7]%N) /\ c_CheckBreak [255; 7]%N = Ok (true, [7]%N) /\
  c_DecodeTime D 100 (Cbor.enc Oc (ITime 1700000000%Z 123456789%N) ++ [7]%N) = Ok (1700000000%Z, 123457000%N, [7]%N) /\
  of_item (W_cbor_t Oc D) cx_O1 0 TTime (wn (W_cbor_t Oc D) (ITime 1700000000%Z 123456789%N)) = Ok (GTime 1700000000%Z 123457000%N).
Proof. cbv zeta. repeat apply conj; vm_compute; reflexivity. Qed.

(* binc typed reads, both sides computed, in a non-empty pair of related tables: a pruned float64, the lost sign of
   zero, a symbol definition followed by a reference to it *)
Example C01_binc_typed_reads_nonvacuous :
  let e := Binc.Build_eopts true false in                   (* AsSymbols *)
  let d := Binc.Build_dopts 1024 true false in              (* SignedInteger *)
  let W := W_binc e d in
  let dec k i := C07.Model.decode C07.Model.binc k (zb (fst (Binc.enc e false i Binc.estate0) ++ [7; 7]%N)) in
  fst (Binc.enc e false (IF64 4609434218613702656%N) Binc.estate0) = [59; 2; 63; 248]%N /\
  dec C07.Model.KFloat64 (IF64 4609434218613702656%N) = Ok 4609434218613702656%Z /\
  typed W cx_O1 C07.Model.KFloat64 (wn W (IF64 4609434218613702656%N)) = Ok 4609434218613702656%Z /\
  dec C07.Model.KFloat64 (IF64 9223372036854775808%N) = Ok 0%Z /\
  typed W cx_O1 C07.Model.KFloat64 (wn W (IF64 9223372036854775808%N)) = Ok 0%Z /\
  dec C07.Model.KInt8 (IInt (-129)%Z) = Err EOverflow /\ typed W cx_O1 C07.Model.KInt8 (wn W (IInt (-129)%Z)) = Err EOverflow /\
  dec C07.Model.KUint64 (IInt (-1)%Z) = Err EOther /\ typed W cx_O1 C07.Model.KUint64 (wn W (IInt (-1)%Z)) = Err EOther /\
  dec C07.Model.KInt32 (IUint 70000%N) = Ok 70000%Z /\ typed W cx_O1 C07.Model.KInt32 (wn W (IUint 70000%N)) = Ok 70000%Z /\
  (* first occurrence of the key "ab": definition of symbol 1; second: a reference, resolved in the decoder's table *)
  (let '(b1, est1) := Binc.enc e true (IStr [97; 98]%N) Binc.estate0 in
   let '(b2, est2) := Binc.enc e true (IStr [97; 98]%N) est1 in
   b1 = [180; 1; 2; 97; 98]%N /\ b2 = [176; 1]%N /\
   (do (sr, dst1) <- b_DecodeStringAsBytes Binc.dstate0 (b1 ++ b2 ++ [7]%N);;
    do (sr2, dst2) <- b_DecodeStringAsBytes dst1 (snd sr);;
    Ok (fst sr, fst sr2, snd sr2)) = Ok ([97; 98]%N, [97; 98]%N, [7]%N)) /\
  b_ReadMapStart (fst (Binc.enc e false (IMap [(IStr [97; 98]%N, ITime 5%Z 0%N)]) Binc.estate0) ++ [7]%N)
    = Ok (LKnown 1%N, [180; 1; 2; 97; 98; 130; 128; 5; 7]%N) /\
  b_DecodeTime [130; 128; 5; 7]%N = Ok (5%Z, 0%N, [7]%N).
Proof. cbv zeta. repeat apply conj; vm_compute; reflexivity. Qed.

(* C04 — Encode output is Writer-independent; write faults are reported, never lost.
   Only statements, closed by [exact], with [Print Assumptions] beneath each. *)
From Coq Require Import List NArith ZArith Arith Lia Bool.
From Verif Require Import Gen.Consts C04.Model C04.Proofs.
Import ListNotations.

(* while no error has been reported nothing is lost, reordered or invented:
   what the writer received plus what is still buffered is exactly the []byte output *)
Theorem C04_inv : forall (c : nat) (sc : list wresp) (ops : list wop),
  16 <= c -> Forall wf_op ops ->
  let r := run_ops (init c sc) ops in
  err r = None -> recv r ++ pend r = flat ops /\ length (pend r) <= c.
Proof. exact inv_lemma. Qed.
Print Assumptions C04_inv.

(* by the time Encode returns without error the writer has received exactly the bytes
   that the same operations append to a []byte, for every buffer size and every
   (short-)write schedule *)
Theorem C04_bytes : forall (c : nat) (sc : list wresp) (ops : list wop),
  16 <= c -> Forall wf_op ops ->
  let r := run c sc ops in err r = None -> recv r = flat ops.
Proof. exact bytes_lemma. Qed.
Print Assumptions C04_bytes.

(* whatever happens (errors included) the writer has received a prefix of it *)
Theorem C04_prefix : forall (c : nat) (sc : list wresp) (ops : list wop),
  16 <= c -> Forall wf_op ops ->
  exists sfx, recv (run c sc ops) ++ sfx = flat ops.
Proof. exact prefix_lemma. Qed.
Print Assumptions C04_prefix.

(* a write fault is never lost: if the run reports no error then no response the
   writer gave during the run carried an error *)
Theorem C04_fault : forall (c : nat) (sc : list wresp) (ops : list wop),
  16 <= c -> Forall wf_op ops ->
  let r := run c sc ops in
  err r = None -> Forall (fun x => werr x = false) (firstn (calls r) sc).
Proof. exact fault_lemma. Qed.
Print Assumptions C04_fault.

(* a writer that makes no progress and reports nothing is reported (short write) *)
Theorem C04_short : forall (i : nat) (s : st) (rest : list wresp),
  0 < length (pend s) ->
  script s = repeat (Build_wresp 0%N false) i ++ rest ->
  snd (flushErr i s) = Some EShort.
Proof. exact short_lemma. Qed.
Print Assumptions C04_short.

(* the model's internal failure classes (fuel, out-of-range store) are unreachable *)
Theorem C04_total : forall (c : nat) (sc : list wresp) (ops : list wop),
  16 <= c -> Forall wf_op ops ->
  let r := run c sc ops in err r <> Some EFuel /\ err r <> Some EBounds.
Proof. exact internal_lemma. Qed.
Print Assumptions C04_total.

(* errors are sticky: after an error nothing further is emitted *)
Theorem C04_sticky : forall (s : st) (ops : list wop),
  err s <> None -> run_ops s ops = s /\ endw s = s.
Proof. exact sticky_lemma. Qed.
Print Assumptions C04_sticky.

(* non-vacuity: a run that straddles the buffer with short writes meets the premises
   and delivers the bytes; one with a failing writer reports the error *)
Example C04_nonvacuous :
  let ops := [WB (repeat 7%N 30); WQ (repeat 8%N 20); WN [1%N; 2%N]] in
  let r := run 16 [Build_wresp 3%N false; Build_wresp 0%N false; Build_wresp 100%N false] ops in
  Forall wf_op ops /\ err r = None /\ recv r = flat ops /\ 3 < calls r.
Proof. cbv zeta. split; [repeat constructor|]. vm_compute. repeat split; lia. Qed.

Example C04_fault_nonvacuous :
  let ops := [WB (repeat 7%N 30)] in
  let r := run 16 [Build_wresp 3%N false; Build_wresp 5%N true] ops in
  err r = Some EWriter /\ recv r = repeat 7%N 8.
Proof. vm_compute. split; reflexivity. Qed.

(* C05 — build variants behave identically: the part a theorem can carry.
   The safe (reflect) and unsafe (memory-compare) implementations of the
   emptiness test behind `omitempty` are modelled separately (C05/Model.v, each
   tied to its own build by cmd/c05e) and compared here.  Variant agreement of
   whole Encode/Decode runs and "generated == generator output" are decided by
   the check's differential part (see DESIGN.md §5 C05: partial). *)
From Coq Require Import List NArith ZArith Bool.
From Verif Require Import C05.Model C05.Proofs Gen.Layout C05.Layout C05.LayoutProofs.
Import ListNotations.

(* The full statement one would like: the two builds agree on every value. *)
Definition C05_isempty_full_statement : Prop :=
  forall (rec : bool) (v : mval), safe_empty rec v = unsafe_empty rec v.

(* It is false of the faithful models: each listed value is judged differently by
   the two builds (finding F05-1: -0.0, non-nil empty string/slice/map/chan,
   zero value of a non-comparable struct, a zero instant carrying a location,
   a nil func under the recursive check). *)
Theorem C05_isempty_refuted :
  forallb (fun w => negb (Bool.eqb (safe_empty (fst w) (snd w)) (unsafe_empty (fst w) (snd w)))) witnesses = true.
Proof. exact refuted_lemma. Qed.
Print Assumptions C05_isempty_refuted.

(* Outside exactly those classes (the structural guards dom_mz / dom_rec of C05/Model.v)
   the builds agree, for every value of any nesting, in both modes. *)
Theorem C05_isempty_agree : forall (rec : bool) (v : mval),
  (if rec then dom_rec v else dom_mz false v) = true -> safe_empty rec v = unsafe_empty rec v.
Proof. exact agree_lemma. Qed.
Print Assumptions C05_isempty_agree.

(* on the guard, the safe test is "== the zero value" for comparable values *)
Theorem C05_eqzero_is_memzero : forall v, dom_eq v = true -> eqzero v = memzero v.
Proof. exact eq_mz_lemma. Qed.
Print Assumptions C05_eqzero_is_memzero.

(* non-vacuity: a nested value inside the guard (both modes), empty and non-empty *)
Example C05_nonvacuous :
  let v := MStruct true [MInt 0; MArr [MF64 0; MF64 0]; MStr true 0; MPtr None; MStruct true [MUint 0]] in
  let w := MStruct false [MSlice false 2 4; MPtr (Some (MInt 5))] in
  dom_mz false v = true /\ dom_rec v = true /\ safe_empty false v = true /\
  dom_mz false w = true /\ dom_rec w = true /\ safe_empty true w = false.
Proof. vm_compute. repeat split. Qed.

(* ---- field addressing: unsafe (base + stored offset) = safe (reflect Field(i)) ----
   The widths of structFieldInfoNode.offset and of the conversions that fill it are read from the
   current source on every run (Gen/Layout.v). For every struct field at a byte offset below 2^32 the
   unsafe build computes the address the safe build gets from reflect; wider structs are outside the
   statement (a Go value of 4 GiB). *)
Theorem C05_field_addr : forall base off : Z, (0 <= off < 2 ^ 32)%Z ->
  unsafe_field_addr base off = safe_field_addr base off.
Proof. exact field_addr_lemma. Qed.
Print Assumptions C05_field_addr.

(* the fields are unsigned, at least 32 bits wide, and no literal narrows the offset below the field's width *)
Theorem C05_field_widths : sfi_offset_signed = false /\ (32 <= sfi_offset_bits)%Z /\
  forallb (fun c => (sfi_offset_bits <=? c)%Z) sfi_offset_conv_bits = true.
Proof. exact widths_lemma. Qed.
Print Assumptions C05_field_widths.

(* with the 16-bit field of the pinned tree the statement is false (finding F01-3: a field behind a
   [66000]byte array was read and written at offset mod 65536) *)
Theorem C05_field_addr_16_refuted : exists base off : Z, (0 <= off < 2 ^ 32)%Z /\
  unsafe_field_addr_w 16 base off <> safe_field_addr base off.
Proof. exact field_addr_16_refuted. Qed.
Print Assumptions C05_field_addr_16_refuted.

Example C05_field_addr_nonvacuous : unsafe_field_addr 4096 66008 = 70104%Z /\ stored_offset 66008 = 66008%Z.
Proof. vm_compute. split; reflexivity. Qed.

(* C07 — placeholder while the pipeline is brought up *)
From Coq Require Import ZArith.
From Verif Require Import C07.Model.
Theorem C07_placeholder : True.
Proof. exact I. Qed.
Print Assumptions C07_placeholder.

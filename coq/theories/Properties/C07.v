(* C07 — numbers are never silently changed when decoded into another numeric type.
   "Ok implies right": an error is always allowed, a wrong stored value never.
   Only statements, closed by [exact]; the proofs are in C07/Proofs*.v and rest on the
   definitions of Gen/Leaf.v, which are re-translated from /repo's source on every run.

   Sources are the wire bytes of one item ([bytes_ok]: every element a byte); what they
   mean is C07/Spec.v (written from the format specifications); destinations are the 13
   kinds.  Integers are Z, floats IEEE bit patterns; [f64_scaled b = Some (x * 2^1074)]
   says that the float64 with pattern b is finite and is exactly the integer x. *)
From Coq Require Import List NArith ZArith Bool Lia.
From Verif Require Import C09.Spec.   (* the RFC 8259 number grammar and correct rounding (JsonStd); first, so that C07 names win *)
From Verif Require Import Base.Word Base.Outcome Base.FBits Gen.Consts Gen.Leaf
  C07.Model C07.Spec C07.ProofsLeaf C07.ProofsFrac C07.Proofs C07.ProofsJson C07.ProofsFloat
  C07.Json C07.JsonProofs.
From Verif Require Gen.Leaf2 C07.LeafTie.
Import ListNotations.
Local Open Scope Z_scope.

(* C07_int — all four binary formats, every integer item of the format (cbor: both major
   types, every argument width, minimal or not, 0 .. 2^64-1 and -1 .. -2^64; msgpack: fixint,
   uint8-64, int8-64; binc: positive/negative 1-8 byte magnitudes, small ints, specials;
   simple: positive/negative 1,2,4,8 byte magnitudes) into every integer destination kind
   (int8..int64, int, uint8..uint64, uint, uintptr): if Decode returns no error, the stored
   value is the item's mathematical value and lies in the destination's range *)
Theorem C07_int : forall (f : binfmt) (k : kind) (bs : list Z) (x n : Z),
  bytes_ok bs -> is_int_kind k = true ->
  decode (drv f) k bs = Ok x -> spec f bs = Some (NInt n) ->
  x = n /\ kind_lo k <= x < kind_hi k.
Proof. exact int_all. Qed.
Print Assumptions C07_int.

(* msgpack DecodeInt64 on every descriptor byte: integer families give exactly their value;
   a float64 item is accepted only when it is an integer (|x| < 2^52) and then stored
   exactly; anything that is not a number is rejected, nil gives 0.
   partial: for float32 items only "noFrac32 holds and x is the truncation of the widened
   value" is shown (value preservation of the float32->float64 widening is not proved) *)
Theorem C07_int_frac_msgpack_int64_partial : forall (bd : Z) (r : list Z) (x : Z),
  0 <= bd < 256 -> bytes_ok r -> mp_Int64 bd r = Ok x ->
  match msgpack_spec (bd :: r) with
  | Some (NInt n) => x = n /\ - 2 ^ 63 <= x < 2 ^ 63
  | Some (NF64 b) => f64_scaled b = Some (x * 2 ^ 1074) /\ - 2 ^ 52 < x < 2 ^ 52
  | Some (NF32 b) => noFrac32 b = true /\ x = f64_to_i64 (f32_to_f64 b)
  | Some (NF16 _) => False
  | None => bd = mpNil /\ x = 0
  end.
Proof. exact mp_Int64_ok. Qed.
Print Assumptions C07_int_frac_msgpack_int64_partial.

(* binc, cbor, simple: once the driver has read a sign and a 64-bit magnitude (decInteger),
   DecodeInt64 stores exactly -(ui [+1 for cbor]) or ui, in the int64 range, and
   DecodeUint64 accepts only non-negative values, unchanged.  (The translated
   decNegintPosintFloatNumberHelperInt64v / chkOvf.Uint2Int are what is reasoned about.) *)
Theorem C07_int_signmag : forall (ui : Z) (neg cb : bool) (fl : res (Z * bool)) (x : Z),
  0 <= ui < 2 ^ 64 -> hlp_int64 ui neg true cb fl = Ok x ->
  x = (if neg then - (ui + (if cb then 1 else 0)) else ui) /\ - 2 ^ 63 <= x < 2 ^ 63.
Proof. exact hlp_int64_int. Qed.
Print Assumptions C07_int_signmag.

Theorem C07_uint_signmag : forall (ui : Z) (neg : bool) (fl : res (Z * bool)) (x : Z),
  hlp_uint64 ui neg true fl = Ok x -> neg = false /\ x = ui.
Proof. exact hlp_uint64_int. Qed.
Print Assumptions C07_uint_signmag.

(* the generic layer: narrowing a decoded int64/uint64 to 8/16/32/64 bits never changes it *)
Theorem C07_narrow_int : forall (w v x : Z),
  (w = 8 \/ w = 16 \/ w = 32 \/ w = 64) -> - 2 ^ 63 <= v < 2 ^ 63 ->
  narrow_int w (Ok v) = Ok x -> x = v /\ - 2 ^ (w - 1) <= x < 2 ^ (w - 1).
Proof. exact narrow_int_ok. Qed.
Print Assumptions C07_narrow_int.

Theorem C07_narrow_uint : forall (w v x : Z),
  (w = 8 \/ w = 16 \/ w = 32 \/ w = 64) -> 0 <= v < 2 ^ 64 ->
  narrow_uint w (Ok v) = Ok x -> x = v /\ 0 <= x < 2 ^ w.
Proof. exact narrow_uint_ok. Qed.
Print Assumptions C07_narrow_uint.

(* a stream float goes into an integer only when it has no fraction and fits:
   the translated noFrac64 accepts exactly integers of magnitude < 2^52, and the
   truncating conversions then return that integer *)
Theorem C07_frac_nofrac64 : forall f : Z,
  0 <= f < 2 ^ 64 -> noFrac64 f = true ->
  exists z, f64_scaled f = Some (z * 2 ^ 1074) /\ f64_to_i64 f = z /\ - 2 ^ 52 < z < 2 ^ 52
            /\ (f < 2 ^ 63 -> f64_to_u64 f = z /\ 0 <= z).
Proof. exact noFrac64_int. Qed.
Print Assumptions C07_frac_nofrac64.

(* binc, cbor, simple: a float64 value f produced by the driver's decFloat reaches an
   int64/uint64 destination only as the integer it exactly is *)
Theorem C07_frac_int64 : forall (ui : Z) (neg cb : bool) (f : Z) (fok : bool) (x : Z),
  0 <= f < 2 ^ 64 -> hlp_int64 ui neg false cb (Ok (f, fok)) = Ok x ->
  fok = true /\ f64_scaled f = Some (x * 2 ^ 1074) /\ - 2 ^ 52 < x < 2 ^ 52.
Proof. exact hlp_int64_frac. Qed.
Print Assumptions C07_frac_int64.

Theorem C07_frac_uint64 : forall (ui : Z) (neg : bool) (f : Z) (fok : bool) (x : Z),
  0 <= f < 2 ^ 64 -> hlp_uint64 ui neg false (Ok (f, fok)) = Ok x ->
  fok = true /\ f64_scaled f = Some (x * 2 ^ 1074) /\ 0 <= x < 2 ^ 52.
Proof. exact hlp_uint64_frac. Qed.
Print Assumptions C07_frac_uint64.

(* ---- float destinations ----
   The conversions the code performs in hardware (int -> float64, float64 -> float32,
   float32 -> float64; halfFloatToFloatBits for binary16) are the bit-level functions of
   Base/FBits.v and C07/Model.v ([f64_of_int], [f64_to_f32], [f32_to_f64], [f16_to_f32]); they
   are tied to the hardware / the Go function by the correspondence cases.  The theorems
   say that what the decoder stores is, for ALL bit patterns and all integers the formats
   carry, the IEEE-754 round-to-nearest-even image (exact for widenings):
     [is_rne M s m]      : m is M / 2^s rounded to the nearest integer, ties to even
                           (s <= 0: m = M * 2^-s exactly);
     [f64_rne_of_int n x]: x is finite, has n's sign, and its significand/exponent satisfy
                           M_x * 2^E_x = m * 2^q with q = log2|n| - 52 (the exponent of the last
                           place of n in binary64) and is_rne |n| q m;
     [f32_rne_of_f64 b x]: x is FINITE, has b's sign, and M_x * 2^E_x = m * 2^q with
                           q = max (log2 M_b + E_b - 23) (-149) and is_rne M_b (q - E_b) m
   i.e. at most half a unit in the last place away, hence within one ulp, and exact whenever
   the value is representable ([is_rne_exact], [C07_float_narrow_exact]). *)

(* (1) an integer item n (all four binary formats, every width) into float64 stores the
   correctly rounded binary64 of n, exactly n when |n| <= 2^53; into float32 it stores the
   correctly rounded binary32 of that binary64 (the code converts int -> float64 -> float32, so
   for |n| > 2^53 the result is two roundings away from n: within one ulp, not always the
   single-rounding result) and it is always finite *)
Theorem C07_float_of_int : forall (f : binfmt) (bs : list Z) (n x : Z),
  bytes_ok bs -> spec f bs = Some (NInt n) ->
  (decode (drv f) KFloat64 bs = Ok x ->
     x = f64_of_int n /\ f64_rne_of_int n x /\ (Z.abs n <= 2 ^ 53 -> f64_scaled x = Some (n * 2 ^ 1074))) /\
  (decode (drv f) KFloat32 bs = Ok x ->
     x = f64_to_f32 (f64_of_int n) /\ f64_rne_of_int n (f64_of_int n) /\ f32_rne_of_f64 (f64_of_int n) x).
Proof. exact float_of_int_all. Qed.
Print Assumptions C07_float_of_int.

(* (2) a float64 item b into float32: NaN stays NaN, +-Inf stays +-Inf, a finite b is accepted
   only when |b| <= MaxFloat32 and then stores the round-to-nearest-even binary32, which is finite
   (no silent overflow to infinity) *)
Theorem C07_float_narrow : forall (f : binfmt) (bs : list Z) (b x : Z),
  bytes_ok bs -> spec f bs = Some (NF64 b) -> decode (drv f) KFloat32 bs = Ok x ->
  x = f64_to_f32 b /\
  (f64_isnan b = true -> f32_isnan x = true) /\
  (f64_isinf b = true -> x = f64_sign b * 2 ^ 31 + f32_inf) /\
  (f64_finite b = true -> f64_abs b <= f64_maxf32 /\ f32_rne_of_f64 b x).
Proof. exact float_narrow_all. Qed.
Print Assumptions C07_float_narrow.

(* exact when representable: every binary32 value, widened to binary64, narrows back to itself
   (all 2^32 patterns except NaNs, whose payload is not tracked) ... *)
Theorem C07_float_narrow_exact : forall b : Z,
  0 <= b < 2 ^ 32 -> f32_isnan b = false -> f64_to_f32 (f32_to_f64 b) = b.
Proof. exact f32_roundtrip. Qed.
Print Assumptions C07_float_narrow_exact.

(* ... so a float32 item decoded into a float32 destination is stored unchanged *)
Theorem C07_float32_same : forall (f : binfmt) (bs : list Z) (b x : Z),
  bytes_ok bs -> spec f bs = Some (NF32 b) -> decode (drv f) KFloat32 bs = Ok x ->
  (f32_isnan b = false -> x = b) /\ (f32_isnan b = true -> f32_isnan x = true).
Proof. exact float32_same_all. Qed.
Print Assumptions C07_float32_same.

(* (3) float64 items into float64 are stored bit for bit; float32 and (cbor) half-float items
   into float64 store exactly the same real value: [f64_scaled x = f32_scaled b] resp.
   [f16_scaled h] (value * 2^1074 of the IEEE binary32 / binary16 pattern, C07/ProofsFloat.v),
   infinities and NaNs are preserved *)
Theorem C07_float_widen : forall (f : binfmt) (bs : list Z) (x : Z),
  bytes_ok bs -> decode (drv f) KFloat64 bs = Ok x ->
  match spec f bs with
  | Some (NF64 b) => x = b
  | Some (NF32 b) => x = f32_to_f64 b /\
      (f32_finite b = true -> f64_scaled x = f32_scaled b) /\
      (f32_isinf b = true -> x = f32_sign b * 2 ^ 63 + f64_inf) /\
      (f32_isnan b = true -> f64_isnan x = true)
  | Some (NF16 h) => x = f32_to_f64 (f16_to_f32 h) /\
      (f16_bexp h <> 31 -> f64_scaled x = f16_scaled h) /\
      (f16_bexp h = 31 -> f16_mant h = 0 -> x = f16_sign h * 2 ^ 63 + f64_inf) /\
      (f16_bexp h = 31 -> f16_mant h <> 0 -> f64_isnan x = true)
  | _ => True
  end.
Proof. exact float_widen_all. Qed.
Print Assumptions C07_float_widen.

(* source tie of C07_float_widen (and of every multi-byte field the drivers read): the model's
   f16_to_f32 (binary16 -> binary32, written through [fround]) EQUALS the function the translator
   regenerates from the current helper.go halfFloatToFloatBits on every run (Gen/Leaf2.v) on all 65536
   uint16 — the Go renormalisation loop ends within 10 turns: for every fuel >= 11 the translation
   answers Ok, never OutOfFuel — and the big-endian value [be_val 0] that [readn] gives to the 2 / 4 / 8
   bytes after a descriptor EQUALS the translated bigen.Uint16 / Uint32 / Uint64 on every byte array.
   A behaviour-changing edit of one of these Go functions breaks this obligation. *)
Theorem C07_float_widen_src_tie :
  (forall h, 0 <= h < 65536 -> forall fuel : nat, (11 <= fuel)%nat ->
     Leaf2.halfFloatToFloatBits fuel h = Ok (f16_to_f32 h)) /\
  (forall a b, 0 <= a < 256 -> 0 <= b < 256 -> Leaf2.bigenHelper_Uint16 [a; b] = be_val 0 [a; b]) /\
  (forall a b c d, 0 <= a < 256 -> 0 <= b < 256 -> 0 <= c < 256 -> 0 <= d < 256 ->
     Leaf2.bigenHelper_Uint32 [a; b; c; d] = be_val 0 [a; b; c; d]) /\
  (forall a b c d e f g h, 0 <= a < 256 -> 0 <= b < 256 -> 0 <= c < 256 -> 0 <= d < 256 ->
     0 <= e < 256 -> 0 <= f < 256 -> 0 <= g < 256 -> 0 <= h < 256 ->
     Leaf2.bigenHelper_Uint64 [a; b; c; d; e; f; g; h] = be_val 0 [a; b; c; d; e; f; g; h]).
Proof. exact LeafTie.float_widen_src_tie. Qed.
Print Assumptions C07_float_widen_src_tie.

Example C07_float_widen_src_tie_nonvacuous :
  Leaf2.halfFloatToFloatBits 11 15360 = Ok 1065353216 /\ f16_to_f32 1 = 864026624 /\
  Leaf2.halfFloatToFloatBits 11 1 = Ok 864026624 /\ Leaf2.halfFloatToFloatBits 9 1 = OutOfFuel /\
  Leaf2.bigenHelper_Uint32 [1; 2; 3; 4] = 16909060 /\ be_val 0 [255; 255] = 65535.
Proof. vm_compute. repeat apply conj; reflexivity. Qed.

(* json integer fast path (partial: only the exponent scaling step; readFloat's digit loop
   and parseUint64_simple are not translated yet, json float parsing belongs to C09):
   the translated parseUint64_reader returns, for an exact decimal mantissa m and exponent e,
   m * 10^e only when that fits a uint64 (F07-4) and m / 10^-e only when the division is exact *)
Theorem C07_json_scale_partial : forall (r : readFloatResult) (f : Z),
  0 <= readFloatResult_mantissa r < 2 ^ 64 -> - 128 <= readFloatResult_exp r < 128 ->
  parseUint64_reader r = Ok (f, false) ->
  0 <= f < 2 ^ 64 /\
  (0 <= readFloatResult_exp r -> f = readFloatResult_mantissa r * 10 ^ readFloatResult_exp r) /\
  (readFloatResult_exp r < 0 -> readFloatResult_mantissa r = f * 10 ^ (- readFloatResult_exp r)).
Proof. exact parseUint64_reader_spec. Qed.
Print Assumptions C07_json_scale_partial.

(* ---- json: the bytes of a number token into every destination kind (C07/Json.v) ----
   The model composes, exactly as json.go / decimal.go do, C09's models of readFloat,
   parseUint64_simple, parseFloat64/32_custom with the translated parseUint64_reader,
   chkOvf.Uint2Int and the generic narrowing.  Literals are those of the RFC 8259 grammar
   (C09/Spec.v: [numlit], [wf_numlit], text [render_num upper n] with e or E), of ANY length
   (the bound 2^61 is vacuous for Go slices); the exact value of a literal is
   (-1)^nneg * dmant n * 10^dexp n = [lit_signed_mant n] * 10^[dexp n].
   [strconv] (strconv.ParseFloat, only consulted for float destinations) is any function. *)

(* integers: if a literal decodes into an integer kind without error, then its exact value IS
   an integer, is the stored value, and lies in the kind's range.  So 2e19,
   18446744073709551616, 1.5, 1e-1, -1 into uint8..uintptr, 128 into int8 ... are errors,
   never wrapped / truncated values; 1.50e1, 1E2, 150e-1, 1844674407370955161.5e1 are read exactly. *)
Theorem C07_json_int : forall (strconv : bfmt -> list N -> option Z)
                              (n : numlit) (upper : bool) (k : kind) (x : Z),
  wf_numlit n = true -> Z.of_nat (length (render_num upper n)) < 2 ^ 61 ->
  is_int_kind k = true ->
  json_decode strconv k (render_num upper n) = Ok x ->
  ((0 <= dexp n -> x = lit_signed_mant n * 10 ^ dexp n) /\
   (dexp n < 0 -> x * 10 ^ (- dexp n) = lit_signed_mant n)) /\
  kind_lo k <= x < kind_hi k.
Proof. exact json_int_lemma. Qed.
Print Assumptions C07_json_int.

(* the converse on plain integer literals (no fraction, no exponent part): a value in the
   destination's range IS accepted and stored unchanged ("-0" into an unsigned kind is refused
   by the code: hence the sign premise for unsigned kinds).
   partial: literals with a fraction or exponent whose value is an integer in range are not
   covered (the code refuses some of them, e.g. more than two exponent digits, 1e019) *)
Theorem C07_json_int_complete_partial : forall (strconv : bfmt -> list N -> option Z)
                                               (n : numlit) (upper : bool) (k : kind),
  wf_numlit n = true -> nfrac n = None /\ nexp n = None -> is_int_kind k = true ->
  kind_lo k <= lit_signed_mant n < kind_hi k ->
  (kind_lo k = 0 -> nneg n = false) ->
  json_decode strconv k (render_num upper n) = Ok (lit_signed_mant n).
Proof. exact json_int_complete. Qed.
Print Assumptions C07_json_int_complete_partial.

(* floats: a literal decoded into float64 / float32 without error stores either the correctly
   rounded value of the literal ([num_bits]: round to nearest even of the exact rational, C09) and
   that value is FINITE, or exactly what strconv.ParseFloat answered for this text.  An infinity
   (float32 or float64 overflow) can therefore only come from strconv, which reports a range
   error instead (oracle: the harness compares it with [num_bits] on every literal) *)
Theorem C07_json_float : forall (strconv : bfmt -> list N -> option Z)
                                (n : numlit) (upper : bool) (b : Z),
  wf_numlit n = true -> Z.of_nat (length (render_num upper n)) < 2 ^ 61 ->
  (json_decode strconv KFloat64 (render_num upper n) = Ok b ->
     (b = num_bits binary64 n /\ is_finite binary64 b = true) \/
     strconv binary64 (render_num upper n) = Some b) /\
  (json_decode strconv KFloat32 (render_num upper n) = Ok b ->
     (b = num_bits binary32 n /\ is_finite binary32 b = true) \/
     strconv binary32 (render_num upper n) = Some b).
Proof. exact json_float_lemma. Qed.
Print Assumptions C07_json_float.

(* hence, if strconv.ParseFloat is correctly rounded and answers an error when the rounded value
   overflows (on this text), every float the decoder stores is the correctly rounded value and
   finite: float32 / float64 overflow is an error, never a silent infinity *)
Theorem C07_json_float_rounded : forall (strconv : bfmt -> list N -> option Z)
                                        (n : numlit) (upper : bool) (b : Z),
  wf_numlit n = true -> Z.of_nat (length (render_num upper n)) < 2 ^ 61 ->
  (forall f b', strconv f (render_num upper n) = Some b' -> b' = num_bits f n /\ is_finite f b' = true) ->
  (json_decode strconv KFloat64 (render_num upper n) = Ok b -> b = num_bits binary64 n /\ is_finite binary64 b = true) /\
  (json_decode strconv KFloat32 (render_num upper n) = Ok b -> b = num_bits binary32 n /\ is_finite binary32 b = true).
Proof. exact json_float_rounded. Qed.
Print Assumptions C07_json_float_rounded.

Example C07_json_int_nonvacuous :
  (* 1.50e1, -128, 18446744073709551615, 1844674407370955161.5e1, 1E2 are accepted exactly ... *)
  let n1 := mknum false [1%N] (Some [5; 0]%N) (Some (ENone, [1%N])) in
  wf_numlit n1 = true /\ render_num false n1 = [49; 46; 53; 48; 101; 49]%N /\ dexp n1 = -1 /\ lit_signed_mant n1 = 150 /\
  json_decode_int KUint8 (render_num false n1) = Ok 15 /\
  json_decode_int KInt8 [45; 49; 50; 56]%N = Ok (-128) /\
  json_decode_int KUint64 [49;56;52;52;54;55;52;52;48;55;51;55;48;57;53;53;49;54;49;53]%N = Ok 18446744073709551615 /\
  json_decode_int KUint [49;56;52;52;54;55;52;52;48;55;51;55;48;57;53;53;49;54;49;46;53;101;49]%N = Ok 18446744073709551615 /\
  json_decode_int KInt16 [49; 69; 50]%N = Ok 100 /\
  json_decode_int KInt64 [45; 48; 46; 48]%N = Ok 0 /\
  (* ... 2e19 (F07-4), 2^64, 1.5, 1e-1, -1 and -0 into unsigned, 128 into int8, 2^63 into int64, -2^63-1 are errors *)
  json_decode_int KUint64 [50; 101; 49; 57]%N = Err EOther /\
  json_decode_int KUint64 [49;56;52;52;54;55;52;52;48;55;51;55;48;57;53;53;49;54;49;54]%N = Err EOther /\
  json_decode_int KInt64 [49; 46; 53]%N = Err EOther /\
  json_decode_int KInt64 [49; 101; 45; 49]%N = Err EOther /\
  json_decode_int KUint8 [45; 49]%N = Err EOther /\
  json_decode_int KUint8 [45; 48]%N = Err EOther /\
  json_decode_int KInt8 [49; 50; 56]%N = Err EOverflow /\
  json_decode_int KInt64 [57;50;50;51;51;55;50;48;51;54;56;53;52;55;55;53;56;48;56]%N = Err EOverflow /\
  json_decode_int KInt64 [45;57;50;50;51;51;55;50;48;51;54;56;53;52;55;55;53;56;48;57]%N = Err EOverflow.
Proof. vm_compute. repeat apply conj; reflexivity. Qed.

Example C07_json_float_nonvacuous :
  (* 0.1 and 1e10 on the exact fast path (no oracle), into both widths; 3.5e38 and a 20-digit
     mantissa are left to strconv: with an oracle that reports the overflow, float32 gets an error *)
  let none := fun (_ : bfmt) (_ : list N) => @None Z in
  json_decode none KFloat64 [48; 46; 49]%N = Ok 4591870180066957722 /\
  json_decode none KFloat32 [48; 46; 49]%N = Ok 1036831949 /\
  json_decode none KFloat32 [49; 101; 49; 48]%N = Ok 1343554297 /\
  num_bits binary32 (mknum false [0%N] (Some [1%N]) None) = 1036831949 /\
  json_decode none KFloat32 [51; 46; 53; 101; 51; 56]%N = Err EOther /\
  json_decode (fun f _ => if prec f =? 53 then Some 5183643171103440896 else None) KFloat64 [51; 46; 53; 101; 51; 56]%N
    = Ok 5183643171103440896.
Proof. vm_compute. repeat apply conj; reflexivity. Qed.

(* non-vacuity *)
Example C07_int_nonvacuous :
  decode cbor KInt64 [27; 127; 255; 255; 255; 255; 255; 255; 255] = Ok (2 ^ 63 - 1)
  /\ cbor_spec [27; 127; 255; 255; 255; 255; 255; 255; 255] = Some (NInt (2 ^ 63 - 1))
  /\ decode cbor KInt64 [59; 127; 255; 255; 255; 255; 255; 255; 255] = Ok (- 2 ^ 63)
  /\ decode cbor KInt64 [27; 128; 0; 0; 0; 0; 0; 0; 5] = Err EOverflow      (* F07-1 *)
  /\ decode cbor KInt64 [59; 255; 255; 255; 255; 255; 255; 255; 255] = Err EOverflow  (* F07-2 *)
  /\ decode cbor KUint8 [24; 255] = Ok 255 /\ decode cbor KUint8 [25; 1; 0] = Err EOverflow
  /\ decode cbor KInt8 [56; 127] = Ok (-128) /\ decode cbor KInt8 [56; 128] = Err EOverflow.
Proof. vm_compute. repeat apply conj; reflexivity. Qed.

Example C07_msgpack_nonvacuous :
  mp_Int64 207 [255; 255; 255; 255; 255; 255; 255; 255] = Err EOverflow       (* F07-3 *)
  /\ mp_Int64 203 [67; 47; 255; 255; 255; 255; 255; 254] = Ok (2 ^ 52 - 1)   (* float64 4503599627370495 *)
  /\ mp_Int64 203 [63; 248; 0; 0; 0; 0; 0; 0] = Err EOther                   (* 1.5 *)
  /\ mp_Int64 211 [128; 0; 0; 0; 0; 0; 0; 0] = Ok (- 2 ^ 63).
Proof. vm_compute. repeat apply conj; reflexivity. Qed.

Example C07_frac_nonvacuous :
  noFrac64 4607182418800017408 = true /\ f64_scaled 4607182418800017408 = Some (1 * 2 ^ 1074)  (* 1.0 *)
  /\ noFrac64 4609434218613702656 = false                                                       (* 1.5 *)
  /\ noFrac64 13830554455654793216 = true /\ f64_to_i64 13830554455654793216 = -1.             (* -1.0 *)
Proof. vm_compute. repeat apply conj; reflexivity. Qed.


Example C07_json_scale_nonvacuous :
  parseUint64_reader (mk_readFloatResult 2 19 false false false false true) = Ok (2, true)       (* 2e19: F07-4 *)
  /\ parseUint64_reader (mk_readFloatResult 1 19 false false false false true) = Ok (10 ^ 19, false)
  /\ parseUint64_reader (mk_readFloatResult 15 (-1) false false false false true) = Ok (15, true)  (* 1.5 *)
  /\ parseUint64_reader (mk_readFloatResult 150 (-1) false false false false true) = Ok (15, false).
Proof. vm_compute. repeat apply conj; reflexivity. Qed.

Example C07_float_nonvacuous :
  decode cbor KFloat64 [27; 0; 32; 0; 0; 0; 0; 0; 1] = Ok 4845873199050653696      (* 2^53+1 -> 2^53 (tie to even) *)
  /\ decode cbor KFloat64 [27; 0; 32; 0; 0; 0; 0; 0; 3] = Ok 4845873199050653698   (* 2^53+3 -> 2^53+4 *)
  /\ decode cbor KFloat64 [27; 128; 0; 0; 0; 0; 0; 0; 0] = Ok 4890909195324358656   (* 2^63, unsigned: F07-7 *)
  /\ decode cbor KFloat32 [26; 1; 0; 0; 1] = Ok 1266679808                         (* 2^24+1 -> 2^24 *)
  /\ decode cbor KFloat64 [249; 60; 0] = Ok 4607182418800017408                    (* half 1.0 *)
  /\ decode cbor KFloat64 [249; 0; 1] = Ok 4499096027743125504                     (* smallest half subnormal 2^-24 *)
  /\ decode msgpack KFloat32 [203; 71; 239; 255; 255; 224; 0; 0; 0] = Ok 2139095039  (* MaxFloat32 *)
  /\ decode msgpack KFloat32 [203; 71; 239; 255; 255; 240; 0; 0; 0] = Err EOverflow  (* halfway to 2^128 *)
  /\ decode msgpack KFloat32 [203; 127; 240; 0; 0; 0; 0; 0; 0] = Ok f32_inf.
Proof. vm_compute. repeat apply conj; reflexivity. Qed.

(* C09 — JSON text is read and written as the grammar and encoding/json define it.
   Only statements, closed by [exact], with [Print Assumptions] beneath each.
   Spec.v (JsonStd) is the reference; Model.v mirrors /repo/codec after the
   repairs F09-1 (readFloat counters) and F09-2 (lone surrogates). *)
From Coq Require Import List NArith ZArith Bool.
From Verif Require Import Gen.Consts Base.Outcome C09.Spec C09.Model C09.ProofsStr C09.ProofsNum C09.ProofsUint C09.ProofsQuote C09.ProofsFast C09.ProofsNumAll C09.ProofsParse C09.ProofsGrammar.
Import ListNotations.

(* readFloat on the text of ANY literal of the JSON number grammar, for each of the
   three floatinfo parameter sets the code uses: it never calls the literal bad, it
   keeps the sign, and whenever it answers ok (the exact fast path will be taken)
   mantissa * 10^exp IS the literal's exact value; otherwise it has flagged the
   slow path (trunc or hardexp).  The length bound is vacuous for Go slices
   (Go int counters, 64 bit). *)
Theorem C09_readfloat : forall (n : numlit) (upper : bool) (y : floatinfo),
  wf_numlit n = true -> In y [fi32; fi64; fi64u] ->
  (Z.of_nat (length (render_num upper n)) < 2 ^ 61)%Z ->
  let r := readFloat (render_num upper n) y in
  rbad r = false /\ rneg r = nneg n /\
  (rok r = true -> dec_eq (mant r) (rexp r) (dmant n) (dexp n)) /\
  (rok r = false -> rtrunc r = true \/ rhard r = true).
Proof. exact readfloat_thm. Qed.
Print Assumptions C09_readfloat.

(* the exact fast path: under the guard readFloat applies before answering ok
   (mantissa < 2^mantbits, -exactPow10 <= exp <= exactInts+exactPow10) the reader
   either declines (FFail: strconv will be used) or returns the bits of the float
   nearest to mantissa * 10^exp (ties to even), with the sign.  IEEE operations are
   modelled as Spec.rn of the exact result; Spec.RN is compared with strconv on
   every harness literal. *)
Theorem C09_num_fast : forall (m e : Z) (neg : bool),
  ((0 <= m < 2 ^ 52)%Z -> (-22 <= e <= 37)%Z ->
   parseFloat64_reader m e neg = FFail \/ parseFloat64_reader m e neg = FBits (RN binary64 neg m e)) /\
  ((0 <= m < 2 ^ 23)%Z -> (-10 <= e <= 17)%Z ->
   parseFloat32_reader m e neg = FFail \/ parseFloat32_reader m e neg = FBits (RN binary32 neg m e)).
Proof. exact (fun m e neg => conj (fast64_lemma m e neg) (fast32_lemma m e neg)). Qed.
Print Assumptions C09_num_fast.

(* parseFloat64 / parseFloat32 on the text of ANY literal of the grammar: either the
   answer is the correctly rounded value of the literal (fast path), or it is
   exactly what strconv.ParseFloat answers for that text (the oracle, any function
   here).  Hence: if strconv is correctly rounded, so is the JSON number reader. *)
Theorem C09_num : forall (strconv : bfmt -> list N -> option Z) (n : numlit) (upper : bool),
  wf_numlit n = true -> (Z.of_nat (length (render_num upper n)) < 2 ^ 61)%Z ->
  (parseFloat_custom strconv binary64 (render_num upper n) = Some (num_bits binary64 n) \/
   parseFloat_custom strconv binary64 (render_num upper n) = strconv binary64 (render_num upper n)) /\
  (parseFloat_custom strconv binary32 (render_num upper n) = Some (num_bits binary32 n) \/
   parseFloat_custom strconv binary32 (render_num upper n) = strconv binary32 (render_num upper n)).
Proof. exact (fun sc n u H L => conj (num64_lemma sc n u H L) (num32_lemma sc n u H L)). Qed.
Print Assumptions C09_num.

(* Spec.rn depends only on the value n/d (so "the correctly rounded value of a
   literal" does not depend on how the exact value is written as a fraction) *)
Theorem C09_rn_ratio : forall (f : bfmt) (neg : bool) (n d n' d' : Z),
  (0 <= n)%Z -> (0 < d)%Z -> (0 <= n')%Z -> (0 < d')%Z -> (n * d' = n' * d)%Z ->
  rn f neg n d = rn f neg n' d'.
Proof. exact rn_ratio. Qed.
Print Assumptions C09_rn_ratio.

(* the string decoder, on the text of ANY string literal of the grammar followed by
   anything, returns the string encoding/json defines (escapes, surrogate pairs
   combined, lone surrogates as U+FFFD) and stops exactly after the closing quote.
   Guard [nopin]: no surrogate escape is immediately followed by a \u escape it does
   not pair with (known finding F09-2r, pinned by the upstream test suite). *)
Theorem C09_unescape : forall (l : list item) (tl : list N),
  forallb wf_item l = true -> nopin l = true ->
  dec_string (render_lit l ++ tl) = Ok (denote l, tl).
Proof. exact unescape_lemma. Qed.
Print Assumptions C09_unescape.

(* the full statement (no guard) is false of the faithful model: F09-2r *)
Definition C09_unescape_full_statement : Prop := unescape_full_statement.
Theorem C09_unescape_refuted :
  exists (l : list item) (tl : list N),
    forallb wf_item l = true /\ nopin l = false /\ dec_string (render_lit l ++ tl) <> Ok (denote l, tl).
Proof. exact unescape_refuted. Qed.
Print Assumptions C09_unescape_refuted.

(* quoteStr (json.go, both settings of HTMLCharsAsIs), on ANY Go string (valid UTF-8
   or not), writes a string literal of the grammar, and that literal denotes
   utf8_sanitise s (each byte that starts no well-formed sequence becomes U+FFFD):
   what encoding/json.Unmarshal returns for it.  (valid_string_literal is the
   existential below; C09_quote_fn states the same with the function Spec.unescape.) *)
Theorem C09_quote : forall (h : bool) (s : list N),
  exists l, forallb wf_item l = true /\ quoteStr h s = render_lit l /\ denote l = utf8_sanitise s.
Proof. exact quote_lemma. Qed.
Print Assumptions C09_quote.

(* and the string decoder of /repo reads quoteStr's output back to the same string,
   consuming exactly it (the known-finding class never occurs in quoteStr output) *)
Theorem C09_quote_selfread : forall (h : bool) (s tl : list N),
  dec_string (quoteStr h s ++ tl) = Ok (utf8_sanitise s, tl).
Proof. exact quote_selfread. Qed.
Print Assumptions C09_quote_selfread.

(* jsonEncodeUint writes, for every u < 2^64, an int literal of the grammar (digits, no
   leading zero) whose value is u, and parseUint64_simple reads it back as u *)
Theorem C09_uint : forall u : Z, (0 <= u < 2 ^ 64)%Z ->
  (exists ds, jsonEncodeUint false false u = map dchar ds /\ wf_int ds = true /\ ival ds = u) /\
  parseUint64_simple (jsonEncodeUint false false u) = (u, true).
Proof. exact (fun u H => conj (uint_format u H) (uint_roundtrip u H)). Qed.
Print Assumptions C09_uint.

(* sign and quotes (IntegerAsString, MapKeyAsString) are added around those digits *)
Theorem C09_uint_decorated : forall (neg quotes : bool) (u : Z),
  jsonEncodeUint neg quotes u =
  (if quotes then [34%N] else []) ++ (if neg then [45%N] else []) ++ jsonEncodeUint false false u
  ++ (if quotes then [34%N] else []).
Proof. exact uint_decorated. Qed.
Print Assumptions C09_uint_decorated.

(* The same two statements with the executable reference reader JsonStd.unescape
   (Spec.unescape = denote . parse_items) instead of the relational grammar: the
   grammar is unambiguous (C09_unescape_std), so on every valid literal outside
   F09-2r the decoder returns exactly what JsonStd.unescape returns, and
   JsonStd.unescape (quoteStr O s) = (utf8_sanitise s, nothing left). *)
Theorem C09_unescape_std : forall (l : list item) (tl : list N),
  forallb wf_item l = true -> unescape (render_lit l ++ tl) = Some (denote l, tl).
Proof. exact unescape_render. Qed.
Print Assumptions C09_unescape_std.

Theorem C09_unescape_fn : forall (l : list item) (tl : list N),
  forallb wf_item l = true -> nopin l = true ->
  match unescape (render_lit l ++ tl) with
  | Some (d, rest) => dec_string (render_lit l ++ tl) = Ok (d, rest)
  | None => False
  end.
Proof. exact unescape_fn. Qed.
Print Assumptions C09_unescape_fn.

Theorem C09_quote_fn : forall (h : bool) (s : list N),
  unescape (quoteStr h s) = Some (utf8_sanitise s, []) /\ quote_valid (quoteStr h s) = true.
Proof. exact quote_unescape. Qed.
Print Assumptions C09_quote_fn.

(* json.base.go jsonIsNumberLiteral (the guard DecodeNaked applies before it reads a
   quoted map key as a number under MapKeyAsString, fix F09-4) accepts EXACTLY the
   texts of the RFC 8259 number grammar (Spec: numlit, wf_numlit, render_num) *)
Theorem C09_number_literal : forall (s : list N),
  jsonIsNumberLiteral s = true <->
  exists (n : numlit) (upper : bool), wf_numlit n = true /\ s = render_num upper n.
Proof. exact number_literal_iff. Qed.
Print Assumptions C09_number_literal.

(* non-vacuity *)
Example C09_readfloat_nonvacuous :
  (* 0.<250 zeros>1 : the F09-1 witness, now the slow path; 1234.5e-3 exact *)
  let n1 := mknum false [0%N] (Some (repeat 0%N 250 ++ [1%N])) None in
  let n2 := mknum true [1;2;3;4]%N (Some [5%N]) (Some (EMinus, [3%N])) in
  wf_numlit n1 = true /\ rok (readFloat (render_num false n1) fi64) = false /\
  wf_numlit n2 = true /\ readFloat (render_num true n2) fi64 = mkrfr 12345 (-4) true false false false true.
Proof. vm_compute. repeat apply conj; reflexivity. Qed.

Example C09_unescape_nonvacuous :
  let l := [Ch 97; U 100 56 48 48; Ch 98; Esc 110; U 100 56 51 52; U 100 100 49 101; U 100 99 48 48]%N in
  forallb wf_item l = true /\ nopin l = true /\
  dec_string (render_lit l ++ [44%N]) = Ok ([97; 239; 191; 189; 98; 10; 240; 157; 132; 158; 239; 191; 189]%N, [44%N]).
Proof. vm_compute. repeat apply conj; reflexivity. Qed.

Example C09_quote_nonvacuous :
  (* "<" LF e-acute 0xFF U+2028 *)
  quoteStr false [60; 10; 195; 169; 255; 226; 128; 168]%N
  = [34; 92;117;48;48;51;99; 92;110; 195;169; 92;117;70;70;70;68; 92;117;50;48;50;56; 34]%N
  /\ quoteStr true [60%N] = [34; 60; 34]%N
  /\ utf8_sanitise [60; 10; 195; 169; 255; 226; 128; 168]%N = [60; 10; 195; 169; 239; 191; 189; 226; 128; 168]%N.
Proof. vm_compute. repeat apply conj; reflexivity. Qed.

Example C09_uint_nonvacuous :
  jsonEncodeUint true true 18446744073709551615
  = [34; 45; 49;56;52;52;54;55;52;52;48;55;51;55;48;57;53;53;49;54;49;53; 34]%N
  /\ parseUint64_simple (jsonEncodeUint false false 18446744073709551615) = (18446744073709551615%Z, true).
Proof. vm_compute. split; reflexivity. Qed.

Example C09_num_nonvacuous :
  (* 0.001 on the fast path; a two-step product above 1e15 declined; 2^52 as mantissa declined by readFloat *)
  parseFloat64_reader 1 (-3) false = FBits 4562254508917369340%Z
  /\ RN binary64 false 1 (-3) = 4562254508917369340%Z
  /\ parseFloat64_reader 4503599627370495 37 true = FFail
  /\ rok (readFloat [52;53;48;51;53;57;57;54;50;55;51;55;48;52;57;54]%N fi64) = false.
Proof. vm_compute. repeat apply conj; reflexivity. Qed.

Example C09_number_literal_nonvacuous :
  (* -0.5e+10 is accepted; - . e5 1. .5 1e 1e+ 007 +5 are not *)
  jsonIsNumberLiteral [45;48;46;53;101;43;49;48]%N = true
  /\ forallb (fun s => negb (jsonIsNumberLiteral s))
       [[45]; [46]; [101;53]; [49;46]; [46;53]; [49;101]; [49;101;43]; [48;48;55]; [43;53]; []]%N = true.
Proof. vm_compute. split; reflexivity. Qed.

(* C09 — JSON text is read and written as the grammar and encoding/json define it.
   Only statements, closed by [exact], with [Print Assumptions] beneath each.
   Spec.v (JsonStd) is the reference; Model.v mirrors /repo/codec after the
   repairs F09-1 (readFloat counters) and F09-2 (lone surrogates). *)
From Coq Require Import List NArith ZArith Bool.
From Verif Require Import Gen.Consts Base.Outcome C09.Spec C09.Model C09.ProofsStr C09.ProofsNum.
Import ListNotations.

(* readFloat on the text of ANY literal of the JSON number grammar, for each of the
   three floatinfo parameter sets the code uses: it never calls the literal bad, it
   keeps the sign, and whenever it answers ok (the exact fast path will be taken)
   mantissa * 10^exp IS the literal's exact value; otherwise it has flagged the
   slow path (trunc or hardexp).  The length bound is vacuous for Go slices
   (Go int counters, 64 bit). *)
Theorem C09_readfloat : forall (n : numlit) (upper : bool) (y : floatinfo),
  wf_numlit n = true -> In y [fi32; fi64; fi64u] ->
  (Z.of_nat (length (render_num upper n)) < 2 ^ 61)%Z ->
  let r := readFloat (render_num upper n) y in
  rbad r = false /\ rneg r = nneg n /\
  (rok r = true -> dec_eq (mant r) (rexp r) (dmant n) (dexp n)) /\
  (rok r = false -> rtrunc r = true \/ rhard r = true).
Proof. exact readfloat_thm. Qed.
Print Assumptions C09_readfloat.

(* the string decoder, on the text of ANY string literal of the grammar followed by
   anything, returns the string encoding/json defines (escapes, surrogate pairs
   combined, lone surrogates as U+FFFD) and stops exactly after the closing quote.
   Guard [nopin]: no surrogate escape is immediately followed by a \u escape it does
   not pair with (known finding F09-2r, pinned by the upstream test suite). *)
Theorem C09_unescape : forall (l : list item) (tl : list N),
  forallb wf_item l = true -> nopin l = true ->
  dec_string (render_lit l ++ tl) = Ok (denote l, tl).
Proof. exact unescape_lemma. Qed.
Print Assumptions C09_unescape.

(* the full statement (no guard) is false of the faithful model: F09-2r *)
Definition C09_unescape_full_statement : Prop := unescape_full_statement.
Theorem C09_unescape_refuted :
  exists (l : list item) (tl : list N),
    forallb wf_item l = true /\ nopin l = false /\ dec_string (render_lit l ++ tl) <> Ok (denote l, tl).
Proof. exact unescape_refuted. Qed.
Print Assumptions C09_unescape_refuted.

(* non-vacuity *)
Example C09_readfloat_nonvacuous :
  (* 0.<250 zeros>1 : the F09-1 witness, now the slow path; 1234.5e-3 exact *)
  let n1 := mknum false [0%N] (Some (repeat 0%N 250 ++ [1%N])) None in
  let n2 := mknum true [1;2;3;4]%N (Some [5%N]) (Some (EMinus, [3%N])) in
  wf_numlit n1 = true /\ rok (readFloat (render_num false n1) fi64) = false /\
  wf_numlit n2 = true /\ readFloat (render_num true n2) fi64 = mkrfr 12345 (-4) true false false false true.
Proof. vm_compute. repeat apply conj; reflexivity. Qed.

Example C09_unescape_nonvacuous :
  let l := [Ch 97; U 100 56 48 48; Ch 98; Esc 110; U 100 56 51 52; U 100 100 49 101; U 100 99 48 48]%N in
  forallb wf_item l = true /\ nopin l = true /\
  dec_string (render_lit l ++ [44%N]) = Ok ([97; 239; 191; 189; 98; 10; 240; 157; 132; 158; 239; 191; 189]%N, [44%N]).
Proof. vm_compute. repeat apply conj; reflexivity. Qed.

(* C09 — JSON text is read and written as the grammar and encoding/json define it.
   Only statements, closed by [exact], with [Print Assumptions] beneath each. *)
From Coq Require Import List NArith ZArith Bool.
From Verif Require Import Gen.Consts Base.Outcome C09.Spec C09.Model C09.ProofsStr.
Import ListNotations.

Theorem C09_unescape_refuted :
  exists (l : list item) (tl : list N),
    forallb wf_item l = true /\ dec_string (render_lit l ++ tl) <> Ok (denote l, tl).
Proof. exact unescape_refuted. Qed.
Print Assumptions C09_unescape_refuted.

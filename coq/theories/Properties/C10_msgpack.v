(* C10 (MessagePack half) — placeholder while the proofs are being built. *)
From Coq Require Import List NArith ZArith Lia Bool.
From Verif Require Import Base.Outcome Wire.Item Gen.Consts Wire.Msgpack Wire.MsgpackProofs.
Import ListNotations.

Theorem Wmsgpack_nil_partial : forall O D rest, dec_naked D 1 (enc O INil ++ rest) = Ok (INil, rest).
Proof. exact nil_roundtrip. Qed.
Print Assumptions Wmsgpack_nil_partial.

(* Wmsgpack / C10 (MessagePack half).  Only statements, closed by [exact], with
   [Print Assumptions] beneath each.  Model: Wire/Msgpack.v (enc, dec_naked, skip), tied to
   codec/msgpack.go by harness/cmd/wiremsgpack + Wire/MsgpackCorr.v. *)
From Coq Require Import List NArith ZArith Lia Bool.
From Verif Require Import Base.Outcome Wire.Item Gen.Consts Wire.Msgpack Wire.MsgpackProofs Wire.MsgpackRT.
Import ListNotations.

(* ---------------- wire layer ---------------- *)

(* decoding an encoding (followed by anything) yields norm of the item and leaves what followed *)
Theorem Wmsgpack_dec_enc : forall O D i rest,
  supported i -> (Z.of_nat (depth i) < maxdepth D)%Z ->
  goslice (len (enc O i ++ rest)) ->
  dec_naked D (dec_fuel (enc O i ++ rest)) (enc O i ++ rest) = Ok (norm O D i, rest).
Proof. exact dec_enc. Qed.
Print Assumptions Wmsgpack_dec_enc.

(* the skip parser (nextValueBytes) consumes exactly one encoding, from any entry depth d0 *)
Theorem Wmsgpack_skip_enc : forall O D i rest d0,
  supported i -> (d0 + Z.of_nat (depth i) < maxdepth D)%Z ->
  skip_at D d0 (dec_fuel (enc O i ++ rest)) (enc O i ++ rest) = Ok rest.
Proof. exact skip_enc. Qed.
Print Assumptions Wmsgpack_skip_enc.

(* totality: for EVERY byte list fuel 2*len+1 is never exhausted, and progress is made *)
Theorem Wmsgpack_dec_total : forall D b, dec_naked D (dec_fuel b) b <> OutOfFuel.
Proof. exact dec_total. Qed.
Print Assumptions Wmsgpack_dec_total.

Theorem Wmsgpack_dec_progress : forall D b i rest,
  dec_naked D (dec_fuel b) b = Ok (i, rest) -> (length rest < length b)%nat.
Proof. exact dec_progress. Qed.
Print Assumptions Wmsgpack_dec_progress.

Theorem Wmsgpack_skip_total : forall D d0 b, skip_at D d0 (dec_fuel b) b <> OutOfFuel.
Proof. exact skip_total. Qed.
Print Assumptions Wmsgpack_skip_total.

Theorem Wmsgpack_skip_progress : forall D d0 b rest,
  skip_at D d0 (dec_fuel b) b = Ok rest -> (length rest < length b)%nat.
Proof. exact skip_progress. Qed.
Print Assumptions Wmsgpack_skip_progress.

(* depth: whatever the bytes and the fuel, at most MaxDepth frames of the recursive decoder are
   active; no value nested MaxDepth levels or more is ever returned; MaxDepth or more nested
   one-element arrays give exactly the depth error *)
Theorem Wmsgpack_dec_depth_rec : forall D fuel b, (Z.of_nat (dec_maxrec D fuel b) <= maxdepth D)%Z.
Proof. exact dec_depth_rec. Qed.
Print Assumptions Wmsgpack_dec_depth_rec.

Theorem Wmsgpack_dec_depth_val : forall D fuel b i rest,
  dec_naked D fuel b = Ok (i, rest) -> (Z.of_nat (depth i) < maxdepth D)%Z.
Proof. exact dec_depth_val. Qed.
Print Assumptions Wmsgpack_dec_depth_val.

Theorem Wmsgpack_dec_depth_err : forall D k, (maxdepth D <= Z.of_nat k)%Z ->
  dec_naked D (dec_fuel (nested_arr k)) (nested_arr k) = Err EDepth.
Proof. exact dec_depth_err. Qed.
Print Assumptions Wmsgpack_dec_depth_err.

(* the same bound for the skip parser: holds after the F14-1 repair (4080085); before it the
   recursion of nextValueBytesBdReadR grew with the input *)
Theorem Wmsgpack_skip_depth_rec : forall D fuel b, (Z.of_nat (skip_maxrec D fuel b) <= maxdepth D)%Z.
Proof. exact skip_depth_rec. Qed.
Print Assumptions Wmsgpack_skip_depth_rec.

(* reader arithmetic: the parsers' readx/skip are the literal cursor arithmetic of
   bytesDecReader, and msgpack's 32-bit lengths can never make z.c+n wrap on a Go slice *)
Theorem Wmsgpack_readx_nowrap : forall cap n b, goslice cap -> (n < 2 ^ 32)%N -> (len b <= cap)%N ->
  rd_readx cap n b = rd_readx_lit cap n b /\ (cursor cap b + n < 2 ^ 64)%N.
Proof. exact msgpack_readx_nowrap. Qed.
Print Assumptions Wmsgpack_readx_nowrap.

Theorem Wmsgpack_skip_lit : forall cap n b, (len b <= cap)%N -> rd_skip n b = rd_skip_lit cap n b.
Proof. exact rd_skip_lit_eq. Qed.
Print Assumptions Wmsgpack_skip_lit.

(* non-vacuity: a nested item with every kind of node meets the premises *)
Example Wmsgpack_nonvacuous :
  let O := mkeopts true false true false in
  let D := mkdopts true false false 0 in
  let i := IMap [(IStr [107]%N, IArr [IInt (-33); IUint 300; IF32 1069547520; IBytes [1;2]%N; INil; IBool true]);
                 (IInt 7, ITime 1700000000 5); (IBytes [98]%N, IExt 5 [9;9;9]%N)] in
  supported i /\ (Z.of_nat (depth i) < maxdepth D)%Z /\
  dec_naked D (dec_fuel (enc O i)) (enc O i) = Ok (norm O D i, []) /\
  skip D (dec_fuel (enc O i)) (enc O i) = Ok [].
Proof. cbv zeta. repeat apply conj; vm_compute; try reflexivity; try (intro; discriminate); auto. Qed.

(* Wmsgpack / C10 (MessagePack half).  Only statements, closed by [exact], with
   [Print Assumptions] beneath each.  Model: Wire/Msgpack.v (enc, dec_naked, skip), tied to
   codec/msgpack.go by harness/cmd/wiremsgpack + Wire/MsgpackCorr.v. *)
From Coq Require Import List NArith ZArith Lia Bool.
From Verif Require Import Base.Outcome Wire.Item Gen.Consts Wire.Msgpack Wire.MsgpackProofs Wire.MsgpackRT.
From Verif Require Import C10.MsgpackSpec C10.MsgpackProofs C10.MsgpackSpecProofs.
From Verif Require C10.CborSpec.
From Verif Require Import Wire.MsgpackVU Wire.MsgpackVUProofs.
From Verif Require Gen.Leaf2 C10.LeafTieMsgpack.
Import ListNotations.

(* ---------------- C10, MessagePack half ---------------- *)

(* out: for every item in the encoder's range and every option vector, the bytes the encoder
   writes are one of the serialisations the specification permits ([ser], C10/MsgpackSpec.v:
   exactly one well-formed item, nothing after it) for the spec value carrying the same data
   ([sval_of]: same integer, float bits, string / binary bytes, array and map structure,
   extension type and data, timestamp). *)
Theorem C10_msgpack_out : forall O i, supported i -> ser (sval_of O i) (enc O i).
Proof. exact c10_out. Qed.
Print Assumptions C10_msgpack_out.

(* in: every serialisation the specification permits (any width for an integer or a length,
   fixstr/str8/16/32, bin8/16/32, fixext/ext8/16/32, the three timestamp formats, any head for
   arrays and maps), of every spec value the library supports, followed by anything, is decoded
   by DecodeNaked into an item carrying the data the specification assigns ([agrees]) and
   exactly the serialisation is consumed.  [lib_supports] excludes Go-unhashable map keys,
   application use of extension type -1, and -- with SignedInteger, where every integer is
   handed back as int64 -- an integer above MaxInt64; that last case is rejected with an error,
   C10_msgpack_in_signed_overflow. *)
Theorem C10_msgpack_in : forall D s w rest,
  ser s w -> lib_supports D s -> (Z.of_nat (sdepth s) < maxdepth D)%Z ->
  goslice (len (w ++ rest)) ->
  exists it, dec_naked D (dec_fuel (w ++ rest)) (w ++ rest) = Ok (it, rest) /\ agrees D it s.
Proof. exact c10_in. Qed.
Print Assumptions C10_msgpack_in.

(* SignedInteger and an integer >= 2^63 (whose only serialisation is uint 64): never a changed
   number, always the overflow error (after fix 3c4765d; before it: int64(-1) for cf ff*8,
   finding F07-1n) *)
Theorem C10_msgpack_in_signed_overflow : forall D z w rest,
  ser (SInt z) w -> d_signedinteger D = true -> (2 ^ 63 <= z)%Z ->
  dec_naked D (dec_fuel (w ++ rest)) (w ++ rest) = Err EOverflow.
Proof. exact c10_in_signed_overflow. Qed.
Print Assumptions C10_msgpack_in_signed_overflow.

(* non-vacuity: the executable spec decoder reads an encoder output as the same data; a
   non-minimal serialisation (int 64 holding 5, str 32 holding "a", array 32, timestamp 96) is
   permitted by [ser] and decoded by the library model *)
(* source tie of the big-endian fields of every msgpack head / number: be_put 2/4/8 and be_get of
   Wire/Msgpack.v EQUAL the functions the translator regenerates from the current helper.go
   bigen.PutUint16/32/64 and bigen.Uint16/32/64 on every run (Gen/Leaf2.v), for every uint16 / uint32 /
   uint64 and every [2]byte / [4]byte / [8]byte.  A behaviour-changing edit of one of these Go functions
   breaks this obligation. *)
Theorem C10_msgpack_bigen_src_tie :
  (forall v, (v < 65536)%N ->
     (let '(a, b) := Leaf2.bigenHelper_PutUint16 (Z.of_N v) in [a; b]) = map Z.of_N (be_put 2 v)) /\
  (forall v, (v < 4294967296)%N -> Leaf2.bigenHelper_PutUint32 (Z.of_N v) = map Z.of_N (be_put 4 v)) /\
  (forall v, (v < 18446744073709551616)%N -> Leaf2.bigenHelper_PutUint64 (Z.of_N v) = map Z.of_N (be_put 8 v)) /\
  (forall a b, (a < 256)%N -> (b < 256)%N -> Leaf2.bigenHelper_Uint16 (map Z.of_N [a; b]) = Z.of_N (be_get [a; b])) /\
  (forall a b c d, (a < 256)%N -> (b < 256)%N -> (c < 256)%N -> (d < 256)%N ->
     Leaf2.bigenHelper_Uint32 (map Z.of_N [a; b; c; d]) = Z.of_N (be_get [a; b; c; d])) /\
  (forall a b c d e f g h,
     (a < 256)%N -> (b < 256)%N -> (c < 256)%N -> (d < 256)%N -> (e < 256)%N -> (f < 256)%N -> (g < 256)%N -> (h < 256)%N ->
     Leaf2.bigenHelper_Uint64 (map Z.of_N [a; b; c; d; e; f; g; h]) = Z.of_N (be_get [a; b; c; d; e; f; g; h])).
Proof. exact LeafTieMsgpack.mp_bigen_src_tie. Qed.
Print Assumptions C10_msgpack_bigen_src_tie.

Example C10_msgpack_bigen_src_tie_nonvacuous :
  Leaf2.bigenHelper_PutUint64 72623859790382856 = [1; 2; 3; 4; 5; 6; 7; 8]%Z /\ be_put 8 72623859790382856 = [1; 2; 3; 4; 5; 6; 7; 8]%N /\
  Leaf2.bigenHelper_Uint32 [255; 0; 0; 1]%Z = 4278190081%Z /\ be_get [255; 0; 0; 1]%N = 4278190081%N.
Proof. vm_compute. repeat apply conj; reflexivity. Qed.

Example C10_msgpack_out_nonvacuous :
  let O := mkeopts true false false false in
  let i := IMap [(IStr [107]%N, IArr [IInt (-33); IUint 300; IF32 1069547520; IBytes [1;2]%N; INil]);
                 (IInt 7, ITime 1700000000 5); (IBool true, IExt 5 [9;9;9]%N)] in
  supported i /\ sdec 100 (enc O i) = Some (sval_of O i, []).
Proof. cbv zeta. split; [vm_compute; repeat apply conj; auto; try (intro; discriminate); reflexivity|vm_compute; reflexivity]. Qed.

Example C10_msgpack_in_nonvacuous :
  let D := mkdopts true false false 0 in
  let s := SArr [SInt 5; SStr [97]%N; STime 1 2] in
  let w := [0xdd; 0; 0; 0; 3;  0xd3; 0; 0; 0; 0; 0; 0; 0; 5;  0xdb; 0; 0; 0; 1; 97;
            0xc7; 12; 0xff; 0; 0; 0; 2; 0; 0; 0; 0; 0; 0; 0; 1]%N in
  ser s w /\ lib_supports D s /\
  dec_naked D (dec_fuel w) w = Ok (IArr [IInt 5; IStr [97]%N; ITime 1 2], []).
Proof.
  cbv zeta. repeat apply conj.
  - cbn [ser]. exists [0xdd; 0; 0; 0; 3]%N,
      [[0xd3; 0; 0; 0; 0; 0; 0; 0; 5]; [0xdb; 0; 0; 0; 1; 97]; [0xc7; 12; 0xff; 0; 0; 0; 2; 0; 0; 0; 0; 0; 0; 0; 1]]%N.
    repeat apply conj; try reflexivity.
    + unfold arr_head. right; right. split; reflexivity.
    + unfold ser_int. do 9 right. split; [lia|reflexivity].
    + unfold ser_str. do 3 right. split; reflexivity.
    + unfold ser_time. right; right. repeat apply conj; try reflexivity; lia.
  - cbn. intros [H _]. discriminate.
  - exact I.
  - exact I.
  - exact I.
  - vm_compute. reflexivity.
Qed.

(* ---------------- the specification model is consistent with itself ---------------- *)

(* soundness of the spec decoder for ALL permitted serialisations: whatever serialisation [ser] permits
   for a value (any integer width that holds it, fixstr / str 8 / 16 / 32, bin, fixext / ext 8 / 16 / 32,
   the three timestamp formats, any array / map head), followed by anything, is read by the format-table
   decoder [sdec] -- with any fuel >= 2 * length -- as the data the value denotes, leaving what followed.
   [sden] (C10/MsgpackSpecProofs.v) is the identity except on application use of the reserved extension
   type -1: a 4 / 8 / 12-byte payload of type -1 IS a timestamp (None when its nanoseconds exceed
   999999999, which [sdec] refuses); C10_msgpack_spec_consistent_proper is the identity case. *)
Theorem C10_msgpack_spec_consistent : forall (v : sval) (b : list N) (f : nat) (rest : list N),
  ser v b -> (2 * length b <= f)%nat ->
  sdec f (b ++ rest) = match sden v with Some v' => Some (v', rest) | None => None end.
Proof. exact spec_sound. Qed.
Print Assumptions C10_msgpack_spec_consistent.

Theorem C10_msgpack_spec_consistent_proper : forall (v : sval) (b : list N) (f : nat) (rest : list N),
  ser v b -> sproper v -> (2 * length b <= f)%nat -> sdec f (b ++ rest) = Some (v, rest).
Proof. exact spec_sound_proper. Qed.
Print Assumptions C10_msgpack_spec_consistent_proper.

(* completeness: everything the spec decoder accepts -- any byte list (bytes are < 256), any fuel -- is a
   permitted serialisation, of a value denoting what was decoded, followed by what was left *)
Theorem C10_msgpack_spec_complete : forall (f : nat) (b : list N) (v : sval) (rest : list N),
  bytes b -> sdec f b = Some (v, rest) ->
  exists v0 b0, b = b0 ++ rest /\ ser v0 b0 /\ sden v0 = Some v.
Proof. exact spec_complete. Qed.
Print Assumptions C10_msgpack_spec_complete.

(* both directions at once: [sdec] decides exactly the format [ser] describes *)
Theorem C10_msgpack_spec_iff : forall (b : list N) (v : sval) (rest : list N), bytes b ->
  ((exists f, sdec f b = Some (v, rest)) <-> (exists v0 b0, b = b0 ++ rest /\ ser v0 b0 /\ sden v0 = Some v)).
Proof. exact spec_iff. Qed.
Print Assumptions C10_msgpack_spec_iff.

(* the format is unambiguous: values sharing a serialisation denote the same data *)
Theorem C10_msgpack_spec_unambiguous : forall (v v' : sval) (b : list N), ser v b -> ser v' b -> sden v = sden v'.
Proof. exact spec_unambiguous. Qed.
Print Assumptions C10_msgpack_spec_unambiguous.

(* completeness with the decoded value itself in place of "a value denoting it" is FALSE of this
   transcription: c7 04 ff 00 00 00 01 (ext 8, length 4, type -1) is read as the timestamp 1 s, and
   [ser_time] lists only d6 ff.. / d7 ff.. / c7 0c ff.. for it.  (A statement about the spec model, not
   about the library: [sdec] takes ANY extension of type -1 with 4 / 8 / 12 payload bytes for a timestamp.) *)
Theorem C10_msgpack_spec_complete_strict_refuted :
  exists b v rest, bytes b /\ sdec 2 b = Some (v, rest) /\ ~ (exists b0, b = b0 ++ rest /\ ser v b0).
Proof. exact spec_strict_refuted. Qed.
Print Assumptions C10_msgpack_spec_complete_strict_refuted.

(* non-vacuity: a non-minimal serialisation of a nested value is permitted and read back; an ext 16 of
   type -1 and length 8 denotes a timestamp; nanoseconds 10^9 denote nothing and are refused *)
Example C10_msgpack_spec_consistent_nonvacuous :
  let v := SArr [SInt 5; SMap [(SStr [97]%N, STime 1 2)]; SExt 7 [1; 2; 3]%N] in
  let w := [0xdc; 0; 3;  0xd1; 0; 5;  0xdf; 0; 0; 0; 1;  0xd9; 1; 97;
            0xc7; 12; 0xff; 0; 0; 0; 2; 0; 0; 0; 0; 0; 0; 0; 1;  0xc8; 0; 3; 7; 1; 2; 3]%N in
  ser v w /\ sproper v /\ sdec (2 * length w) (w ++ [9]%N) = Some (v, [9]%N) /\
  sden (SExt (-1) [0; 0; 0; 8; 0; 0; 0; 1]%N) = Some (STime 1 2) /\
  ser (SExt (-1) [0; 0; 0; 8; 0; 0; 0; 1]%N) [0xc8; 0; 8; 0xff; 0; 0; 0; 8; 0; 0; 0; 1]%N /\
  sden (SExt (-1) [0xee; 0x6b; 0x28; 0; 0; 0; 0; 0]%N) = None /\
  sdec 4 [0xd7; 0xff; 0xee; 0x6b; 0x28; 0; 0; 0; 0; 0]%N = None.
Proof.
  cbv zeta. split; [|split; [|split; [|split; [|split; [|split]]]]]; try (vm_compute; reflexivity).
  - cbn [ser]. exists [0xdc; 0; 3]%N,
      [[0xd1; 0; 5]; [0xdf; 0; 0; 0; 1; 0xd9; 1; 97; 0xc7; 12; 0xff; 0; 0; 0; 2; 0; 0; 0; 0; 0; 0; 0; 1]; [0xc8; 0; 3; 7; 1; 2; 3]]%N.
    split; [|split; [|split; [|split; [|split]]]]; try reflexivity; try exact I.
    + unfold arr_head. right; left. split; reflexivity.
    + unfold ser_int. do 7 right; left. split; [lia|reflexivity].
    + exists [0xdf; 0; 0; 0; 1]%N, [[0xd9; 1; 97; 0xc7; 12; 0xff; 0; 0; 0; 2; 0; 0; 0; 0; 0; 0; 0; 1]]%N.
      split; [|split; [|split]]; try reflexivity; try exact I.
      * unfold map_head. right; right. split; reflexivity.
      * exists [0xd9; 1; 97]%N, [0xc7; 12; 0xff; 0; 0; 0; 2; 0; 0; 0; 0; 0; 0; 0; 1]%N. split; [|split]; try reflexivity.
        -- cbn [fst ser]. unfold ser_str. right; left. split; reflexivity.
        -- cbn [snd ser]. unfold ser_time. right; right. split; [lia|]. split; [lia|reflexivity].
    + unfold ser_ext. split; [lia|]. do 6 right; left. split; reflexivity.
  - cbn. split; [exact I|]. split; [split; [exact I|split; [exact I|exact I]]|]. split; [discriminate|exact I].
  - cbn [ser]. unfold ser_ext. split; [lia|]. do 6 right; left. split; reflexivity.
Qed.

(* ---------------- DecodeOptions.ValidateUnicode, destination interface{} ---------------- *)

(* Model: Wire/MsgpackVU.v.  msgpack.go consults utf8.Valid only in DecodeStringAsBytes (string destinations);
   DecodeNaked reads the str family through DecodeBytes, so for the decoder modelled here the option changes
   nothing: [dec_naked_vu vu D] IS [dec_naked D] (by definition; tied by the correspondence, where the real
   Decoder runs with ValidateUnicode on: harness/cmd/wiremsgpack stream vu, case kind 4). *)

(* (a) every encoder output still decodes, to the same item, with the option on *)
Theorem C10_msgpack_vu_accepts : forall O D i rest,
  supported i -> sint_ok D i -> (Z.of_nat (depth i) < maxdepth D)%Z ->
  goslice (len (enc O i ++ rest)) ->
  dec_naked_vu true D (dec_fuel (enc O i ++ rest)) (enc O i ++ rest) = Ok (norm O D i, rest).
Proof. exact vu_accepts. Qed.
Print Assumptions C10_msgpack_vu_accepts.

(* (b) "an Ok result holds no ill-formed text" is the statement one expects of the option; it is FALSE of the
   code (finding F10-5): with WriteExt -- str family = UTF-8 text -- a1 ff decodes into interface{} to the Go
   string "\xff" without an error, ValidateUnicode set or not (the same bytes into a string destination are
   rejected).  The full statement is kept visible; what holds instead is C10_msgpack_vu_noeffect. *)
Theorem C10_msgpack_vu_sound_refuted :
  exists D b i rest, dec_naked_vu true D (dec_fuel b) b = Ok (i, rest) /\ text_ok i = false.
Proof. exact vu_sound_refuted. Qed.
Print Assumptions C10_msgpack_vu_sound_refuted.

Theorem C10_msgpack_vu_sound_full_statement_false : ~ vu_sound_full_statement.
Proof. exact vu_sound_full_statement_false. Qed.
Print Assumptions C10_msgpack_vu_sound_full_statement_false.

Theorem C10_msgpack_vu_noeffect : forall vu D f b, dec_naked_vu vu D f b = dec_naked D f b.
Proof. exact vu_noeffect. Qed.
Print Assumptions C10_msgpack_vu_noeffect.

Example C10_msgpack_vu_nonvacuous :
  let D := mkdopts true false false 0 in
  dec_naked_vu true D 9 [0xa1; 0xff]%N = Ok (IStr [0xff]%N, []) /\ CborSpec.utf8_valid [0xff]%N = false /\
  dec_naked_vu true D 9 [0x81; 0xa2; 0xc3; 0xa9; 0xa3; 0xed; 0xa0; 0x80]%N = Ok (IMap [(IStr [0xc3; 0xa9]%N, IStr [0xed; 0xa0; 0x80]%N)], []) /\
  CborSpec.utf8_valid [0xc3; 0xa9]%N = true /\ CborSpec.utf8_valid [0xed; 0xa0; 0x80]%N = false.
Proof. cbv zeta. repeat apply conj; vm_compute; reflexivity. Qed.

(* ---------------- wire layer ---------------- *)

(* decoding an encoding (followed by anything) yields norm of the item and leaves what followed *)
(* [sint_ok D i]: when the decoder has SignedInteger, every unsigned integer of the item fits
   int64 (otherwise Wmsgpack_dec_enc_signed_overflow) *)
Theorem Wmsgpack_dec_enc : forall O D i rest,
  supported i -> sint_ok D i -> (Z.of_nat (depth i) < maxdepth D)%Z ->
  goslice (len (enc O i ++ rest)) ->
  dec_naked D (dec_fuel (enc O i ++ rest)) (enc O i ++ rest) = Ok (norm O D i, rest).
Proof. exact dec_enc. Qed.
Print Assumptions Wmsgpack_dec_enc.

(* the statement in its form before fix 3c4765d, for decoders without SignedInteger *)
Theorem Wmsgpack_dec_enc_unsigned : forall O D i rest,
  d_signedinteger D = false ->
  supported i -> (Z.of_nat (depth i) < maxdepth D)%Z ->
  goslice (len (enc O i ++ rest)) ->
  dec_naked D (dec_fuel (enc O i ++ rest)) (enc O i ++ rest) = Ok (norm O D i, rest).
Proof. exact dec_enc_unsigned. Qed.
Print Assumptions Wmsgpack_dec_enc_unsigned.

(* SignedInteger and an unsigned integer above MaxInt64: the overflow error, never a changed value *)
Theorem Wmsgpack_dec_enc_signed_overflow : forall O D n rest,
  d_signedinteger D = true -> (2 ^ 63 <= n < 2 ^ 64)%N ->
  dec_naked D (dec_fuel (enc O (IUint n) ++ rest)) (enc O (IUint n) ++ rest) = Err EOverflow.
Proof. exact dec_enc_signed_overflow. Qed.
Print Assumptions Wmsgpack_dec_enc_signed_overflow.

(* the skip parser (nextValueBytes) consumes exactly one encoding, from any entry depth d0 *)
Theorem Wmsgpack_skip_enc : forall O D i rest d0,
  supported i -> (d0 + Z.of_nat (depth i) < maxdepth D)%Z ->
  skip_at D d0 (dec_fuel (enc O i ++ rest)) (enc O i ++ rest) = Ok rest.
Proof. exact skip_enc. Qed.
Print Assumptions Wmsgpack_skip_enc.

(* totality: for EVERY byte list fuel 2*len+1 is never exhausted, and progress is made *)
Theorem Wmsgpack_dec_total : forall D b, dec_naked D (dec_fuel b) b <> OutOfFuel.
Proof. exact dec_total. Qed.
Print Assumptions Wmsgpack_dec_total.

Theorem Wmsgpack_dec_progress : forall D b i rest,
  dec_naked D (dec_fuel b) b = Ok (i, rest) -> (length rest < length b)%nat.
Proof. exact dec_progress. Qed.
Print Assumptions Wmsgpack_dec_progress.

Theorem Wmsgpack_skip_total : forall D d0 b, skip_at D d0 (dec_fuel b) b <> OutOfFuel.
Proof. exact skip_total. Qed.
Print Assumptions Wmsgpack_skip_total.

Theorem Wmsgpack_skip_progress : forall D d0 b rest,
  skip_at D d0 (dec_fuel b) b = Ok rest -> (length rest < length b)%nat.
Proof. exact skip_progress. Qed.
Print Assumptions Wmsgpack_skip_progress.

(* depth: whatever the bytes and the fuel, at most MaxDepth frames of the recursive decoder are
   active; no value nested MaxDepth levels or more is ever returned; MaxDepth or more nested
   one-element arrays give exactly the depth error *)
Theorem Wmsgpack_dec_depth_rec : forall D fuel b, (Z.of_nat (dec_maxrec D fuel b) <= maxdepth D)%Z.
Proof. exact dec_depth_rec. Qed.
Print Assumptions Wmsgpack_dec_depth_rec.

Theorem Wmsgpack_dec_depth_val : forall D fuel b i rest,
  dec_naked D fuel b = Ok (i, rest) -> (Z.of_nat (depth i) < maxdepth D)%Z.
Proof. exact dec_depth_val. Qed.
Print Assumptions Wmsgpack_dec_depth_val.

Theorem Wmsgpack_dec_depth_err : forall D k, (maxdepth D <= Z.of_nat k)%Z ->
  dec_naked D (dec_fuel (nested_arr k)) (nested_arr k) = Err EDepth.
Proof. exact dec_depth_err. Qed.
Print Assumptions Wmsgpack_dec_depth_err.

(* the same bound for the skip parser: holds after the F14-1 repair (4080085); before it the
   recursion of nextValueBytesBdReadR grew with the input *)
Theorem Wmsgpack_skip_depth_rec : forall D fuel b, (Z.of_nat (skip_maxrec D fuel b) <= maxdepth D)%Z.
Proof. exact skip_depth_rec. Qed.
Print Assumptions Wmsgpack_skip_depth_rec.

(* reader arithmetic: the parsers' readx/skip are the literal cursor arithmetic of
   bytesDecReader, and msgpack's 32-bit lengths can never make z.c+n wrap on a Go slice *)
Theorem Wmsgpack_readx_nowrap : forall cap n b, goslice cap -> (n < 2 ^ 32)%N -> (len b <= cap)%N ->
  rd_readx cap n b = rd_readx_lit cap n b /\ (cursor cap b + n < 2 ^ 64)%N.
Proof. exact msgpack_readx_nowrap. Qed.
Print Assumptions Wmsgpack_readx_nowrap.

Theorem Wmsgpack_skip_lit : forall cap n b, (len b <= cap)%N -> rd_skip n b = rd_skip_lit cap n b.
Proof. exact rd_skip_lit_eq. Qed.
Print Assumptions Wmsgpack_skip_lit.

(* a msgpack length can never be the containerLenNil sentinel (64-bit int): F14-3 does not reach
   msgpack on this platform *)
Theorem Wmsgpack_len_not_nil : forall fm bd w b n r,
  rd_len fm bd w b = Ok (n, r) -> Z.of_N n <> containerLenNil.
Proof. exact rd_len_not_nil. Qed.
Print Assumptions Wmsgpack_len_not_nil.

(* non-vacuity: a nested item with every kind of node meets the premises *)
Example Wmsgpack_nonvacuous :
  let O := mkeopts true false true false in
  let D := mkdopts true false false 0 in
  let i := IMap [(IStr [107]%N, IArr [IInt (-33); IUint 300; IF32 1069547520; IBytes [1;2]%N; INil; IBool true]);
                 (IInt 7, ITime 1700000000 5); (IBytes [98]%N, IExt 5 [9;9;9]%N)] in
  supported i /\ sint_ok D i /\ (Z.of_nat (depth i) < maxdepth D)%Z /\
  dec_naked D (dec_fuel (enc O i)) (enc O i) = Ok (norm O D i, []) /\
  skip D (dec_fuel (enc O i)) (enc O i) = Ok [].
Proof. cbv zeta. repeat apply conj; vm_compute; try reflexivity; try (intro; discriminate); auto. Qed.

Example C10_msgpack_in_signed_overflow_nonvacuous :
  ser (SInt 18446744073709551615) [0xcf; 255; 255; 255; 255; 255; 255; 255; 255]%N /\
  dec_naked (mkdopts false false true 0) 19 [0xcf; 255; 255; 255; 255; 255; 255; 255; 255]%N = Err EOverflow /\
  dec_naked (mkdopts false false false 0) 19 [0xcf; 255; 255; 255; 255; 255; 255; 255; 255]%N = Ok (IUint 18446744073709551615, []).
Proof.
  repeat apply conj; try (vm_compute; reflexivity).
  cbn [ser]. unfold ser_int. do 5 right. left. split; [split; [lia|reflexivity]|reflexivity].
Qed.

(* C20 — Encode is total: unsupported or cyclic values give errors, never crashes.
   Statements only; proofs are in C20/Proofs.v.  The model (C20/Model.v) is the encoder's
   traversal with its circular-reference stack; [d] is the stack budget (one unit per nested
   edge) and [OFuel] means the budget was exhausted (= fatal stack overflow / hang in Go).

   WHICH POINTER EDGES ARE RECORDED -- what the model assumes.  [enc] pushes at EVERY edge
   VPtr a whose target cell is a struct/slice/array/map (cont_kind), whatever holds the pointer
   (struct field of a simple / omitempty / toarray struct, slice / array / MapBySlice element, map
   key or value, interface, another pointer) and whatever the Go type of the target; there is one
   stack for the whole traversal.  The model has no edge that dereferences such a pointer without
   recording it and no second stack.  The pinned code had both: the builtin shortcut (encodeIB on
   the dereferenced field / element / map value when the BASE type is in encodeBuiltin's type
   switch, e.g. *[]interface{}, *map[string]interface{}) and the pooled side encoder used by
   Canonical for out-of-band map keys (fresh stack, key dereferenced).  Until the harness generated
   those shapes the model silently assumed them away; they were genuine defects (fatal stack
   overflow on cyclic values) and are repaired in /repo: F20-3 (encoderBase.builtinField /
   builtinElem: no shortcut for a pointer that encodeValue records) and F20-4 (ciInherit: the side
   encoder continues its parent's stack and encodes the key through encodeValue).  After the
   repair the only pointers still dereferenced by the shortcut are pointers to scalars, which
   encodeValue does not record either (cont_kind = false in the model).
   Tie (no translator involved): C20_every_pointer_edge_recorded says that [enc] is the instance
   of the general traversal [enc_np] with NO unrecorded edge, C20_unrecorded_edge_refuted that a
   single unrecorded edge on a cycle loses C20_sound; on the implementation side the harness
   streams ptrcoll / ptrkey (harness/cmd/c20/shapes.go, deterministic) put a pointer to a
   container in every position in which the encoder dereferences one and require the circular
   reference error on the cycles through it (fatal stack overflow in a child process = concrete
   counterexample), and byte-identical output with and without the option on the acyclic ones. *)
From Coq Require Import List Arith Bool Lia.
From Verif Require Import Base.Outcome C20.Model C20.Proofs.
Import ListNotations.

(* CheckCircularRef on, a reachable cycle through a pointer the checker pushes (pointer to
   struct/slice/array/map), and no cycle that avoids such pointers (chains of non-pushing edges
   have at most R edges): for EVERY heap and value, with any stack budget of at least
   (#heap cells + 1)*(R+1)+1 frames the run ends in an error -- never normally, never by
   exhausting the stack -- and that error is the circular-reference error unless an
   unrepresentable leaf is reachable (which may be met first). *)
Theorem C20_sound : forall (h : heap) (o : opts) (v : val) (R d : nat),
  chk o = true -> nopush_wf h v R -> cyclic_ptr h v -> budget h R <= d ->
  exists e ci, enc d h o [] v = OErr e ci /\ (e = ECircular \/ bad_reachable h o v e).
Proof. exact sound_lemma. Qed.
Print Assumptions C20_sound.

Theorem C20_sound_circular : forall (h : heap) (o : opts) (v : val) (R d : nat),
  chk o = true -> nopush_wf h v R -> cyclic_ptr h v -> budget h R <= d ->
  (forall e, ~ bad_reachable h o v e) ->
  exists ci, enc d h o [] v = OErr ECircular ci.
Proof. exact sound_circular_lemma. Qed.
Print Assumptions C20_sound_circular.

(* with checking on the recursion depth never exceeds the budget, cyclic or not: pigeonhole on
   the stack (its entries are distinct heap cells) *)
Theorem C20_depth : forall (h : heap) (o : opts) (v : val) (R d : nat),
  chk o = true -> nopush_wf h v R -> budget h R <= d -> enc d h o [] v <> OFuel.
Proof. exact total_lemma. Qed.
Print Assumptions C20_depth.

(* no acyclic graph is rejected as circular, whatever the sharing/fan-in, with or without the
   option, for every budget: the stack holds only ancestors *)
Theorem C20_complete : forall (h : heap) (o : opts) (v : val) (d : nat) (ci' : list nat),
  ~ cyclic h v -> enc d h o [] v <> OErr ECircular ci'.
Proof. exact complete_lemma. Qed.
Print Assumptions C20_complete.

(* an unrepresentable leaf anywhere in the graph: never a normal return; with checking on (and
   the budget) an error is returned *)
Theorem C20_leaves : forall (h : heap) (o : opts) (v : val) (e : eclass),
  bad_reachable h o v e ->
  (forall d ci ci', enc d h o ci v <> OOk ci') /\
  (forall R d, chk o = true -> nopush_wf h v R -> budget h R <= d ->
     exists e' ci', enc d h o [] v = OErr e' ci').
Proof. exact leaves_lemma. Qed.
Print Assumptions C20_leaves.

(* the leaves table: func encodes (as nil) without error; each unrepresentable kind halts with
   its class; Raw is accepted exactly when the Raw option is on *)
Theorem C20_leaf_table : forall (h : heap) (o : opts) (d : nat) (ci : list nat) (c : bool),
  enc (S d) h o ci VFunc = OOk ci /\
  enc (S d) h o ci (VBad BSendChan c) = OErr EUnsupported ci /\
  enc (S d) h o ci (VBad BComplex c) = OErr EUnsupported ci /\
  enc (S d) h o ci (VBad BOddMbs c) = OErr EUnsupported ci /\
  enc (S d) h o ci (VBad BUnsupKind c) = OErr EUnsupported ci /\
  enc (S d) h o ci (VBad BMarshalErr c) = OErr EUser ci /\
  enc (S d) h o ci (VBad BMarshalPanic c) = OErr EUser ci /\
  enc (S d) h o ci (VBad BRaw c) = (if rawok o then OOk ci else OErr EUnsupported ci).
Proof. exact leaf_table_lemma. Qed.
Print Assumptions C20_leaf_table.

(* every push is popped on a normal return: a successful Encode leaves the Encoder as it was *)
Theorem C20_balanced : forall (d : nat) (h : heap) (o : opts) (s : est) (v : val) (s' : est),
  encode d h o s v = (s', ROk) -> s' = s.
Proof. exact balanced_lemma. Qed.
Print Assumptions C20_balanced.

(* after an error (whose stale stack entries stay behind) Reset gives a fresh Encoder; without
   Reset the error is sticky *)
Theorem C20_reset : forall (d : nat) (h : heap) (o : opts) (s : est) (v : val),
  encode d h o (reset s) v = encode d h o fresh v /\
  (forall e, e_err s = Some e -> encode d h o s v = (s, RErr e)) /\
  e_ci (reset s) = [] /\ e_err (reset s) = None.
Proof. exact reset_lemma. Qed.
Print Assumptions C20_reset.

(* outside the property, shown for the record: without the option every cyclic graph exhausts
   any budget (unless an unrepresentable leaf stops it first) *)
Theorem C20_nocheck_diverges : forall (h : heap) (o : opts) (v : val),
  chk o = false -> cyclic h v ->
  forall d, enc d h o [] v = OFuel \/ exists e ci, enc d h o [] v = OErr e ci /\ bad_reachable h o v e.
Proof. exact nocheck_lemma. Qed.
Print Assumptions C20_nocheck_diverges.

(* the model's checker is the one that compares both words of the reference *)
Theorem C20_typed_identity : forall (d : nat) (h : heap) (o : opts) (ci : list nat) (v : val),
  enc_addr (fun a => a) d h o ci v = enc d h o ci v.
Proof. exact enc_addr_id_lemma. Qed.
Print Assumptions C20_typed_identity.

(* [enc] records every pointer edge to a container: it is the traversal [enc_np] (Model.v) in which
   no pointer is dereferenced unrecorded *)
Theorem C20_every_pointer_edge_recorded : forall (d : nat) (h : heap) (o : opts) (ci : list nat) (v : val),
  enc_np (fun _ => false) d h o ci v = enc d h o ci v.
Proof. exact enc_np_false_lemma. Qed.
Print Assumptions C20_every_pointer_edge_recorded.

(* what findings F20-3 / F20-4 were, on the model: with pointer edges that are dereferenced without
   being recorded the hypotheses of C20_sound do not give its conclusion -- a cycle whose only
   pointer is such an edge exhausts every budget *)
Theorem C20_unrecorded_edge_refuted : exists (np : nat -> bool) (h : heap) (v : val) (R : nat),
  nopush_wf h v R /\ cyclic_ptr h v /\ forall d, enc_np np d h (mkopts true false) [] v = OFuel.
Proof. exact np_refuted_lemma. Qed.
Print Assumptions C20_unrecorded_edge_refuted.

(* ---- non-vacuity ---- *)

(* s := []interface{}{nil}; s[0] = T{F: &s}; Encode(&s): cell 0 is the slice variable, cell 1 its
   elements; the only pointer of the cycle is the field F.  Recorded (the repaired code): circular
   reference error; dereferenced by the shortcut (the pinned code): the budget is exhausted. *)
Example C20_ptr_to_builtin_collection_nonvacuous :
  let h := [VSlice 1; VArr [VIface (VStruct [VPtr 0])]] in
  enc 50 h (mkopts true false) [] (VPtr 0) = OErr ECircular [0] /\
  enc_np (fun _ => false) 50 h (mkopts true false) [] (VPtr 0) = OErr ECircular [0] /\
  enc_np (fun a => Nat.eqb a 0) 50 h (mkopts true false) [] (VPtr 0) = OFuel.
Proof. vm_compute. repeat split. Qed.

(* interior pointers: cell 0 is a *Book, cell 1 the *Header that points at the Book's embedded first
   field (the same address, another type).  The graph is acyclic and is accepted; a checker that
   compared addresses only (both cells at address 0) would reject it as circular. *)
Example C20_interior_pointer_nonvacuous :
  let h := [VStruct [VScalar; VNil NPtr; VPtr 1; VNil NPtr]; VStruct [VScalar; VNil NPtr]] in
  enc 9 h (mkopts true false) [] (VPtr 0) = OOk [] /\
  enc_addr (fun _ => 0) 9 h (mkopts true false) [] (VPtr 0) = OErr ECircular [0].
Proof. vm_compute. split; reflexivity. Qed.


Definition on : opts := mkopts true false.
Definition off : opts := mkopts false false.

(* a node pointing to itself directly and through a slice *)
Definition h_cyc : heap := [ VStruct [VPtr 0; VSlice 1]; VArr [VPtr 0] ].

Definition rk_ex (v : val) : nat :=
  match v with VStruct _ => 3 | VSlice _ => 2 | VArr _ => 1 | _ => 0 end.

Definition S_ex (w : val) : Prop :=
  w = VPtr 0 \/ w = VStruct [VPtr 0; VSlice 1] \/ w = VSlice 1 \/ w = VArr [VPtr 0].

Lemma S_ex_closed : forall w w', S_ex w -> edge h_cyc w w' -> S_ex w'.
Proof.
  unfold S_ex. intros w w' Hs He.
  destruct Hs as [ -> | [ -> | [ -> | -> ]]]; inversion He; subst; simpl in *;
    repeat match goal with
           | H : _ \/ _ |- _ => destruct H as [ <- | H ]
           | H : False |- _ => destruct H
           end; auto.
Qed.

Example C20_sound_nonvacuous :
  nopush_wf h_cyc (VPtr 0) 3 /\ cyclic_ptr h_cyc (VPtr 0) /\
  enc (budget h_cyc 3) h_cyc on [] (VPtr 0) = OErr ECircular [0].
Proof.
  assert (Hr : forall w, reach h_cyc (VPtr 0) w -> S_ex w).
  { apply reach_closed; [left; reflexivity|exact S_ex_closed]. }
  repeat apply conj.
  - exists rk_ex. split.
    + intros w Hw. apply Hr in Hw. destruct Hw as [ -> | [ -> | [ -> | -> ]]]; simpl; lia.
    + intros w w' Hw He Hnp. apply Hr in Hw.
      destruct Hw as [ -> | [ -> | [ -> | -> ]]]; inversion He; subst; simpl in *;
        repeat match goal with
               | H : _ \/ _ |- _ => destruct H as [ <- | H ]
               | H : False |- _ => destruct H
               end; simpl; try lia.
      exfalso. apply Hnp. exists 0. repeat split.
  - exists 0, 1. repeat apply conj.
    + apply reach_refl.
    + reflexivity.
    + eapply npS; [apply e_ptr|]. eapply npS; [apply e_struct; left; reflexivity|]. apply np0.
  - vm_compute. reflexivity.
Qed.

(* a diamond with heavy sharing: four pointers to one node from two parents *)
Definition h_dag : heap :=
  [ VStruct [VPtr 1; VPtr 2; VPtr 3]; VStruct [VPtr 3; VPtr 3]; VStruct [VPtr 3; VIface (VPtr 3)]; VStruct [VScalar] ].

Example C20_complete_nonvacuous : enc 20 h_dag on [] (VPtr 0) = OOk [].
Proof. vm_compute. reflexivity. Qed.

Example C20_leaves_nonvacuous :
  bad_reachable [VStruct [VScalar; VIface (VBad BSendChan false)]] on (VPtr 0) EUnsupported /\
  enc 9 [VStruct [VScalar; VIface (VBad BSendChan false)]] on [] (VPtr 0) = OErr EUnsupported [0].
Proof.
  split; [|vm_compute; reflexivity].
  exists BSendChan, false. split; [|reflexivity]. exists 3.
  eapply npS; [apply e_ptr|]. eapply npS; [apply e_struct; right; left; reflexivity|].
  eapply npS; [apply e_iface|]. apply np0.
Qed.

(* the error leaves stale entries behind; clearing only the error (not the stack) would turn a
   later acyclic value into a false circular error -- which is why reset clears e.ci *)
Example C20_reset_nonvacuous :
  let h := [VStruct [VPtr 0]; VStruct [VScalar]] in
  let s1 := fst (encode 9 h on fresh (VPtr 0)) in
  s1 = mkest [0] (Some ECircular) /\
  snd (encode 9 h on (mkest (e_ci s1) None) (VStruct [VPtr 1; VPtr 0; VPtr 1])) = RErr ECircular /\
  snd (encode 9 [VStruct [VScalar]] on (reset s1) (VArr [VPtr 0; VPtr 0])) = ROk.
Proof. vm_compute. repeat split. Qed.

(* what the model does outside the property: a cycle through a map only (no pointer) is not
   detected and exhausts every budget; so does a pointer-to-interface self reference *)
Example C20_mapcycle_outside :
  enc 1000 [VArr [VMap 0]] on [] (VMap 0) = OFuel /\
  enc 1000 [VIface (VPtr 0)] on [] (VPtr 0) = OFuel.
Proof. vm_compute. split; reflexivity. Qed.

(* C08 — canonical encoding is a pure function of the value.
   Statements only; proofs in C08/Proofs.v.  Model: C08/Model.v (the order in which kMapCanonical,
   the fast-path canonical branches and kStruct-with-missing-fields emit entries, given the
   order [es] in which the runtime happened to produce them). *)
From Coq Require Import List ZArith NArith Bool Permutation Sorted.
From Verif Require Import C08.Model C08.Proofs C08.ProofsNested.
Import ListNotations.

(* the property at full strength: for EVERY map (distinct keys of one kind) any two iteration
   orders give the same canonical output.  It is FALSE of the code (C08_perm_refuted,
   C08_time_refuted): kept here so that the guard below is visible as a guard. *)
Definition C08_full_statement : Prop :=
  forall (O : Type) (encO : O -> list N) (V : Type) (kk : kkind) (es es' : list (key O * V)),
    Permutation es es' -> NoDup (map fst es) -> Forall (fun e => kind_of O (fst e) = kk) es ->
    enc_map_canon O encO V kk es = enc_map_canon O encO V kk es'.

(* F08-1 (known finding): interface{} keys of different dynamic types with one encoding *)
Theorem C08_perm_refuted :
  exists (es es' : list (key skeyv * N)),
    Permutation es es' /\ NoDup (map fst es) /\ Forall (fun e => kind_of skeyv (fst e) = KKOob) es /\
    enc_map_canon skeyv enc_scalar N KKOob es <> enc_map_canon skeyv enc_scalar N KKOob es'.
Proof. exact refuted_lemma. Qed.
Print Assumptions C08_perm_refuted.

(* F08-2 (known finding): time.Time keys for one instant in different locations *)
Theorem C08_time_refuted :
  exists (es es' : list (key skeyv * N)),
    Permutation es es' /\ NoDup (map fst es) /\ Forall (fun e => kind_of skeyv (fst e) = KKTime) es /\
    enc_map_canon skeyv enc_scalar N KKTime es <> enc_map_canon skeyv enc_scalar N KKTime es'.
Proof. exact time_refuted_lemma. Qed.
Print Assumptions C08_time_refuted.

(* F08-3 is repaired (/repo 36f56b8): a side encoder writes no binc symbols, the out-of-band bytes
   of a string key are a function of the key: for ALL maps with distinct string keys held in
   interface{} any two iteration orders give the same canonical output under binc AsSymbols=1 *)
Theorem C08_binc_side_keys : forall (V : Type) (es es' : list (key (list N) * V)),
  Permutation es es' -> NoDup (map fst es) -> Forall (fun e => kind_of (list N) (fst e) = KKOob) es ->
  enc_map_canon (list N) binc_str_plain V KKOob es = enc_map_canon (list N) binc_str_plain V KKOob es'.
Proof. exact binc_side_lemma. Qed.
Print Assumptions C08_binc_side_keys.

(* what the code did before that repair (one symbol table across the keys of a map) *)
Example C08_binc_symbols_before_repair :
  exists (es es' : list (list N * N)),
    Permutation es es' /\ NoDup (map fst es) /\
    map snd (enc_map_canon_binc_syms es) <> map snd (enc_map_canon_binc_syms es').
Proof. exact binc_syms_refuted_lemma. Qed.

(* the property under the guard that excludes exactly those classes: no two distinct keys look
   the same to the comparator (keys_ok), and the encoding of an out-of-band key is a function of
   the key alone (encO is a function; true of the code since 36f56b8).  For ALL key kinds, key encodings, value types, maps and
   pairs of iteration orders. *)
Theorem C08_perm : forall (O : Type) (encO : O -> list N) (V : Type) (kk : kkind) (es es' : list (key O * V)),
  Permutation es es' -> NoDup (map fst es) -> keys_ok O encO V kk es ->
  enc_map_canon O encO V kk es = enc_map_canon O encO V kk es'.
Proof. exact perm_lemma. Qed.
Print Assumptions C08_perm.

(* keys compared by value (bool, string, unsigned, signed) never tie: keys_ok is automatic *)
Theorem C08_keys_ok_natural : forall (O : Type) (encO : O -> list N) (V : Type) (kk : kkind) (es : list (key O * V)),
  kk = KKBool \/ kk = KKString \/ kk = KKUint \/ kk = KKInt ->
  Forall (fun e => kind_of O (fst e) = kk) es -> keys_ok O encO V kk es.
Proof. exact natural_keys_ok. Qed.
Print Assumptions C08_keys_ok_natural.

(* out-of-band keys: keys_ok is injectivity of the key encoding on the keys of the map
   (enc_injective, an explicit hypothesis) ... *)
Theorem C08_keys_ok_oob : forall (O : Type) (encO : O -> list N) (V : Type) (es : list (key O * V)),
  Forall (fun e => kind_of O (fst e) = KKOob) es ->
  (forall o1 o2, In (KO o1) (map fst es) -> In (KO o2) (map fst es) -> encO o1 = encO o2 -> o1 = o2) ->
  keys_ok O encO V KKOob es.
Proof. exact oob_keys_ok. Qed.
Print Assumptions C08_keys_ok_oob.

(* ... discharged for the scalar key encoding modelled here, on keys that have one Go
   representation per encoding (unsigned, negative signed, strings, bools) *)
Theorem C08_enc_injective_scalars : forall a b : skeyv,
  scalar_canonical a -> scalar_canonical b -> enc_scalar a = enc_scalar b -> a = b.
Proof. exact enc_scalar_inj. Qed.
Print Assumptions C08_enc_injective_scalars.

(* what the canonical order is: a sorted permutation of the entries *)
Theorem C08_sorted : forall (O : Type) (encO : O -> list N) (V : Type) (kk : kkind) (es : list (key O * V)),
  kk <> KKBool ->
  StronglySorted (fun a b => entry_leb O encO V a b = true) (enc_map_canon O encO V kk es) /\
  Permutation (enc_map_canon O encO V kk es) es.
Proof. exact sorted_lemma. Qed.
Print Assumptions C08_sorted.

(* canonical output is a permutation of the non-canonical output, hence decodes to the same map *)
Theorem C08_same : forall (O : Type) (encO : O -> list N) (V : Type) (eqk : key O -> key O -> bool),
  (forall a b, eqk a b = true <-> a = b) ->
  forall (kk : kkind) (es : list (key O * V)),
  NoDup (map fst es) ->
  Permutation (enc_map_canon O encO V kk es) (enc_map_plain O V es) /\
  forall k, lookup O V eqk k (enc_map_canon O encO V kk es) = lookup O V eqk k (enc_map_plain O V es).
Proof. exact same_lemma. Qed.
Print Assumptions C08_same.

(* struct with missing fields: fields and missing fields are emitted in one sorted sequence,
   independent of the order in which the runtime iterates the missing-fields map *)
Theorem C08_struct : forall (O : Type) (encO : O -> list N) (V : Type) (fields missing missing' : list (key O * V)),
  Permutation missing missing' ->
  NoDup (map fst (fields ++ missing)) ->
  keys_ok O encO V KKString (fields ++ missing) ->
  enc_struct_canon O encO V fields missing = enc_struct_canon O encO V fields missing'.
Proof. exact struct_lemma. Qed.
Print Assumptions C08_struct.

(* maps at any depth: two views of one value (maps listing their entries in any order, at every
   level) have the same canonical form, provided every map in it satisfies the guard *)
Theorem C08_nested : forall (O : Type) (encO : O -> list N) (v v' : tval O),
  tequiv O v v' -> wfkeys O encO v -> canon O encO v = canon O encO v'.
Proof. exact nested_lemma. Qed.
Print Assumptions C08_nested.

(* ---- non-vacuity ---- *)
Example C08_nested_nonvacuous :
  let inner  := TMap skeyv KKString [(KS [98%N], TLeaf skeyv 1); (KS [97%N], TLeaf skeyv 2)] in
  let inner' := TMap skeyv KKString [(KS [97%N], TLeaf skeyv 2); (KS [98%N], TLeaf skeyv 1)] in
  let v  := TMap skeyv KKInt [(KI 2%Z, inner); (KI 1%Z, TList skeyv [inner'; TLeaf skeyv 0])] in
  let v' := TMap skeyv KKInt [(KI 1%Z, TList skeyv [inner; TLeaf skeyv 0]); (KI 2%Z, inner')] in
  canon skeyv enc_scalar v = canon skeyv enc_scalar v' /\
  canon skeyv enc_scalar v =
    TMap skeyv KKInt [(KI 1%Z, TList skeyv [inner'; TLeaf skeyv 0]); (KI 2%Z, inner')].
Proof. vm_compute. split; reflexivity. Qed.

Example C08_perm_nonvacuous :
  let es := [(KI 5%Z, 0%N); (KI (-3)%Z, 1%N); (KI 40%Z, 2%N)] : list (key skeyv * N) in
  keys_ok skeyv enc_scalar N KKInt es /\ NoDup (map fst es) /\
  map snd (enc_map_canon skeyv enc_scalar N KKInt es) = [1; 0; 2]%N /\
  map snd (enc_map_canon skeyv enc_scalar N KKInt (rev es)) = [1; 0; 2]%N.
Proof.
  cbv zeta. split; [apply natural_keys_ok; [auto|repeat constructor]|].
  split; [repeat constructor; simpl; intuition discriminate|].
  split; vm_compute; reflexivity.
Qed.

Example C08_oob_nonvacuous :
  let es := [(KO (SStr [98%N]), 0%N); (KO (SUint 7), 1%N); (KO (SInt (-2)), 2%N)] : list (key skeyv * N) in
  keys_ok skeyv enc_scalar N KKOob es /\
  map snd (enc_map_canon skeyv enc_scalar N KKOob es) = [1; 2; 0]%N.
Proof.
  cbv zeta. split; [|vm_compute; reflexivity].
  apply scalar_keys_ok; [repeat constructor|].
  intros o [E|[E|[E|[]]]]; inversion E; subst; simpl.
  - exact I.
  - reflexivity.
  - split; [discriminate|reflexivity].
Qed.

Example C08_struct_nonvacuous :
  enc_struct_canon skeyv enc_scalar N [(KS [97%N], 0%N); (KS [122%N], 1%N)] [(KS [109%N], 2%N); (KS [98%N], 3%N)]
  = [(KS [97%N], 0%N); (KS [98%N], 3%N); (KS [109%N], 2%N); (KS [122%N], 1%N)].
Proof. vm_compute. reflexivity. Qed.

(* C01 for json, composed down to the TEXT the driver writes: the generic (format independent) typed
   round trip of Properties/C01.v instantiated with the driver record [W_json] built from the json wire
   model (C01/ComposeJson.v over Wire/Json.v), whose interface obligations [wire_ok] and documented
   losses [same_losses .. exact_losses] are PROVED there, joined with the text-level lemma of
   Wire/JsonRT.v (dec_naked (enc_top i ++ rest) = Ok (norm i, what is left)).

   Shape of the statements (as for the other formats, Properties/C01_compose.v): for all JsonHandle
   encoder options (Indent, IntegerAsString, HTMLCharsAsIs, TermWhitespace, MapKeyAsString; BytesFormat
   base64 and StringToRaw off are required by the premises), decoder options, generic options, static
   types, well-typed values, map iteration orders and trailing bytes,
     (1) the text the driver model writes for the generic encoder's calls [to_item O pi v], followed by
         [rest], is read back by the driver model (DecodeNaked's walk) as exactly the normalised item
         [wn W (to_item O pi v)], and what is left unread is spelled out;
     (2) the generic decoder, reading that item through the driver's typed reads [j_rd_*], returns the
         value up to the documented losses (floats and nanosecond times exact, the zero time as null);
     (3) which equals the original up to the order of map entries.

   HYPOTHESES that stay in the statements (nothing else is assumed; see Print Assumptions):
     float_time_laws L / leaf_laws L   Wire/JsonLeaf.v, JsonRT.v: strconv's float texts are number
                      tokens the number reader accepts, the time text has no quote or backslash;
     json_rt_laws L   C01/ComposeJson.v: parseFloat64 returns the float64 whose text the encoder wrote;
                      when that text is a bare decimal integer (integral floats >= 2^52) it is the canonical
                      decimal of a non-zero integer; the float32 analogue (through the IEEE narrowing of the
                      float64 reading); the RFC3339Nano text of a UTC instant with
                      year 0..9999 is read back by the strict RFC 3339 reader Wire/Cbor.parse_core.
     These are statements about strconv / time, which are NOT modelled (the leaf [L] takes them from an
     oracle); for the leaf [c09_leaf_of O] strings and integers are json.go's own code (C09 model) and
     their laws are proved, so only the oracle part is assumed.  C01_json_time_law discharges the time
     law for a leaf whose time text is Wire/Cbor's fmt_rfc3339.

   What stays OUTSIDE (modelling steps, not proved): the typed decoder reads the TEXT directly; here it
   consumes the ITEM DecodeNaked's walk produces and each typed read is a hand transcription [j_rd_*]
   of the driver method as it acts on that item (C01/ComposeJson.v header: DecodeBool, DecodeInt64,
   DecodeUint64, DecodeFloat64, DecodeFloat32, DecodeStringAsBytes, DecodeBytes with base64, DecodeTime);
   default TimeFormat / BytesFormat only; reflection, struct field resolution (C16), interface slots
   (C15), extensions (C17), merge into non-zero destinations (C19), numeric cross-kind reads (C07).
   Excluded by the premises (named in [j_leaf_ok], C01/ComposeJson.v): NaN / +-Inf (written as null),
   strings that are not valid UTF-8, StringToRaw (finding F01-s2r), BytesFormat "array", times with a
   year outside 0..9999; and, as artefacts of presenting the text as DecodeNaked's item under D:
   integers under PreferFloat, unsigned >= 2^63 and floats written as bare integer literals >= 2^63 under
   SignedInteger (DecodeNaked refuses them: W_json_float_bareint_refuted), number- or bool-looking strings
   under MapKeyAsString + MapType map[interface{}]interface{} on the decoder (none with D all off).
   Only statements, closed by [exact], with [Print Assumptions] beneath each. *)
From Coq Require Import List NArith ZArith Bool Permutation.
From Verif Require Import Base.Outcome Gen.Consts Wire.Item Generic.Types Generic.Enc Generic.Dec.
From Verif Require Import C01.ComposeJson C01.ComposeJsonToy.
From Verif Require Wire.Json Wire.JsonRT Wire.JsonLeaf Wire.Cbor Wire.CborTime.
Import ListNotations.

(* The driver record built from Wire/Json.v meets the generic decoder's interface, for every leaf
   satisfying the laws and every option vector; its losses are the documented ones. *)
Theorem C01_json_wire_ok_anyleaf : forall (L : Json.leaf) (o : Json.eopts) (D : Json.dopts),
  JsonRT.leaf_laws L -> json_rt_laws L ->
  wire_ok (W_json L o D) /\ same_losses (losses_of (W_json L o D)) exact_losses.
Proof. exact (fun L o D LL RL => conj (W_json_ok L o D LL RL) (W_json_losses L o D)). Qed.
Print Assumptions C01_json_wire_ok_anyleaf.

(* ... for the C09 leaf only the oracle part is assumed *)
Theorem C01_json_wire_ok : forall (Or : JsonLeaf.oracle) (o : Json.eopts) (D : Json.dopts),
  JsonLeaf.float_time_laws (JsonLeaf.c09_leaf_of Or) -> json_rt_laws (JsonLeaf.c09_leaf_of Or) ->
  wire_ok (W_json (JsonLeaf.c09_leaf_of Or) o D) /\
  same_losses (losses_of (W_json (JsonLeaf.c09_leaf_of Or) o D)) exact_losses.
Proof. exact W_json_ok_c09. Qed.
Print Assumptions C01_json_wire_ok.

(* base64: DecodeBytes' decoder gives back what EncodeStringBytesRaw's encoder was given *)
Theorem C01_json_base64 : forall (l : list N), bytes_ok l = true -> unb64 (Json.b64 l) = Ok l.
Proof. exact unb64_b64. Qed.
Print Assumptions C01_json_base64.

(* the time hypothesis of json_rt_laws holds for a leaf that writes Wire/Cbor's model of
   AppendFormat(time.RFC3339Nano) in UTC *)
Theorem C01_json_time_law : forall (L : Json.leaf),
  (forall s n, Json.fmt_time L s n = Cbor.fmt_rfc3339 s n) ->
  forall (s : Z) (n : N), CborTime.year_ok s = true -> (n < 1000000000)%N ->
  Cbor.parse_core (Json.fmt_time L s n) = Some (s, Z.of_N n).
Proof. exact rfc3339_time_law. Qed.
Print Assumptions C01_json_time_law.

(* json, composed to text, for the C09 leaf.  Premises, all boolean / decidable except the hypotheses on
   the oracle:
     wt, supported            the value has the static type; the type is in the property's domain;
     maxDepthOpt D = max_depth O   one MaxDepth for both layers;
     jwfb                     Wire/JsonRT.v's [jwf] as a boolean: ranges, no tags, []byte as base64, map
                              keys hashable and pairwise different once decoded, unsigned < 2^63 under
                              SignedInteger (unless PreferFloat); and no nil map key;
     leaves_ok                [j_leaf_ok] on every scalar (listed above);
     depth < MaxDepth         decoderBase.depthIncr;
     rest                     anything if TermWhitespace is on or the value is not a bare number; else
                              nothing or a byte that cannot continue a number. *)
Theorem C01_json_roundtrip : forall (Or : JsonLeaf.oracle),
  JsonLeaf.float_time_laws (JsonLeaf.c09_leaf_of Or) -> json_rt_laws (JsonLeaf.c09_leaf_of Or) ->
  forall (o : Json.eopts) (D : Json.dopts) (O : gopts) (pi : order) (t : ty) (v : gv) (rest : list N),
  order_ok pi -> wt t v = true -> supported t = true ->
  Json.maxDepthOpt D = max_depth O ->
  jwfb (JsonLeaf.c09_leaf_of Or) o D false (to_item O pi v) = true ->
  leaves_ok (W_json (JsonLeaf.c09_leaf_of Or) o D) (to_item O pi v) = true ->
  (Z.of_nat (depth (to_item O pi v)) < maxdepth O)%Z ->
  (Json.termWs o = true \/ JsonRT.delim_ok (JsonRT.isnum (JsonLeaf.c09_leaf_of Or) o false (to_item O pi v)) rest) ->
  Json.dec_naked (JsonLeaf.c09_leaf_of Or) D
                 (Json.dec_fuel (Json.st0 (Json.enc_top (JsonLeaf.c09_leaf_of Or) o (to_item O pi v) ++ rest)))
                 (Json.enc_top (JsonLeaf.c09_leaf_of Or) o (to_item O pi v) ++ rest)
    = Ok (wn (W_json (JsonLeaf.c09_leaf_of Or) o D) (to_item O pi v),
          Json.inp (JsonRT.after (JsonRT.isnum (JsonLeaf.c09_leaf_of Or) o false (to_item O pi v)) (JsonRT.term o ++ rest))) /\
  of_item (W_json (JsonLeaf.c09_leaf_of Or) o D) O 0 t (wn (W_json (JsonLeaf.c09_leaf_of Or) o D) (to_item O pi v))
    = Ok (normL exact_losses O (arrange O pi v)) /\
  veq (normL exact_losses O (arrange O pi v)) (normL exact_losses O v).
Proof. exact json_compose_c09. Qed.
Print Assumptions C01_json_roundtrip.

(* the same for an arbitrary leaf under the full law record *)
Theorem C01_json_roundtrip_anyleaf : forall (L : Json.leaf), JsonRT.leaf_laws L -> json_rt_laws L ->
  forall (o : Json.eopts) (D : Json.dopts) (O : gopts) (pi : order) (t : ty) (v : gv) (rest : list N),
  order_ok pi -> wt t v = true -> supported t = true ->
  Json.maxDepthOpt D = max_depth O ->
  jwfb L o D false (to_item O pi v) = true ->
  leaves_ok (W_json L o D) (to_item O pi v) = true ->
  (Z.of_nat (depth (to_item O pi v)) < maxdepth O)%Z ->
  (Json.termWs o = true \/ JsonRT.delim_ok (JsonRT.isnum L o false (to_item O pi v)) rest) ->
  Json.dec_naked L D (Json.dec_fuel (Json.st0 (Json.enc_top L o (to_item O pi v) ++ rest)))
                 (Json.enc_top L o (to_item O pi v) ++ rest)
    = Ok (wn (W_json L o D) (to_item O pi v),
          Json.inp (JsonRT.after (JsonRT.isnum L o false (to_item O pi v)) (JsonRT.term o ++ rest))) /\
  of_item (W_json L o D) O 0 t (wn (W_json L o D) (to_item O pi v)) = Ok (normL exact_losses O (arrange O pi v)) /\
  veq (normL exact_losses O (arrange O pi v)) (normL exact_losses O v).
Proof. exact json_compose. Qed.
Print Assumptions C01_json_roundtrip_anyleaf.

(* The hypotheses are jointly satisfiable: a toy oracle for the unmodelled part (a float written as the
   digits of its bit pattern followed by '.' / 'e', the time as Wire/Cbor's RFC 3339 text) meets
   float_time_laws, hence leaf_laws, and json_rt_laws.  Not a claim about strconv. *)
Theorem C01_json_hypotheses_satisfiable :
  JsonLeaf.float_time_laws toyL /\ JsonRT.leaf_laws toyL /\ json_rt_laws toyL.
Proof. exact toy_laws. Qed.
Print Assumptions C01_json_hypotheses_satisfiable.

(* hence, with NO hypothesis left on the leaf: the composed round trip through the toy leaf, floats and
   times included *)
Theorem C01_json_roundtrip_toyleaf :
  forall (o : Json.eopts) (D : Json.dopts) (O : gopts) (pi : order) (t : ty) (v : gv) (rest : list N),
  order_ok pi -> wt t v = true -> supported t = true ->
  Json.maxDepthOpt D = max_depth O ->
  jwfb toyL o D false (to_item O pi v) = true ->
  leaves_ok (W_json toyL o D) (to_item O pi v) = true ->
  (Z.of_nat (depth (to_item O pi v)) < maxdepth O)%Z ->
  (Json.termWs o = true \/ JsonRT.delim_ok (JsonRT.isnum toyL o false (to_item O pi v)) rest) ->
  Json.dec_naked toyL D (Json.dec_fuel (Json.st0 (Json.enc_top toyL o (to_item O pi v) ++ rest)))
                 (Json.enc_top toyL o (to_item O pi v) ++ rest)
    = Ok (wn (W_json toyL o D) (to_item O pi v),
          Json.inp (JsonRT.after (JsonRT.isnum toyL o false (to_item O pi v)) (JsonRT.term o ++ rest))) /\
  of_item (W_json toyL o D) O 0 t (wn (W_json toyL o D) (to_item O pi v)) = Ok (normL exact_losses O (arrange O pi v)) /\
  veq (normL exact_losses O (arrange O pi v)) (normL exact_losses O v).
Proof. exact json_compose_toy. Qed.
Print Assumptions C01_json_roundtrip_toyleaf.

(* ---- non-vacuity: a struct with maps / slice / []byte / times / pointer / float32 / uint64 meets the
   premises and round-trips through the TEXT, with C09's string and integer code and observed float /
   time texts as the leaf.  Encoder: Indent 2, IntegerAsString 'L', TermWhitespace, MapKeyAsString
   (integer map keys and the uint64 beyond 2^53 travel in quotes, []byte as base64, the times as RFC 3339
   text, the nil pointer / nil slice / zero time as null); maps iterated backwards.  Decoder options all
   off, then MapKeyAsString on the decoder (string-keyed naked maps: every key arrives as a string). ---- *)
Open Scope N_scope.
Definition jx_T : Json.tables :=
  Json.mktables [(4609434218613702656, [49; 46; 53])] [(1069547520, [49; 46; 53])] [([49; 46; 53], 4609434218613702656)]
    [(1%Z, 5, [49; 57; 55; 48; 45; 48; 49; 45; 48; 49; 84; 48; 48; 58; 48; 48; 58; 48; 49; 46; 48; 48; 48; 48; 48; 48; 48; 48; 53; 90])].
Definition jx_L : Json.leaf := Json.c09_leaf jx_T.
Definition jx_ty : ty :=
  TStruct [([110], TInt W32); ([109], TMap TString (TSlice (TFloat F64))); ([98], TBytes); ([116], TTime);
           ([115], TString); ([112], TPtr TBool); ([107], TMap (TInt W8) TString); ([102], TFloat F32);
           ([117], TUint W64); ([122], TArray 2 TTime)].
Definition jx_val : gv :=
  GStruct [([110], GInt (-7));
           ([109], GMap (Some [(GStr [97], GList (Some [GF64 4609434218613702656])); (GStr [], GList None)]));
           ([98], GBytes (Some [1; 2; 3; 4])); ([116], GTime 1 5);
           ([115], GStr [104; 34; 105]); ([112], GPtr None);
           ([107], GMap (Some [(GInt 5, GStr [120]); (GInt (-3), GStr [49; 50])]));
           ([102], GF32 1069547520); ([117], GUint 18446744073709551615);
           ([122], GArr [GTime time_zero_sec 0; GTime 1 5])].
Definition jx_o : Json.eopts := Json.mkeopts 2 76 false true true false false.
Definition jx_D : Json.dopts := Json.mkdopts false false false false 0.
Definition jx_D3 : Json.dopts := Json.mkdopts false false true false 5.
Definition jx_O : gopts := mkgopts false false false 0%Z false.
Definition jx_O3 : gopts := mkgopts false false false 5%Z false.
Definition jx_pi : order := fun _ l => rev l.

Example C01_json_nonvacuous :
  wt jx_ty jx_val = true /\ supported jx_ty = true /\
  jwfb jx_L jx_o jx_D false (to_item jx_O jx_pi jx_val) = true /\
  leaves_ok (W_json jx_L jx_o jx_D) (to_item jx_O jx_pi jx_val) = true /\
  (Z.of_nat (depth (to_item jx_O jx_pi jx_val)) < maxdepth jx_O)%Z /\
  (* the text, indented by 2 and followed by the TermWhitespace blank: an object with the members
     n: -7, m: an object with the members (empty name): null and a: [1.5], b: AQIDBA== in quotes,
     t: 1970-01-01T00:00:01.000000005Z in quotes, s: h\i with the inner quote escaped, p: null,
     k: an object with the QUOTED integer names -3 and 5, f: 1.5, u: 18446744073709551615 in quotes,
     z: [null, the time text] *)
  Json.enc_top jx_L jx_o (to_item jx_O jx_pi jx_val) =
    [123; 10; 32; 32; 34; 110; 34; 58; 32; 45; 55; 44; 10; 32; 32; 34;
     109; 34; 58; 32; 123; 10; 32; 32; 32; 32; 34; 34; 58; 32; 110; 117;
     108; 108; 44; 10; 32; 32; 32; 32; 34; 97; 34; 58; 32; 91; 10; 32; 32;
     32; 32; 32; 32; 49; 46; 53; 10; 32; 32; 32; 32; 93; 10; 32; 32; 125;
     44; 10; 32; 32; 34; 98; 34; 58; 32; 34; 65; 81; 73; 68; 66; 65; 61;
     61; 34; 44; 10; 32; 32; 34; 116; 34; 58; 32; 34; 49; 57; 55; 48; 45;
     48; 49; 45; 48; 49; 84; 48; 48; 58; 48; 48; 58; 48; 49; 46; 48; 48;
     48; 48; 48; 48; 48; 48; 53; 90; 34; 44; 10; 32; 32; 34; 115; 34; 58;
     32; 34; 104; 92; 34; 105; 34; 44; 10; 32; 32; 34; 112; 34; 58; 32;
     110; 117; 108; 108; 44; 10; 32; 32; 34; 107; 34; 58; 32; 123; 10; 32;
     32; 32; 32; 34; 45; 51; 34; 58; 32; 34; 49; 50; 34; 44; 10; 32; 32;
     32; 32; 34; 53; 34; 58; 32; 34; 120; 34; 10; 32; 32; 125; 44; 10; 32;
     32; 34; 102; 34; 58; 32; 49; 46; 53; 44; 10; 32; 32; 34; 117; 34; 58;
     32; 34; 49; 56; 52; 52; 54; 55; 52; 52; 48; 55; 51; 55; 48; 57; 53;
     53; 49; 54; 49; 53; 34; 44; 10; 32; 32; 34; 122; 34; 58; 32; 91; 10;
     32; 32; 32; 32; 110; 117; 108; 108; 44; 10; 32; 32; 32; 32; 34; 49;
     57; 55; 48; 45; 48; 49; 45; 48; 49; 84; 48; 48; 58; 48; 48; 58; 48;
     49; 46; 48; 48; 48; 48; 48; 48; 48; 48; 53; 90; 34; 10; 32; 32; 93;
     10; 125; 32] /\
  (* (1) text -> item, the trailing byte 49 and the terminator left unread *)
  Json.dec_naked jx_L jx_D (Json.dec_fuel (Json.st0 (Json.enc_top jx_L jx_o (to_item jx_O jx_pi jx_val) ++ [49])))
                 (Json.enc_top jx_L jx_o (to_item jx_O jx_pi jx_val) ++ [49])
    = Ok (wn (W_json jx_L jx_o jx_D) (to_item jx_O jx_pi jx_val), [32; 49]) /\
  (* the []byte, the time and the quoted uint64 arrive as strings; the typed reads recover them *)
  wn (W_json jx_L jx_o jx_D) (to_item jx_O jx_pi (GStruct [([98], GBytes (Some [1; 2; 3; 4])); ([117], GUint 18446744073709551615)]))
    = IMap [(IStr [98], IStr [65; 81; 73; 68; 66; 65; 61; 61]);
            (IStr [117], IStr [49; 56; 52; 52; 54; 55; 52; 52; 48; 55; 51; 55; 48; 57; 53; 53; 49; 54; 49; 53])] /\
  (* (2) item -> value: everything back, the maps in the order the encoder visited them *)
  of_item (W_json jx_L jx_o jx_D) jx_O 0 jx_ty (wn (W_json jx_L jx_o jx_D) (to_item jx_O jx_pi jx_val))
    = Ok (normL exact_losses jx_O (arrange jx_O jx_pi jx_val)) /\
  normL exact_losses jx_O (arrange jx_O jx_pi jx_val) <> jx_val /\
  (* the same with MapKeyAsString on the decoder's handle and MaxDepth 5 *)
  jwfb jx_L jx_o jx_D3 false (to_item jx_O3 jx_pi jx_val) = true /\
  leaves_ok (W_json jx_L jx_o jx_D3) (to_item jx_O3 jx_pi jx_val) = true /\
  Json.dec_naked jx_L jx_D3 (Json.dec_fuel (Json.st0 (Json.enc_top jx_L jx_o (to_item jx_O3 jx_pi jx_val) ++ [49])))
                 (Json.enc_top jx_L jx_o (to_item jx_O3 jx_pi jx_val) ++ [49])
    = Ok (wn (W_json jx_L jx_o jx_D3) (to_item jx_O3 jx_pi jx_val), [32; 49]) /\
  of_item (W_json jx_L jx_o jx_D3) jx_O3 0 jx_ty (wn (W_json jx_L jx_o jx_D3) (to_item jx_O3 jx_pi jx_val))
    = Ok (normL exact_losses jx_O3 (arrange jx_O3 jx_pi jx_val)) /\
  (* the leaf's time text is the RFC 3339 model's, and the strict reader takes it back *)
  Json.fmt_time jx_L 1 5 = Cbor.fmt_rfc3339 1 5 /\ Cbor.parse_core (Json.fmt_time jx_L 1 5) = Some (1%Z, 5%Z).
Proof.
  repeat apply conj; try (vm_compute; reflexivity); try (vm_compute; discriminate).
Qed.

(* what the premises exclude does not come back: NaN is written as null and reads back as 0;
   a string that is not valid UTF-8 comes back with U+FFFD *)
Example C01_json_exclusions_needed :
  let W := W_json jx_L jx_o jx_D in
  leaves_ok W (to_item jx_O jx_pi (GF64 9221120237041090560)) = false /\
  of_item W jx_O 0 (TFloat F64) (wn W (to_item jx_O jx_pi (GF64 9221120237041090560))) = Ok (GF64 0) /\
  leaves_ok W (to_item jx_O jx_pi (GStr [233])) = false /\
  of_item W jx_O 0 TString (wn W (to_item jx_O jx_pi (GStr [233]))) = Ok (GStr [239; 191; 189]).
Proof. vm_compute. repeat apply conj; reflexivity. Qed.

(* base64 on concrete data: all three padding lengths; a stray byte is refused *)
Example C01_json_base64_nonvacuous :
  unb64 (Json.b64 [1; 2; 3; 4]) = Ok [1; 2; 3; 4] /\ Json.b64 [1; 2; 3; 4] = [65; 81; 73; 68; 66; 65; 61; 61] /\
  unb64 (Json.b64 [255; 254]) = Ok [255; 254] /\ unb64 (Json.b64 [0; 0; 0]) = Ok [0; 0; 0] /\ unb64 [] = Ok [] /\
  unb64 [65; 81; 73] = Err EOther /\ unb64 [65; 81; 61; 65] = Err EOther.
Proof. vm_compute. repeat apply conj; reflexivity. Qed.

(* the toy leaf on concrete data: ANY float and any instant with a 4-digit year go through *)
Example C01_json_toyleaf_nonvacuous :
  let v := GStruct [([102], GF64 13830554455654793216); ([103], GF32 3212836864); ([116], GTime 1700000000 123456789)] in
  let t := TStruct [([102], TFloat F64); ([103], TFloat F32); ([116], TTime)] in
  wt t v = true /\ jwfb toyL jx_o jx_D false (to_item jx_O jx_pi v) = true /\
  leaves_ok (W_json toyL jx_o jx_D) (to_item jx_O jx_pi v) = true /\
  Json.dec_naked toyL jx_D (Json.dec_fuel (Json.st0 (Json.enc_top toyL jx_o (to_item jx_O jx_pi v))))
                 (Json.enc_top toyL jx_o (to_item jx_O jx_pi v))
    = Ok (wn (W_json toyL jx_o jx_D) (to_item jx_O jx_pi v), [32]) /\
  of_item (W_json toyL jx_o jx_D) jx_O 0 t (wn (W_json toyL jx_o jx_D) (to_item jx_O jx_pi v)) = Ok v.
Proof. vm_compute. repeat apply conj; reflexivity. Qed.

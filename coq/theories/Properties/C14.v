(* C14 — "Nesting depth, not input size, bounds the decoder's stack".
   Only statements, closed by [exact], with [Print Assumptions] beneath each.

   Per format F the recursion counter of the models is bounded by  c1 * MaxDepth + c0  with
   c1 = 1, c0 = 0 (one model frame per nested value / container) for EVERY byte list, option
   vector and fuel, on the decode-into-interface{} path AND in the skip / raw-capture walker
   (C14_F_bound), and nesting to MaxDepth or beyond is an error, never Ok (C14_F_error).
   The statements are the wire-layer lemmas of Wire/{Cbor,Msgpack,Simple,Binc}*.v (models tied
   to the code by the checks Wcbor, Wmsgpack, Wsimple, Wbinc and, on nested inputs, by
   C14/Corr.v), assembled in C14/Bridge.v.  The typed path (decodeValue over destination types)
   is modelled in C14/Typed.v: c1 = 2 (an interface{} holding a container costs two frames per
   level), pointers cost none.

   json: the decode-into-interface{} model of Wire/Json.v (tied by the check Wjson) has the same
   two results, for every leaf implementation (C14_json_bound, C14_json_error, C14_json_refuse);
   its skip walker is an iterative scanner (recursion level 1) and enforces no depth.

   What is NOT here: bytes of stack per frame (runtime); "_partial" marks statements over a
   family of inputs rather than all inputs (kept next to their full versions C14_cbor_error and
   C14_simple_error, which they preceded). *)
From Coq Require Import List NArith ZArith Lia Bool.
From Verif Require Import Base.Outcome Wire.Item Gen.Consts.
From Verif Require Wire.Cbor Wire.Msgpack Wire.Simple Wire.Binc Wire.SimpleProofs Wire.SimpleDepth Wire.BincProofs.
From Verif Require Wire.CborDepthFull Wire.SimpleDepthFull Wire.Json Wire.JsonDepth C14.JsonFull C14.IllFormed.
From Verif Require Import C14.Bridge C14.Typed C14.TypedProofs C14.TypedFull.
Import ListNotations.

(* ------------------------------ cbor ------------------------------ *)
(* from Wcbor_dec_maxrec / Wcbor_skip_maxrec (CborDepth.dec_maxrec_lemma, skip_maxrec_lemma);
   the walker is entered at depth d = 0 (Raw) or 1 (unknown struct field) *)
Theorem C14_cbor_bound : forall (D : Cbor.dopts) (f : nat) (b : list N),
  (Z.of_nat (Cbor.dec_maxrec D f b) <= 1 * Cbor.maxdepth D + 0)%Z /\
  (forall d, (0 <= d)%Z -> (Z.of_nat (Cbor.skip_maxrec D f d b) <= 1 * Cbor.maxdepth D + 0)%Z).
Proof. exact cbor_bound. Qed.
Print Assumptions C14_cbor_bound.

(* FULL: for EVERY option vector, fuel and input, a value nested MaxDepth levels or more is never
   returned.  The depth measure is Item.depth, which counts arrays, maps AND tags: exactly the
   places where the cbor model (Wire/Cbor.v dec_body / dec_tag, the code after F14-2) calls
   depthIncr.  A tag the decoder keeps is an ITag node of the result and costs one level; a tag it
   skips (SkipUnexpectedTags, the self-describe tag 55799) or consumes (tags 0..5) leaves no ITag
   node in the result and costs none, so no cbor-specific measure is needed
   (Wire/CborDepthFull.v: induction on the fuel over the five mutually recursive functions with
   the entry depth generalised: Ok i at entry depth d < MaxDepth implies d + depth i < MaxDepth). *)
Theorem C14_cbor_error : forall (D : Cbor.dopts) (f : nat) (b : list N) (i : item) (rest : list N),
  (Cbor.maxdepth D <= Z.of_nat (depth i))%Z -> Cbor.dec_naked D f b <> Ok (i, rest).
Proof. exact CborDepthFull.dec_depth_error. Qed.
Print Assumptions C14_cbor_error.

(* the boundary is tight and skipped tags do not count: MaxDepth 3 returns values of depth 2
   (two arrays; a kept tag around an array), refuses depth 3, and with SkipUnexpectedTags four
   tags around two arrays still decode (to a value of depth 2) *)
Example C14_cbor_error_nonvacuous :
  let D := Cbor.mkdo false false false 3 in
  Cbor.maxdepth D = 3%Z /\
  Cbor.dec_naked D 100 [201; 129; 1]%N = Ok (ITag 9 (IArr [IUint 1]), []) /\ depth (ITag 9 (IArr [IUint 1])) = 2%nat /\
  Cbor.dec_naked D 100 [201; 129; 201; 1]%N = Err EDepth /\
  Cbor.dec_naked (Cbor.mkdo false false true 3) 100 [201; 202; 203; 204; 129; 129; 1]%N = Ok (IArr [IArr [IUint 1]], []) /\
  Cbor.dec_naked D 100 [217; 217; 247; 129; 129; 1]%N = Ok (IArr [IArr [IUint 1]], []).
Proof. vm_compute. repeat apply conj; reflexivity. Qed.

(* PARTIAL (kept; superseded by C14_cbor_error as far as "never Ok" goes, but it names the error
   class): any mixture [l] of one-element arrays, one-entry maps (nesting through the value)
   and kept tags, MaxDepth levels or more, around any non-empty core, is the depth error. *)
Theorem C14_cbor_error_partial : forall (D : Cbor.dopts) (l : list nk) (core : list N) (f : nat),
  Cbor.do_skiptags D = false -> core <> [] -> (Cbor.maxdepth D <= Z.of_nat (length l))%Z -> (3 * length l + 1 <= f)%nat ->
  Cbor.dec_naked D f (nest l core) = Err EDepth.
Proof. exact cbor_error. Qed.
Print Assumptions C14_cbor_error_partial.

(* ill-formed nesting that is NOT a container (C14/IllFormed.v; harness stream "ill"): two or more
   indefinite-length string heads (0x5f / 0x7f, any mixture) in a row, whatever follows, are
   "invalid descriptor" in BOTH cbor parsers, at every entry depth and with every fuel >= 2, and the
   walker takes no recursion frame for them: a chunk position never nests *)
Theorem C14_cbor_chunk_heads_error : forall (D : Cbor.dopts) (f : nat) (d : Z) (h1 h2 : N) (hs rest : list N),
  IllFormed.str_heads (h1 :: h2 :: hs) ->
  Cbor.skip D (S (S f)) d ((h1 :: h2 :: hs) ++ rest) = Err EBadDesc /\
  Cbor.skip_maxrec D (S (S f)) d ((h1 :: h2 :: hs) ++ rest) = O /\
  Cbor.dec_naked D (S (S f)) ((h1 :: h2 :: hs) ++ rest) = Err EBadDesc.
Proof. exact IllFormed.cbor_nested_chunk_heads_error. Qed.
Print Assumptions C14_cbor_chunk_heads_error.

Example C14_cbor_chunk_heads_nonvacuous :
  IllFormed.str_heads [95; 127; 95]%N /\
  Cbor.skip (Cbor.mkdo false false false 0) 5 0 ([95; 127; 95] ++ [65; 1; 255])%N = Err EBadDesc /\
  (* one head followed by a well-formed chunk and a break is a string, and is skipped *)
  Cbor.skip (Cbor.mkdo false false false 0) 5 0 [95; 65; 1; 255; 7]%N = Ok [7%N].
Proof.
  split; [repeat constructor; (left; reflexivity) || (right; reflexivity) |].
  vm_compute. split; reflexivity.
Qed.

(* ------------------------------ msgpack ------------------------------ *)
(* from Wmsgpack_dec_depth_rec / Wmsgpack_skip_depth_rec *)
Theorem C14_msgpack_bound : forall (D : Msgpack.dopts) (f : nat) (b : list N),
  (Z.of_nat (Msgpack.dec_maxrec D f b) <= 1 * Msgpack.maxdepth D + 0)%Z /\
  (Z.of_nat (Msgpack.skip_maxrec D f b) <= 1 * Msgpack.maxdepth D + 0)%Z.
Proof. exact msgpack_bound. Qed.
Print Assumptions C14_msgpack_bound.

(* from Wmsgpack_dec_depth_val: for EVERY input and fuel, a value nested MaxDepth levels or
   more is never returned *)
Theorem C14_msgpack_error : forall (D : Msgpack.dopts) (f : nat) (b : list N) (i : item) (rest : list N),
  (Msgpack.maxdepth D <= Z.of_nat (depth i))%Z -> Msgpack.dec_naked D f b <> Ok (i, rest).
Proof. exact msgpack_error. Qed.
Print Assumptions C14_msgpack_error.

(* ------------------------------ simple ------------------------------ *)
(* from W_simple_depth (every fuel) and W_simple_skip_depth (the walker: stated by the wire layer
   for fuel >= 2*len+1, the fuel that always suffices; from any cursor position and entry depth) *)
Theorem C14_simple_bound : forall (D : Simple.dopts) (l : list N) (fuel : nat),
  (Z.of_nat (Simple.maxrec (snd (Simple.dec_naked_i D fuel l))) <= 1 * Simple.maxdepth D + 0)%Z /\
  fst (Simple.dec_naked_i D fuel l) = Simple.dec_naked D fuel l /\
  (forall dp z, (2 * length (Simple.suf z) + 1 <= fuel)%nat -> (0 <= dp)%Z ->
     (Z.of_nat (snd (Simple.nvb_i D fuel dp z)) <= 1 * Simple.maxdepth D + 0)%Z).
Proof. exact simple_bound. Qed.
Print Assumptions C14_simple_bound.

(* FULL: for EVERY option vector, fuel and input, a value nested MaxDepth levels or more is never
   returned (Wire/SimpleDepthFull.v: induction on the fuel over dec / dec_elems / dec_pairs with the
   entry depth generalised; the containerLenNil branch of depth_enter, which skips depthIncr, is
   dead because decLen never returns a negative length after F14-3/simple) *)
Theorem C14_simple_error : forall (D : Simple.dopts) (fuel : nat) (l : list N) (i : item) (rest : list N),
  (Simple.maxdepth D <= Z.of_nat (depth i))%Z -> Simple.dec_naked D fuel l <> Ok (i, rest).
Proof. exact SimpleDepthFull.dec_depth_error. Qed.
Print Assumptions C14_simple_error.

(* MaxDepth 3: depth 2 is returned (array in array; map in array), depth 3 is refused whether the
   third level sits in a map key or a map value *)
Example C14_simple_error_nonvacuous :
  let D := Simple.mkdopts false false 3 in
  Simple.maxdepth D = 3%Z /\
  Simple.dec_naked D 100 [233; 1; 233; 1; 8; 5]%N = Ok (IArr [IArr [IUint 5]], []) /\
  Simple.dec_naked D 100 [233; 1; 241; 1; 8; 5; 8; 5; 7]%N = Ok (IArr [IMap [(IUint 5, IUint 5)]], [7%N]) /\
  Simple.dec_naked D 100 [233; 1; 241; 1; 8; 5; 233; 1; 1]%N = Err EDepth /\
  Simple.dec_naked D 100 [233; 1; 241; 1; 233; 1; 1; 8; 5]%N = Err EDepth.
Proof. vm_compute. repeat apply conj; reflexivity. Qed.

(* PARTIAL (kept: encoder outputs, not all byte strings, but it names the error class): from W_simple_depth_error: every encodable item
   nested MaxDepth levels or more, in any mixture of arrays and maps (keys or values), followed by
   anything, is refused with the depth error *)
Theorem C14_simple_error_partial : forall (o : Simple.eopts) (D : Simple.dopts) (i : item) (rest : list N),
  Simple.swf o D i -> (Simple.signedInteger D = false \/ Simple.sint_ok i) -> (Simple.maxdepth D <= Z.of_nat (depth i))%Z ->
  Simple.dec_naked D (Simple.dec_fuel (Simple.enc o false i ++ rest)) (Simple.enc o false i ++ rest) = Err EDepth.
Proof. exact SimpleDepth.W_simple_depth_error_lemma. Qed.
Print Assumptions C14_simple_error_partial.

(* ------------------------------ binc ------------------------------ *)
(* the binc model's recursion counter is its recursion FUEL (one unit per nested value): that
   1 * MaxDepth + 0 units always suffice, for every input and symbol table, is the bound
   (from W_binc_dec_total / W_binc_skip_total) *)
Theorem C14_binc_bound : forall (o : Binc.dopts) (st : Binc.dstate) (inp : list N),
  (1 <= Binc.maxdepth o)%N ->
  Binc.dec o (N.to_nat (1 * Binc.maxdepth o + 0)) (Binc.fuel_l inp) 0 st inp <> OutOfFuel /\
  Binc.skip o (N.to_nat (1 * Binc.maxdepth o + 0)) (Binc.fuel_l inp) 0 st inp <> OutOfFuel.
Proof. exact binc_bound. Qed.
Print Assumptions C14_binc_bound.

(* from W_binc_depth_bound: for EVERY input, a value nested MaxDepth levels or more is never returned *)
Theorem C14_binc_error : forall (o : Binc.dopts) (st : Binc.dstate) (inp : list N) (x : item) (r : list N) (st' : Binc.dstate),
  (1 <= Binc.maxdepth o)%N -> (Binc.maxdepth o <= N.of_nat (depth x))%N -> Binc.dec_naked o st inp <> Ok (x, r, st').
Proof. exact binc_error. Qed.
Print Assumptions C14_binc_error.

(* ------------------------------ json ------------------------------ *)
(* from W_json_depth (Wire/JsonDepth.v depth_lemma): for EVERY leaf implementation, option vector,
   fuel and tokenizer state (every input, every pending token): the instrumented decoder is the
   decoder and its recursion counter (one level per nested decode(&interface{}) call, the top call
   being level 1) is at most 1 * MaxDepth + 0; the skip / raw scanner (nextValueBytes) is one loop
   over the bytes: recursion level 1 whatever the input *)
Theorem C14_json_bound : forall (L : Json.leaf) (D : Json.dopts) (fuel : nat) (s : Json.st),
  fst (Json.deci L D fuel 0 1 false s) = Json.dec L D fuel 0 false s /\
  (Z.of_nat (snd (Json.deci L D fuel 0 1 false s)) <= 1 * Json.maxdepth D + 0)%Z /\
  (Z.of_nat Json.skip_maxrec <= 1 * Json.maxdepth D + 0)%Z.
Proof. exact JsonFull.json_bound. Qed.
Print Assumptions C14_json_bound.

(* FULL, same shape as the binary formats: for EVERY leaf, option vector, fuel and input, a value
   nested MaxDepth levels or more is never returned (C14/JsonFull.v) *)
Theorem C14_json_error : forall (L : Json.leaf) (D : Json.dopts) (fuel : nat) (l : list N) (i : item) (rest : list N),
  (Json.maxdepth D <= Z.of_nat (depth i))%Z -> Json.dec_naked L D fuel l <> Ok (i, rest).
Proof. exact JsonFull.json_error. Qed.
Print Assumptions C14_json_error.

(* from W_json_depth_error: ... and what is returned instead is the depth error, as soon as the
   container is met: an opening bracket or brace seen when MaxDepth - 1 containers are open is
   refused whatever follows, in every position *)
Theorem C14_json_refuse : forall (L : Json.leaf) (D : Json.dopts) (f : nat) (dp : Z) (key : bool) (s s1 : Json.st),
  Json.advance s = Ok s1 -> (Json.tok s1 = 91%N \/ Json.tok s1 = 123%N) -> (Json.maxdepth D <= dp + 1)%Z ->
  Json.dec L D (S f) dp key s = Err EDepth.
Proof. exact JsonDepth.dec_depth_refuse. Qed.
Print Assumptions C14_json_refuse.

(* ------------------------------ typed path ------------------------------ *)
(* for EVERY type environment (recursive declarations included), destination type, MaxDepth,
   answer stream of the driver (i.e. every input of every format) and fuel: at most
   2 * MaxDepth + 0 decodeValue frames; pointer and struct nesting of the type adds nothing
   (pointers are followed in a loop, structs count as containers) *)
Theorem C14_typed_bound : forall (E : env) (md : Z) (f : nat) (t : ty) (a : list N),
  (Z.of_nat (typed_maxrec E md f t a) <= 2 * Typed.maxdepth md + 0)%Z.
Proof. exact typed_bound_lemma. Qed.
Print Assumptions C14_typed_bound.

(* PARTIAL (one family): type L []L, k >= MaxDepth nested one-element lists: the depth error *)
Theorem C14_typed_error_partial : forall (md : Z) (k f : nat),
  (Typed.maxdepth md <= Z.of_nat k)%Z -> (1 <= k)%nat -> (5 * k + 1 <= f)%nat ->
  typed_decode Lenv md f (TNamed 0) (nested k) = Err EDepth.
Proof. exact typed_error_lemma. Qed.
Print Assumptions C14_typed_error_partial.

(* FULL, mirroring C14_msgpack_error: for EVERY type environment, destination type, MaxDepth, answer
   stream of the driver (i.e. every input of every format) and fuel, the typed decode never returns Ok
   when the stream nests MaxDepth levels or more.  The measure [nesting E f t a] (C14/TypedFull.v) does
   not mention MaxDepth: it is the largest number of levels open at the same time while the grammar of
   the destination type t reads the answer stream a with NO depth limit (same questions, same order,
   same fuel as the model), a level being opened exactly where the code calls depthIncr: by a container
   head that is not the stream nil (slice / array / map / struct; also the []interface{} / map a
   DecodeNaked array or map is decoded into) and by a tag / extension met under an interface{}
   destination; pointers, named types and the second frame of an interface{} open none. *)
Theorem C14_typed_error : forall (E : env) (md : Z) (f : nat) (t : ty) (a rest : list N),
  (Typed.maxdepth md <= nesting E f t a)%Z -> typed_decode E md f t a <> Ok rest.
Proof. exact typed_error_full. Qed.
Print Assumptions C14_typed_error.

(* ... what it returns is the depth error (no other error can come first: the limited and the unlimited
   reader walk the same path up to the refused depthIncr) ... *)
Theorem C14_typed_refuse : forall (E : env) (md : Z) (f : nat) (t : ty) (a : list N),
  (Typed.maxdepth md <= nesting E f t a)%Z -> typed_decode E md f t a = Err EDepth.
Proof. exact typed_refuse_full. Qed.
Print Assumptions C14_typed_refuse.

(* ... and the boundary is exact: a stream nesting fewer than MaxDepth levels never meets a depth check
   that fires; the decoder returns what the unlimited reader [typed_read] returns *)
Theorem C14_typed_accept : forall (E : env) (md : Z) (f : nat) (t : ty) (a : list N),
  (nesting E f t a < Typed.maxdepth md)%Z -> typed_decode E md f t a = typed_read E f t a.
Proof. exact typed_accept_full. Qed.
Print Assumptions C14_typed_accept.

(* ------------------------------ non-vacuity ------------------------------ *)
(* MaxDepth 3: two levels decode, three are refused, on both parsers of every format; the
   counters reach their bound on hostile input (4000 nested heads, default MaxDepth) *)
Example C14_cbor_nonvacuous :
  let D := Cbor.mkdo false false false 3 in
  Cbor.dec_naked D 100 (nest [NArr; NMapV] [1%N]) = Ok (IArr [IMap [(IUint 1, IUint 1)]], []) /\
  Cbor.dec_naked D 100 (nest [NArr; NMapV; NTag] [1%N]) = Err EDepth /\
  Cbor.skip D 100 1 (nest [NArr; NTag] [1%N]) = Err EDepth /\
  Cbor.dec_maxrec (Cbor.mkdo false false false 0) (N.to_nat 9000%N) (repeat 129%N (N.to_nat 4000%N)) = 1023%nat /\
  Cbor.skip_maxrec (Cbor.mkdo false false false 0) (N.to_nat 9000%N) 0 (repeat 129%N (N.to_nat 4000%N)) = 1023%nat.
Proof. vm_compute. repeat apply conj; reflexivity. Qed.

Example C14_msgpack_nonvacuous :
  let D := Msgpack.mkdopts true false false 3 in
  Msgpack.dec_naked D 100 [145; 145; 1]%N = Ok (IArr [IArr [IInt 1]], []) /\
  Msgpack.dec_naked D 100 [145; 145; 145; 1]%N = Err EDepth /\
  Msgpack.skip D 100 [145; 145; 145; 1]%N = Err EDepth /\
  Msgpack.dec_maxrec (Msgpack.mkdopts true false false 0) (N.to_nat 9000%N) (repeat 145%N (N.to_nat 4000%N)) = 1024%nat.
Proof. vm_compute. repeat apply conj; reflexivity. Qed.

(* json with C09's string code as the leaf: MaxDepth 3 returns depth 2, refuses depth 3; the
   counter reaches the bound on 4000 opening brackets; the scanner takes them without recursion *)
Example C14_json_nonvacuous :
  let Lf := Json.c09_leaf (Json.mktables [] [] [] []) in
  let D := Json.mkdopts false false false false 3 in
  Json.maxdepth D = 3%Z /\
  Json.dec_naked Lf D 100 [91; 123; 34; 97; 34; 58; 49; 125; 93]%N = Ok (IArr [IMap [(IStr [97%N], IUint 1)]], []) /\
  Json.dec_naked Lf D 100 [91; 123; 34; 97; 34; 58; 91; 93; 125; 93]%N = Err EDepth /\
  Json.dec Lf D 100 2 false (Json.st0 [91; 93]%N) = Err EDepth /\
  snd (Json.deci Lf (Json.mkdopts false false false false 0) (N.to_nat 10000%N) 0 1 false (Json.st0 (repeat 91%N (N.to_nat 4000%N)))) = 1024%nat /\
  Json.skip 0 (repeat 91%N (N.to_nat 3000%N) ++ repeat 93%N (N.to_nat 3000%N) ++ [55%N]) = Ok [55%N].
Proof. vm_compute. repeat apply conj; reflexivity. Qed.

Definition Tenv : env := fun _ => TStruct [TSlice (TNamed 0); TMap TScalar (TNamed 0); TPtr (TNamed 0)].
Example C14_typed_nonvacuous :
  (* type T struct{ A []T; M map[string]T; P *T }: {P: {P: {}}} decodes with MaxDepth 4, is refused with 3;
     {A: [ {A: [ ... ]} ]} from an interface{}-free recursive type reaches MaxDepth frames *)
  typed_decode Tenv 4 100 (TNamed 0) [1; 3; 3; 1; 3; 3; 1; 2]%N = Ok [] /\
  typed_decode Tenv 3 100 (TNamed 0) [1; 3; 3; 1; 3; 3; 1; 2]%N = Err EDepth /\
  typed_maxrec Lenv 0 (N.to_nat 20000%N) (TNamed 0) (nested (N.to_nat 3000%N)) = 1023%nat /\
  (* an interface{} destination fed arrays: two frames per level *)
  typed_maxrec Lenv 0 (N.to_nat 20000%N) TIface (concat (repeat [1; 1; 3]%N (N.to_nat 3000%N))) = 2047%nat.
Proof. vm_compute. repeat apply conj; reflexivity. Qed.

(* the nesting measure on concrete streams: {P: {P: {}}} into T opens 3 levels (refused by MaxDepth 3,
   accepted by 4: C14_typed_nonvacuous); k nested one-element lists into type L []L open k levels; an
   interface{} fed array-in-array-in-tag opens 3 levels (6 frames); a nil container head and pointers
   open none; the unlimited reader consumes the whole stream *)
Example C14_typed_error_nonvacuous :
  nesting Tenv 100 (TNamed 0) [1; 3; 3; 1; 3; 3; 1; 2]%N = 3%Z /\
  typed_read Tenv 100 (TNamed 0) [1; 3; 3; 1; 3; 3; 1; 2]%N = Ok [] /\
  typed_decode Tenv 3 100 (TNamed 0) [1; 3; 3; 1; 3; 3; 1; 2]%N = Err EDepth /\
  typed_decode Tenv 4 100 (TNamed 0) [1; 3; 3; 1; 3; 3; 1; 2]%N = Ok [] /\
  nesting Lenv 100 (TNamed 0) (nested 7) = 7%Z /\
  nesting Lenv (N.to_nat 20000%N) (TNamed 0) (nested (N.to_nat 3000%N)) = 3000%Z /\
  nesting Lenv 100 TIface [1; 1; 3; 1; 1; 3; 1; 3; 1; 9]%N = 3%Z /\
  typed_decode Lenv 3 100 TIface [1; 1; 3; 1; 1; 3; 1; 3; 1; 9]%N = Err EDepth /\
  nesting Tenv 100 (TPtr (TPtr (TNamed 0))) [1; 0]%N = 0%Z.
Proof. vm_compute. repeat apply conj; reflexivity. Qed.

(* C15 — schema-less decoding is faithful: generic trees re-encode to the same data.
   Only statements, closed by [exact], with [Print Assumptions] beneath each.

   Vocabulary.  C15/Model.v: [naked_run fo i] = the wire decoder model run on the wire encoder
   model's output for item [i] (what Decode(&interface{}) builds), [naked_norm] = the format's norm,
   [naked_tree] adds MapType = map[string]interface{}; [tree_gv g] = the tree as a Go value (dynamic
   types int64 / uint64 / float64 / string / []byte / time.Time / []interface{} / map), [reenc O g] =
   Generic/Enc.v [enc] of it = what Encode(tree) asks the driver to write; [compose_wire W1 W2] = a
   value written through driver W1 (format F under the schema-less options), read as a tree, written
   again and read by the typed decoder through W2 (format G); [keeps W1 W2] = the side condition
   "F's tree keeps what G's typed decoder needs" = the C01 driver interface [wire_ok] for the
   composite.  Generic/Dec.v: [of_item] typed decoding, [norm] documented losses, [veq] equality up to
   map order.  The typed-decoding fields of [compose_wire W1 W2] are literally those of W2. *)
From Coq Require Import List NArith ZArith Bool Lia Permutation.
From Verif Require Import Base.Outcome Gen.Consts Wire.Item Generic.Types Generic.Enc Generic.Dec C01.Model C01.Proofs C11.Corr C15.Model C15.Proofs.
From Verif Require Wire.Cbor C10.CborSpec C10.CborConv Wire.CborEnc Wire.Msgpack Wire.MsgpackProofs Wire.MsgpackRT Wire.Simple Wire.SimpleProofs Wire.Binc Wire.BincProofs.
Import ListNotations.

(* Encode(tree) hands the driver exactly the tree: nothing is added or lost between the two passes
   (every tree without RawExt nodes; the generic encoder itself never produces such nodes) *)
Theorem C15_reencode_is_tree : forall (O : gopts) (g : item), plainb g = true -> reenc O g = g.
Proof. exact reenc_id. Qed.
Print Assumptions C15_reencode_is_tree.

Theorem C15_encoder_plain : forall (O : gopts) (v : gv), plainb (enc O v) = true.
Proof. exact enc_plain. Qed.
Print Assumptions C15_encoder_plain.

(* C15_same / C15_cross, over the driver interface.  v : t well typed, supported type (scalar map keys),
   any generic options O (first pass and typed decode) and O' (second pass), any map iteration order
   pi: the value is written through W1, decoded into the tree g = wn W1 (to_item O pi v), the tree is
   written again (reenc O' g) through W2 and decoded into a zero value of t: the result is v up to
   the documented losses of W1 then W2 and up to the order of map entries.  G = F is the case
   W2 = W1's typed side.  PARTIAL in the sense of C01: holds for every pair of drivers meeting
   [keeps]; that the concrete Wire/<Fmt>.v pairs meet it is the composition step C01 also leaves
   open (the typed reads rd_* of the wire models are not modelled at the byte level).  Maps are
   re-encoded in the order the tree lists them. *)
Theorem C15_same_generic_partial : forall (W1 W2 : wire) (O O' : gopts) (pi : order) (t : ty) (v : gv),
  keeps W1 W2 -> order_ok pi ->
  wt t v = true -> supported t = true -> leaves_ok W1 (to_item O pi v) = true ->
  (Z.of_nat (depth (to_item O pi v)) < maxdepth O)%Z ->
  of_item (compose_wire W1 W2) O 0 t (wn W2 (reenc O' (wn W1 (to_item O pi v))))
    = Ok (norm (compose_wire W1 W2) O (arrange O pi v))
  /\ veq (norm (compose_wire W1 W2) O (arrange O pi v)) (norm (compose_wire W1 W2) O v).
Proof. exact same_generic. Qed.
Print Assumptions C15_same_generic_partial.

(* the side condition is satisfiable, with no hypothesis left: source = a driver that reads back what
   was written, target = the cbor-shaped driver of C01 (non-negative integers come back unsigned, zero
   time as nil, times to the microsecond); source = target = the identity driver; source = target = the
   cbor-shaped driver (the tree really differs from what was written) *)
Theorem C15_keeps_satisfiable : keeps id_wire cb_wire /\ keeps id_wire id_wire /\ keeps cb_wire cb_wire.
Proof. exact (conj keeps_id_cb (conj keeps_id_id keeps_cb_cb)). Qed.
Print Assumptions C15_keeps_satisfiable.

(* hence, with no hypothesis on the drivers: the three-step transcoding through the cbor-shaped driver
   (G = F): Decode_F(Encode_F(tree of Decode_F(Encode_F(v)))) into t is v up to cbor's documented losses
   applied twice *)
Theorem C15_cbwire_same : forall (O O' : gopts) (pi : order) (t : ty) (v : gv),
  order_ok pi -> wt t v = true -> supported t = true ->
  (Z.of_nat (depth (to_item O pi v)) < maxdepth O)%Z ->
  of_item (compose_wire cb_wire cb_wire) O 0 t (cb_wn (reenc O' (cb_wn (to_item O pi v))))
    = Ok (norm (compose_wire cb_wire cb_wire) O (arrange O pi v))
  /\ veq (norm (compose_wire cb_wire cb_wire) O (arrange O pi v)) (norm (compose_wire cb_wire cb_wire) O v).
Proof. exact cbwire_same. Qed.
Print Assumptions C15_cbwire_same.

(* ---- C15_nums: the integer a leaf denotes is the integer in the tree; sign / SignedInteger decide
   int64 vs uint64; floats are float64 in the tree ---- *)

(* cbor: every integer leaf, no guard at the norm level (beyond it: SignedInteger with an unsigned value
   >= 2^63 is a decode error, excluded by Wcbor_dec_enc_partial's lib_supports) *)
Theorem C15_nums_cbor : forall (O : Cbor.eopts) (D : Cbor.dopts) (i : item) (z : Z),
  int_val i = Some z ->
  int_val (CborEnc.norm O D i) = Some z
  /\ (match CborEnc.norm O D i with
      | IInt x => (x < 0)%Z \/ Cbor.do_signed D = true
      | IUint _ => Cbor.do_signed D = false
      | _ => False end).
Proof. exact nums_cbor. Qed.
Print Assumptions C15_nums_cbor.

(* msgpack, simple, binc at the norm level: under [fits] (SignedInteger off, or the value below 2^63);
   outside [fits] see C15_nums_total_* below *)
Theorem C15_nums_msgpack : forall (O : Msgpack.eopts) (D : Msgpack.dopts) (i : item) (z : Z),
  int_val i = Some z -> wf i -> fits (Msgpack.d_signedinteger D) i ->
  int_val (MsgpackRT.norm O D i) = Some z.
Proof. exact nums_msgpack. Qed.
Print Assumptions C15_nums_msgpack.

Theorem C15_nums_simple : forall (o : Simple.eopts) (D : Simple.dopts) (key : bool) (i : item) (z : Z),
  int_val i = Some z -> wf i -> Simple.zeroAsNil o = false -> fits (Simple.signedInteger D) i ->
  int_val (Simple.norm o D key i) = Some z.
Proof. exact nums_simple. Qed.
Print Assumptions C15_nums_simple.

Theorem C15_nums_binc : forall (e : Binc.eopts) (d : Binc.dopts) (i : item) (z : Z),
  int_val i = Some z -> wf i -> fits (Binc.signedInt d) i ->
  int_val (Binc.norm e d i) = Some z.
Proof. exact nums_binc. Qed.
Print Assumptions C15_nums_binc.

(* The whole statement, every format, no guard left: an integer leaf either comes back as the same integer
   (and then [fits]), or SignedInteger is on, the leaf is an unsigned value >= 2^63 and the schema-less decode
   of its encoding (decoder model run on the encoder model's bytes) is the overflow error.  Never another
   number: F07-1n (msgpack, binc: sign-flipped int64) is repaired (3c4765d). *)
Theorem C15_nums_total_cbor : forall (O : Cbor.eopts) (D : Cbor.dopts) (i : item) (z : Z),
  int_val i = Some z -> wf i ->
  (fits (Cbor.do_signed D) i /\ int_val (CborEnc.norm O D i) = Some z)
  \/ (Cbor.do_signed D = true /\ naked_run (FCbor O D) i = Err EOverflow).
Proof. exact nums_total_cbor. Qed.
Print Assumptions C15_nums_total_cbor.

Theorem C15_nums_total_msgpack : forall (O : Msgpack.eopts) (D : Msgpack.dopts) (i : item) (z : Z),
  int_val i = Some z -> wf i ->
  (fits (Msgpack.d_signedinteger D) i /\ int_val (MsgpackRT.norm O D i) = Some z)
  \/ (Msgpack.d_signedinteger D = true /\ naked_run (FMsgpack O D) i = Err EOverflow).
Proof. exact nums_total_msgpack. Qed.
Print Assumptions C15_nums_total_msgpack.

Theorem C15_nums_total_simple : forall (o : Simple.eopts) (D : Simple.dopts) (i : item) (z : Z),
  int_val i = Some z -> wf i -> Simple.zeroAsNil o = false ->
  (fits (Simple.signedInteger D) i /\ int_val (Simple.norm o D false i) = Some z)
  \/ (Simple.signedInteger D = true /\ naked_run (FSimple o D) i = Err EOverflow).
Proof. exact nums_total_simple. Qed.
Print Assumptions C15_nums_total_simple.

Theorem C15_nums_total_binc : forall (e : Binc.eopts) (d : Binc.dopts) (i : item) (z : Z),
  int_val i = Some z -> wf i -> (1 <= Binc.maxdepth d)%N ->
  (fits (Binc.signedInt d) i /\ int_val (Binc.norm e d i) = Some z)
  \/ (Binc.signedInt d = true /\ naked_run (FBinc e d) i = Err EOverflow).
Proof. exact nums_total_binc. Qed.
Print Assumptions C15_nums_total_binc.

(* strings / byte strings keep their bytes (StringToRaw / RawToString only choose string vs []byte);
   floats are float64 in the tree (cbor: a float64 keeps its bits; binc: one zero, one NaN) *)
Theorem C15_strs_cbor : forall (O : Cbor.eopts) (D : Cbor.dopts) (i : item) (s : list N),
  str_val i = Some s -> str_val (CborEnc.norm O D i) = Some s.
Proof. exact strs_cbor. Qed.
Print Assumptions C15_strs_cbor.

Theorem C15_strs_binc : forall (e : Binc.eopts) (d : Binc.dopts) (i : item) (s : list N),
  str_val i = Some s -> str_val (Binc.norm e d i) = Some s.
Proof. exact strs_binc. Qed.
Print Assumptions C15_strs_binc.

Theorem C15_floats_kind : forall (e : Binc.eopts) (d : Binc.dopts) (O : Cbor.eopts) (D : Cbor.dopts) (b : N),
  (exists x, Binc.norm e d (IF32 b) = IF64 x) /\ (exists x, Binc.norm e d (IF64 b) = IF64 x)
  /\ (exists x, CborEnc.norm O D (IF32 b) = IF64 x) /\ CborEnc.norm O D (IF64 b) = IF64 b.
Proof. exact floats_kind. Qed.
Print Assumptions C15_floats_kind.

(* ---- non-vacuity ---- *)

(* the three-step transcoding on a nested value: id driver -> tree -> cbor-shaped driver -> typed *)
Definition ex_ty : ty :=
  TStruct [([97]%N, TMap (TInt W8) (TSlice (TPtr (TUint W16)))); ([98]%N, TArray 2 TTime); ([99]%N, TBytes); ([100]%N, TFloat F32)].
Definition ex_val : gv :=
  GStruct [([97]%N, GMap (Some [(GInt 5, GList (Some [GPtr (Some (GUint 300%N)); GPtr None])); (GInt (-5), GList None)]));
           ([98]%N, GArr [GTime 1700000000 123456789%N; GTime time_zero_sec 0%N]);
           ([99]%N, GBytes (Some [1; 2; 3]%N)); ([100]%N, GF32 1069547520%N)].
Definition ex_O : gopts := mkgopts false true false 0%Z false.
Definition ex_O' : gopts := mkgopts true false true 0%Z false.

Example C15_same_nonvacuous :
  wt ex_ty ex_val = true /\ supported ex_ty = true /\
  (Z.of_nat (depth (to_item ex_O (fun _ l => rev l) ex_val)) < maxdepth ex_O)%Z /\
  let g := wn id_wire (to_item ex_O (fun _ l => rev l) ex_val) in
  plainb g = true /\ reenc ex_O' g = g /\
  of_item (compose_wire id_wire cb_wire) ex_O 0 ex_ty (wn cb_wire (reenc ex_O' g))
    = Ok (norm (compose_wire id_wire cb_wire) ex_O (arrange ex_O (fun _ l => rev l) ex_val)) /\
  norm (compose_wire id_wire cb_wire) ex_O (arrange ex_O (fun _ l => rev l) ex_val) <> ex_val.
Proof. cbv zeta. repeat apply conj; try (vm_compute; reflexivity); vm_compute; discriminate. Qed.

(* the model's tree for a value under SignedInteger / RawToString, four formats; MapType =
   map[string]interface{} refuses an integer key *)
Example C15_tree_nonvacuous :
  let i := IMap [(IStr [107]%N, IArr [IUint 300%N; IInt (-7); IF32 1069547520%N; IBytes [1; 2]%N; INil])] in
  naked_tree (fcbor false false false false true true) (mknopts true false) i
    = Ok (IMap [(IStr [107]%N, IArr [IInt 300; IInt (-7); IF64 4609434218613702656%N; IStr [1; 2]%N; INil])]) /\
  naked_tree (fmsgpack true false false false false false) (mknopts false false) i
    = Ok (IMap [(IStr [107]%N, IArr [IUint 300%N; IInt (-7); IF64 4609434218613702656%N; IBytes [1; 2]%N; INil])]) /\
  naked_tree (fsimple false false false) (mknopts false true) i
    = Ok (IMap [(IStr [107]%N, IArr [IUint 300%N; IInt (-7); IF64 4609434218613702656%N; IBytes [1; 2]%N; INil])]) /\
  naked_tree (fbinc true false true false) (mknopts false false) i
    = Ok (IMap [(IStr [107]%N, IArr [IInt 300; IInt (-7); IF64 4609434218613702656%N; IBytes [1; 2]%N; INil])]) /\
  naked_tree (fcbor false false false false false false) (mknopts true false) (IMap [(IInt 1, INil)]) = Err EBadDesc /\
  naked_run (fcbor false false false false true false) i = Ok (naked_norm (fcbor false false false false true false) i).
Proof. cbv zeta. repeat apply conj; vm_compute; reflexivity. Qed.

(* the overflow class is inhabited and is an error in all four models (uint64 2^64-1 and 2^63 under SignedInteger) *)
Example C15_nums_total_nonvacuous :
  naked_run (fcbor false false false false true false) (IUint 18446744073709551615%N) = Err EOverflow /\
  naked_run (fmsgpack true false false false false true) (IUint 18446744073709551615%N) = Err EOverflow /\
  naked_run (fsimple false true false) (IUint 9223372036854775808%N) = Err EOverflow /\
  naked_run (fbinc false false true false) (IUint 9223372036854775808%N) = Err EOverflow /\
  naked_run (fmsgpack true false false false false true) (IUint 9223372036854775807%N) = Ok (IInt 9223372036854775807).
Proof. repeat apply conj; vm_compute; reflexivity. Qed.

(* C15 — schema-less decoding is faithful: generic trees re-encode to the same data.
   Only statements, closed by [exact], with [Print Assumptions] beneath each.

   Vocabulary.  C15/Model.v: [naked_run fo i] = the wire decoder model run on the wire encoder
   model's output for item [i] (what Decode(&interface{}) builds), [naked_norm] = the format's norm,
   [naked_tree] adds MapType = map[string]interface{}; [tree_gv g] = the tree as a Go value (dynamic
   types int64 / uint64 / float64 / string / []byte / time.Time / []interface{} / map), [reenc O g] =
   Generic/Enc.v [enc] of it = what Encode(tree) asks the driver to write; [compose_wire W1 W2] = a
   value written through driver W1 (format F under the schema-less options), read as a tree, written
   again and read by the typed decoder through W2 (format G); [keeps W1 W2] = the side condition
   "F's tree keeps what G's typed decoder needs" = the C01 driver interface [wire_ok] for the
   composite.  Generic/Dec.v: [of_item] typed decoding, [norm] documented losses, [veq] equality up to
   map order.  The typed-decoding fields of [compose_wire W1 W2] are literally those of W2. *)
From Coq Require Import List NArith ZArith Bool Lia Permutation.
From Verif Require Import Base.Outcome Gen.Consts Wire.Item Generic.Types Generic.Enc Generic.Dec C01.Model C01.Proofs C11.Corr C15.Model C15.Proofs.
From Verif Require Import C01.ComposeSimple C01.ComposeMsgpack C01.ComposeCbor C01.ComposeCborTime C01.ComposeBinc C15.Concrete C15.Cross.
From Verif Require Wire.Cbor C10.CborSpec C10.CborConv Wire.CborEnc Wire.Msgpack Wire.MsgpackProofs Wire.MsgpackRT Wire.Simple Wire.SimpleProofs Wire.Binc Wire.BincProofs.
Import ListNotations.

(* Encode(tree) hands the driver exactly the tree: nothing is added or lost between the two passes
   (every tree without RawExt nodes; the generic encoder itself never produces such nodes) *)
Theorem C15_reencode_is_tree : forall (O : gopts) (g : item), plainb g = true -> reenc O g = g.
Proof. exact reenc_id. Qed.
Print Assumptions C15_reencode_is_tree.

Theorem C15_encoder_plain : forall (O : gopts) (v : gv), plainb (enc O v) = true.
Proof. exact enc_plain. Qed.
Print Assumptions C15_encoder_plain.

(* C15_same / C15_cross, over the driver interface.  v : t well typed, supported type (scalar map keys),
   any generic options O (first pass and typed decode) and O' (second pass), any map iteration order
   pi: the value is written through W1, decoded into the tree g = wn W1 (to_item O pi v), the tree is
   written again (reenc O' g) through W2 and decoded into a zero value of t: the result is v up to
   the documented losses of W1 then W2 and up to the order of map entries.  G = F is the case
   W2 = W1's typed side.  PARTIAL in the sense of C01: holds for every pair of drivers meeting
   [keeps]; that the concrete Wire/<Fmt>.v pairs meet it is the composition step C01 also leaves
   open (the typed reads rd_* of the wire models are not modelled at the byte level).  Maps are
   re-encoded in the order the tree lists them. *)
Theorem C15_same_generic_partial : forall (W1 W2 : wire) (O O' : gopts) (pi : order) (t : ty) (v : gv),
  keeps W1 W2 -> order_ok pi ->
  wt t v = true -> supported t = true -> leaves_ok W1 (to_item O pi v) = true ->
  (Z.of_nat (depth (to_item O pi v)) < maxdepth O)%Z ->
  of_item (compose_wire W1 W2) O 0 t (wn W2 (reenc O' (wn W1 (to_item O pi v))))
    = Ok (norm (compose_wire W1 W2) O (arrange O pi v))
  /\ veq (norm (compose_wire W1 W2) O (arrange O pi v)) (norm (compose_wire W1 W2) O v).
Proof. exact same_generic. Qed.
Print Assumptions C15_same_generic_partial.

(* the side condition is satisfiable, with no hypothesis left: source = a driver that reads back what
   was written, target = the cbor-shaped driver of C01 (non-negative integers come back unsigned, zero
   time as nil, times to the microsecond); source = target = the identity driver; source = target = the
   cbor-shaped driver (the tree really differs from what was written) *)
Theorem C15_keeps_satisfiable : keeps id_wire cb_wire /\ keeps id_wire id_wire /\ keeps cb_wire cb_wire.
Proof. exact (conj keeps_id_cb (conj keeps_id_id keeps_cb_cb)). Qed.
Print Assumptions C15_keeps_satisfiable.

(* hence, with no hypothesis on the drivers: the three-step transcoding through the cbor-shaped driver
   (G = F): Decode_F(Encode_F(tree of Decode_F(Encode_F(v)))) into t is v up to cbor's documented losses
   applied twice *)
Theorem C15_cbwire_same : forall (O O' : gopts) (pi : order) (t : ty) (v : gv),
  order_ok pi -> wt t v = true -> supported t = true ->
  (Z.of_nat (depth (to_item O pi v)) < maxdepth O)%Z ->
  of_item (compose_wire cb_wire cb_wire) O 0 t (cb_wn (reenc O' (cb_wn (to_item O pi v))))
    = Ok (norm (compose_wire cb_wire cb_wire) O (arrange O pi v))
  /\ veq (norm (compose_wire cb_wire cb_wire) O (arrange O pi v)) (norm (compose_wire cb_wire cb_wire) O v).
Proof. exact cbwire_same. Qed.
Print Assumptions C15_cbwire_same.

(* ---- C15_nums: the integer a leaf denotes is the integer in the tree; sign / SignedInteger decide
   int64 vs uint64; floats are float64 in the tree ---- *)

(* cbor: every integer leaf, no guard at the norm level (beyond it: SignedInteger with an unsigned value
   >= 2^63 is a decode error, excluded by Wcbor_dec_enc_partial's lib_supports) *)
Theorem C15_nums_cbor : forall (O : Cbor.eopts) (D : Cbor.dopts) (i : item) (z : Z),
  int_val i = Some z ->
  int_val (CborEnc.norm O D i) = Some z
  /\ (match CborEnc.norm O D i with
      | IInt x => (x < 0)%Z \/ Cbor.do_signed D = true
      | IUint _ => Cbor.do_signed D = false
      | _ => False end).
Proof. exact nums_cbor. Qed.
Print Assumptions C15_nums_cbor.

(* msgpack, simple, binc at the norm level: under [fits] (SignedInteger off, or the value below 2^63);
   outside [fits] see C15_nums_total_* below *)
Theorem C15_nums_msgpack : forall (O : Msgpack.eopts) (D : Msgpack.dopts) (i : item) (z : Z),
  int_val i = Some z -> wf i -> fits (Msgpack.d_signedinteger D) i ->
  int_val (MsgpackRT.norm O D i) = Some z.
Proof. exact nums_msgpack. Qed.
Print Assumptions C15_nums_msgpack.

Theorem C15_nums_simple : forall (o : Simple.eopts) (D : Simple.dopts) (key : bool) (i : item) (z : Z),
  int_val i = Some z -> wf i -> Simple.zeroAsNil o = false -> fits (Simple.signedInteger D) i ->
  int_val (Simple.norm o D key i) = Some z.
Proof. exact nums_simple. Qed.
Print Assumptions C15_nums_simple.

Theorem C15_nums_binc : forall (e : Binc.eopts) (d : Binc.dopts) (i : item) (z : Z),
  int_val i = Some z -> wf i -> fits (Binc.signedInt d) i ->
  int_val (Binc.norm e d i) = Some z.
Proof. exact nums_binc. Qed.
Print Assumptions C15_nums_binc.

(* The whole statement, every format, no guard left: an integer leaf either comes back as the same integer
   (and then [fits]), or SignedInteger is on, the leaf is an unsigned value >= 2^63 and the schema-less decode
   of its encoding (decoder model run on the encoder model's bytes) is the overflow error.  Never another
   number: F07-1n (msgpack, binc: sign-flipped int64) is repaired (3c4765d). *)
Theorem C15_nums_total_cbor : forall (O : Cbor.eopts) (D : Cbor.dopts) (i : item) (z : Z),
  int_val i = Some z -> wf i ->
  (fits (Cbor.do_signed D) i /\ int_val (CborEnc.norm O D i) = Some z)
  \/ (Cbor.do_signed D = true /\ naked_run (FCbor O D) i = Err EOverflow).
Proof. exact nums_total_cbor. Qed.
Print Assumptions C15_nums_total_cbor.

Theorem C15_nums_total_msgpack : forall (O : Msgpack.eopts) (D : Msgpack.dopts) (i : item) (z : Z),
  int_val i = Some z -> wf i ->
  (fits (Msgpack.d_signedinteger D) i /\ int_val (MsgpackRT.norm O D i) = Some z)
  \/ (Msgpack.d_signedinteger D = true /\ naked_run (FMsgpack O D) i = Err EOverflow).
Proof. exact nums_total_msgpack. Qed.
Print Assumptions C15_nums_total_msgpack.

Theorem C15_nums_total_simple : forall (o : Simple.eopts) (D : Simple.dopts) (i : item) (z : Z),
  int_val i = Some z -> wf i -> Simple.zeroAsNil o = false ->
  (fits (Simple.signedInteger D) i /\ int_val (Simple.norm o D false i) = Some z)
  \/ (Simple.signedInteger D = true /\ naked_run (FSimple o D) i = Err EOverflow).
Proof. exact nums_total_simple. Qed.
Print Assumptions C15_nums_total_simple.

Theorem C15_nums_total_binc : forall (e : Binc.eopts) (d : Binc.dopts) (i : item) (z : Z),
  int_val i = Some z -> wf i -> (1 <= Binc.maxdepth d)%N ->
  (fits (Binc.signedInt d) i /\ int_val (Binc.norm e d i) = Some z)
  \/ (Binc.signedInt d = true /\ naked_run (FBinc e d) i = Err EOverflow).
Proof. exact nums_total_binc. Qed.
Print Assumptions C15_nums_total_binc.

(* strings / byte strings keep their bytes (StringToRaw / RawToString only choose string vs []byte);
   floats are float64 in the tree (cbor: a float64 keeps its bits; binc: one zero, one NaN) *)
Theorem C15_strs_cbor : forall (O : Cbor.eopts) (D : Cbor.dopts) (i : item) (s : list N),
  str_val i = Some s -> str_val (CborEnc.norm O D i) = Some s.
Proof. exact strs_cbor. Qed.
Print Assumptions C15_strs_cbor.

Theorem C15_strs_binc : forall (e : Binc.eopts) (d : Binc.dopts) (i : item) (s : list N),
  str_val i = Some s -> str_val (Binc.norm e d i) = Some s.
Proof. exact strs_binc. Qed.
Print Assumptions C15_strs_binc.

Theorem C15_floats_kind : forall (e : Binc.eopts) (d : Binc.dopts) (O : Cbor.eopts) (D : Cbor.dopts) (b : N),
  (exists x, Binc.norm e d (IF32 b) = IF64 x) /\ (exists x, Binc.norm e d (IF64 b) = IF64 x)
  /\ (exists x, CborEnc.norm O D (IF32 b) = IF64 x) /\ CborEnc.norm O D (IF64 b) = IF64 b.
Proof. exact floats_kind. Qed.
Print Assumptions C15_floats_kind.

(* ---- C15_same per format, G = F: NO hypothesis on the drivers left ----

   The side condition [keeps] of C15_same_generic_partial is PROVED for the concrete driver records of C01
   (C01/Compose<Fmt>.v: built from the wire models Wire/<Fmt>.v, [wire_ok] proved there), same format and same
   handle (one option vector) on both passes.  The typed decode of the second pass reads through the format's
   own driver record (of_item W ..: the composite's typed-decoding fields are literally W's). *)

Theorem C15_keeps_simple : forall (o : Simple.eopts) (D : Simple.dopts), keeps (W_simple_n o D) (W_simple o D).
Proof. exact simple_keeps. Qed.
Print Assumptions C15_keeps_simple.

Theorem C15_keeps_msgpack : forall (Of : Msgpack.eopts) (D : Msgpack.dopts), keeps (W_msgpack Of D) (W_msgpack Of D).
Proof. exact msgpack_keeps. Qed.
Print Assumptions C15_keeps_msgpack.

Theorem C15_keeps_binc : forall (e : Binc.eopts) (d : Binc.dopts), keeps (W_binc e d) (W_binc e d).
Proof. exact binc_keeps. Qed.
Print Assumptions C15_keeps_binc.

Theorem C15_keeps_cbor_rfc3339 : forall (Oc : Cbor.eopts) (D : Cbor.dopts), keeps (W_cbor_t Oc D) (W_cbor_t Oc D).
Proof. exact cbor_t_keeps. Qed.
Print Assumptions C15_keeps_cbor_rfc3339.

(* cbor's tag-1 driver record admits only the zero time (as C01_cbor_roundtrip_bytes_partial); a non-zero time,
   outside the leaf premise, would come back as a tagged value, so the "tree has no RawExt" clause of [keeps] is
   proved for the items the leaf premise admits ([keeps_on]) -- which is all C15_same uses *)
Theorem C15_keeps_cbor_partial : forall (Oc : Cbor.eopts) (D : Cbor.dopts), keeps_on (W_cbor Oc D) (W_cbor Oc D).
Proof. exact cbor_keeps_on. Qed.
Print Assumptions C15_keeps_cbor_partial.

(* simple, FULL: every SimpleHandle / decode option vector (EncZeroValuesAsNil, StringToRaw; SignedInteger,
   RawToString), generic options O (first pass and typed decode) and O' (second pass), supported type, well-typed
   value, map iteration order.  g = the tree of the first pass; it has no RawExt node, Encode(g) asks the driver
   for exactly g, and the typed decode of the second pass's output gives the value up to simple's documented
   losses -- applied ONCE (the normalisation is idempotent) -- and up to the order of map entries.
   Leaf premise: C01's (no zero scalar under EncZeroValuesAsNil, no float32 signalling NaN, no unsigned >= 2^63
   under SignedInteger) plus: under EncZeroValuesAsNil AND RawToString no empty non-nil []byte (it is the string
   "" in the tree, which the second pass writes as nil: C15_simple_empty_bytes_lost). *)
Theorem C15_same_simple : forall (o : Simple.eopts) (D : Simple.dopts) (O O' : gopts) (pi : order) (t : ty) (v : gv),
  order_ok pi -> wt t v = true -> supported t = true ->
  leaves_ok (W_simple_n o D) (to_item O pi v) = true ->
  (Z.of_nat (depth (to_item O pi v)) < maxdepth O)%Z ->
  let g := wn (W_simple o D) (to_item O pi v) in
  plainb g = true /\ reenc O' g = g /\
  of_item (W_simple o D) O 0 t (wn (W_simple o D) (reenc O' g)) = Ok (normL exact_losses O (arrange O pi v)) /\
  veq (normL exact_losses O (arrange O pi v)) (normL exact_losses O v).
Proof. exact simple_same. Qed.
Print Assumptions C15_same_simple.

Theorem C15_simple_empty_bytes_lost : forall (o : Simple.eopts) (D : Simple.dopts),
  Simple.zeroAsNil o = true -> Simple.rawToString D = true ->
  leaf_ok (W_simple o D) (IBytes []) = true /\
  wn (W_simple o D) (wn (W_simple o D) (IBytes [])) = INil.
Proof. exact simple_empty_bytes_lost. Qed.
Print Assumptions C15_simple_empty_bytes_lost.

(* msgpack, FULL: every option vector (WriteExt, NoFixedNum, PositiveIntUnsigned, StringToRaw; WriteExt,
   RawToString, SignedInteger); leaf premise = C01's.  Without WriteExt a time is a raw 4/8/12-byte string in the
   tree and DecodeTime reads it back from there on the second pass. *)
Theorem C15_same_msgpack : forall (Of : Msgpack.eopts) (D : Msgpack.dopts) (O O' : gopts) (pi : order) (t : ty) (v : gv),
  order_ok pi -> wt t v = true -> supported t = true ->
  leaves_ok (W_msgpack Of D) (to_item O pi v) = true ->
  (Z.of_nat (depth (to_item O pi v)) < maxdepth O)%Z ->
  let g := wn (W_msgpack Of D) (to_item O pi v) in
  plainb g = true /\ reenc O' g = g /\
  of_item (W_msgpack Of D) O 0 t (wn (W_msgpack Of D) (reenc O' g)) = Ok (normL exact_losses O (arrange O pi v)) /\
  veq (normL exact_losses O (arrange O pi v)) (normL exact_losses O v).
Proof. exact msgpack_same. Qed.
Print Assumptions C15_same_msgpack.

(* binc, FULL: every option vector (AsSymbols, StringToRaw; SignedInteger, RawToString); losses: binc's (one zero,
   one NaN), once; leaf premise = C01's *)
Theorem C15_same_binc : forall (e : Binc.eopts) (d : Binc.dopts) (O O' : gopts) (pi : order) (t : ty) (v : gv),
  order_ok pi -> wt t v = true -> supported t = true ->
  leaves_ok (W_binc e d) (to_item O pi v) = true ->
  (Z.of_nat (depth (to_item O pi v)) < maxdepth O)%Z ->
  let g := wn (W_binc e d) (to_item O pi v) in
  plainb g = true /\ reenc O' g = g /\
  of_item (W_binc e d) O 0 t (wn (W_binc e d) (reenc O' g)) = Ok (normL binc_losses O (arrange O pi v)) /\
  veq (normL binc_losses O (arrange O pi v)) (normL binc_losses O v).
Proof. exact binc_same. Qed.
Print Assumptions C15_same_binc.

(* cbor, PARTIAL exactly as C01_cbor_roundtrip_bytes_partial: every value without a NON-ZERO time.Time (leaf
   premise of W_cbor); every option vector otherwise.  Missing: times written as tag 1. *)
Theorem C15_same_cbor_partial : forall (Oc : Cbor.eopts) (D : Cbor.dopts) (O O' : gopts) (pi : order) (t : ty) (v : gv),
  order_ok pi -> wt t v = true -> supported t = true ->
  leaves_ok (W_cbor Oc D) (to_item O pi v) = true ->
  (Z.of_nat (depth (to_item O pi v)) < maxdepth O)%Z ->
  let g := wn (W_cbor Oc D) (to_item O pi v) in
  plainb g = true /\ reenc O' g = g /\
  of_item (W_cbor Oc D) O 0 t (wn (W_cbor Oc D) (reenc O' g)) = Ok (normL cbor_losses O (arrange O pi v)) /\
  veq (normL cbor_losses O (arrange O pi v)) (normL cbor_losses O v).
Proof. exact cbor_same. Qed.
Print Assumptions C15_same_cbor_partial.

(* cbor with TimeRFC3339, times included (year 0..9999, nsec < 10^9: leaf premise of W_cbor_t).  Losses of the two
   passes [cbor_t_losses]: time to the microsecond, and an instant that ROUNDS to the zero time is the zero time
   in the tree, so the second pass writes it as nil (a pointer to it comes back nil) -- cbor_losses says that of
   the zero time only. *)
Theorem C15_same_cbor_rfc3339 : forall (Oc : Cbor.eopts) (D : Cbor.dopts) (O O' : gopts) (pi : order) (t : ty) (v : gv),
  order_ok pi -> wt t v = true -> supported t = true ->
  leaves_ok (W_cbor_t Oc D) (to_item O pi v) = true ->
  (Z.of_nat (depth (to_item O pi v)) < maxdepth O)%Z ->
  let g := wn (W_cbor_t Oc D) (to_item O pi v) in
  plainb g = true /\ reenc O' g = g /\
  of_item (W_cbor_t Oc D) O 0 t (wn (W_cbor_t Oc D) (reenc O' g)) = Ok (normL cbor_t_losses O (arrange O pi v)) /\
  veq (normL cbor_t_losses O (arrange O pi v)) (normL cbor_t_losses O v).
Proof. exact cbor_t_same. Qed.
Print Assumptions C15_same_cbor_rfc3339.

(* the tree g of the statements above is what the schema-less decode of the first pass's BYTES returns
   ([naked_run]: the wire decoder model run on the wire encoder model's output), under the premises of the C01
   byte-level compositions (the wire lemma's own: ranges, lengths, hashable and pairwise different map keys,
   depth < MaxDepth, one MaxDepth for both layers) *)
Theorem C15_tree_simple : forall (o : Simple.eopts) (D : Simple.dopts) (O : gopts) (pi : order) (t : ty) (v : gv),
  order_ok pi -> wt t v = true -> supported t = true ->
  Simple.maxDepthOpt D = max_depth O -> swfb o D (to_item O pi v) = true ->
  leaves_ok (W_simple o D) (to_item O pi v) = true ->
  (Z.of_nat (depth (to_item O pi v)) < maxdepth O)%Z ->
  naked_run (FSimple o D) (to_item O pi v) = Ok (wn (W_simple o D) (to_item O pi v)).
Proof. exact simple_tree. Qed.
Print Assumptions C15_tree_simple.

Theorem C15_tree_msgpack : forall (Of : Msgpack.eopts) (D : Msgpack.dopts) (O : gopts) (pi : order) (t : ty) (v : gv),
  order_ok pi -> wt t v = true -> supported t = true ->
  Msgpack.d_maxdepth D = max_depth O -> supportedb (to_item O pi v) = true ->
  leaves_ok (W_msgpack Of D) (to_item O pi v) = true ->
  (Z.of_nat (depth (to_item O pi v)) < maxdepth O)%Z ->
  (Msgpack.len (Msgpack.enc Of (to_item O pi v)) < 2 ^ 63)%N ->
  naked_run (FMsgpack Of D) (to_item O pi v) = Ok (wn (W_msgpack Of D) (to_item O pi v)).
Proof. exact msgpack_tree. Qed.
Print Assumptions C15_tree_msgpack.

Theorem C15_tree_binc : forall (e : Binc.eopts) (d : Binc.dopts) (O : gopts) (pi : order) (t : ty) (v : gv),
  order_ok pi -> wt t v = true -> supported t = true ->
  Z.of_N (Binc.maxdepth d) = maxdepth O -> wfbb e d (to_item O pi v) = true ->
  leaves_ok (W_binc e d) (to_item O pi v) = true ->
  (Z.of_nat (depth (to_item O pi v)) < maxdepth O)%Z ->
  naked_run (FBinc e d) (to_item O pi v) = Ok (wn (W_binc e d) (to_item O pi v)).
Proof. exact binc_tree. Qed.
Print Assumptions C15_tree_binc.

Theorem C15_tree_cbor_partial : forall (Oc : Cbor.eopts) (D : Cbor.dopts) (O : gopts) (pi : order) (t : ty) (v : gv),
  order_ok pi -> wt t v = true -> supported t = true ->
  wf (to_item O pi v) -> CborConv.plain (to_item O pi v) ->
  CborConv.lib_supports D (CborConv.tree_of Oc (to_item O pi v)) ->
  (CborConv.tdepth D (CborConv.tree_of Oc (to_item O pi v)) < Cbor.maxdepth D)%Z ->
  leaves_ok (W_cbor Oc D) (to_item O pi v) = true ->
  (Z.of_nat (depth (to_item O pi v)) < maxdepth O)%Z ->
  naked_run (FCbor Oc D) (to_item O pi v) = Ok (wn (W_cbor Oc D) (to_item O pi v)).
Proof. exact cbor_tree. Qed.
Print Assumptions C15_tree_cbor_partial.

Theorem C15_tree_cbor_rfc3339 : forall (Oc : Cbor.eopts) (D : Cbor.dopts) (O : gopts) (pi : order) (t : ty) (v : gv),
  Cbor.eo_rfc3339 Oc = true ->
  order_ok pi -> wt t v = true -> supported t = true ->
  wf (to_item O pi v) -> CborConv.plain (to_item O pi v) ->
  CborConv.lib_supports_t D (CborConv.tree_of Oc (to_item O pi v)) ->
  (CborConv.tdepth_t D (CborConv.tree_of Oc (to_item O pi v)) < Cbor.maxdepth D)%Z ->
  leaves_ok (W_cbor_t Oc D) (to_item O pi v) = true ->
  (Z.of_nat (depth (to_item O pi v)) < maxdepth O)%Z ->
  naked_run (FCbor Oc D) (to_item O pi v) = Ok (wn (W_cbor_t Oc D) (to_item O pi v)).
Proof. exact cbor_t_tree. Qed.
Print Assumptions C15_tree_cbor_rfc3339.

(* ---- C15_cross: every ordered pair of the concrete binary driver records, NO hypothesis on the drivers ----

   [bwire W]: W is one of W_simple o D, W_msgpack Of D, W_binc e d, W_cbor Oc D (tag-1 times: zero time only),
   W_cbor_t Oc D (TimeRFC3339), for any option vectors -- 25 ordered pairs (F, G), G = F with another handle
   included.  The value is written through W1 (format F), decoded schema-less into the tree g, the tree is written
   again through W2 (format G) and decoded into a zero value of t: the result is v up to the losses of F then G
   ([norm] of the composite: float losses fn_G o fn_F, time precision tnorm_G o tnorm_F, a time written as nil by
   either pass) and up to the order of map entries.
   Leaf premise [cross_leaf W1 W2], decidable, on every scalar leaf i of the encoder's item:
     leaf_ok W1 i                          F's own premise (C01);
     leaf_ok W2 (wn W1 i), (wnk W1 i)      G's premise on what the tree holds for i, in value and key position
                                           (e.g. SignedInteger of G with a uint64 >= 2^63 in the tree; simple's
                                           EncZeroValuesAsNil with a zero in the tree; cbor tag-1 with a non-zero time);
     tshape W1 i                           a time is a time (or nil) in the tree: msgpack WITHOUT WriteExt as a
                                           source holds a time as a raw byte string, which only msgpack's
                                           DecodeTime reads back -- excluded for G <> msgpack (and, conservatively,
                                           for G = msgpack: that case is C15_same_msgpack). *)
Theorem C15_cross_keeps : forall W1 W2 : wire, bwire W1 -> bwire W2 ->
  keeps_on (with_leaf W1 (cross_leaf W1 W2)) W2.
Proof. exact cross_keeps_on. Qed.
Print Assumptions C15_cross_keeps.

Theorem C15_cross : forall (W1 W2 : wire) (O O' : gopts) (pi : order) (t : ty) (v : gv),
  bwire W1 -> bwire W2 ->
  order_ok pi -> wt t v = true -> supported t = true ->
  leaves_ok (with_leaf W1 (cross_leaf W1 W2)) (to_item O pi v) = true ->
  (Z.of_nat (depth (to_item O pi v)) < maxdepth O)%Z ->
  let g := wn W1 (to_item O pi v) in
  let C := compose_wire (with_leaf W1 (cross_leaf W1 W2)) W2 in
  plainb g = true /\ reenc O' g = g /\
  of_item W2 O 0 t (wn W2 (reenc O' g)) = Ok (norm C O (arrange O pi v)) /\
  veq (norm C O (arrange O pi v)) (norm C O v).
Proof. exact cross_same. Qed.
Print Assumptions C15_cross.

(* ---- non-vacuity ---- *)

(* the three-step transcoding on a nested value: id driver -> tree -> cbor-shaped driver -> typed *)
Definition ex_ty : ty :=
  TStruct [([97]%N, TMap (TInt W8) (TSlice (TPtr (TUint W16)))); ([98]%N, TArray 2 TTime); ([99]%N, TBytes); ([100]%N, TFloat F32)].
Definition ex_val : gv :=
  GStruct [([97]%N, GMap (Some [(GInt 5, GList (Some [GPtr (Some (GUint 300%N)); GPtr None])); (GInt (-5), GList None)]));
           ([98]%N, GArr [GTime 1700000000 123456789%N; GTime time_zero_sec 0%N]);
           ([99]%N, GBytes (Some [1; 2; 3]%N)); ([100]%N, GF32 1069547520%N)].
Definition ex_O : gopts := mkgopts false true false 0%Z false.
Definition ex_O' : gopts := mkgopts true false true 0%Z false.

Example C15_same_nonvacuous :
  wt ex_ty ex_val = true /\ supported ex_ty = true /\
  (Z.of_nat (depth (to_item ex_O (fun _ l => rev l) ex_val)) < maxdepth ex_O)%Z /\
  let g := wn id_wire (to_item ex_O (fun _ l => rev l) ex_val) in
  plainb g = true /\ reenc ex_O' g = g /\
  of_item (compose_wire id_wire cb_wire) ex_O 0 ex_ty (wn cb_wire (reenc ex_O' g))
    = Ok (norm (compose_wire id_wire cb_wire) ex_O (arrange ex_O (fun _ l => rev l) ex_val)) /\
  norm (compose_wire id_wire cb_wire) ex_O (arrange ex_O (fun _ l => rev l) ex_val) <> ex_val.
Proof. cbv zeta. repeat apply conj; try (vm_compute; reflexivity); vm_compute; discriminate. Qed.

(* the model's tree for a value under SignedInteger / RawToString, four formats; MapType =
   map[string]interface{} refuses an integer key *)
Example C15_tree_nonvacuous :
  let i := IMap [(IStr [107]%N, IArr [IUint 300%N; IInt (-7); IF32 1069547520%N; IBytes [1; 2]%N; INil])] in
  naked_tree (fcbor false false false false true true) (mknopts true false) i
    = Ok (IMap [(IStr [107]%N, IArr [IInt 300; IInt (-7); IF64 4609434218613702656%N; IStr [1; 2]%N; INil])]) /\
  naked_tree (fmsgpack true false false false false false) (mknopts false false) i
    = Ok (IMap [(IStr [107]%N, IArr [IUint 300%N; IInt (-7); IF64 4609434218613702656%N; IBytes [1; 2]%N; INil])]) /\
  naked_tree (fsimple false false false) (mknopts false true) i
    = Ok (IMap [(IStr [107]%N, IArr [IUint 300%N; IInt (-7); IF64 4609434218613702656%N; IBytes [1; 2]%N; INil])]) /\
  naked_tree (fbinc true false true false) (mknopts false false) i
    = Ok (IMap [(IStr [107]%N, IArr [IInt 300; IInt (-7); IF64 4609434218613702656%N; IBytes [1; 2]%N; INil])]) /\
  naked_tree (fcbor false false false false false false) (mknopts true false) (IMap [(IInt 1, INil)]) = Err EBadDesc /\
  naked_run (fcbor false false false false true false) i = Ok (naked_norm (fcbor false false false false true false) i).
Proof. cbv zeta. repeat apply conj; vm_compute; reflexivity. Qed.

(* the overflow class is inhabited and is an error in all four models (uint64 2^64-1 and 2^63 under SignedInteger) *)
Example C15_nums_total_nonvacuous :
  naked_run (fcbor false false false false true false) (IUint 18446744073709551615%N) = Err EOverflow /\
  naked_run (fmsgpack true false false false false true) (IUint 18446744073709551615%N) = Err EOverflow /\
  naked_run (fsimple false true false) (IUint 9223372036854775808%N) = Err EOverflow /\
  naked_run (fbinc false false true false) (IUint 9223372036854775808%N) = Err EOverflow /\
  naked_run (fmsgpack true false false false false true) (IUint 9223372036854775807%N) = Ok (IInt 9223372036854775807).
Proof. repeat apply conj; vm_compute; reflexivity. Qed.

(* C15_same on the concrete formats, both sides computed: value -> bytes -> tree -> bytes -> typed value, with the
   format's own encoder / decoder models for the bytes (naked_run) and the typed decode through its driver record *)
Definition ex2_ty : ty :=
  TStruct [([97]%N, TMap TString (TSlice (TPtr (TUint W16)))); ([98]%N, TArray 2 TTime); ([99]%N, TBytes);
           ([100]%N, TFloat F32); ([101]%N, TFloat F64); ([102]%N, TInt W64)].
Definition ex2_val : gv :=
  GStruct [([97]%N, GMap (Some [(GStr [107; 49]%N, GList (Some [GPtr (Some (GUint 300%N)); GPtr None])); (GStr [107; 50]%N, GList None)]));
           ([98]%N, GArr [GTime 1700000000 123456789%N; GTime time_zero_sec 0%N]);
           ([99]%N, GBytes (Some [1; 2; 3]%N)); ([100]%N, GF32 1069547520%N);
           ([101]%N, GF64 9223372036854775808%N); ([102]%N, GInt (-7))].
Definition ex2_pi : order := fun _ l => rev l.

Example C15_same_concrete_nonvacuous :
  wt ex2_ty ex2_val = true /\ supported ex2_ty = true /\
  (* simple, EncZeroValuesAsNil off, StringToRaw, SignedInteger, RawToString *)
  (let o := Simple.mkeopts false true in let D := Simple.mkdopts true true 0 in
   let i := to_item ex_O ex2_pi ex2_val in
   leaves_ok (W_simple_n o D) i = true /\
   (do g <- naked_run (FSimple o D) i;; do g2 <- naked_run (FSimple o D) (reenc ex_O' g);; of_item (W_simple o D) ex_O 0 ex2_ty g2)
     = Ok (normL exact_losses ex_O (arrange ex_O ex2_pi ex2_val))) /\
  (* msgpack legacy layout (WriteExt off): the time travels as raw bytes through the tree *)
  (let Of := Msgpack.mkeopts false false true false in let D := Msgpack.mkdopts false false true 0 in
   let i := to_item ex_O ex2_pi ex2_val in
   leaves_ok (W_msgpack Of D) i = true /\
   (do g <- naked_run (FMsgpack Of D) i;; do g2 <- naked_run (FMsgpack Of D) (reenc ex_O' g);; of_item (W_msgpack Of D) ex_O 0 ex2_ty g2)
     = Ok (normL exact_losses ex_O (arrange ex_O ex2_pi ex2_val))) /\
  (* binc with symbols: -0.0 comes back +0.0 (binc_losses) *)
  (let e := Binc.Build_eopts true false in let d := Binc.Build_dopts 1024 true false in
   let i := to_item ex_O ex2_pi ex2_val in
   leaves_ok (W_binc e d) i = true /\
   (do g <- naked_run (FBinc e d) i;; do g2 <- naked_run (FBinc e d) (reenc ex_O' g);; of_item (W_binc e d) ex_O 0 ex2_ty g2)
     = Ok (normL binc_losses ex_O (arrange ex_O ex2_pi ex2_val)) /\
   normL binc_losses ex_O ex2_val <> normL exact_losses ex_O ex2_val) /\
  (* cbor with TimeRFC3339, IndefiniteLength, OptimumSize *)
  (let Oc := Cbor.mkeo true true false true in let D := Cbor.mkdo false false false 0 in
   let i := to_item ex_O ex2_pi ex2_val in
   leaves_ok (W_cbor_t Oc D) i = true /\ leaves_ok (W_cbor Oc D) i = false /\
   (do g <- naked_run (FCbor Oc D) i;; do g2 <- naked_run (FCbor Oc D) (reenc ex_O' g);; of_item (W_cbor_t Oc D) ex_O 0 ex2_ty g2)
     = Ok (normL cbor_t_losses ex_O (arrange ex_O ex2_pi ex2_val))) /\
  (* the excluded corner of simple: an empty []byte under EncZeroValuesAsNil + RawToString comes back nil *)
  (let o := Simple.mkeopts true false in let D := Simple.mkdopts false true 0 in
   let i := to_item ex_O ex2_pi (GBytes (Some [])) in
   leaves_ok (W_simple o D) i = true /\ leaves_ok (W_simple_n o D) i = false /\
   (do g <- naked_run (FSimple o D) i;; do g2 <- naked_run (FSimple o D) (reenc ex_O' g);; of_item (W_simple o D) ex_O 0 TBytes g2)
     = Ok (GBytes None)) /\
  (* an instant that rounds to the zero time: a pointer to it comes back nil after the two passes *)
  normL cbor_t_losses ex_O (GPtr (Some (GTime (time_zero_sec - 1) 999999500%N))) = GPtr None /\
  normL cbor_losses ex_O (GPtr (Some (GTime (time_zero_sec - 1) 999999500%N))) = GPtr (Some (GTime time_zero_sec 0%N)).
Proof. cbv zeta. repeat apply conj; try (vm_compute; reflexivity); vm_compute; discriminate. Qed.

(* C15_cross, both sides computed through the byte-level models: simple -> tree -> cbor (TimeRFC3339), binc -> tree ->
   msgpack, msgpack (WriteExt) -> tree -> simple; msgpack without WriteExt as a source of a non-zero time is outside
   the leaf premise, and the transcoding to simple then FAILS (the tree holds raw bytes, DecodeTime refuses them) *)
Example C15_cross_nonvacuous :
  let i := to_item ex_O ex2_pi ex2_val in
  (let o := Simple.mkeopts false true in let D := Simple.mkdopts false false 0 in
   let Oc := Cbor.mkeo false true false true in let Dc := Cbor.mkdo true true false 0 in
   let W1 := W_simple o D in let W2 := W_cbor_t Oc Dc in
   bwire W1 /\ bwire W2 /\ leaves_ok (with_leaf W1 (cross_leaf W1 W2)) i = true /\
   (do g <- naked_run (FSimple o D) i;; do g2 <- naked_run (FCbor Oc Dc) (reenc ex_O' g);; of_item W2 ex_O 0 ex2_ty g2)
     = Ok (norm (compose_wire (with_leaf W1 (cross_leaf W1 W2)) W2) ex_O (arrange ex_O ex2_pi ex2_val))) /\
  (let e := Binc.Build_eopts true false in let d := Binc.Build_dopts 1024 false false in
   let Of := Msgpack.mkeopts true true false true in let Dm := Msgpack.mkdopts true false true 0 in
   let W1 := W_binc e d in let W2 := W_msgpack Of Dm in
   leaves_ok (with_leaf W1 (cross_leaf W1 W2)) i = true /\
   (do g <- naked_run (FBinc e d) i;; do g2 <- naked_run (FMsgpack Of Dm) (reenc ex_O' g);; of_item W2 ex_O 0 ex2_ty g2)
     = Ok (norm (compose_wire (with_leaf W1 (cross_leaf W1 W2)) W2) ex_O (arrange ex_O ex2_pi ex2_val))) /\
  (let Of := Msgpack.mkeopts true false false false in let Dm := Msgpack.mkdopts true false false 0 in
   let o := Simple.mkeopts false false in let D := Simple.mkdopts true false 0 in
   let W1 := W_msgpack Of Dm in let W2 := W_simple o D in
   leaves_ok (with_leaf W1 (cross_leaf W1 W2)) i = true /\
   (do g <- naked_run (FMsgpack Of Dm) i;; do g2 <- naked_run (FSimple o D) (reenc ex_O' g);; of_item W2 ex_O 0 ex2_ty g2)
     = Ok (norm (compose_wire (with_leaf W1 (cross_leaf W1 W2)) W2) ex_O (arrange ex_O ex2_pi ex2_val))) /\
  (let Of := Msgpack.mkeopts false false false false in let Dm := Msgpack.mkdopts false false false 0 in
   let o := Simple.mkeopts false false in let D := Simple.mkdopts false false 0 in
   let W1 := W_msgpack Of Dm in let W2 := W_simple o D in
   leaves_ok (with_leaf W1 (cross_leaf W1 W2)) i = false /\
   (do g <- naked_run (FMsgpack Of Dm) i;; do g2 <- naked_run (FSimple o D) (reenc ex_O' g);; of_item W2 ex_O 0 ex2_ty g2)
     = Err EBadDesc).
Proof.
  cbv zeta. repeat apply conj;
    first [ apply bw_simple | apply bw_cbor_t | (vm_compute; reflexivity) ].
Qed.

(* C19 — nil in the stream means zero; absent means untouched; decoding is idempotent.
   Only statements, closed by [exact], with [Print Assumptions] beneath each.
   [merge] (C19/Spec.v) is written from the Decode documentation; [dec_refl], [dec_fast],
   [dec_builtin] (C19/Model.v) mirror the three implementations; [dec_impl] picks the one the
   build uses.  The full-strength statements for nested types are tied to the implementation
   by correspondence and by the harness oracle only (see the _partial names). *)
From Coq Require Import List NArith ZArith Arith Bool Lia.
From Verif Require Import Base.Outcome Wire.Item C19.Spec C19.Model C19.Proofs.
Import ListNotations.

(* NIL: a nil decoded into ANY type with ANY previous content — at the top level, as a slice
   element, as a map value — gives the zero value, in all three implementations and in the
   specification *)
Theorem C19_nil : forall (fp : bool) (o : dopts) (t : ty) (d : gv),
  dec_refl fp o t d INil = Ok (zero_of t) /\ dec_fast o t d INil = Ok (zero_of t) /\
  dec_builtin t d INil = Ok (zero_of t) /\ merge o t d INil = Ok (zero_of t).
Proof. exact nil_zero. Qed.
Print Assumptions C19_nil.

Theorem C19_nil_impl : forall (fp : bool) (o : dopts) (t : ty) (d : gv), dec_impl fp o t d INil = Ok (zero_of t).
Proof. exact nil_impl. Qed.
Print Assumptions C19_nil_impl.

(* … as a struct FIELD (kStructField) it gives the zero value unless the field is a non-nil pointer *)
Theorem C19_nil_field : forall (t : ty) (d : gv),
  ((forall e, t <> TPtr e) -> field_nil t d = zero_of t) /\
  (forall e, field_nil (TPtr e) (VPtr None) = zero_of (TPtr e)).
Proof. intros t d. split; [apply field_nil_nonptr|apply field_nil_nilptr]. Qed.
Print Assumptions C19_nil_field.

(* finding F19-1: a non-nil pointer field keeps the pointer and zeroes what it points to *)
Definition C19_nil_field_full_statement : Prop := forall t d, field_nil t d = zero_of t.
Theorem C19_nil_field_refuted : exists t d, field_nil t d <> zero_of t.
Proof. exact field_nil_refuted. Qed.
Print Assumptions C19_nil_field_refuted.

(* MERGE: the implementation is the documented merge on scalars (all options, all previous
   contents); the full statement is false (F19-1) *)
Theorem C19_merge_partial : forall (o : dopts) (t : ty) (d : gv) (it : item),
  scalar_ty t -> dec_builtin t d it = merge o t d it.
Proof. exact builtin_is_merge. Qed.
Print Assumptions C19_merge_partial.

Definition C19_merge_full_statement : Prop :=
  forall fp o t d it, dec_impl fp o t d it = merge o t d it.
Theorem C19_merge_refuted : exists fp o t d it, dec_impl fp o t d it <> merge o t d it.
Proof. exact merge_refuted. Qed.
Print Assumptions C19_merge_refuted.

(* PATHS: the generated fast-path functions and the reflection path agree on slices and maps
   of scalars, for every stream length, previous content and option vector *)
Theorem C19_paths_slice : forall (o : dopts) (e : ty), scalar_ty e -> forall (l : list item) (d : gv),
  dec_fast o (TSlice e) d (IArr l) = dec_refl false o (TSlice e) d (IArr l).
Proof. exact fast_slice_is_refl. Qed.
Print Assumptions C19_paths_slice.

Theorem C19_paths_map : forall (o : dopts) (e : ty), scalar_ty e -> forall (kvs : list (item * item)) (d : gv),
  dec_fast o (TMap e) d (IMap kvs) = dec_refl false o (TMap e) d (IMap kvs).
Proof. exact fast_map_is_refl. Qed.
Print Assumptions C19_paths_map.

(* finding F19-2: for []interface{} the fast path does not consult SliceElementReset *)
Definition C19_paths_full_statement : Prop :=
  forall o t d it, has_fastpath t = true -> dec_fast o t d it = dec_refl false o t d it.
Theorem C19_paths_refuted : exists o d it,
  dec_fast o (TSlice TIface) d it <> dec_refl false o (TSlice TIface) d it.
Proof. exact paths_refuted. Qed.
Print Assumptions C19_paths_refuted.

(* IDEMPOTENCE (partial: scalars, and nil at any type; containers are checked on the
   implementation and through the model's second run in the correspondence) *)
Theorem C19_idem_partial : forall (fp : bool) (o : dopts) (t : ty) (d : gv) (it : item) (r : gv),
  scalar_ty t -> dec_impl fp o t d it = Ok r -> dec_impl fp o t r it = Ok r.
Proof. exact idem_scalar. Qed.
Print Assumptions C19_idem_partial.

Theorem C19_idem_nil : forall (fp : bool) (o : dopts) (t : ty) (d : gv),
  dec_impl fp o t (zero_of t) INil = dec_impl fp o t d INil.
Proof. exact idem_nil. Qed.
Print Assumptions C19_idem_nil.

(* non-vacuity: a longer existing slice is cut to the stream, a map keeps the entry the stream
   does not mention, an allocated pointer is decoded through *)
Example C19_nonvacuous :
  let o := mkDopts false false false false in
  dec_impl true o (TSlice TInt) (VSlice (Some [VInt 1; VInt 2; VInt 3])) (IArr [IInt 9]) = Ok (VSlice (Some [VInt 9])) /\
  dec_impl true o (TMap TInt) (VMap (Some [([97]%N, VInt 1); ([98]%N, VInt 2)])) (IMap [(IStr [98]%N, INil)])
    = Ok (VMap (Some [([97]%N, VInt 1); ([98]%N, VInt 0)])) /\
  dec_impl true o (TPtr (TStruct [([65]%N, TInt); ([66]%N, TInt)])) (VPtr (Some (VStruct [VInt 1; VInt 2]))) (IMap [(IStr [65]%N, IInt 9)])
    = Ok (VPtr (Some (VStruct [VInt 9; VInt 2]))).
Proof. vm_compute. repeat apply conj; reflexivity. Qed.

(* C19 — nil in the stream means zero; absent means untouched; decoding is idempotent.
   Only statements, closed by [exact], with [Print Assumptions] beneath each.
   [merge] (C19/Spec.v) is written from the Decode documentation; [dec_refl], [dec_fast],
   [dec_builtin] (C19/Model.v) mirror the three implementations; [dec_impl] picks the one the
   build uses.  Universe: int, string, pointers, slices, string-keyed maps, structs, interface{}
   holding nil / int64 / string; every theorem below quantifies over ALL types of that universe,
   all destinations (no well-typedness is assumed), all stream items and all option vectors.
   [merge], [dec_refl], [dec_fast], [dec_impl] are the instances dyn = false of merge_x / dec_*_x:
   the decoder never unboxes a struct held BY VALUE in an interface{} (VDyn).  With dyn = true
   (kInterface decodes into a copy of the held struct and stores it back) the same functions are
   tied to the implementation by the correspondence and the merge oracle only. *)
From Coq Require Import List NArith ZArith Arith Bool Lia.
From Verif Require Import Base.Outcome Wire.Item C19.Spec C19.Model C19.Loops C19.Proofs
     C19.ProofsMerge C19.ProofsPaths C19.ProofsKeep C19.ProofsIdem C19.ProofsTop C19.ProofsLen.
Import ListNotations.

(* NIL: a nil decoded into ANY type with ANY previous content — at the top level, as a slice
   element, as a map value — gives the zero value, in all three implementations and in the
   specification *)
Theorem C19_nil : forall (fp : bool) (o : dopts) (t : ty) (d : gv),
  dec_refl fp o t d INil = Ok (zero_of t) /\ dec_fast o t d INil = Ok (zero_of t) /\
  dec_builtin t d INil = Ok (zero_of t) /\ merge o t d INil = Ok (zero_of t).
Proof. exact nil_zero. Qed.
Print Assumptions C19_nil.

Theorem C19_nil_impl : forall (fp : bool) (o : dopts) (t : ty) (d : gv), dec_impl fp o t d INil = Ok (zero_of t).
Proof. exact nil_impl. Qed.
Print Assumptions C19_nil_impl.

(* … as a struct FIELD (kStructField) it gives the zero value unless the field is a non-nil pointer *)
Theorem C19_nil_field : forall (t : ty) (d : gv),
  ((forall e, t <> TPtr e) -> field_nil t d = zero_of t) /\
  (forall e, field_nil (TPtr e) (VPtr None) = zero_of (TPtr e)).
Proof. intros t d. split; [apply field_nil_nonptr|apply field_nil_nilptr]. Qed.
Print Assumptions C19_nil_field.

(* finding F19-1: a non-nil pointer field keeps the pointer and zeroes what it points to *)
Definition C19_nil_field_full_statement : Prop := forall t d, field_nil t d = zero_of t.
Theorem C19_nil_field_refuted : exists t d, field_nil t d <> zero_of t.
Proof. exact field_nil_refuted. Qed.
Print Assumptions C19_nil_field_refuted.

(* MERGE: for every type, destination, stream item and option vector, what the build's decoder
   leaves in the destination is the documented merge — outside the two recorded defect classes,
   excluded by boolean guards:
     nil_ok t it       no stream nil is aimed at a struct field of POINTER type (F19-1; the guard
                       is on type and stream only, so it also excludes the harmless case where
                       that field currently holds a nil pointer);
     paths_guard fp o t  not (fast paths compiled in, SliceElementReset set, a []interface{}
                       somewhere in t)   (F19-2) *)
Theorem C19_merge : forall (fp : bool) (o : dopts) (t : ty) (d : gv) (it : item),
  nil_ok t it = true -> paths_guard fp o t = true ->
  dec_impl fp o t d it = merge o t d it.
Proof. exact merge_top. Qed.
Print Assumptions C19_merge.

Theorem C19_impl_is_reflection : forall (fp : bool) (o : dopts) (t : ty) (d : gv) (it : item),
  dec_impl fp o t d it = dec_refl fp o t d it.
Proof. exact impl_is_refl. Qed.
Print Assumptions C19_impl_is_reflection.

Definition C19_merge_full_statement : Prop :=
  forall fp o t d it, dec_impl fp o t d it = merge o t d it.
Theorem C19_merge_refuted : exists fp o t d it, dec_impl fp o t d it <> merge o t d it.
Proof. exact merge_refuted. Qed.
Print Assumptions C19_merge_refuted.

(* the witnesses of the refutations are exactly what the guards exclude *)
Theorem C19_guards_tight :
  nil_ok (TStruct [([80]%N, TPtr TInt)]) (IMap [(IStr [80]%N, INil)]) = false /\
  paths_guard true (mkDopts false true false false) (TSlice TIface) = false.
Proof. exact guards_tight. Qed.
Print Assumptions C19_guards_tight.

(* KEEP: absent means untouched.  A struct field no key of the stream map names, a struct field
   beyond the stream array, a map entry whose key the stream does not contain are unchanged —
   at every struct / map the decoder reaches, whatever the field / element types *)
Theorem C19_keep_struct : forall (fp : bool) (o : dopts) (fs : list (str * ty)) (xs : list gv) (kvs : list (item * item)) (r : gv),
  dec_impl fp o (TStruct fs) (VStruct xs) (IMap kvs) = Ok r ->
  exists ys, r = VStruct ys /\ forall i, ~ mentions_field fs kvs i -> nth_error ys i = nth_error xs i.
Proof. exact keep_struct_map_top. Qed.
Print Assumptions C19_keep_struct.

Theorem C19_keep_struct_array : forall (fp : bool) (o : dopts) (fs : list (str * ty)) (xs : list gv) (l : list item) (r : gv),
  dec_impl fp o (TStruct fs) (VStruct xs) (IArr l) = Ok r ->
  exists ys, r = VStruct ys /\ forall i, length l <= i -> nth_error ys i = nth_error xs i.
Proof. exact keep_struct_arr_top. Qed.
Print Assumptions C19_keep_struct_array.

Theorem C19_keep_map : forall (fp : bool) (o : dopts) (e : ty) (m : list (str * gv)) (kvs : list (item * item)) (r : gv),
  dec_impl fp o (TMap e) (VMap (Some m)) (IMap kvs) = Ok r ->
  exists m', r = VMap (Some m') /\ forall key, ~ mentions_key kvs key -> assoc key m' = assoc key m.
Proof. exact keep_map_top. Qed.
Print Assumptions C19_keep_map.

(* LENGTH: a slice decoded from a stream array ends with exactly the length of the stream array,
   whatever its previous length, and element j is stream element j decoded into what was at j
   (the zero value beyond the previous length, or under SliceElementReset where the path consults
   it): no trailing elements, none missing.  The model has no capacity; the implementation's
   pre-sizing to min(stream length, max(1024, MaxInitLen)) and its growing inside the element loop
   are tied to this by the harness (stream arrays longer than the cap). *)
Theorem C19_slice_len : forall (fp : bool) (o : dopts) (e : ty) (d : gv) (l : list item) (r : gv),
  dec_impl fp o (TSlice e) d (IArr l) = Ok r ->
  exists xs, r = VSlice (Some xs) /\ length xs = length l /\
    forall j x, nth_error l j = Some x ->
      exists y, nth_error xs j = Some y /\
        dec_refl fp o e (if refl_reset fp o e then zero_of e else nth j (old_slice d) (zero_of e)) x = Ok y.
Proof. exact slice_law. Qed.
Print Assumptions C19_slice_len.

(* PATHS: the generated fast-path functions equal the reflection path on every type they cover
   in this universe ([]int, []string, []interface{}, map[string]int/string/interface{}), for
   every destination, every stream item and every option vector: against the reflection path
   of the same build unconditionally, against the build without fast paths unless
   SliceElementReset meets []interface{} (F19-2) *)
Theorem C19_paths : forall (o : dopts) (t : ty) (d : gv) (it : item), has_fastpath t = true ->
  dec_fast o t d it = dec_refl true o t d it.
Proof. exact fast_is_refl_true. Qed.
Print Assumptions C19_paths.

Theorem C19_paths_notfastpath : forall (o : dopts) (t : ty) (d : gv) (it : item), has_fastpath t = true ->
  negb (o_slice_elem_reset o && match t with TSlice TIface => true | _ => false end) = true ->
  dec_fast o t d it = dec_refl false o t d it.
Proof. exact fast_is_refl_false. Qed.
Print Assumptions C19_paths_notfastpath.

Definition C19_paths_full_statement : Prop :=
  forall o t d it, has_fastpath t = true -> dec_fast o t d it = dec_refl false o t d it.
Theorem C19_paths_refuted : exists o d it,
  dec_fast o (TSlice TIface) d it <> dec_refl false o (TSlice TIface) d it.
Proof. exact paths_refuted. Qed.
Print Assumptions C19_paths_refuted.

(* IDEMPOTENCE: decoding the same item a second time into the result returns the result, for
   every type, destination and option vector (MapValueReset / SliceElementReset / InterfaceReset
   in any combination).  Side condition forced by the proof: no stream map repeats a key
   (nodup_keys; encoders never write a key twice) *)
Theorem C19_idem : forall (fp : bool) (o : dopts) (it : item), nodup_keys it = true ->
  forall (t : ty) (d r : gv), dec_impl fp o t d it = Ok r -> dec_impl fp o t r it = Ok r.
Proof. exact idem_top. Qed.
Print Assumptions C19_idem.

(* non-vacuity: a longer existing slice is cut to the stream, a map keeps the entry the stream
   does not mention, an allocated pointer is decoded through *)
Example C19_nonvacuous :
  let o := mkDopts false false false false in
  dec_impl true o (TSlice TInt) (VSlice (Some [VInt 1; VInt 2; VInt 3])) (IArr [IInt 9]) = Ok (VSlice (Some [VInt 9])) /\
  dec_impl true o (TMap TInt) (VMap (Some [([97]%N, VInt 1); ([98]%N, VInt 2)])) (IMap [(IStr [98]%N, INil)])
    = Ok (VMap (Some [([97]%N, VInt 1); ([98]%N, VInt 0)])) /\
  dec_impl true o (TPtr (TStruct [([65]%N, TInt); ([66]%N, TInt)])) (VPtr (Some (VStruct [VInt 1; VInt 2]))) (IMap [(IStr [65]%N, IInt 9)])
    = Ok (VPtr (Some (VStruct [VInt 9; VInt 2]))).
Proof. vm_compute. repeat apply conj; reflexivity. Qed.

Example C19_merge_nonvacuous :
  let t := TStruct [([65]%N, TPtr (TSlice TInt)); ([66]%N, TMap TIface)] in
  let it := IMap [(IStr [65]%N, IArr [IInt 1; INil]); (IStr [66]%N, IMap [(IStr [107]%N, IStr [118]%N)])] in
  nil_ok t it = true /\ paths_guard true (mkDopts true true true false) t = true /\ nodup_keys it = true /\
  dec_impl true (mkDopts true true true false) t (VStruct [VPtr None; VMap None]) it
  = Ok (VStruct [VPtr (Some (VSlice (Some [VInt 1; VInt 0]))); VMap (Some [([107]%N, VIface (Some (VStr [118]%N)))])]).
Proof. vm_compute. repeat apply conj; reflexivity. Qed.

Example C19_slice_len_nonvacuous :
  let o := mkDopts false false false false in
  let t := TStruct [([65]%N, TInt); ([66]%N, TStr)] in
  dec_impl false o (TSlice t) (VSlice (Some [VStruct [VInt 1; VStr [111]%N]]))
    (IArr [IMap [(IStr [65]%N, IInt 9)]; IMap [(IStr [65]%N, IInt 8)]; INil])
  = Ok (VSlice (Some [VStruct [VInt 9; VStr [111]%N]; VStruct [VInt 8; VStr []]; VStruct [VInt 0; VStr []]])).
Proof. vm_compute. reflexivity. Qed.

(* C03 — Decode depends only on the bytes, not on how a Reader delivers them.
   Only statements, closed by [exact], with [Print Assumptions] beneath each.

   Vocabulary (C03/Model.v): [run_io c (init c d sc f) ops] is the trace of the
   model of ioDecReader (configuration c: ReaderBufferSize, MaxInitLen, ByteReader
   or not) over the scripted reader that delivers the bytes d according to the
   response script sc and then ends with f (io.EOF or an error); [run_spec (sinit d)
   ops] is the trace of the specification reader (what bytesDecReader does) over d.
   A trace element is the output bytes, the token and numread() after the
   operation, or an error; a run stops at its first error. [respects] says that the
   operation list follows the decReaderI protocol (Model.pre_ok), [abides] that the
   script has fewer than maxConsecutiveEmptyReads zero-length reads in a row. *)
From Coq Require Import List NArith ZArith Arith Lia Bool.
From Verif Require Import Gen.Consts C03.Model C03.Proofs.
Import ListNotations.

(* Refinement, unbuffered mode (ReaderBufferSize <= 0), every operation family
   (readn1/readnK/readx/readxb, readb, skip, skipWhitespace, jsonReadNum,
   jsonReadAsisChars, jsonReadUntilDblQuote, start/stopRecording), every data,
   every contract-abiding script, every MaxInitLen, with and without ReadByte:
   same outputs, same tokens, same numread, same success/failure.
   PARTIAL: the same statement for bufsize > 0 (fillbuf and the BUFIO loops) is
   not proved; it is checked by correspondence and by the Example below only. *)
Theorem C03_refines_partial : forall (c : cfg) (d : list N) (sc : list resp) (ops : list rop),
  bufsize c = 0 -> abides sc -> respects false (sinit d) ops = true ->
  map erase (run_io c (init c d sc KEof) ops) = run_spec (sinit d) ops.
Proof. intros c d sc ops H. apply unbuf_refines. unfold bufio. rewrite H. reflexivity. Qed.
Print Assumptions C03_refines_partial.

(* Whatever the script (abiding or not) and however the reader ends (EOF or error),
   the reader-fed run follows the specification run on the bytes delivered until it
   stops with an error; in particular if those bytes are not enough for the
   operations (the value is incomplete) the run reports an error, never success.
   PARTIAL: unbuffered mode only. *)
Theorem C03_truncated_partial : forall (c : cfg) (d : list N) (sc : list resp) (f : ek) (ops : list rop),
  bufsize c = 0 -> f = KEof \/ f = KHard -> respects false (sinit d) ops = true ->
  In TErr (run_spec (sinit d) ops) ->
  exists k, In (EErr k) (run_io c (init c d sc f) ops).
Proof.
  intros c d sc f ops H Hf Hr Hin.
  destruct (agree_truncated _ _ (unbuf_agree c d sc f ops ltac:(unfold bufio; rewrite H; reflexivity) Hf Hr) Hin) as [k [A _]].
  exists k. exact A.
Qed.
Print Assumptions C03_truncated_partial.

(* Without internal buffering the reader is never asked for more bytes than the
   operations consumed: after every successful operation, bytes drawn = numread.
   (Full: the statement is about bufsize = 0 only.) *)
Theorem C03_no_overread : forall (c : cfg) (d : list N) (sc : list resp) (f : ek) (ops : list rop),
  bufsize c = 0 -> f = KEof \/ f = KHard -> respects false (sinit d) ops = true ->
  Forall no_overread_ev (run_io c (init c d sc f) ops).
Proof. intros c d sc f ops H. apply unbuf_no_overread. unfold bufio. rewrite H. reflexivity. Qed.
Print Assumptions C03_no_overread.

(* The model's internal failure classes (out of fuel, unmodelled operation) are
   never returned. PARTIAL: unbuffered mode only. *)
Theorem C03_total_partial : forall (c : cfg) (d : list N) (sc : list resp) (f : ek) (ops : list rop) (k : ek),
  bufsize c = 0 -> f = KEof \/ f = KHard -> respects false (sinit d) ops = true ->
  In (EErr k) (run_io c (init c d sc f) ops) -> k <> KFuel /\ k <> KUnmodelled.
Proof.
  intros c d sc f ops k H Hf Hr Hin.
  pose proof (agree_total _ _ (unbuf_agree c d sc f ops ltac:(unfold bufio; rewrite H; reflexivity) Hf Hr) k Hin) as B.
  unfold bad in B. split; intros E; apply B; auto.
Qed.
Print Assumptions C03_total_partial.

(* non-vacuity: one byte at a time with zero-length reads in between, through 1-,
   3- and 64-byte buffers and unbuffered, with and without ReadByte: the premises
   hold and the observations equal those of the specification reader on the
   delivered bytes, including a recorded value and a json number that ends with
   the input; the 8 operations all succeed *)
Example C03_nonvacuous :
  let d := [34; 97; 92; 34; 32; 45; 49; 50; 51]%N in
  let sc := [mkresp 1 false; mkresp 0 false; mkresp 0 false; mkresp 2 false; mkresp 1 true;
             mkresp 0 false; mkresp 1 false; mkresp 3 false; mkresp 1 false; mkresp 5 true] in
  let ops := [Readn1; ReadAsis; StartRec; Readx 2; StopRec; SkipWs; ReadNum; Readn1] in
  respects true (sinit d) ops = true /\ respects false (sinit d) ops = true /\ abides sc /\
  forall b, In b [0; 1; 3; 64] -> forall r, In r [true; false] ->
    map erase (run_io (mkcfg b 0 r) (init (mkcfg b 0 r) d sc KEof) ops) = run_spec (sinit d) ops
    /\ length (run_spec (sinit d) ops) = 8 /\ last (run_spec (sinit d) ops) TErr = TErr.
Proof.
  cbv zeta. split; [vm_compute; reflexivity|]. split; [vm_compute; reflexivity|].
  split; [unfold abides; vm_compute; repeat split; lia|].
  intros b Hb r Hr. simpl in Hb, Hr.
  destruct Hb as [<-|[<-|[<-|[<-|[]]]]]; destruct Hr as [<-|[<-|[]]]; vm_compute; repeat split.
Qed.

(* non-vacuity of the truncation statement: the reader fails after 5 bytes, the operations need 8 *)
Example C03_truncated_nonvacuous :
  let d := [34; 97; 92; 34; 32]%N in
  let ops := [Readn1; ReadAsis; SkipWs; Readx 4] in
  respects false (sinit d) ops = true /\ In TErr (run_spec (sinit d) ops) /\
  run_io (mkcfg 0 0 false) (init (mkcfg 0 0 false) d [mkresp 2 false; mkresp 0 false] KHard) ops
  = [EOk [34%N] 0 1 1 1 1; EOk [97%N] 92 3 3 4 4; EOk [] 34 4 4 5 5; EErr KHard].
Proof. cbv zeta. split; [vm_compute; reflexivity|]. split; [vm_compute; auto|]. vm_compute. reflexivity. Qed.

(* C03 — Decode depends only on the bytes, not on how a Reader delivers them.
   Only statements, closed by [exact], with [Print Assumptions] beneath each.

   Vocabulary (C03/Model.v): [run_io c (init c d sc f) ops] is the trace of the
   model of ioDecReader (configuration c: ReaderBufferSize, MaxInitLen, ByteReader
   or not) over the scripted reader that delivers the bytes d according to the
   response script sc and then ends with f (io.EOF or an error); [run_spec (sinit d)
   ops] is the trace of the specification reader (what bytesDecReader does) over d.
   A trace element is the output bytes, the token and numread() after the
   operation, or an error; a run stops at its first error. [respects] says that the
   operation list follows the decReaderI protocol (Model.pre_ok), [abides] that the
   script has fewer than maxConsecutiveEmptyReads zero-length reads in a row. *)
From Coq Require Import List NArith ZArith Arith Lia Bool.
From Verif Require Import Gen.Consts C03.Model C03.ModelR C03.Proofs C03.ProofsB C03.ProofsR.
Import ListNotations.

(* Refinement: every configuration (any ReaderBufferSize: unbuffered and buffered,
   any MaxInitLen, with and without ReadByte), every data, every contract-abiding
   script (one byte at a time, arbitrary chunks, zero-length reads, data together
   with EOF), every protocol-respecting operation list over every operation family
   (readn1/readnK/readx/readxb, readb, skip, skipWhitespace, jsonReadNum,
   jsonReadAsisChars, jsonReadUntilDblQuote, start/stopRecording): the same outputs,
   tokens, numread after every operation and the same success/failure as the
   specification reader over the delivered bytes. *)
Theorem C03_refines : forall (c : cfg) (d : list N) (sc : list resp) (ops : list rop),
  abides sc -> respects (bufio c) (sinit d) ops = true ->
  map erase (run_io c (init c d sc KEof) ops) = run_spec (sinit d) ops.
Proof. exact all_refines. Qed.
Print Assumptions C03_refines.

(* A reader that delivers d (under the contract) and then ends -- with io.EOF or
   with an error -- before the operations have what they need makes the run report
   an error, never success: wherever the specification run over the delivered
   bytes fails, so does the reader-fed run. *)
Theorem C03_truncated : forall (c : cfg) (d : list N) (sc : list resp) (f : ek) (ops : list rop),
  f = KEof \/ f = KHard -> abides sc -> respects (bufio c) (sinit d) ops = true ->
  In TErr (run_spec (sinit d) ops) ->
  exists k, In (EErr k) (run_io c (init c d sc f) ops).
Proof.
  intros c d sc f ops Hf Hab Hr Hin.
  destruct (agree_truncated _ _ (all_agree c d sc f ops Hf Hab Hr) Hin) as [k [A _]].
  exists k. exact A.
Qed.
Print Assumptions C03_truncated.

(* Unbuffered, the same holds for every script whatsoever (also one that breaks the
   zero-length-read limit): the run follows the specification run until it stops
   with an error. (Buffered, the same is proved only under the contract, see C03_truncated: the
   buffered invariants are stated for abiding scripts.) *)
Theorem C03_truncated_unbuffered_any_script : forall (c : cfg) (d : list N) (sc : list resp) (f : ek) (ops : list rop),
  bufsize c = 0 -> f = KEof \/ f = KHard -> respects false (sinit d) ops = true ->
  agree (run_io c (init c d sc f) ops) (run_spec (sinit d) ops).
Proof. intros c d sc f ops H. apply unbuf_agree. unfold bufio. rewrite H. reflexivity. Qed.
Print Assumptions C03_truncated_unbuffered_any_script.

(* Without internal buffering the reader is never asked for more bytes than the
   operations consumed: after every successful operation, bytes drawn = numread
   (every script, every terminal error). *)
Theorem C03_no_overread : forall (c : cfg) (d : list N) (sc : list resp) (f : ek) (ops : list rop),
  bufsize c = 0 -> f = KEof \/ f = KHard -> respects false (sinit d) ops = true ->
  Forall no_overread_ev (run_io c (init c d sc f) ops).
Proof. intros c d sc f ops H. apply unbuf_no_overread. unfold bufio. rewrite H. reflexivity. Qed.
Print Assumptions C03_no_overread.

(* The model's internal failure classes (out of fuel, unmodelled operation, a nil
   error reported as an error) are never returned. *)
Theorem C03_total : forall (c : cfg) (d : list N) (sc : list resp) (f : ek) (ops : list rop) (k : ek),
  f = KEof \/ f = KHard -> abides sc -> respects (bufio c) (sinit d) ops = true ->
  In (EErr k) (run_io c (init c d sc f) ops) -> k <> KFuel /\ k <> KUnmodelled /\ k <> KNone.
Proof.
  intros c d sc f ops k Hf Hab Hr Hin.
  pose proof (agree_total _ _ (all_agree c d sc f ops Hf Hab Hr) k Hin) as B.
  unfold bad in B. repeat apply conj; intros E; apply B; auto.
Qed.
Print Assumptions C03_total.

(* A REUSED reader (Decoder.Reset(newReader)): [resetIO c s0 d sc f] is the state
   ioDecReader.resetIO leaves when it is called in state s0 (C03/ModelR.v). For
   EVERY previous state s0 -- whatever the Decoder read before: its previous
   Reader drained to io.EOF (done set), a sticky error pending, in the middle of a
   recording, unread bytes left in the buffer, a grown buffer -- the run over the
   new reader refines the specification run over the NEW bytes alone. *)
Theorem C03_reset_refines : forall (c : cfg) (s0 : st) (d : list N) (sc : list resp) (ops : list rop),
  abides sc -> respects (bufio c) (sinit d) ops = true ->
  map erase (run_io c (resetIO c s0 d sc KEof) ops) = run_spec (sinit d) ops.
Proof. exact reset_refines. Qed.
Print Assumptions C03_reset_refines.

(* ... and a new reader that ends early still makes the reused reader fail, with a real error class *)
Theorem C03_reset_truncated : forall (c : cfg) (s0 : st) (d : list N) (sc : list resp) (f : ek) (ops : list rop),
  f = KEof \/ f = KHard -> abides sc -> respects (bufio c) (sinit d) ops = true ->
  In TErr (run_spec (sinit d) ops) ->
  exists k, In (EErr k) (run_io c (resetIO c s0 d sc f) ops) /\ k <> KFuel /\ k <> KUnmodelled /\ k <> KNone.
Proof. exact reset_truncated. Qed.
Print Assumptions C03_reset_truncated.

(* A whole life: any number of earlier segments (any data, ANY script -- also
   contract-breaking ones --, any operation lists -- also ones outside the
   protocol or failing; [sfail] stands for the state a failed segment leaves),
   each entered through resetIO: the last segment refines the specification run
   over its own bytes. *)
Theorem C03_session_refines : forall (c : cfg) (sfail s0 : st) (hist : list seg) (d : list N) (sc : list resp) (ops : list rop),
  abides sc -> respects (bufio c) (sinit d) ops = true ->
  map erase (run_sess c sfail s0 hist d sc KEof ops) = run_spec (sinit d) ops.
Proof. intros c sfail s0 hist. exact (sess_refines c sfail hist s0). Qed.
Print Assumptions C03_session_refines.

(* a new reader is the reset of the zero value *)
Theorem C03_init_is_reset : forall c d sc f, init c d sc f = resetIO c (st0 0) d sc f.
Proof. exact init_is_reset. Qed.
Print Assumptions C03_init_is_reset.

(* non-vacuity of the reset statements: a 3-byte-buffered reader whose first Reader
   (the number 12, which only io.EOF ends) was drained -- the state before the reset
   has done = true and the sticky io.EOF, every further read fails --; after resetIO the second
   stream ({"a":7} delivered 2 bytes at a time, the last together with io.EOF) reads
   like the bytes. Keeping [done] across the reset would make the first SkipWs fail. *)
Example C03_reset_nonvacuous :
  let c := mkcfg 3 0 false in
  let d2 := [123; 34; 97; 34; 58; 55; 125]%N in
  let sc2 := [mkresp 2 false; mkresp 2 false; mkresp 2 false; mkresp 2 true] in
  let ops2 := [SkipWs; Readn1; ReadAsis; SkipWs; SkipWs; ReadNum] in
  match final_st c (init c [49; 50]%N [] KEof) [SkipWs; ReadNum] with
  | Some s0 =>
      done s0 = true /\ perr s0 = KEof /\ step c s0 SkipWs = Err KEof /\
      respects true (sinit d2) ops2 = true /\
      map erase (run_io c (resetIO c s0 d2 sc2 KEof) ops2) = run_spec (sinit d2) ops2 /\
      length (run_spec (sinit d2) ops2) = 6 /\ last (run_spec (sinit d2) ops2) TErr <> TErr
  | None => False
  end.
Proof. vm_compute. repeat apply conj; try reflexivity. discriminate. Qed.

(* non-vacuity: one byte at a time with zero-length reads in between, through 1-,
   3- and 64-byte buffers and unbuffered, with and without ReadByte: the premises
   hold and the observations equal those of the specification reader on the
   delivered bytes, including a recorded value and a json number that ends with
   the input; the 8 operations all succeed *)
Example C03_nonvacuous :
  let d := [34; 97; 92; 34; 32; 45; 49; 50; 51]%N in
  let sc := [mkresp 1 false; mkresp 0 false; mkresp 0 false; mkresp 2 false; mkresp 1 true;
             mkresp 0 false; mkresp 1 false; mkresp 3 false; mkresp 1 false; mkresp 5 true] in
  let ops := [Readn1; ReadAsis; StartRec; Readx 2; StopRec; SkipWs; ReadNum; Readn1] in
  respects true (sinit d) ops = true /\ respects false (sinit d) ops = true /\ abides sc /\
  forall b, In b [0; 1; 3; 64] -> forall r, In r [true; false] ->
    map erase (run_io (mkcfg b 0 r) (init (mkcfg b 0 r) d sc KEof) ops) = run_spec (sinit d) ops
    /\ length (run_spec (sinit d) ops) = 8 /\ last (run_spec (sinit d) ops) TErr = TErr.
Proof.
  cbv zeta. split; [vm_compute; reflexivity|]. split; [vm_compute; reflexivity|].
  split; [unfold abides; vm_compute; repeat split; lia|].
  intros b Hb r Hr. simpl in Hb, Hr.
  destruct Hb as [<-|[<-|[<-|[<-|[]]]]]; destruct Hr as [<-|[<-|[]]]; vm_compute; repeat split.
Qed.

(* non-vacuity of the truncation statement: the reader fails after 5 bytes, the operations need 8 *)
Example C03_truncated_nonvacuous :
  let d := [34; 97; 92; 34; 32]%N in
  let ops := [Readn1; ReadAsis; SkipWs; Readx 4] in
  respects false (sinit d) ops = true /\ In TErr (run_spec (sinit d) ops) /\
  run_io (mkcfg 0 0 false) (init (mkcfg 0 0 false) d [mkresp 2 false; mkresp 0 false] KHard) ops
  = [EOk [34%N] 0 1 1 1 1; EOk [97%N] 92 3 3 4 4; EOk [] 34 4 4 5 5; EErr KHard].
Proof. cbv zeta. split; [vm_compute; reflexivity|]. split; [vm_compute; auto|]. vm_compute. reflexivity. Qed.

(* C03 — Decode depends only on the bytes, not on how a Reader delivers them.
   Only statements, closed by [exact], with [Print Assumptions] beneath each. *)
From Coq Require Import List NArith ZArith Arith Lia Bool.
From Verif Require Import Gen.Consts C03.Model C03.Proofs.
Import ListNotations.

(* non-vacuity: one byte at a time with zero-length reads in between, through a
   3-byte buffer and unbuffered, with and without ReadByte: the same observations
   as the specification reader on the delivered bytes, including a recorded value
   and a json number that ends with the input *)
Example C03_nonvacuous :
  let d := [34; 97; 92; 34; 32; 45; 49; 50; 51]%N in
  let sc := [mkresp 1 false; mkresp 0 false; mkresp 0 false; mkresp 2 false; mkresp 1 true;
             mkresp 0 false; mkresp 1 false; mkresp 3 false; mkresp 1 false; mkresp 5 true] in
  let ops := [Readn1; ReadAsis; StartRec; Readx 2; StopRec; SkipWs; ReadNum; Readn1] in
  respects true (sinit d) ops = true /\ respects false (sinit d) ops = true /\ abides sc /\
  forall b, In b [0; 1; 3; 64] -> forall r, In r [true; false] ->
    map erase (run_io (mkcfg b 0 r) (init (mkcfg b 0 r) d sc KEof) ops) = run_spec (sinit d) ops
    /\ length (run_spec (sinit d) ops) = 8 /\ last (run_spec (sinit d) ops) TErr = TErr.
Proof.
  cbv zeta. split; [vm_compute; reflexivity|]. split; [vm_compute; reflexivity|].
  split; [unfold abides; vm_compute; repeat split; lia|].
  intros b Hb r Hr. simpl in Hb, Hr.
  destruct Hb as [<-|[<-|[<-|[<-|[]]]]]; destruct Hr as [<-|[<-|[]]]; vm_compute; repeat split.
Qed.

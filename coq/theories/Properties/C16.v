(* C16 — a struct encodes as the map/array its tags describe and decodes back from it.
   Only statements, closed by [exact], with [Print Assumptions] beneath each.
   Declarations are data ([fty], Spec.v); [spec_*] are written from the documentation,
   [rget]/[resolve_with]/[search]/[enc_struct_with]/[dec_map_entries] mirror the code. *)
From Coq Require Import List NArith ZArith Arith Bool Lia.
From Verif Require Import Base.Outcome Wire.Item Gen.Consts C16.Spec C16.Model C16.SpecEnc
     C16.Proofs C16.ProofsResolve C16.ProofsTrie C16.ProofsEnc C16.ProofsTop C16.Scratch C16.ProofsScratch.
Import ListNotations.

(* FIELDS: for every declaration (any embedding depth, by value or pointer, any tags) in
   which no struct type embeds itself, the field list TypeInfos.get resolves is exactly —
   same names, options, access paths, same order — the list the documentation describes *)
Theorem C16_fields : forall (omitall : bool) (t : fty),
  wf_names t = true -> rget_cut omitall t = false ->
  resolve_with omitall t = select (spec_cands omitall t None []).
Proof. exact fields_lemma. Qed.
Print Assumptions C16_fields.

Theorem C16_fields_perm : forall (omitall : bool) (t : fty),
  wf_names t = true -> rget_cut omitall t = false ->
  Permutation.Permutation (resolve_with omitall t) (select (spec_cands omitall t None [])).
Proof. exact fields_perm_lemma. Qed.
Print Assumptions C16_fields_perm.

(* the sequential resolve/init of helper.go is the declarative rule "shallowest wins, first
   declared wins a tie", for every candidate list *)
Theorem C16_resolve : forall x : list cand, init_source x (resolve_go (number x) [] []) = select x.
Proof. exact resolve_is_select. Qed.
Print Assumptions C16_resolve.

(* the names of the resolved fields are pairwise distinct *)
Theorem C16_names_unique : forall x : list cand, NoDup (map c_name (select x)).
Proof. exact select_nodup. Qed.
Print Assumptions C16_names_unique.

(* _struct options: when the struct declares _struct itself, the options are those of its tag *)
Theorem C16_sopts_own : forall (t : fty) (f : field),
  find (fun f => str_eqb (f_name f) s_struct) (fields_of t) = Some f ->
  model_sopts t = Ok (spec_sopts (fields_of t)).
Proof. exact sopts_own_lemma. Qed.
Print Assumptions C16_sopts_own.

(* … but a struct WITHOUT its own _struct inherits the one of an embedded struct
   (reflect's FieldByName promotes it): finding F16-4, recorded *)
Definition C16_sopts_full_statement : Prop :=
  forall t : fty, model_sopts t = Ok (spec_sopts (fields_of t)).
Theorem C16_sopts_refuted : exists t : fty, wf_names t = true /\ model_sopts t <> Ok (spec_sopts (fields_of t)).
Proof. exact sopts_refuted_lemma. Qed.
Print Assumptions C16_sopts_refuted.

(* LOOKUP: the trie search used when decoding finds exactly the resolved field of that name,
   and nothing for any other name *)
Theorem C16_lookup : forall (fs : list cand) (c : cand),
  NoDup (map c_name fs) -> In c fs -> search fs (c_name c) = Some c.
Proof. exact search_finds. Qed.
Print Assumptions C16_lookup.

Theorem C16_lookup_unknown : forall (fs : list cand) (name : str),
  (forall c, In c fs -> c_name c <> name) -> search fs name = None.
Proof. exact search_unknown. Qed.
Print Assumptions C16_lookup_unknown.

(* ENCODE: for every field codec [encv], options, field list and value, the kStruct /
   kStructSimple loops emit exactly the documented map (entries of the non-omitted fields in
   declaration order, or name order under Canonical, keys per the key type) or the documented
   array — provided the build's emptiness test agrees with the documented emptiness on the
   omitempty fields of this value (C16_omit says when) *)
Theorem C16_encode : forall (encv : cand -> mval -> item) (o : opts) (so : sopts) (fs : list cand) (v : mval),
  let order := if o_canonical o then sort_by_name fs else fs in
  agree_map o v order -> agree_arr o v fs ->
  enc_struct_with encv o so fs v
  = spec_enc encv (so_toarray so || o_struct_to_array o) (so_keytype so) order fs v.
Proof. exact enc_struct_spec. Qed.
Print Assumptions C16_encode.

(* Canonical order is the name-sorted permutation (each name <= the next, bytewise) *)
Theorem C16_canonical_order : forall fs : list cand,
  Permutation.Permutation (sort_by_name fs) fs /\
  Sorted.Sorted (fun a b => str_ltb (c_name b) (c_name a) = false) (sort_by_name fs).
Proof. exact sort_lemma. Qed.
Print Assumptions C16_canonical_order.

(* OMIT (default build, RecursiveEmptyCheck off): on values without the memory shapes below,
   a field is omitted (map mode) / written as nil (array mode, containers) exactly when it is
   omitempty and empty as documented *)
Theorem C16_omit : forall fv : option mval, plain_top fv = true ->
  is_empty_unsafe false fv = doc_empty fv /\
  is_empty_container_unsafe false fv = (doc_empty fv && is_container fv).
Proof. exact omit_lemma. Qed.
Print Assumptions C16_omit.

(* … and the full statement is false: finding F05-1 (non-nil empty slice / map, -0.0, empty
   string with a non-nil data pointer are "not empty" for the default build; codec.safe omits
   them) and its mirror in the codec.safe build (a zero struct holding a slice is never empty) *)
Definition C16_omit_full_statement : Prop :=
  forall (o : opts) (t : fty) (fv : option mval), is_empty_value o t fv = Ok (doc_empty fv).
Theorem C16_omit_refuted :
  (exists fv, is_empty_unsafe false fv <> doc_empty fv /\ fv = Some (MSlice (Some []))) /\
  (exists fv, is_empty_unsafe false fv <> doc_empty fv /\ fv = Some (MF64 9223372036854775808)) /\
  (exists t fv, is_empty_value (mkOpts false false false true false) t fv <> Ok (doc_empty fv)).
Proof. exact omit_refuted_lemma. Qed.
Print Assumptions C16_omit_refuted.

(* DECODE: decoding a stream map looks every key up by name among the resolved fields, sets
   that field (nil: to its zero value) and nothing else; an unknown key is an error exactly
   when ErrorIfNoField is set (any key, the empty one included: F16-3 repaired) *)
Theorem C16_decode : forall (decv : cand -> mval -> item -> res mval) (o : opts) (kt : ktype) (t : fty) (fs : list cand),
  NoDup (map c_name fs) -> forall (m : list (item * item)) (v : mval),
  dec_map_entries decv o kt t fs v m = spec_dec_map decv (o_error_if_no_field o) kt t fs v m.
Proof. exact dec_map_spec. Qed.
Print Assumptions C16_decode.

Theorem C16_decode_unknown : forall (decv : cand -> mval -> item -> res mval) (o : opts) (t : fty) (fs : list cand) (v : mval) (name : str) (it : item) (rest : list (item * item)),
  (forall c, In c fs -> c_name c <> name) ->
  (o_error_if_no_field o = true -> is_err (dec_map_entries decv o KString t fs v ((IStr name, it) :: rest)) = true) /\
  (o_error_if_no_field o = false ->
   dec_map_entries decv o KString t fs v ((IStr name, it) :: rest) = dec_map_entries decv o KString t fs v rest).
Proof. exact dec_unknown_lemma. Qed.
Print Assumptions C16_decode_unknown.

(* absent: a stream map that mentions nothing leaves the struct as it was; array mode: extra
   elements are an error exactly when ErrorIfNoField is set *)
Theorem C16_decode_array_extra : forall (decv : cand -> mval -> item -> res mval) (o : opts) (t : fty) (fs : list cand) (v : mval) (j : nat) (it : item) (rest : list item),
  length fs <= j ->
  dec_arr_elems decv o t fs j v (it :: rest) =
  if o_error_if_no_field o then Err EOther else dec_arr_elems decv o t fs (S j) v rest.
Proof. exact dec_arr_extra_lemma. Qed.
Print Assumptions C16_decode_array_extra.

(* ENCODER HISTORY.  kStruct gathers the entries to emit in a scratch list taken from a pool the
   Encoder keeps across values and Encode calls (sfiRvFreeList, Scratch.v: get, put and
   freelistCapacity as in helper.go, the backing arrays' memory shared as in Go), emits them one
   by one — encoding any number of nested structs in between, each taking a list from the same
   pool — and hands the list back.

   get never hands out a list that is still pooled (so two structs being emitted never share
   one), the list is long enough, and the pool stays free of duplicates *)
Theorem C16_scratch_exclusive : forall (n : nat) (s : st),
  pool_ok s ->
  n <= snd (fst (get n s)) /\
  ~ In (fst (fst (get n s))) (map fst (s_pool (snd (get n s)))) /\
  pool_ok (snd (get n s)).
Proof. exact scratch_exclusive_lemma. Qed.
Print Assumptions C16_scratch_exclusive.

(* whatever one Encoder has encoded before ([before]: any sequence of struct values, nested to
   any depth), every struct of whatever it encodes next ([f]: again any sequence, any nesting,
   any field counts) emits exactly the entries it gathered, in order: later slice elements,
   later Encode calls and nested structs are encoded like the first struct of a fresh Encoder *)
Theorem C16_scratch_history : forall (before f : forest),
  let s := snd (run_forest before st0) in
  fst (run_forest f s) = spec_forest f /\ pool_ok (snd (run_forest f s)).
Proof. exact scratch_history_lemma. Qed.
Print Assumptions C16_scratch_history.

(* the same from any duplicate-free pool (e.g. one left behind by an Encode that failed half way
   and never handed its lists back) *)
Theorem C16_scratch_any_pool : forall (f : forest) (s : st),
  pool_ok s -> fst (run_forest f s) = spec_forest f /\ pool_ok (snd (run_forest f s)).
Proof. exact scratch_any_pool_lemma. Qed.
Print Assumptions C16_scratch_any_pool.

(* non-vacuity: a struct of 3 entries whose first entry holds a struct of 4, encoded twice by one
   Encoder: both times the outer struct emits its own entries 1,2,3 (a pool that kept the
   handed-out list pooled would emit 1,11,12,13,14,12,13 the second time), and two lists of
   capacity 8 are pooled afterwards *)
Example C16_scratch_nonvacuous :
  let inner := FStruct 4 (ECons 11%N FNil (ECons 12%N FNil (ECons 13%N FNil (ECons 14%N FNil ENil)))) FNil in
  let outer rest := FStruct 3 (ECons 1%N inner (ECons 2%N FNil (ECons 3%N FNil ENil))) rest in
  let r := run_forest (outer (outer FNil)) st0 in
  fst r = [1; 11; 12; 13; 14; 2; 3; 1; 11; 12; 13; 14; 2; 3]%N /\ s_pool (snd r) = [(0%N, 8); (1%N, 8)].
Proof. vm_compute. split; reflexivity. Qed.

(* non-vacuity: a declaration with embedding by pointer, a collision at different depths, a
   json fallback tag and "-" resolves as documented and is not cut *)
Example C16_nonvacuous :
  let inner := TStruct 2 [mkField [65]%N true false [] [] TInt; mkField [66]%N true false [] [98;44;111;109;105;116;101;109;112;116;121]%N TStr] in
  let t := TStruct 1 [mkField [73]%N true true [] [] (TPtr inner); mkField [65]%N true false [] [] TStr; mkField [67]%N true false [45]%N [] TInt] in
  wf_names t = true /\ rget_cut false t = false /\
  map (fun c => (c_name c, c_omit c, c_path c)) (resolve_with false t)
  = [([98]%N, true, [(0, 1); (1, 0)]); ([65]%N, false, [(1, 0)])].
Proof. vm_compute. repeat apply conj; reflexivity. Qed.

Example C16_encode_nonvacuous :
  let fs := [mkCand [65]%N false [(0, 0)] TInt; mkCand [66]%N true [(1, 0)] (TSlice TInt)] in
  let v := MStruct [MInt 5; MSlice None] in
  enc_struct_with (fun _ _ => IBool true) (mkOpts false false false false false) (mkSopts false false KString) fs v
  = Ok (IMap [(IStr [65]%N, IBool true)]).
Proof. vm_compute. reflexivity. Qed.

(* W_json — the wire layer of JSON structure (json.go, json.base.go; bytesDecReader's json helpers):
   what the Encoder driver writes is what Decode(&interface{}) reads back; sequences of values on one
   Decoder; the skip scanner ends.  Only statements, closed by [exact], with [Print Assumptions]
   beneath each.  The lexical leaves are a parameter [L : leaf].  The theorems named W_json_* are stated
   for the leaf [c09_leaf_of O]: strings and integers are the C09 model of json.go (quoteStr,
   dblQuoteStringAsBytes, jsonEncodeUint, parseUint64_simple), whose laws are PROVED in Wire/JsonLeaf.v
   from property C09's theorems; O is the oracle for what is not modelled (strconv float formatting,
   parseFloat64, time layout) and the only hypothesis left is [float_time_laws] about it.  The same
   statements for an arbitrary leaf under the full record [leaf_laws] are kept as W_json_*_anyleaf. *)


From Coq Require Import List NArith ZArith Bool Lia.
From Verif Require Import Base.Outcome Wire.Item Gen.Consts Wire.Json Wire.JsonProofs Wire.JsonRT Wire.JsonDepth Wire.JsonTotal Wire.JsonSkip Wire.JsonLeaf.
Import ListNotations.
Open Scope N_scope.

(* what is proved about the leaves, for every oracle: string literals without quote/backslash decode to
   themselves; what quoteStr wrote decodes to utf8_sanitise s and ends at the closing quote, for the
   decoder AND for the skip scanner; decimal integers are digits and parse back to their value *)
Theorem W_json_leaf_str_int : forall (O : oracle), str_int_laws (c09_leaf_of O).
Proof. exact c09_str_int_laws. Qed.
Print Assumptions W_json_leaf_str_int.

(* ... hence the full law record follows from the oracle part alone *)
Theorem W_json_leaf_laws : forall (O : oracle), float_time_laws (c09_leaf_of O) -> leaf_laws (c09_leaf_of O).
Proof. exact c09_leaf_laws. Qed.
Print Assumptions W_json_leaf_laws.

(* the string decoder of the model ends on every input and never hands back more than it was given *)
Theorem W_json_leaf_total : forall (O : oracle), leaf_total (c09_leaf_of O).
Proof. exact c09_leaf_total. Qed.
Print Assumptions W_json_leaf_total.

(* The float law of [leaf_laws] / [float_time_laws] is GUARDED by [num_read_ok]: the statement without the
   guard (every finite float64 the encoder wrote is read back by the number reader under every decoder option
   vector, [full_float_law]) is false of the implementation.  Witness, on the model with the observed texts:
   float64 1e19 is written as the bare integer literal 10000000000000000000 (json forces a fractional digit
   only below 2^52); under SignedInteger without PreferFloat Decode(&interface{}) of it is an error (parseNumber:
   an integer literal >= 2^63), and without SignedInteger it comes back as the unsigned integer 10^19.  This is
   the class of known finding F15-1 (integral floats >= 2^52 are written as integer literals).  The excluded
   class is exactly [num_read_ok D text = false]; [jwf] carries the guard for IF64 / IF32. *)
Theorem W_json_float_bareint_refuted :
  ~ full_float_law (c09_leaf bareint_T) /\
  (let D := mkdopts false true false false 0 in
   let L := c09_leaf bareint_T in
   let o := mkeopts 0 0 false false false false false in
   f64special 4891288408196988160 = false /\ num_read_ok D (fmt_f64 L 4891288408196988160) = false /\
   enc_top L o (IF64 4891288408196988160) = [49; 48; 48; 48; 48; 48; 48; 48; 48; 48; 48; 48; 48; 48; 48; 48; 48; 48; 48; 48] /\
   dec_naked L D 50 (enc_top L o (IF64 4891288408196988160)) = Err EOther /\
   dec_naked L (mkdopts false false false false 0) 50 (enc_top L o (IF64 4891288408196988160))
     = Ok (IUint 10000000000000000000, [])).
Proof. exact float_bareint_refuted. Qed.
Print Assumptions W_json_float_bareint_refuted.

(* C01 at the wire level.  For every leaf implementation satisfying the leaf laws, encoder option vector,
   decoder option vector, item json can carry ([jwf]: ranges; no tags/extensions; []byte as base64;
   containers are not map keys; keys pairwise different once decoded; an unsigned value >= 2^63 is not read
   under SignedInteger, nor is a float whose text is a bare integer literal of that size: [num_read_ok]), position (map key or not; a key position only under a map[interface{}]interface{}
   target, string-keyed maps go through DecodeStringAsBytes and are covered inside the IMap case),
   indentation level, leading white space [ws] (any bytes < 33), trailing bytes [tl] (a bare number must not
   be followed by another number character), starting depth and fuel linear in the encoding's length:
   decoding the encoding yields exactly [norm] of the item and leaves the tokenizer in state [after ..]:
   nothing pending, [tl] unread -- except after a bare number, whose terminating byte (the first byte of
   [tl]) has been consumed as the pending token. *)
Theorem W_json_dec_enc : forall (O : oracle), float_time_laws (c09_leaf_of O) ->
  forall (o : eopts) (D : dopts) (key : bool) (lvl : N) (i : item) (ws tl : list N) (fuel : nat) (dp : Z),
  jwf (c09_leaf_of O) o D key i -> (key = true -> smap D = false) -> forallb isws ws = true ->
  delim_ok (isnum (c09_leaf_of O) o key i) tl ->
  (2 * length (enc_at (c09_leaf_of O) o key lvl i) <= fuel)%nat -> (dp + Z.of_nat (depth i) < maxdepth D)%Z ->
  dec (c09_leaf_of O) D fuel dp key (st0 (ws ++ enc_at (c09_leaf_of O) o key lvl i ++ tl))
    = Ok (norm (c09_leaf_of O) o D key i, after (isnum (c09_leaf_of O) o key i) tl).
Proof. exact (fun O FT => dec_enc_lemma (c09_leaf_of O) (c09_leaf_laws O FT)). Qed.
Print Assumptions W_json_dec_enc.

(* the same for an arbitrary leaf under the full law record *)
Theorem W_json_dec_enc_anyleaf : forall (L : leaf), leaf_laws L ->
  forall (o : eopts) (D : dopts) (key : bool) (lvl : N) (i : item) (ws tl : list N) (fuel : nat) (dp : Z),
  jwf L o D key i -> (key = true -> smap D = false) -> forallb isws ws = true ->
  delim_ok (isnum L o key i) tl ->
  (2 * length (enc_at L o key lvl i) <= fuel)%nat -> (dp + Z.of_nat (depth i) < maxdepth D)%Z ->
  dec L D fuel dp key (st0 (ws ++ enc_at L o key lvl i ++ tl))
    = Ok (norm L o D key i, after (isnum L o key i) tl).
Proof. exact dec_enc_lemma. Qed.
Print Assumptions W_json_dec_enc_anyleaf.

(* the API form: one Encode call (with its TermWhitespace byte), then Decode(&interface{}) on a fresh
   Decoder over the output followed by anything; what is left unread is spelled out *)
Theorem W_json_dec_naked_enc : forall (O : oracle), float_time_laws (c09_leaf_of O) ->
  forall (o : eopts) (D : dopts) (i : item) (rest : list N),
  jwf (c09_leaf_of O) o D false i -> (termWs o = true \/ delim_ok (isnum (c09_leaf_of O) o false i) rest) ->
  (Z.of_nat (depth i) < maxdepth D)%Z ->
  dec_naked (c09_leaf_of O) D (dec_fuel (st0 (enc_top (c09_leaf_of O) o i ++ rest))) (enc_top (c09_leaf_of O) o i ++ rest)
    = Ok (norm (c09_leaf_of O) o D false i, inp (after (isnum (c09_leaf_of O) o false i) (term o ++ rest))).
Proof. exact (fun O FT => dec_naked_enc_lemma (c09_leaf_of O) (c09_leaf_laws O FT)). Qed.
Print Assumptions W_json_dec_naked_enc.

(* the same for an arbitrary leaf under the full law record *)
Theorem W_json_dec_naked_enc_anyleaf : forall (L : leaf), leaf_laws L ->
  forall (o : eopts) (D : dopts) (i : item) (rest : list N),
  jwf L o D false i -> (termWs o = true \/ delim_ok (isnum L o false i) rest) ->
  (Z.of_nat (depth i) < maxdepth D)%Z ->
  dec_naked L D (dec_fuel (st0 (enc_top L o i ++ rest))) (enc_top L o i ++ rest)
    = Ok (norm L o D false i, inp (after (isnum L o false i) (term o ++ rest))).
Proof. exact dec_naked_enc_lemma. Qed.
Print Assumptions W_json_dec_naked_enc_anyleaf.

(* C11 at the wire level, sequences: values written by successive Encode calls, each followed by any white
   space (a bare number needs TermWhitespace or at least one white-space byte: [doc_ok]), then anything:
   successive Decode calls on ONE Decoder (the pending token carries over) return the values in order, and
   NumBytesRead after the k-th call is the total minus what [seq_expect] lists as unread: everything after
   the k-th encoding, less the one delimiter byte a bare number consumes. *)
Theorem W_json_seq : forall (O : oracle), float_time_laws (c09_leaf_of O) ->
  forall (o : eopts) (D : dopts) (rest : list N) (total : N) (docs : list (item * list N)) (num : bool) (pre : list N),
  Forall (doc_ok (c09_leaf_of O) o D) docs -> forallb isws pre = true ->
  dec_seq (c09_leaf_of O) D (length docs) total (after num (pre ++ enc_seq (c09_leaf_of O) o docs ++ rest))
    = Ok (map (fun vr => (fst vr, total - snd vr)) (seq_expect (c09_leaf_of O) o D docs rest)).
Proof. exact (fun O FT => seq_lemma (c09_leaf_of O) (c09_leaf_laws O FT)). Qed.
Print Assumptions W_json_seq.

(* the same for an arbitrary leaf under the full law record *)
Theorem W_json_seq_anyleaf : forall (L : leaf), leaf_laws L ->
  forall (o : eopts) (D : dopts) (rest : list N) (total : N) (docs : list (item * list N)) (num : bool) (pre : list N),
  Forall (doc_ok L o D) docs -> forallb isws pre = true ->
  dec_seq L D (length docs) total (after num (pre ++ enc_seq L o docs ++ rest))
    = Ok (map (fun vr => (fst vr, total - snd vr)) (seq_expect L o D docs rest)).
Proof. exact seq_lemma. Qed.
Print Assumptions W_json_seq_anyleaf.


(* C11 at the wire level: the second parser (nextValueBytes: swallow of unknown fields, codec.Raw,
   json.Unmarshaler) run on an encoding -- from any tokenizer state that presents it, followed by anything a
   bare number may be followed by -- hands back exactly the bytes of the encoding and leaves the tokenizer in
   the SAME state as Decode(&interface{}) does (W_json_dec_enc): decode, skip and raw agree on extents,
   the one-byte look-ahead after a bare number included (since repair FWjson-1 that byte is no longer part of
   the bytes handed back). *)
Theorem W_json_skip_enc : forall (O : oracle), float_time_laws (c09_leaf_of O) ->
  forall (o : eopts) (D : dopts) (key : bool) (lvl : N) (i : item) (s : st) (tl : list N),
  jwf (c09_leaf_of O) o D key i -> advance s = advance (mkst 0 (enc_at (c09_leaf_of O) o key lvl i ++ tl)) ->
  delim_ok (isnum (c09_leaf_of O) o key i) tl ->
  nvb s = Ok (enc_at (c09_leaf_of O) o key lvl i, after (isnum (c09_leaf_of O) o key i) tl).
Proof. exact (fun O FT => nvb_enc_lemma (c09_leaf_of O) (c09_leaf_laws O FT)). Qed.
Print Assumptions W_json_skip_enc.

(* the same for an arbitrary leaf under the full law record *)
Theorem W_json_skip_enc_anyleaf : forall (L : leaf), leaf_laws L ->
  forall (o : eopts) (D : dopts) (key : bool) (lvl : N) (i : item) (s : st) (tl : list N),
  jwf L o D key i -> advance s = advance (mkst 0 (enc_at L o key lvl i ++ tl)) ->
  delim_ok (isnum L o key i) tl ->
  nvb s = Ok (enc_at L o key lvl i, after (isnum L o key i) tl).
Proof. exact nvb_enc_lemma. Qed.
Print Assumptions W_json_skip_enc_anyleaf.

Theorem W_json_skip_raw_enc : forall (O : oracle), float_time_laws (c09_leaf_of O) ->
  forall (o : eopts) (D : dopts) (i : item) (rest : list N),
  jwf (c09_leaf_of O) o D false i -> (termWs o = true \/ delim_ok (isnum (c09_leaf_of O) o false i) rest) ->
  raw (enc_top (c09_leaf_of O) o i ++ rest) = Ok (enc (c09_leaf_of O) o ctx0 i, inp (after (isnum (c09_leaf_of O) o false i) (term o ++ rest))) /\
  skip 0 (enc_top (c09_leaf_of O) o i ++ rest) = Ok (inp (after (isnum (c09_leaf_of O) o false i) (term o ++ rest))).
Proof. exact (fun O FT => skip_enc_top_lemma (c09_leaf_of O) (c09_leaf_laws O FT)). Qed.
Print Assumptions W_json_skip_raw_enc.

(* the same for an arbitrary leaf under the full law record *)
Theorem W_json_skip_raw_enc_anyleaf : forall (L : leaf), leaf_laws L ->
  forall (o : eopts) (D : dopts) (i : item) (rest : list N),
  jwf L o D false i -> (termWs o = true \/ delim_ok (isnum L o false i) rest) ->
  raw (enc_top L o i ++ rest) = Ok (enc L o ctx0 i, inp (after (isnum L o false i) (term o ++ rest))) /\
  skip 0 (enc_top L o i ++ rest) = Ok (inp (after (isnum L o false i) (term o ++ rest))).
Proof. exact skip_enc_top_lemma. Qed.
Print Assumptions W_json_skip_raw_enc_anyleaf.

(* C02 at the wire level, skip side: nextValueBytes is a loop over the input bytes (the model's
   scanner is structurally recursive on the input): for EVERY byte list it ends, with a value or an error. *)
Theorem W_json_skip_total : forall (fuel : nat) (l : list N), skip fuel l <> OutOfFuel.
Proof. exact skip_total_lemma. Qed.
Print Assumptions W_json_skip_total.



(* C02 at the wire level, decode side: for EVERY leaf whose string decoder ends and never hands back more
   unread input than it was given ([leaf_total]), every option vector, tokenizer state (every input, every
   pending token), depth and position: fuel linear in the number of bytes not yet interpreted suffices, the
   decoder never runs out of fuel; and a successfully decoded value consumed at least one byte. *)
Theorem W_json_dec_total : forall (O : oracle),
  forall (D : dopts) (s : st) (fuel : nat) (dp : Z) (key : bool),
  (2 * pending s + 1 <= fuel)%nat -> dec (c09_leaf_of O) D fuel dp key s <> OutOfFuel.
Proof. exact (fun O => dec_total_lemma (c09_leaf_of O) (c09_leaf_total O)). Qed.
Print Assumptions W_json_dec_total.

(* the same for an arbitrary leaf under the full law record *)
Theorem W_json_dec_total_anyleaf : forall (L : leaf), leaf_total L ->
  forall (D : dopts) (s : st) (fuel : nat) (dp : Z) (key : bool),
  (2 * pending s + 1 <= fuel)%nat -> dec L D fuel dp key s <> OutOfFuel.
Proof. exact dec_total_lemma. Qed.
Print Assumptions W_json_dec_total_anyleaf.

Theorem W_json_dec_progress : forall (O : oracle),
  forall (D : dopts) (s : st) (fuel : nat) (dp : Z) (key : bool) (x : item) (s' : st),
  (2 * pending s + 1 <= fuel)%nat -> dec (c09_leaf_of O) D fuel dp key s = Ok (x, s') -> (pending s' < pending s)%nat.
Proof. exact (fun O => dec_progress_lemma (c09_leaf_of O) (c09_leaf_total O)). Qed.
Print Assumptions W_json_dec_progress.

(* the same for an arbitrary leaf under the full law record *)
Theorem W_json_dec_progress_anyleaf : forall (L : leaf), leaf_total L ->
  forall (D : dopts) (s : st) (fuel : nat) (dp : Z) (key : bool) (x : item) (s' : st),
  (2 * pending s + 1 <= fuel)%nat -> dec L D fuel dp key s = Ok (x, s') -> (pending s' < pending s)%nat.
Proof. exact dec_progress_lemma. Qed.
Print Assumptions W_json_dec_progress_anyleaf.

(* the API form: Decode(&interface{}) on a fresh Decoder over ANY bytes, with the standard fuel *)
Theorem W_json_dec_naked_total : forall (O : oracle),
  forall (D : dopts) (l : list N), dec_naked (c09_leaf_of O) D (dec_fuel (st0 l)) l <> OutOfFuel.
Proof. exact (fun O => dec_naked_total_lemma (c09_leaf_of O) (c09_leaf_total O)). Qed.
Print Assumptions W_json_dec_naked_total.

(* the same for an arbitrary leaf under the full law record *)
Theorem W_json_dec_naked_total_anyleaf : forall (L : leaf), leaf_total L ->
  forall (D : dopts) (l : list N), dec_naked L D (dec_fuel (st0 l)) l <> OutOfFuel.
Proof. exact dec_naked_total_lemma. Qed.
Print Assumptions W_json_dec_naked_total_anyleaf.

(* C14 at the wire level.  For EVERY leaf, option vector, tokenizer state (i.e. every input) and fuel:
   the instrumented decoder is the decoder, and its deepest recursion level (one level per nested
   decode(&interface{}) call, the top call being level 1) is at most MaxDepth.  The skip scanner does not
   recurse at all (nextValueBytes is one loop; the model's [scan] is one structural loop over the bytes). *)
Theorem W_json_depth : forall (L : leaf) (D : dopts) (fuel : nat) (s : st),
  fst (deci L D fuel 0 1 false s) = dec L D fuel 0 false s /\
  (Z.of_nat (snd (deci L D fuel 0 1 false s)) <= maxdepth D)%Z.
Proof. exact depth_lemma. Qed.
Print Assumptions W_json_depth.

(* ... and a container met when MaxDepth - 1 containers are already open is refused with the depth error,
   whatever follows (json has no depth accounting in the skip scanner: it needs none) *)
Theorem W_json_depth_error : forall (L : leaf) (D : dopts) (f : nat) (depth : Z) (key : bool) (s s1 : st),
  advance s = Ok s1 -> (tok s1 = 91 \/ tok s1 = 123) -> (maxdepth D <= depth + 1)%Z ->
  dec L D (S f) depth key s = Err EDepth.
Proof. exact dec_depth_refuse. Qed.
Print Assumptions W_json_depth_error.

(* ---- non-vacuity: the statements' conclusions on concrete data, with C09's string code and observed
   float / time texts as the leaf *)
Definition exT : tables :=
  mktables [(4609434218613702656, [49; 46; 53])] [] [([49; 46; 53], 4609434218613702656)]
           [(1%Z, 5, [49; 57; 55; 48; 45; 48; 49; 45; 48; 49; 84; 48; 48; 58; 48; 48; 58; 48; 49; 46; 48; 48; 48; 48; 48; 48; 48; 48; 53; 90])].
Definition exL : leaf := c09_leaf exT.
Definition exI : item :=
  IMap [(IStr [97], IArr [IInt (-3); IUint 5; IF64 4609434218613702656; INil; IBool true; IStr [34; 60; 233]]);
        (IInt 7, IMap []); (IBool true, IBytes [1; 2; 3; 4]); (IStr [116], ITime 1 5)].

Example W_json_dec_enc_nonvacuous :
  let o := mkeopts 2 76 false true true false false in
  let D := mkdopts false false true true 0 in
  jwf exL o D false exI /\
  enc_top exL o exI =
    [123; 10; 32; 32; 34; 97; 34; 58; 32; 91; 10; 32; 32; 32; 32; 45; 51; 44; 10; 32; 32; 32; 32; 53; 44; 10; 32; 32; 32; 32;
     49; 46; 53; 44; 10; 32; 32; 32; 32; 110; 117; 108; 108; 44; 10; 32; 32; 32; 32; 116; 114; 117; 101; 44; 10; 32; 32; 32; 32;
     34; 92; 34; 92; 117; 48; 48; 51; 99; 92; 117; 70; 70; 70; 68; 34; 10; 32; 32; 93; 44; 10; 32; 32; 34; 55; 34; 58; 32; 123; 125; 44;
     10; 32; 32; 34; 116; 114; 117; 101; 34; 58; 32; 34; 65; 81; 73; 68; 66; 65; 61; 61; 34; 44; 10; 32; 32; 34; 116; 34; 58; 32;
     34; 49; 57; 55; 48; 45; 48; 49; 45; 48; 49; 84; 48; 48; 58; 48; 48; 58; 48; 49; 46; 48; 48; 48; 48; 48; 48; 48; 48; 53; 90; 34; 10; 125; 32] /\
  dec_naked exL D 400 (enc_top exL o exI ++ [49]) = Ok (norm exL o D false exI, [32; 49]) /\
  raw (enc_top exL o exI ++ [49]) = Ok (enc exL o ctx0 exI, [32; 49]) /\
  norm exL o D false exI =
    IMap [(IStr [97], IArr [IInt (-3); IUint 5; IF64 4609434218613702656; INil; IBool true; IStr [34; 60; 239; 191; 189]]);
          (IUint 7, IMap []); (IBool true, IStr [65; 81; 73; 68; 66; 65; 61; 61]);
          (IStr [116], IStr [49; 57; 55; 48; 45; 48; 49; 45; 48; 49; 84; 48; 48; 58; 48; 48; 58; 48; 49; 46; 48; 48; 48; 48; 48; 48; 48; 48; 53; 90])].
Proof.
  cbv zeta. split; [|split; [|split; [|split]]].
  - vm_compute. intuition (try discriminate; try reflexivity; try lia).
  - vm_compute. reflexivity.
  - vm_compute. reflexivity.
  - vm_compute. reflexivity.
  - vm_compute. reflexivity.
Qed.

(* sequences: three Encode calls without TermWhitespace, separated by white space where a number needs it;
   the pending token after a bare number shows in NumBytesRead (4 = 3 digits + the delimiter) *)
Example W_json_seq_nonvacuous :
  let o := mkeopts 0 0 false false false false false in
  let D := mkdopts false false false false 0 in
  let docs := [(IUint 123, [32]); (IArr [IBool true], []); (IInt (-5), [10])] in
  Forall (doc_ok exL o D) docs /\
  enc_seq exL o docs = [49; 50; 51; 32; 91; 116; 114; 117; 101; 93; 45; 53; 10] /\
  dec_seq exL D 3 13 (st0 (enc_seq exL o docs)) = Ok [(IUint 123, 4); (IArr [IBool true], 10); (IInt (-5), 13)] /\
  dec_seq exL D 2 7 (st0 [49; 50; 51; 44; 52; 53; 54]) = Err EOther.
Proof.
  cbv zeta. split; [|split; [|split]].
  - repeat (apply Forall_cons || apply Forall_nil);
      (split; [vm_compute; intuition (try discriminate; try lia)
              |split; [reflexivity|split; [vm_compute; reflexivity
              |intros H; first [right; discriminate | vm_compute in H; discriminate]]]]).
  - vm_compute. reflexivity.
  - vm_compute. reflexivity.
  - vm_compute. reflexivity.
Qed.

Example W_json_skip_nonvacuous :
  skip 0 [91; 34; 93; 92; 34; 34; 44; 123; 125; 93; 49] = Ok [49] /\ skip 0 [91; 91; 93] = Err EEof /\
  raw [49; 50; 44; 51] = Ok ([49; 50], [51]).
Proof. vm_compute. repeat apply conj; reflexivity. Qed.

(* MaxDepth 3 accepts nesting 2 and refuses nesting 3 (arrays and maps alike); the recursion level reached
   on 4000 opening brackets stays at the bound; the skip scanner takes the same bytes without recursion *)
Example W_json_depth_nonvacuous :
  let D := mkdopts false false false false 3 in
  dec_naked exL D 100 [91; 91; 49; 93; 93] = Ok (IArr [IArr [IUint 1]], []) /\
  dec_naked exL D 100 [91; 123; 34; 97; 34; 58; 91; 93; 125; 93] = Err EDepth /\
  snd (deci exL (mkdopts false false false false 0) (N.to_nat 10000) 0 1 false (st0 (repeat 91 (N.to_nat 4000)))) = 1024%nat /\
  skip 0 (repeat 91 (N.to_nat 3000) ++ repeat 93 (N.to_nat 3000) ++ [55]) = Ok [55].
Proof. vm_compute. repeat apply conj; reflexivity. Qed.

(* the leaf laws instantiated: the oracle hypotheses are satisfiable (toy oracle), the proved string and
   integer laws on concrete data (quote, then decode and skip; 2^64-1 written and parsed back), and the
   correspondence's leaf IS an instance (c09_leaf T = c09_leaf_of (table_oracle T)) *)
Example W_json_leaf_nonvacuous :
  float_time_laws (c09_leaf_of toy_oracle) /\
  leaf_laws (c09_leaf_of toy_oracle) /\
  (forall T, c09_leaf T = c09_leaf_of (table_oracle T)) /\
  quote_body exL false [34; 60; 233; 92] = [92; 34; 92; 117; 48; 48; 51; 99; 92; 117; 70; 70; 70; 68; 92; 92] /\
  unquote exL (quote_body exL false [34; 60; 233; 92] ++ 34 :: [7]) = Ok ([34; 60; 239; 191; 189; 92], [7]) /\
  cstr false (quote_body exL false [34; 60; 233; 92] ++ 34 :: [7]) = Ok [7] /\
  udigits 18446744073709551615 = [49; 56; 52; 52; 54; 55; 52; 52; 48; 55; 51; 55; 48; 57; 53; 53; 49; 54; 49; 53] /\
  Verif.C09.Model.parseUint64_simple (udigits 18446744073709551615) = (18446744073709551615%Z, true).
Proof.
  split; [exact toy_float_time_laws|]. split; [exact (c09_leaf_laws _ toy_float_time_laws)|].
  split; [exact c09_leaf_eq|]. vm_compute. repeat apply conj; reflexivity.
Qed.

(* a negative integer literal below MinInt64 is read as a float64 (since repair F09-3; it was an error), like
   the literals beyond uint64; MinInt64 itself stays an integer *)
Example W_json_negint_below_int64 :
  let T := mktables [] [] [([45; 57; 50; 50; 51; 51; 55; 50; 48; 51; 54; 56; 53; 52; 55; 55; 53; 56; 48; 57], 14114281232179134464)] [] in
  let D := mkdopts false false false false 0 in
  dec_naked (c09_leaf T) D 10 [45; 57; 50; 50; 51; 51; 55; 50; 48; 51; 54; 56; 53; 52; 55; 55; 53; 56; 48; 57] = Ok (IF64 14114281232179134464, []) /\
  dec_naked (c09_leaf T) D 10 [45; 57; 50; 50; 51; 51; 55; 50; 48; 51; 54; 56; 53; 52; 55; 55; 53; 56; 48; 56] = Ok (IInt (-9223372036854775808), []).
Proof. vm_compute. split; reflexivity. Qed.

(* W_json — the wire layer of JSON structure (json.go, json.base.go; bytesDecReader's json helpers).
   Only statements, closed by [exact], with [Print Assumptions] beneath each. *)
From Coq Require Import List NArith ZArith Bool Lia.
From Verif Require Import Base.Outcome Wire.Item Gen.Consts Wire.Json Wire.JsonProofs.
Import ListNotations.
Open Scope N_scope.

(* C02 at the wire level, skip side: nextValueBytes is a loop over the input bytes (the model's
   scanner is structurally recursive on the input): for EVERY byte list it ends, with a value or an error. *)
Theorem W_json_skip_total : forall (fuel : nat) (l : list N), skip fuel l <> OutOfFuel.
Proof. exact skip_total_lemma. Qed.
Print Assumptions W_json_skip_total.

Example W_json_skip_nonvacuous :
  skip 0 [91; 34; 93; 92; 34; 34; 44; 123; 125; 93; 49] = Ok [49] /\ skip 0 [91; 91; 93] = Err EEof /\
  raw [49; 50; 44; 51] = Ok ([49; 50], [51]).
Proof. vm_compute. repeat apply conj; reflexivity. Qed.

(* C18 — RPC codecs deliver each reply to its own call under any concurrency/buffering.
   Only statements, closed by [exact], with [Print Assumptions] beneath each.

   Decided here (on the model, for all inputs): framing over a byte FIFO under every
   fragmentation/coalescing schedule and every reader/writer buffer size, and net/rpc's
   sequence-number matching under every completion order; Close/ready.
   Not decided here (runtime, checked by harness/cmd/c18 only): goroutine scheduling,
   TCP, "Close unblocks a pending Read". *)
From Coq Require Import List NArith Arith Bool Permutation Lia.
From Verif Require Import C18.Model C18.Proofs.
Import ListNotations.

(* Frames are read back exactly, in write order, by both codecs as the code is now:
   for every self-delimiting value code (C11: [conforms] asks every value unit to be a
   code word of [complete]), every list of frames, every writer buffer size w, every
   reader buffer size rc (0 = unbuffered) and every chunk schedule sc of the raw Reads
   (1-byte fragments ... several frames coalesced in one Read). *)
Theorem C18_frames : forall (complete : list N -> bool) (k : rpckind) (w rc : nat) (sc : list nat)
    (frames : list (list (list N))),
  Forall (conforms complete (shape_of k)) frames ->
  read_all complete (rawmark_of k) (shape_of k) rc sc
    (fifo (write_frames w (map (encodes_of k) frames))) = (frames, None).
Proof. exact frames_now_lemma. Qed.
Print Assumptions C18_frames.

(* A connection that ends after t bytes: the reading codec returns exactly the frames
   that arrived whole, then the clean end (cut between two frames) or an error (cut
   inside a frame) — never a fabricated or partial frame.
   Limit of the [codeword] hypothesis: a bare json number is delimited by the next byte
   OR by the end of the stream (as in encoding/json), so a connection that ends inside a
   top-level number body (GoRpc/json, reply of type int) is read as the shorter number;
   the harness keeps such cut points out of the correspondence and counts them. *)
Theorem C18_truncated : forall (complete : list N -> bool) (k : rpckind) (rc : nat) (sc : list nat)
    (frames : list (list (list N))) (t : nat),
  Forall (conforms complete (shape_of k)) frames ->
  read_all complete (rawmark_of k) (shape_of k) rc sc
    (firstn t (concat (map (@concat N) frames)))
  = (firstn (fst (whole t frames)) frames, if snd (whole t frames) then None else Some EEof).
Proof. exact truncated_lemma. Qed.
Print Assumptions C18_truncated.

(* The same for either way of reading the array descriptor, provided it goes through the
   Decoder or the Decoder never reads ahead (ReaderBufferSize = 0): this is why the
   default configuration worked before fix F18-1. *)
Theorem C18_frames_guarded : forall (complete : list N -> bool) (rawmark : bool) (k : rpckind)
    (w rc : nat) (sc : list nat) (frames : list (list (list N))),
  Forall (conforms complete (shape_of k)) frames ->
  rawmark = false \/ rc = 0 ->
  read_all complete rawmark (shape_of k) rc sc
    (fifo (write_frames w (map (encodes_of k) frames))) = (frames, None).
Proof. exact frames_lemma. Qed.
Print Assumptions C18_frames_guarded.

(* F18-1 (repaired in /repo, kept as the defect class the harness and the mutation
   tests look for): reading the array descriptor from the raw connection while the
   Decoder buffers is refuted — two MsgpackSpecRpc frames coalesced in one Read, the
   second frame is lost (the connection is empty, the frame sits in the Decoder). *)
Theorem C18_rawmark_refuted :
  exists (frames : list (list (list N))) (rc : nat) (sc : list nat),
    Forall (conforms toy_complete (shape_of SpecRpc)) frames /\ 0 < rc /\
    read_all toy_complete true (shape_of SpecRpc) rc sc
      (fifo (write_frames 0 (map (encodes_of SpecRpc) frames)))
    = (firstn 1 frames, Some EEof).
Proof. exact raw_refuted_lemma. Qed.
Print Assumptions C18_rawmark_refuted.

(* net/rpc matching: whatever order the server answers in, every call gets the reply
   computed from its own arguments and nothing stays pending. *)
Theorem C18_matching : forall (A R E : Type) (f : A -> R + E) (args : list A)
    (order : list (nat * A)) (d : A),
  Permutation order (requests args) ->
  let c := client_run (length args) (map (serve f) order) in
  pending c = [] /\
  forall i, i < length args -> result_of c (S i) = Some (f (nth i args d)).
Proof. exact matching_lemma. Qed.
Print Assumptions C18_matching.

(* End to end over the wire, any number of calls: the client writes the requests (writer
   buffer w1), the server's codec reads them (reader buffer rc1, schedule sc1) and answers
   what it read in ANY order (writer buffer w2), the client's codec reads the responses
   (rc2, sc2) and net/rpc matches them: both streams end cleanly, nothing stays pending
   and call i returns f(args_i) — a reply or the server-side error.
   The typed layer enters as hypotheses: frames fit the codec's shape with
   self-delimiting values (C11) and decode back to what was encoded (C01). *)
Theorem C18_reply : forall (A R E : Type) (f : A -> R + E) (complete : list N -> bool) (k : rpckind)
    (encQ : nat * A -> list (list N)) (decQ : list (list N) -> option (nat * A))
    (encR : nat * (R + E) -> list (list N)) (decR : list (list N) -> option (nat * (R + E))),
  (forall q, conforms complete (shape_of k) (encQ q) /\ decQ (encQ q) = Some q) ->
  (forall p, conforms complete (shape_of k) (encR p) /\ decR (encR p) = Some p) ->
  forall (args : list A) (d : A) (w1 rc1 : nat) (sc1 : list nat) (w2 rc2 : nat) (sc2 : list nat)
    (order : list (nat * A)),
  Permutation order (decode_all decQ (fst (server_reads A complete k encQ w1 rc1 sc1 args))) ->
  let c := client_run (length args)
             (decode_all decR (fst (client_reads A R E f complete k encR w2 rc2 sc2 order))) in
  snd (server_reads A complete k encQ w1 rc1 sc1 args) = None /\
  snd (client_reads A R E f complete k encR w2 rc2 sc2 order) = None /\
  pending c = [] /\
  forall i, i < length args -> result_of c (S i) = Some (f (nth i args d)).
Proof. exact reply_lemma. Qed.
Print Assumptions C18_reply.

(* a server-side error reaches its own caller as that error *)
Theorem C18_reply_error : forall (A R E : Type) (f : A -> R + E) (complete : list N -> bool) (k : rpckind)
    (encQ : nat * A -> list (list N)) (decQ : list (list N) -> option (nat * A))
    (encR : nat * (R + E) -> list (list N)) (decR : list (list N) -> option (nat * (R + E))),
  (forall q, conforms complete (shape_of k) (encQ q) /\ decQ (encQ q) = Some q) ->
  (forall p, conforms complete (shape_of k) (encR p) /\ decR (encR p) = Some p) ->
  forall (args : list A) (d : A) (w1 rc1 : nat) (sc1 : list nat) (w2 rc2 : nat) (sc2 : list nat)
    (order : list (nat * A)) (i : nat) (e : E),
  Permutation order (decode_all decQ (fst (server_reads A complete k encQ w1 rc1 sc1 args))) ->
  i < length args -> f (nth i args d) = inr e ->
  result_of (client_run (length args)
               (decode_all decR (fst (client_reads A R E f complete k encR w2 rc2 sc2 order)))) (S i)
  = Some (inr e).
Proof. exact reply_error_lemma. Qed.
Print Assumptions C18_reply_error.

(* Decoder depth over the life of a connection (MaxDepth).  A message leaves the
   decoder's depth where it found it, for both codecs as the code is now ... *)
Theorem C18_depth_frame : forall (k : rpckind) (maxd d : nat) (ns : list nat) (d' : nat),
  dec_frame (mark_leaks_of k) k maxd d ns = DOk d' -> d' = d.
Proof. exact depth_frame_lemma. Qed.
Print Assumptions C18_depth_frame.

(* ... so ANY number of messages on one connection whose values nest less than MaxDepth
   deep never fails with "maximum decoding depth exceeded" *)
Theorem C18_depth : forall (k : rpckind) (maxd : nat) (frames : list (list nat)) (i : nat),
  Forall (Forall (fun n => n < maxd)) frames ->
  dec_conn (mark_leaks_of k) k maxd 0 frames i = None.
Proof. exact depth_conn_lemma. Qed.
Print Assumptions C18_depth.

(* the defect class "the hand-read array start counts as a nesting level that is never
   closed" (seeded change C18-3-1): messages of scalars only, and the connection still
   dies at message MaxDepth - 1, for every MaxDepth *)
Theorem C18_depth_leak_refuted : forall maxd : nat, 0 < maxd ->
  dec_conn true SpecRpc maxd 0 (repeat [0; 0; 0; 0] maxd) 0 = Some (maxd - 1).
Proof. exact depth_leak_refuted_lemma. Qed.
Print Assumptions C18_depth_leak_refuted.

(* Discarded bodies (unknown method, error reply, stale reply): the discard consumes the
   value's extent in the framing model exactly as a typed read does (it is a value slot of
   C18_frames, whatever the value's shape) and, being a swallow, cannot fail: a connection
   whose typed bodies fit their destinations never enters the sticky error state, whatever
   the shapes of the discarded ones. *)
Theorem C18_discard : forall (msgs : list (bodymode * bodyinfo)) (i : nat),
  Forall (fun mb => fst mb = BTyped -> fits_dest (snd mb) = true) msgs ->
  conn_bodies discard_via_iface msgs i = None.
Proof. exact discard_lemma. Qed.
Print Assumptions C18_discard.

(* the defect class "discard = Decode into a throw-away interface{}" (seeded C18-4-2): a
   body that is fine for its own type but is no interface{} value kills the connection *)
Theorem C18_discard_via_iface_refuted :
  exists msgs : list (bodymode * bodyinfo),
    Forall (fun mb => fst mb = BTyped -> fits_dest (snd mb) = true) msgs /\
    conn_bodies true msgs 0 = Some 1.
Proof. exact discard_refuted_lemma. Qed.
Print Assumptions C18_discard_via_iface_refuted.

(* Close is idempotent: same state, same return value; the connection is closed once *)
Theorem C18_close : forall c : codec,
  fst (close (fst (close c))) = fst (close c) /\
  snd (close (fst (close c))) = snd (close c).
Proof. exact close_idem_lemma. Qed.
Print Assumptions C18_close.

Theorem C18_close_once : forall c : codec, closed c = false ->
  conn_closes (fst (close (fst (close c)))) = S (conn_closes c) /\ closed (fst (close c)) = true.
Proof. exact close_once_lemma. Qed.
Print Assumptions C18_close_once.

(* after Close every write and read is refused with an error and nothing reaches the wire *)
Theorem C18_after_close : forall (c : codec) (bytes : list N),
  let c1 := fst (close c) in
  snd (cwrite c1 bytes) <> ROk /\ wire (fst (cwrite c1 bytes)) = wire c /\
  cread_allowed c1 <> ROk /\ fst (cwrite c1 bytes) = c1.
Proof. exact after_close_lemma. Qed.
Print Assumptions C18_after_close.

(* non-vacuity: concrete frames of both codecs over the toy length-prefixed code, written
   with a 2-byte writer buffer, read with a 7-byte read-ahead over a schedule that
   fragments to single bytes and then coalesces the rest *)
Example C18_frames_nonvacuous :
  let frames := [toy_frame 7%N; toy_frame 9%N; toy_frame 11%N] in
  Forall (conforms toy_complete (shape_of SpecRpc)) frames /\
  read_all toy_complete (rawmark_of SpecRpc) (shape_of SpecRpc) 7 [1; 1; 3; 100]
    (fifo (write_frames 2 (map (encodes_of SpecRpc) frames))) = (frames, None) /\
  length (write_frames 2 (map (encodes_of SpecRpc) frames)) = 9.
Proof.
  cbv zeta. split.
  - repeat (constructor; [apply toy_conforms|]). constructor.
  - vm_compute. split; reflexivity.
Qed.

(* a stream cut inside a frame is an error, not a frame *)
Example C18_truncated_nonvacuous :
  read_all toy_complete false (shape_of SpecRpc) 0 []
    (firstn 9 (concat (map (@concat N) [toy_frame 7%N; toy_frame 9%N])))
  = ([toy_frame 7%N], Some EEof).
Proof. vm_compute. reflexivity. Qed.

(* three calls answered in the order 3, 1, 2; the second one fails on the server *)
Example C18_matching_nonvacuous :
  let f := fun a : nat => if a =? 20 then inr 1 else inl (a + 1) in
  let c := client_run 3 (map (serve f) [(3, 30); (1, 10); (2, 20)]) in
  Permutation [(3, 30); (1, 10); (2, 20)] (requests [10; 20; 30]) /\
  pending c = [] /\ result_of c 1 = Some (inl 11) /\ result_of c 2 = Some (inr 1) /\
  result_of c 3 = Some (inl 31).
Proof.
  cbv zeta. split.
  - cbn. apply Permutation_sym. eapply perm_trans; [|apply perm_swap].
    apply perm_skip. apply perm_swap.
  - vm_compute. repeat split; reflexivity.
Qed.

Example C18_close_nonvacuous :
  let c0 := mkcodec false false 0 true [1%N] in
  snd (close c0) = RErrConn /\ snd (close (fst (close c0))) = RErrConn /\
  conn_closes (fst (close (fst (close c0)))) = 1 /\ snd (cwrite (fst (close c0)) [2%N]) = RErrConn /\
  snd (cwrite (fst (close (mkcodec false false 0 false []))) [2%N]) = RErrClosed.
Proof. vm_compute. repeat split; reflexivity. Qed.

(* the hypotheses of C18_reply / C18_reply_error are jointly satisfiable (a toy typed layer
   over the length-prefixed code), and the theorem then yields concrete results: three
   calls, the second fails on the server, answered in the order 2, 3, 1, single-byte
   fragments one way and everything coalesced into a 5-byte read-ahead the other way *)
Example C18_reply_nonvacuous :
  let f := fun a : N => if N.eqb a 20 then inr 99%N else inl (a + 1)%N in
  let args := [10%N; 20%N; 30%N] in
  let order := [(2, 20%N); (3, 30%N); (1, 10%N)] in
  ((forall q, conforms toy_complete (shape_of GoRpc) (toy_encQ q) /\ toy_decQ (toy_encQ q) = Some q) /\
   (forall p, conforms toy_complete (shape_of GoRpc) (toy_encR p) /\ toy_decR (toy_encR p) = Some p)) /\
  Permutation order (decode_all toy_decQ (fst (server_reads N toy_complete GoRpc toy_encQ 3 0 [1;1;1;1;1;1;1;1;1;1;1;1] args))) /\
  let c := client_run 3 (decode_all toy_decR
             (fst (client_reads N N N f toy_complete GoRpc toy_encR 0 5 [] order))) in
  result_of c 1 = Some (inl 11%N) /\ result_of c 2 = Some (inr 99%N) /\ result_of c 3 = Some (inl 31%N).
Proof.
  cbv zeta. split; [exact toy_typed_layer|]. split.
  - vm_compute. apply Permutation_sym. eapply perm_trans; [apply perm_swap|]. apply perm_skip.
    apply perm_swap.
  - vm_compute. repeat split; reflexivity.
Qed.

(* 2000 MsgpackSpecRpc messages with a struct-with-slice body (nesting 3) under MaxDepth 8:
   no depth error; one level more is refused at the first message; with the leak the
   fifth message dies *)
Example C18_depth_nonvacuous :
  dec_conn (mark_leaks_of SpecRpc) SpecRpc 8 0 (repeat [0; 0; 0; 3] 2000) 0 = None /\
  dec_conn (mark_leaks_of SpecRpc) SpecRpc 3 0 (repeat [0; 0; 0; 3] 5) 0 = Some 0 /\
  dec_conn true SpecRpc 8 0 (repeat [0; 0; 0; 3] 2000) 0 = Some 4.
Proof. vm_compute. repeat split; reflexivity. Qed.

(* C12 — a reset Encoder/Decoder equals a new one; errors are sticky until reset.
   Statements over the instance-state model C12/Model.v, closed by [exact].  Full on the model; what the model
   calls behaviour-neutral is tied to the source by C12_fields (Gen/Reset.v, regenerated on every run) and to
   real instances by the field dumps of the correspondence check. *)
From Coq Require Import List NArith Arith Bool.
From Verif Require Import Gen.Reset C12.Model C12.Proofs.
Import ListNotations.

(* Encoder: after ANY history of operations and resets (successes, failures half-way through nested values,
   failing writers), Reset followed by any sequence of operations is observably the same (error-ness and bytes
   delivered, per operation) as the same operations on a freshly constructed Encoder *)
Theorem C12_reset_enc : forall (b0 : option nat) (h : list ehist) (b : option nat) (ops : list (list eprim)),
  eops (ereset (erun (efresh b0) h) b) ops = eops (efresh b) ops.
Proof. exact enc_reset_lemma. Qed.
Print Assumptions C12_reset_enc.

(* it does not even need the state to be reachable *)
Theorem C12_reset_enc_any : forall (x : enc) (b : option nat) (ops : list (list eprim)),
  eops (ereset x b) ops = eops (efresh b) ops.
Proof. exact enc_reset_any. Qed.
Print Assumptions C12_reset_enc_any.

(* Decoder: likewise (error-ness, decoded value, NumBytesRead per operation) *)
Theorem C12_reset_dec : forall (m : N) (i0 : list N) (h : list dhist) (i : list N) (ops : list (list dprim)),
  dops (dreset (drun m (dfresh m i0) h) m i) ops = dops (dfresh m i) ops.
Proof. exact dec_reset_lemma. Qed.
Print Assumptions C12_reset_dec.

Theorem C12_reset_dec_any : forall (x : dec) (m : N) (i : list N) (ops : list (list dprim)),
  dops (dreset x m i) ops = dops (dfresh m i) ops.
Proof. exact dec_reset_any. Qed.
Print Assumptions C12_reset_dec_any.

(* sticky: with err set, every Encode returns an error, delivers nothing and changes nothing at all *)
Theorem C12_sticky_enc : forall (x : enc) (ps : list eprim) (k : eclass),
  e_err (fst x) = Some k -> encode x ps = (x, (true, [])).
Proof. exact enc_sticky_lemma. Qed.
Print Assumptions C12_sticky_enc.

(* ... and an Encode that returned an error has set err: every later Encode fails and emits nothing *)
Theorem C12_sticky_enc_after : forall (x : enc) (ps : list eprim) (qs : list (list eprim)),
  fst (snd (encode x ps)) = true -> Forall (fun o => o = (true, [])) (eops (fst (encode x ps)) qs).
Proof. exact enc_sticky_after. Qed.
Print Assumptions C12_sticky_enc_after.

(* sticky: with err set, every Decode returns an error, yields no value, consumes nothing (NumBytesRead stays) *)
Theorem C12_sticky_dec : forall (x : dec) (ps : list dprim) (k : eclass),
  d_err (fst x) = Some k -> decode x ps = (x, (true, [], d_cur (fst x))).
Proof. exact dec_sticky_lemma. Qed.
Print Assumptions C12_sticky_dec.

Theorem C12_sticky_dec_after : forall (x : dec) (ps : list dprim) (qs : list (list dprim)),
  fst (fst (snd (decode x ps))) = true ->
  Forall (fun o => o = (true, [], snd (snd (decode x ps)))) (dops (fst (decode x ps)) qs).
Proof. exact dec_sticky_after. Qed.
Print Assumptions C12_sticky_dec_after.

(* every field the 20 state structs declare in the CURRENT source is assigned on the reset path or is in the
   explicit neutral list; the neutral list is tight; every field the model's reset clears is assigned by the
   real reset path.  A new stateful field that reset forgets, or a reset that stops clearing depth / tok / err /
   ci / the binc symbol tables, makes this false. *)
Theorem C12_fields : fields_ok = true.
Proof. exact fields_lemma. Qed.
Print Assumptions C12_fields.

Theorem C12_fields_prop : forall r, In r structs ->
  exists nl, assoc (rname r) neutral = Some nl /\
    (forall f, In f (rdeclared r) -> In f (rassigned r) \/ In f nl) /\
    (forall f, In f nl -> In f (rdeclared r) /\ ~ In f (rassigned r)).
Proof. exact fields_prop_lemma. Qed.
Print Assumptions C12_fields_prop.

(* non-vacuity: a json-like history that fails inside a nested container (indent level 2, key position, one
   byte buffered, symbol defined, pointer on the cycle stack), then Reset: the next operation is as on a fresh
   encoder, while without Reset it fails and emits nothing *)
Example C12_enc_nonvacuous :
  let h := [EHOp [EpOpen 2%N; EpIndent; EpOpen 1%N; EpSym 7%N; EpPush 9%N; EpKey [97%N]; EpPanic EData]] in
  let x := erun (efresh None) h in
  let op := [EpOpen 2%N; EpIndent; EpSym 7%N; EpKey [98%N]; EpClose] in
  e_err (fst x) = Some EData /\ e_dl (fst x) = 2%N /\ e_ci (fst x) = [9%N] /\ e_seq (fst x) = 1%N /\ e_pend (fst x) <> [] /\
  eops x [op] = [(true, [])] /\
  eops (ereset x None) [op] = eops (efresh None) [op] /\
  eops (efresh None) [op] = [(false, [10; 32; 2; 0; 7; 98]%N)].
Proof. vm_compute. repeat apply conj; try reflexivity. discriminate. Qed.

(* a failing writer: the destination takes 3 bytes and fails; the error is sticky, Reset on a good writer recovers *)
Example C12_enc_writer_nonvacuous :
  let x := fst (encode (efresh (Some 3)) [EpWrite [1; 2; 3; 4; 5]%N]) in
  e_err (fst x) = Some EWriter /\ e_out (fst x) = [1; 2; 3]%N /\
  eops x [[EpWrite [6%N]]] = [(true, [])] /\
  eops (ereset x None) [[EpWrite [6%N]]] = [(false, [6%N])].
Proof. vm_compute. repeat apply conj; reflexivity. Qed.

(* decoder: truncated input inside a nested value with a pending descriptor and a defined symbol *)
Example C12_dec_nonvacuous :
  let h := [DHOp [DpBd; DpUseBd; DpEnter; DpSymDef 3%N; DpBd; DpEnter; DpRead 5]] in
  let x := drun 16%N (dfresh 16%N [129; 7; 130; 1]%N) h in
  let op := [DpBd; DpUseBd; DpEnter; DpRead 1; DpLeave] in
  d_err (fst x) = Some EData /\ d_depth (fst x) = 2%N /\ d_bdread (fst x) = true /\ d_syms (fst x) = [(3%N, 7%N)] /\
  dops x [op] = [(true, [], 3)] /\
  dops (dreset x 16%N [145; 9]%N) [op] = dops (dfresh 16%N [145; 9]%N) [op] /\
  dops (dfresh 16%N [145; 9]%N) [op] = [(false, [145; 9]%N, 2)].
Proof. vm_compute. repeat apply conj; reflexivity. Qed.

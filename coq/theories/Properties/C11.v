(* C11 — every consumer of a value agrees on where that value ends.
   Only statements, closed by [exact], with [Print Assumptions] beneath each.

   Vocabulary.  C11/Seq.v: a format as a record [fmt] (one Encode call [encf], one
   Decode(&interface{}) call [decf], the walker nextValueBytes [skipf] returning the bytes it walked
   over, [normf], [rem] = bytes not yet consumed); [Seq.enc_seq] / [Seq.bytes_seq] = successive Encode calls
   on ONE Encoder; [Seq.dec_seq ms] = successive Decode calls on ONE Decoder with a consumer per
   position [ms] (MTyped t / MNaked / MSkip / MRaw), returning the results, the unread byte count
   after every call and the final configuration; [Seq.project] = what the calls must return;
   [Seq.prefix_sums] = the running sums of the encoding lengths.  C11/Inst.v: the wire models
   (Wire/Cbor.v, Msgpack.v, Simple.v, Binc.v) as such records; [capture b r] = the recording
   (prefix of the input the walker passed).  Typed decoding is a function [typed] of the decoded
   tree (Generic/Dec.v of_item is one), quantified over. *)
From Coq Require Import List NArith ZArith Lia Bool.
From Verif Require Import Base.Outcome Wire.Item C11.Seq C11.Inst C11.Proofs.
From Verif Require Wire.Cbor C10.CborSpec C10.CborConv Wire.CborProofs Wire.CborEnc.
From Verif Require Wire.Msgpack Wire.MsgpackProofs Wire.MsgpackRT.
From Verif Require Wire.Simple Wire.SimpleProofs Wire.SimpleSkip.
From Verif Require Wire.Binc Wire.BincProofs.
From Verif Require Generic.Types Generic.Enc Generic.Dec C01.Model.
From Verif Require Wire.Json Wire.JsonRT Wire.JsonSkip Wire.JsonLeaf Wire.CborTime C11.InstJson C11.ProofsJson Properties.W_json.
Import ListNotations.

(* ---------------- the sequence theorem, once, over the abstract laws ---------------- *)

(* For ANY format whose parsers obey the per-value laws (decode returns [normf v] and the walker
   returns exactly the bytes written, both leaving the same configuration, which stands before what
   followed, with the per-instance states related again), ANY number of values, ANY consumer per
   position: the stream written by successive Encode calls is read back in order by the same number
   of calls, each position yields what [Seq.project] says, the unread counts after each call are within
   [slack] bytes of the exact positions, and the configuration ends before the trailing bytes. *)
Theorem C11_seq_generic : forall (F : fmt) (TY V : Type) (typed : TY -> item -> V)
    (at_ : est F -> cfg F -> list N -> Prop) (okf : item -> est F -> list N -> Prop) (slack : nat),
  laws F at_ okf slack ->
  forall (vs : list item) (ms : list (mode TY)) (e : est F) (c : cfg F) (tl : list N),
  length ms = length vs -> Seq.ok_seq F okf vs e tl -> at_ e c (Seq.bytes_seq F vs e ++ tl) ->
  exists ns c',
    Seq.dec_seq F TY V typed ms c = Ok (Seq.project F TY V typed ms vs e, ns, c')
    /\ Forall2 (close slack) ns (rems F vs e tl)
    /\ at_ (Seq.est_after F vs e) c' tl.
Proof. exact seq_ok. Qed.
Print Assumptions C11_seq_generic.

(* with no slack: bytes consumed after the i-th call = sum of the first i encoding lengths *)
Theorem C11_seq_exact_generic : forall (F : fmt) (TY V : Type) (typed : TY -> item -> V)
    (at_ : est F -> cfg F -> list N -> Prop) (okf : item -> est F -> list N -> Prop),
  laws F at_ okf 0 ->
  forall (vs : list item) (ms : list (mode TY)) (e : est F) (c : cfg F) (tl : list N),
  length ms = length vs -> Seq.ok_seq F okf vs e tl -> at_ e c (Seq.bytes_seq F vs e ++ tl) ->
  exists ns c',
    Seq.dec_seq F TY V typed ms c = Ok (Seq.project F TY V typed ms vs e, ns, c')
    /\ map (fun r => length (Seq.bytes_seq F vs e ++ tl) - r)%nat ns
       = Seq.prefix_sums 0 (map (@length N) (fst (Seq.enc_seq F vs e)))
    /\ at_ (Seq.est_after F vs e) c' tl.
Proof. exact seq_exact0. Qed.
Print Assumptions C11_seq_exact_generic.

(* ---------------- cbor ---------------- *)
Section Cbor.
  Import Wire.Cbor C10.CborSpec C10.CborConv Wire.CborEnc.

  (* skip = decode extent.  PARTIAL exactly as Wcbor_dec_enc_partial: [lib_supports] excludes tags 0..5,
     hence non-zero ITime, on the DECODE side; the walker half holds for every plain item
     (Wcbor_skip_enc), times included. *)
  Theorem C11_cbor_skip_partial : forall (O : eopts) (D : dopts) (i : item) (d : Z) (rest : list N),
    wf i -> plain i -> lib_supports D (tree_of O i) -> (tdepth D (tree_of O i) < maxdepth D)%Z ->
    (d + sdepth (tree_of O i) < maxdepth D)%Z ->
    dec_naked D (fuel_for (enc O i ++ rest)) (enc O i ++ rest) = Ok (norm O D i, rest)
    /\ skip D (fuel_for (enc O i ++ rest)) d (enc O i ++ rest) = Ok rest.
  Proof. exact cbor_skip_partial_lemma. Qed.
  Print Assumptions C11_cbor_skip_partial.

  (* the walker's extent, full (no decode-side restriction) *)
  Theorem C11_cbor_skip : forall (O : eopts) (D : dopts) (i : item) (d : Z) (rest : list N),
    wf i -> plain i -> (d + sdepth (tree_of O i) < maxdepth D)%Z ->
    skip D (fuel_for (enc O i ++ rest)) d (enc O i ++ rest) = Ok rest.
  Proof. exact cbor_skip_lemma. Qed.
  Print Assumptions C11_cbor_skip.

  (* raw: the captured bytes are exactly what the encoder wrote (full) *)
  Theorem C11_cbor_raw : forall (O : eopts) (D : dopts) (i : item) (d : Z) (rest : list N),
    wf i -> plain i -> (d + sdepth (tree_of O i) < maxdepth D)%Z ->
    capture (enc O i ++ rest) (skip D (fuel_for (enc O i ++ rest)) d (enc O i ++ rest)) = Ok (enc O i, rest).
  Proof. exact cbor_raw_lemma. Qed.
  Print Assumptions C11_cbor_raw.

  (* ... and re-emitted verbatim in front of anything they decode to the original (partial as above) *)
  Theorem C11_cbor_raw_redecode_partial : forall (O : eopts) (D : dopts) (i : item) (d : Z) (rest rest' : list N) (b : list N),
    wf i -> plain i -> lib_supports D (tree_of O i) -> (tdepth D (tree_of O i) < maxdepth D)%Z ->
    capture (enc O i ++ rest) (skip D (fuel_for (enc O i ++ rest)) d (enc O i ++ rest)) = Ok (b, rest) ->
    (d + sdepth (tree_of O i) < maxdepth D)%Z ->
    dec_naked D (fuel_for (b ++ rest')) (b ++ rest') = Ok (norm O D i, rest').
  Proof. exact cbor_raw_redecode_lemma. Qed.
  Print Assumptions C11_cbor_raw_redecode_partial.

  (* ---- the extended decode law (Wcbor_dec_enc): [lib_supports_t] / [tdepth_t] / [norm_t] also admit times
     written in the RFC 3339 form (tag 0; TimeRFC3339 = true, UTC year 0..9999: Wcbor_time_rfc3339) wherever
     they occur; the float form (tag 1) of a non-zero time stays outside ---- *)

  (* decode and the walker stop at the same byte (full for everything the extended law admits) *)
  Theorem C11_cbor_extent : forall (O : eopts) (D : dopts) (i : item) (d : Z) (rest : list N),
    wf i -> plain i -> lib_supports_t D (tree_of O i) -> (tdepth_t D (tree_of O i) < maxdepth D)%Z ->
    (d + sdepth (tree_of O i) < maxdepth D)%Z ->
    dec_naked D (fuel_for (enc O i ++ rest)) (enc O i ++ rest) = Ok (norm_t O D i, rest)
    /\ skip D (fuel_for (enc O i ++ rest)) d (enc O i ++ rest) = Ok rest.
  Proof. exact cbor_extent_lemma. Qed.
  Print Assumptions C11_cbor_extent.

  Theorem C11_cbor_raw_redecode : forall (O : eopts) (D : dopts) (i : item) (d : Z) (rest rest' : list N) (b : list N),
    wf i -> plain i -> lib_supports_t D (tree_of O i) -> (tdepth_t D (tree_of O i) < maxdepth D)%Z ->
    capture (enc O i ++ rest) (skip D (fuel_for (enc O i ++ rest)) d (enc O i ++ rest)) = Ok (b, rest) ->
    (d + sdepth (tree_of O i) < maxdepth D)%Z ->
    dec_naked D (fuel_for (b ++ rest')) (b ++ rest') = Ok (norm_t O D i, rest').
  Proof. exact cbor_raw_redecode_t_lemma. Qed.
  Print Assumptions C11_cbor_raw_redecode.

  (* sequences, full for every item the extended law admits ([CborI.ok_t]: wf, plain, lib_supports_t, nesting
     below MaxDepth): in particular, with TimeRFC3339 = true, items holding times (C11_cbor_time_admitted) *)
  Theorem C11_cbor_seq : forall (O : eopts) (D : dopts) (d : Z) (TY V : Type) (typed : TY -> item -> V)
      (vs : list item) (ms : list (mode TY)) (tl : list N),
    length ms = length vs -> Seq.ok_seq (CborI.Ft O D d) (CborI.ok_t O D d) vs tt tl ->
    exists ns,
      Seq.dec_seq (CborI.Ft O D d) TY V typed ms (Seq.bytes_seq (CborI.Ft O D d) vs tt ++ tl)
        = Ok (Seq.project (CborI.Ft O D d) TY V typed ms vs tt, ns, tl)
      /\ map (fun r => length (Seq.bytes_seq (CborI.Ft O D d) vs tt ++ tl) - r)%nat ns
         = Seq.prefix_sums 0 (map (@length N) (fst (Seq.enc_seq (CborI.Ft O D d) vs tt))).
  Proof. exact cbor_seq_t_lemma. Qed.
  Print Assumptions C11_cbor_seq.

  (* a time written under TimeRFC3339 (UTC year 0..9999) meets the premises of C11_cbor_seq *)
  Theorem C11_cbor_time_admitted : forall (O : eopts) (D : dopts) (d : Z) (s : Z) (n : N) (e : unit) (tl : list N),
    eo_rfc3339 O = true -> Wire.CborTime.year_ok s = true -> (n < 1000000000)%N ->
    (- 9223372036854775808 <= s < 9223372036854775807)%Z -> (0 <= d)%Z -> (d + 1 < maxdepth D)%Z ->
    CborI.ok_t O D d (ITime s n) e tl.
  Proof. exact cbor_time_ok_t. Qed.
  Print Assumptions C11_cbor_time_admitted.

  (* the float form of times: PARTIAL as before *)
  (* sequences: any number of values, any consumers.  PARTIAL: items whose decode law is proved
     ([CborI.ok]: wf, plain, lib_supports — no non-zero time —, nesting below MaxDepth) *)
  Theorem C11_cbor_seq_partial : forall (O : eopts) (D : dopts) (d : Z) (TY V : Type) (typed : TY -> item -> V)
      (vs : list item) (ms : list (mode TY)) (tl : list N),
    length ms = length vs -> Seq.ok_seq (CborI.F O D d) (CborI.ok O D d) vs tt tl ->
    exists ns,
      Seq.dec_seq (CborI.F O D d) TY V typed ms (Seq.bytes_seq (CborI.F O D d) vs tt ++ tl)
        = Ok (Seq.project (CborI.F O D d) TY V typed ms vs tt, ns, tl)
      /\ map (fun r => length (Seq.bytes_seq (CborI.F O D d) vs tt ++ tl) - r)%nat ns
         = Seq.prefix_sums 0 (map (@length N) (fst (Seq.enc_seq (CborI.F O D d) vs tt))).
  Proof. exact cbor_seq_lemma. Qed.
  Print Assumptions C11_cbor_seq_partial.
End Cbor.

(* ---------------- msgpack ---------------- *)
Section Msgpack.
  Import Wire.Msgpack Wire.MsgpackProofs Wire.MsgpackRT.

  Theorem C11_msgpack_skip : forall (O : eopts) (D : dopts) (i : item) (d0 : Z) (rest : list N),
    supported i -> sint_ok D i -> (Z.of_nat (depth i) < maxdepth D)%Z -> (d0 + Z.of_nat (depth i) < maxdepth D)%Z ->
    goslice (len (enc O i ++ rest)) ->
    dec_naked D (dec_fuel (enc O i ++ rest)) (enc O i ++ rest) = Ok (norm O D i, rest)
    /\ skip_at D d0 (dec_fuel (enc O i ++ rest)) (enc O i ++ rest) = Ok rest.
  Proof. exact msgpack_skip_lemma. Qed.
  Print Assumptions C11_msgpack_skip.

  Theorem C11_msgpack_raw : forall (O : eopts) (D : dopts) (i : item) (d0 : Z) (rest rest' : list N),
    supported i -> sint_ok D i -> (Z.of_nat (depth i) < maxdepth D)%Z -> (d0 + Z.of_nat (depth i) < maxdepth D)%Z ->
    goslice (len (enc O i ++ rest')) ->
    capture (enc O i ++ rest) (skip_at D d0 (dec_fuel (enc O i ++ rest)) (enc O i ++ rest)) = Ok (enc O i, rest)
    /\ dec_naked D (dec_fuel (enc O i ++ rest')) (enc O i ++ rest') = Ok (norm O D i, rest').
  Proof. exact msgpack_raw_lemma. Qed.
  Print Assumptions C11_msgpack_raw.

  Theorem C11_msgpack_seq : forall (O : eopts) (D : dopts) (d0 : Z) (TY V : Type) (typed : TY -> item -> V)
      (vs : list item) (ms : list (mode TY)) (tl : list N),
    length ms = length vs -> Seq.ok_seq (MsgpackI.F O D d0) (MsgpackI.ok O D d0) vs tt tl ->
    exists ns,
      Seq.dec_seq (MsgpackI.F O D d0) TY V typed ms (Seq.bytes_seq (MsgpackI.F O D d0) vs tt ++ tl)
        = Ok (Seq.project (MsgpackI.F O D d0) TY V typed ms vs tt, ns, tl)
      /\ map (fun r => length (Seq.bytes_seq (MsgpackI.F O D d0) vs tt ++ tl) - r)%nat ns
         = Seq.prefix_sums 0 (map (@length N) (fst (Seq.enc_seq (MsgpackI.F O D d0) vs tt))).
  Proof. exact msgpack_seq_lemma. Qed.
  Print Assumptions C11_msgpack_seq.
End Msgpack.

(* ---------------- simple ---------------- *)
Section Simple.
  Import Wire.Simple Wire.SimpleProofs Wire.SimpleSkip.

  Theorem C11_simple_skip : forall (o : eopts) (D : dopts) (i : item) (rest : list N),
    swf o D i -> (signedInteger D = false \/ sint_ok i) -> (Z.of_nat (depth i) < maxdepth D)%Z ->
    dec_naked D (dec_fuel (enc o false i ++ rest)) (enc o false i ++ rest) = Ok (norm o D false i, rest)
    /\ skip D (dec_fuel (enc o false i ++ rest)) (enc o false i ++ rest) = Ok rest.
  Proof. exact simple_skip_lemma. Qed.
  Print Assumptions C11_simple_skip.

  Theorem C11_simple_raw : forall (o : eopts) (D : dopts) (i : item) (rest rest' : list N),
    swf o D i -> (signedInteger D = false \/ sint_ok i) -> (Z.of_nat (depth i) < maxdepth D)%Z ->
    raw D (dec_fuel (enc o false i ++ rest)) (enc o false i ++ rest) = Ok (enc o false i, rest)
    /\ dec_naked D (dec_fuel (enc o false i ++ rest')) (enc o false i ++ rest') = Ok (norm o D false i, rest').
  Proof. exact simple_raw_lemma. Qed.
  Print Assumptions C11_simple_raw.

  Theorem C11_simple_seq : forall (o : eopts) (D : dopts) (TY V : Type) (typed : TY -> item -> V)
      (vs : list item) (ms : list (mode TY)) (tl : list N),
    length ms = length vs -> Seq.ok_seq (SimpleI.F o D) (SimpleI.ok o D) vs tt tl ->
    exists ns,
      Seq.dec_seq (SimpleI.F o D) TY V typed ms (Seq.bytes_seq (SimpleI.F o D) vs tt ++ tl)
        = Ok (Seq.project (SimpleI.F o D) TY V typed ms vs tt, ns, tl)
      /\ map (fun r => length (Seq.bytes_seq (SimpleI.F o D) vs tt ++ tl) - r)%nat ns
         = Seq.prefix_sums 0 (map (@length N) (fst (Seq.enc_seq (SimpleI.F o D) vs tt))).
  Proof. exact simple_seq_lemma. Qed.
  Print Assumptions C11_simple_seq.
End Simple.

(* ---------------- binc: symbol tables threaded through the stream ---------------- *)
Section Binc.
  Import Wire.Binc Wire.BincProofs.

  (* decode and the walker stop at the same byte AND leave the same symbol table, related to the
     Encoder's table after the value (F11-1 repaired: definitions inside skipped values are recorded) *)
  Theorem C11_binc_skip : forall (e : eopts) (d : dopts) (i : item) (est : estate) (dst : dstate) (rest : list N),
    wfb e d i -> R est dst -> (N.of_nat (depth i) < maxdepth d)%N ->
    exists dst',
      dec_naked d dst (fst (enc e false i est) ++ rest) = Ok (norm e d i, rest, dst')
      /\ skip_value d dst (fst (enc e false i est) ++ rest) = Ok (tt, rest, dst')
      /\ R (snd (enc e false i est)) dst'.
  Proof. exact dec_naked_enc. Qed.
  Print Assumptions C11_binc_skip.

  (* raw: captured bytes = the encoder's bytes; decoded again FROM THE SAME TABLE they give the
     original (a captured value may refer to symbols defined before it) *)
  Theorem C11_binc_raw : forall (e : eopts) (d : dopts) (i : item) (est : estate) (dst : dstate) (rest rest' : list N),
    wfb e d i -> R est dst -> (N.of_nat (depth i) < maxdepth d)%N ->
    exists dst' dst'',
      skipf (BincI.F e d) (dst, fst (enc e false i est) ++ rest) = Ok (fst (enc e false i est), (dst', rest))
      /\ dec_naked d dst (fst (enc e false i est) ++ rest') = Ok (norm e d i, rest', dst'')
      /\ R (snd (enc e false i est)) dst' /\ R (snd (enc e false i est)) dst''.
  Proof. exact binc_raw_lemma. Qed.
  Print Assumptions C11_binc_raw.

  Theorem C11_binc_seq : forall (E : eopts) (D : dopts) (TY V : Type) (typed : TY -> item -> V)
      (vs : list item) (ms : list (mode TY)) (est : estate) (dst : dstate) (tl : list N),
    length ms = length vs -> Seq.ok_seq (BincI.F E D) (BincI.ok E D) vs est tl -> R est dst ->
    exists ns dst',
      Seq.dec_seq (BincI.F E D) TY V typed ms (dst, Seq.bytes_seq (BincI.F E D) vs est ++ tl)
        = Ok (Seq.project (BincI.F E D) TY V typed ms vs est, ns, (dst', tl))
      /\ map (fun r => length (Seq.bytes_seq (BincI.F E D) vs est ++ tl) - r)%nat ns
         = Seq.prefix_sums 0 (map (@length N) (fst (Seq.enc_seq (BincI.F E D) vs est)))
      /\ R (Seq.est_after (BincI.F E D) vs est) dst'.
  Proof. exact binc_seq_lemma. Qed.
  Print Assumptions C11_binc_seq.
End Binc.


(* ---------------- json: the pending token is the per-instance state, slack = 1 ---------------- *)
(* Stated for the C09 leaf [c09_leaf_of O] (C09's string quoting / unquoting and integer texts; O = the
   oracle for strconv float texts, parseFloat64 and the RFC 3339 time text).  PARTIAL, all three: the string
   and integer laws are discharged from property C09's theorems (Wire/JsonLeaf.v c09_leaf_laws); what remains
   a hypothesis is [float_time_laws]: strconv's shortest float formatting, parseFloat64 on the texts the
   encoder writes, and the time layout (not modelled: oracle).  Everything else - the tokenizer, the
   container grammar, the walker, the sequence induction - is proved.  (For an arbitrary leaf under
   [leaf_laws L]: C11/ProofsJson.v json_skip_lemma / json_raw_lemma / json_seq_lemma.) *)
Section Json.
  Import Wire.Json Wire.JsonRT Wire.JsonSkip Wire.JsonLeaf.

  (* decode and the walker, started in ANY tokenizer state that presents the value's text [enc_at ...]
     followed by [tl] (a bare number must be followed by a byte that ends it), return norm of the value /
     exactly the text, and leave the SAME tokenizer state [after ..]: nothing pending and [tl] unread,
     except after a bare number, whose terminating byte is the pending token (the permitted delimiter) *)
  Theorem C11_json_skip_partial : forall (O : oracle), float_time_laws (c09_leaf_of O) -> let L := c09_leaf_of O in
    forall (o : eopts) (D : dopts) (lvl : N) (i : item) (s : st) (tl : list N) (fuel : nat) (dp : Z),
    jwf L o D false i -> (dp + Z.of_nat (depth i) < maxdepth D)%Z ->
    advance s = advance (mkst 0 (enc_at L o false lvl i ++ tl)) -> delim_ok (isnum L o false i) tl ->
    (2 * length (enc_at L o false lvl i) <= fuel)%nat ->
    dec L D fuel dp false s = Ok (norm L o D false i, after (isnum L o false i) tl)
    /\ nvb s = Ok (enc_at L o false lvl i, after (isnum L o false i) tl).
  Proof. exact ProofsJson.json_skip_c09. Qed.
  Print Assumptions C11_json_skip_partial.

  (* raw: what nextValueBytes hands back is exactly the value's text (since FWjson-1 without the byte that
     ends a number), and re-emitted in front of anything that may follow it decodes to the original *)
  Theorem C11_json_raw_partial : forall (O : oracle), float_time_laws (c09_leaf_of O) -> let L := c09_leaf_of O in
    forall (o : eopts) (D : dopts) (lvl : N) (i : item) (s : st) (tl tl' : list N) (b : list N) (s' : st),
    jwf L o D false i -> (Z.of_nat (depth i) < maxdepth D)%Z ->
    advance s = advance (mkst 0 (enc_at L o false lvl i ++ tl)) -> delim_ok (isnum L o false i) tl ->
    delim_ok (isnum L o false i) tl' ->
    nvb s = Ok (b, s') ->
    b = enc_at L o false lvl i
    /\ dec L D (2 * length b) 0 false (st0 (b ++ tl')) = Ok (norm L o D false i, after (isnum L o false i) tl').
  Proof. exact ProofsJson.json_raw_c09. Qed.
  Print Assumptions C11_json_raw_partial.

  (* sequences: each Encode call writes [enc_top] (the text, then the TermWhitespace byte if on); any number
     of values, any consumer per position; every value satisfies [InstJson.ok] (jwf, nesting below MaxDepth, a
     bare number is followed by TermWhitespace / a non-number byte / the end).  The calls return what
     [project] says (Raw = the text alone), the unread count after each call is within ONE byte of the exact
     position ([close 1]: the TermWhitespace byte still unread, or the byte after a bare number already
     taken), and the final tokenizer state presents exactly the trailing bytes. *)
  Theorem C11_json_seq_partial : forall (O : oracle), float_time_laws (c09_leaf_of O) -> let L := c09_leaf_of O in
    forall (o : eopts) (D : dopts) (TY V : Type) (typed : TY -> item -> V)
      (vs : list item) (ms : list (mode TY)) (tl : list N),
    length ms = length vs -> Seq.ok_seq (InstJson.F L o D) (InstJson.ok L o D) vs tt tl ->
    exists ns s',
      Seq.dec_seq (InstJson.F L o D) TY V typed ms (st0 (Seq.bytes_seq (InstJson.F L o D) vs tt ++ tl))
        = Ok (Seq.project (InstJson.F L o D) TY V typed ms vs tt, ns, s')
      /\ Forall2 (close 1) ns (Seq.rems (InstJson.F L o D) vs tt tl)
      /\ advance s' = advance (mkst 0 tl) /\ (length tl - 1 <= length (inp s') <= length tl + 1)%nat.
  Proof. exact ProofsJson.json_seq_c09. Qed.
  Print Assumptions C11_json_seq_partial.
End Json.

(* ---------------- non-vacuity ---------------- *)

(* binc, AsSymbols on: three values sharing the symbol "key"; the value that DEFINES the symbol is
   skipped, the second is captured raw, the third decoded typed (through Generic/Dec.v of_item with
   the identity wire): all premises hold, the stream is 39 bytes, positions 24 / 31 / 39. *)
Definition ex_eo := {| Binc.asSymbols := true; Binc.stringToRaw := false |}.
Definition ex_do := {| Binc.maxdepth := 1024%N; Binc.signedInt := false; Binc.rawToString := false |}.
Definition ex_k : list N := [107; 101; 121]%N.
Definition ex_vs : list item :=
  [IMap [(IStr ex_k, IArr [IInt (-4294967295); IF64 4607182418800017408%N; ITime 1700000000 5%N])];
   IMap [(IStr ex_k, IBytes [1; 2; 3]%N)];
   IArr [IMap [(IStr ex_k, IUint 300%N)]; INil]].
Definition ex_ty : Generic.Types.ty :=
  Generic.Types.TArray 2 (Generic.Types.TMap Generic.Types.TString (Generic.Types.TUint Generic.Types.W16)).
Definition ex_typed (t : Generic.Types.ty) (i : item) : res Generic.Types.gv :=
  Generic.Dec.of_item C01.Model.id_wire (Generic.Enc.mkgopts false false false 0%Z false) 0 t i.

Example C11_binc_seq_nonvacuous :
  Seq.ok_seq (BincI.F ex_eo ex_do) (BincI.ok ex_eo ex_do) ex_vs Binc.estate0 [] /\ BincProofs.R Binc.estate0 Binc.dstate0 /\
  length (Seq.bytes_seq (BincI.F ex_eo ex_do) ex_vs Binc.estate0) = 39%nat /\
  exists raw2,
  Seq.dec_seq (BincI.F ex_eo ex_do) _ _ ex_typed [MSkip; MRaw; MTyped ex_ty] (Binc.dstate0, Seq.bytes_seq (BincI.F ex_eo ex_do) ex_vs Binc.estate0)
  = Ok ([OSkipped; ORaw raw2;
         OTyped (Ok (Generic.Types.GArr [Generic.Types.GMap (Some [(Generic.Types.GStr ex_k, Generic.Types.GUint 300%N)]);
                                         Generic.Types.GMap None]))],
        [15; 8; 0]%nat, ([(1%N, ex_k)], []))
  /\ length raw2 = 7%nat.
Proof.
  split; [|split; [exact BincProofs.R_init|split; [vm_compute; reflexivity|]]].
  - cbn [Seq.ok_seq]. repeat apply conj; try exact I; vm_compute; repeat constructor; try reflexivity; try (intro; discriminate); try lia.
  - eexists. split; [vm_compute; reflexivity|vm_compute; reflexivity].
Qed.

(* cbor indefinite-length, msgpack, simple: decode / skip / raw of the same nested value agree *)
Example C11_extents_nonvacuous :
  let i := IMap [(IStr [97]%N, IArr [IInt (-300); IUint 65536%N; IF64 4609434218613702656%N; INil; IStr []]);
                 (IInt 7, IBytes [1; 2]%N); (IBool true, IMap [])] in
  (let O := Cbor.mkeo true false false false in let D := Cbor.mkdo false false false 0 in
   skipf (CborI.F O D 1) (Cbor.enc O i ++ [9; 9]%N) = Ok (Cbor.enc O i, [9; 9]%N) /\
   decf (CborI.F O D 1) (Cbor.enc O i ++ [9; 9]%N) = Ok (CborEnc.norm O D i, [9; 9]%N) /\ length (Cbor.enc O i) = 37%nat) /\
  (let O := Msgpack.mkeopts true false false false in let D := Msgpack.mkdopts true false false 0 in
   skipf (MsgpackI.F O D 1) (Msgpack.enc O i ++ [9; 9]%N) = Ok (Msgpack.enc O i, [9; 9]%N) /\
   decf (MsgpackI.F O D 1) (Msgpack.enc O i ++ [9; 9]%N) = Ok (MsgpackRT.norm O D i, [9; 9]%N)) /\
  (let O := Simple.mkeopts false false in let D := Simple.mkdopts false false 0 in
   skipf (SimpleI.F O D) (Simple.enc O false i ++ [9; 9]%N) = Ok (Simple.enc O false i, [9; 9]%N) /\
   decf (SimpleI.F O D) (Simple.enc O false i ++ [9; 9]%N) = Ok (Simple.norm O D false i, [9; 9]%N)).
Proof. cbv zeta. repeat apply conj; vm_compute; reflexivity. Qed.

(* json, TermWhitespace on, C09's string code with observed float texts as the leaf: 123, [true,"a"], -5,
   {"k":1.5} read back as skip / raw / naked / raw: Raw holds the text without the delimiter; the unread
   counts are the exact ones (16, 5, 13, 0 after the TermWhitespace bytes) give or take the one byte *)
Example C11_json_seq_nonvacuous :
  let L := W_json.exL in
  let o := Json.mkeopts 0 0 false true true false false in
  let D := Json.mkdopts false false true true 0 in
  let vs := [IUint 123%N; IArr [IBool true; IStr [97]%N]; IInt (-5); IMap [(IStr [107]%N, IF64 4609434218613702656%N)]] in
  Seq.bytes_seq (InstJson.F L o D) vs tt
    = [49; 50; 51; 32; 91; 116; 114; 117; 101; 44; 34; 97; 34; 93; 32; 45; 53; 32; 123; 34; 107; 34; 58; 49; 46; 53; 125; 32]%N /\
  Seq.rems (InstJson.F L o D) vs tt [] = [24; 13; 10; 0]%nat /\
  exists s',
  Seq.dec_seq (InstJson.F L o D) unit unit (fun _ _ => tt) [MSkip; MRaw; MNaked; MRaw] (Json.st0 (Seq.bytes_seq (InstJson.F L o D) vs tt))
    = Ok ([OSkipped; ORaw [91; 116; 114; 117; 101; 44; 34; 97; 34; 93]%N; ONaked (IInt (-5));
           ORaw [123; 34; 107; 34; 58; 49; 46; 53; 125]%N], [24; 14; 10; 1]%nat, s').
Proof. cbv zeta. split; [vm_compute; reflexivity|split; [vm_compute; reflexivity|eexists; vm_compute; reflexivity]]. Qed.

(* cbor, TimeRFC3339: a time, a number and another time, read back as raw / skip / naked on one Decoder: the
   premises of C11_cbor_seq hold and the third call returns the instant rounded to the microsecond *)
Example C11_cbor_seq_nonvacuous :
  let O := Cbor.mkeo false true false false in
  let D := Cbor.mkdo false false false 0 in
  let vs := [ITime 1700000000 123456789%N; IUint 300%N; ITime 1 5600%N] in
  Seq.ok_seq (CborI.Ft O D 0) (CborI.ok_t O D 0) vs tt [] /\
  exists raw1,
  Seq.dec_seq (CborI.Ft O D 0) unit unit (fun _ _ => tt) [MRaw; MSkip; MNaked] (Seq.bytes_seq (CborI.Ft O D 0) vs tt)
    = Ok ([ORaw raw1; OSkipped; ONaked (ITime 1 6000%N)], [34; 31; 0]%nat, []) /\ length raw1 = 33%nat.
Proof.
  cbv zeta. split.
  - cbn [Seq.ok_seq]. split; [|split; [|split; [|exact I]]].
    + apply C11_cbor_time_admitted; try (vm_compute; reflexivity); try (vm_compute; discriminate);
        split; vm_compute; [discriminate|reflexivity].
    + unfold CborI.ok_t. split; [|split; [|split; [|split]]];
      [vm_compute; reflexivity|exact I|cbn; intro; discriminate|vm_compute; reflexivity|vm_compute; reflexivity].
    + apply C11_cbor_time_admitted; try (vm_compute; reflexivity); try (vm_compute; discriminate);
        split; vm_compute; [discriminate|reflexivity].
  - eexists. split; vm_compute; reflexivity.
Qed.

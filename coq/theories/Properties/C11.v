(* C11 — every consumer of a value agrees on where that value ends.
   Only statements, closed by [exact], with [Print Assumptions] beneath each.

   Vocabulary.  C11/Seq.v: a format as a record [fmt] (one Encode call [encf], one
   Decode(&interface{}) call [decf], the walker nextValueBytes [skipf] returning the bytes it walked
   over, [normf], [rem] = bytes not yet consumed); [Seq.enc_seq] / [Seq.bytes_seq] = successive Encode calls
   on ONE Encoder; [Seq.dec_seq ms] = successive Decode calls on ONE Decoder with a consumer per
   position [ms] (MTyped t / MNaked / MSkip / MRaw), returning the results, the unread byte count
   after every call and the final configuration; [Seq.project] = what the calls must return;
   [Seq.prefix_sums] = the running sums of the encoding lengths.  C11/Inst.v: the wire models
   (Wire/Cbor.v, Msgpack.v, Simple.v, Binc.v) as such records; [capture b r] = the recording
   (prefix of the input the walker passed).  Typed decoding is a function [typed] of the decoded
   tree (Generic/Dec.v of_item is one), quantified over. *)
From Coq Require Import List NArith ZArith Lia Bool.
From Verif Require Import Base.Outcome Wire.Item C11.Seq C11.Inst C11.Proofs.
From Verif Require Wire.Cbor C10.CborSpec C10.CborConv Wire.CborProofs Wire.CborEnc.
From Verif Require Wire.Msgpack Wire.MsgpackProofs Wire.MsgpackRT.
From Verif Require Wire.Simple Wire.SimpleProofs Wire.SimpleSkip.
From Verif Require Wire.Binc Wire.BincProofs.
From Verif Require Generic.Types Generic.Enc Generic.Dec C01.Model.
From Verif Require Wire.Json Wire.JsonRT Wire.JsonSkip Wire.JsonLeaf Wire.CborTime C11.InstJson C11.ProofsJson Properties.W_json.
From Verif Require C11.JsonOracle.
From Verif Require Wire.CborFloat C11.CborFT C11.SeqFT.
Import ListNotations.

(* ---------------- the sequence theorem, once, over the abstract laws ---------------- *)

(* For ANY format whose parsers obey the per-value laws (decode returns [normf v] and the walker
   returns exactly the bytes written, both leaving the same configuration, which stands before what
   followed, with the per-instance states related again), ANY number of values, ANY consumer per
   position: the stream written by successive Encode calls is read back in order by the same number
   of calls, each position yields what [Seq.project] says, the unread counts after each call are within
   [slack] bytes of the exact positions, and the configuration ends before the trailing bytes. *)
Theorem C11_seq_generic : forall (F : fmt) (TY V : Type) (typed : TY -> item -> V)
    (at_ : est F -> cfg F -> list N -> Prop) (okf : item -> est F -> list N -> Prop) (slack : nat),
  laws F at_ okf slack ->
  forall (vs : list item) (ms : list (mode TY)) (e : est F) (c : cfg F) (tl : list N),
  length ms = length vs -> Seq.ok_seq F okf vs e tl -> at_ e c (Seq.bytes_seq F vs e ++ tl) ->
  exists ns c',
    Seq.dec_seq F TY V typed ms c = Ok (Seq.project F TY V typed ms vs e, ns, c')
    /\ Forall2 (close slack) ns (rems F vs e tl)
    /\ at_ (Seq.est_after F vs e) c' tl.
Proof. exact seq_ok. Qed.
Print Assumptions C11_seq_generic.

(* with no slack: bytes consumed after the i-th call = sum of the first i encoding lengths *)
Theorem C11_seq_exact_generic : forall (F : fmt) (TY V : Type) (typed : TY -> item -> V)
    (at_ : est F -> cfg F -> list N -> Prop) (okf : item -> est F -> list N -> Prop),
  laws F at_ okf 0 ->
  forall (vs : list item) (ms : list (mode TY)) (e : est F) (c : cfg F) (tl : list N),
  length ms = length vs -> Seq.ok_seq F okf vs e tl -> at_ e c (Seq.bytes_seq F vs e ++ tl) ->
  exists ns c',
    Seq.dec_seq F TY V typed ms c = Ok (Seq.project F TY V typed ms vs e, ns, c')
    /\ map (fun r => length (Seq.bytes_seq F vs e ++ tl) - r)%nat ns
       = Seq.prefix_sums 0 (map (@length N) (fst (Seq.enc_seq F vs e)))
    /\ at_ (Seq.est_after F vs e) c' tl.
Proof. exact seq_exact0. Qed.
Print Assumptions C11_seq_exact_generic.

(* ---------------- cbor ---------------- *)
Section Cbor.
  Import Wire.Cbor C10.CborSpec C10.CborConv Wire.CborEnc.

  (* skip = decode extent.  PARTIAL exactly as Wcbor_dec_enc_partial: [lib_supports] excludes tags 0..5,
     hence non-zero ITime, on the DECODE side; the walker half holds for every plain item
     (Wcbor_skip_enc), times included. *)
  Theorem C11_cbor_skip_partial : forall (O : eopts) (D : dopts) (i : item) (d : Z) (rest : list N),
    wf i -> plain i -> lib_supports D (tree_of O i) -> (tdepth D (tree_of O i) < maxdepth D)%Z ->
    (d + sdepth (tree_of O i) < maxdepth D)%Z ->
    dec_naked D (fuel_for (enc O i ++ rest)) (enc O i ++ rest) = Ok (norm O D i, rest)
    /\ skip D (fuel_for (enc O i ++ rest)) d (enc O i ++ rest) = Ok rest.
  Proof. exact cbor_skip_partial_lemma. Qed.
  Print Assumptions C11_cbor_skip_partial.

  (* the walker's extent, full (no decode-side restriction) *)
  Theorem C11_cbor_skip : forall (O : eopts) (D : dopts) (i : item) (d : Z) (rest : list N),
    wf i -> plain i -> (d + sdepth (tree_of O i) < maxdepth D)%Z ->
    skip D (fuel_for (enc O i ++ rest)) d (enc O i ++ rest) = Ok rest.
  Proof. exact cbor_skip_lemma. Qed.
  Print Assumptions C11_cbor_skip.

  (* raw: the captured bytes are exactly what the encoder wrote (full) *)
  Theorem C11_cbor_raw : forall (O : eopts) (D : dopts) (i : item) (d : Z) (rest : list N),
    wf i -> plain i -> (d + sdepth (tree_of O i) < maxdepth D)%Z ->
    capture (enc O i ++ rest) (skip D (fuel_for (enc O i ++ rest)) d (enc O i ++ rest)) = Ok (enc O i, rest).
  Proof. exact cbor_raw_lemma. Qed.
  Print Assumptions C11_cbor_raw.

  (* ... and re-emitted verbatim in front of anything they decode to the original (partial as above) *)
  Theorem C11_cbor_raw_redecode_partial : forall (O : eopts) (D : dopts) (i : item) (d : Z) (rest rest' : list N) (b : list N),
    wf i -> plain i -> lib_supports D (tree_of O i) -> (tdepth D (tree_of O i) < maxdepth D)%Z ->
    capture (enc O i ++ rest) (skip D (fuel_for (enc O i ++ rest)) d (enc O i ++ rest)) = Ok (b, rest) ->
    (d + sdepth (tree_of O i) < maxdepth D)%Z ->
    dec_naked D (fuel_for (b ++ rest')) (b ++ rest') = Ok (norm O D i, rest').
  Proof. exact cbor_raw_redecode_lemma. Qed.
  Print Assumptions C11_cbor_raw_redecode_partial.

  (* ---- the extended decode law (Wcbor_dec_enc): [lib_supports_t] / [tdepth_t] / [norm_t] also admit times
     written in the RFC 3339 form (tag 0; TimeRFC3339 = true, UTC year 0..9999: Wcbor_time_rfc3339) wherever
     they occur; the float form (tag 1) of a non-zero time stays outside ---- *)

  (* decode and the walker stop at the same byte (full for everything the extended law admits) *)
  Theorem C11_cbor_extent : forall (O : eopts) (D : dopts) (i : item) (d : Z) (rest : list N),
    wf i -> plain i -> lib_supports_t D (tree_of O i) -> (tdepth_t D (tree_of O i) < maxdepth D)%Z ->
    (d + sdepth (tree_of O i) < maxdepth D)%Z ->
    dec_naked D (fuel_for (enc O i ++ rest)) (enc O i ++ rest) = Ok (norm_t O D i, rest)
    /\ skip D (fuel_for (enc O i ++ rest)) d (enc O i ++ rest) = Ok rest.
  Proof. exact cbor_extent_lemma. Qed.
  Print Assumptions C11_cbor_extent.

  Theorem C11_cbor_raw_redecode : forall (O : eopts) (D : dopts) (i : item) (d : Z) (rest rest' : list N) (b : list N),
    wf i -> plain i -> lib_supports_t D (tree_of O i) -> (tdepth_t D (tree_of O i) < maxdepth D)%Z ->
    capture (enc O i ++ rest) (skip D (fuel_for (enc O i ++ rest)) d (enc O i ++ rest)) = Ok (b, rest) ->
    (d + sdepth (tree_of O i) < maxdepth D)%Z ->
    dec_naked D (fuel_for (b ++ rest')) (b ++ rest') = Ok (norm_t O D i, rest').
  Proof. exact cbor_raw_redecode_t_lemma. Qed.
  Print Assumptions C11_cbor_raw_redecode.

  (* sequences, full for every item the extended law admits ([CborI.ok_t]: wf, plain, lib_supports_t, nesting
     below MaxDepth): in particular, with TimeRFC3339 = true, items holding times (C11_cbor_time_admitted) *)
  Theorem C11_cbor_seq : forall (O : eopts) (D : dopts) (d : Z) (TY V : Type) (typed : TY -> item -> V)
      (vs : list item) (ms : list (mode TY)) (tl : list N),
    length ms = length vs -> Seq.ok_seq (CborI.Ft O D d) (CborI.ok_t O D d) vs tt tl ->
    exists ns,
      Seq.dec_seq (CborI.Ft O D d) TY V typed ms (Seq.bytes_seq (CborI.Ft O D d) vs tt ++ tl)
        = Ok (Seq.project (CborI.Ft O D d) TY V typed ms vs tt, ns, tl)
      /\ map (fun r => length (Seq.bytes_seq (CborI.Ft O D d) vs tt ++ tl) - r)%nat ns
         = Seq.prefix_sums 0 (map (@length N) (fst (Seq.enc_seq (CborI.Ft O D d) vs tt))).
  Proof. exact cbor_seq_t_lemma. Qed.
  Print Assumptions C11_cbor_seq.

  (* a time written under TimeRFC3339 (UTC year 0..9999) meets the premises of C11_cbor_seq *)
  Theorem C11_cbor_time_admitted : forall (O : eopts) (D : dopts) (d : Z) (s : Z) (n : N) (e : unit) (tl : list N),
    eo_rfc3339 O = true -> Wire.CborTime.year_ok s = true -> (n < 1000000000)%N ->
    (- 9223372036854775808 <= s < 9223372036854775807)%Z -> (0 <= d)%Z -> (d + 1 < maxdepth D)%Z ->
    CborI.ok_t O D d (ITime s n) e tl.
  Proof. exact cbor_time_ok_t. Qed.
  Print Assumptions C11_cbor_time_admitted.

  (* ---- the decode law extended once more (C11/CborFT.v): [lib_supports_ft] / [tdepth_ft] / [norm_ft] also admit
     times written in the EPOCH form (tag 1; TimeRFC3339 = false) wherever they occur: an integer number of
     seconds when the microsecond-rounded instant has no fraction, else sec + nsec/1e9 evaluated in binary64.
     The library reads the content through DecodeFloat64 as a float64 x and returns
     time.Unix(trunc x, frac x * 1e9).Round(Microsecond) = [time_of_float x]; the item is admitted when that is
     not an error (|trunc x| <= 2^62).  [epoch_f64 s n] is the x read back for the instant (s, n), so the
     decoded value — hence the exact loss — is the closed expression  time_of_float (epoch_f64 s n):
     the encoder's rounding to the microsecond, then the binary64 rounding of sec + usec/1e6, then the
     decoder's rounding to the microsecond again.  (C11_cbor_floattime_loss_nonvacuous: for |sec| < 2^33 —
     years 1698..2242 — the two conversions cancel on the sampled instants and the result is the encoder's
     microsecond rounding; from 2^33 s on, half an ulp of the double exceeds half a microsecond and
     microseconds are lost; integer seconds beyond 2^53 lose their low bits; beyond 2^62 the decoder refuses.
     The cancellation below 2^33 was checked numerically on 2.5 million instants, it is NOT proved for all.) ---- *)
  Import Wire.CborFloat C11.CborFT C11.SeqFT.

  (* decode and the walker stop at the same byte, for everything the epoch-form law admits *)
  Theorem C11_cbor_extent_floattime : forall (O : eopts) (D : dopts) (i : item) (d : Z) (rest : list N),
    wf i -> plain i -> lib_supports_ft D (tree_of O i) -> (tdepth_ft D (tree_of O i) < maxdepth D)%Z ->
    (d + sdepth (tree_of O i) < maxdepth D)%Z ->
    dec_naked D (fuel_for (enc O i ++ rest)) (enc O i ++ rest) = Ok (norm_ft O D i, rest)
    /\ skip D (fuel_for (enc O i ++ rest)) d (enc O i ++ rest) = Ok rest.
  Proof. exact cbor_extent_ft_lemma. Qed.
  Print Assumptions C11_cbor_extent_floattime.

  Theorem C11_cbor_raw_redecode_floattime : forall (O : eopts) (D : dopts) (i : item) (d : Z) (rest rest' : list N) (b : list N),
    wf i -> plain i -> lib_supports_ft D (tree_of O i) -> (tdepth_ft D (tree_of O i) < maxdepth D)%Z ->
    capture (enc O i ++ rest) (skip D (fuel_for (enc O i ++ rest)) d (enc O i ++ rest)) = Ok (b, rest) ->
    (d + sdepth (tree_of O i) < maxdepth D)%Z ->
    dec_naked D (fuel_for (b ++ rest')) (b ++ rest') = Ok (norm_ft O D i, rest').
  Proof. exact cbor_raw_redecode_ft_lemma. Qed.
  Print Assumptions C11_cbor_raw_redecode_floattime.

  (* sequences, full for every item the epoch-form law admits ([ok_ft]: wf, plain, lib_supports_ft, nesting below
     MaxDepth): any number of values, any consumer per position, times in either wire form anywhere in the values *)
  Theorem C11_cbor_seq_floattime : forall (O : eopts) (D : dopts) (d : Z) (TY V : Type) (typed : TY -> item -> V)
      (vs : list item) (ms : list (mode TY)) (tl : list N),
    length ms = length vs -> Seq.ok_seq (Fft O D d) (ok_ft O D d) vs tt tl ->
    exists ns,
      Seq.dec_seq (Fft O D d) TY V typed ms (Seq.bytes_seq (Fft O D d) vs tt ++ tl)
        = Ok (Seq.project (Fft O D d) TY V typed ms vs tt, ns, tl)
      /\ map (fun r => length (Seq.bytes_seq (Fft O D d) vs tt ++ tl) - r)%nat ns
         = Seq.prefix_sums 0 (map (@length N) (fst (Seq.enc_seq (Fft O D d) vs tt))).
  Proof. exact cbor_seq_ft_lemma. Qed.
  Print Assumptions C11_cbor_seq_floattime.

  (* a time written in the epoch form meets the premises of C11_cbor_seq_floattime as soon as the library
     accepts the float it reads back, and what it decodes to is that [time_of_float (epoch_f64 s n)] *)
  Theorem C11_cbor_floattime_admitted : forall (O : eopts) (D : dopts) (d : Z) (s : Z) (n : N) (i : item) (e : unit) (tl : list N),
    eo_rfc3339 O = false -> (n < 1000000000)%N ->
    (- 9223372036854775808 <= s < 9223372036854775807)%Z -> (0 <= d)%Z -> (d + 1 < maxdepth D)%Z ->
    time_of_float (epoch_f64 s n) = Ok i ->
    ok_ft O D d (ITime s n) e tl /\
    norm_ft O D (ITime s n) = (if (s =? zero_time_sec)%Z && (n =? 0)%N then INil else i).
  Proof. exact cbor_time_ok_ft. Qed.
  Print Assumptions C11_cbor_floattime_admitted.

  (* nothing is lost with respect to C11_cbor_seq: what it admits is admitted, with the same decoded value *)
  Theorem C11_cbor_floattime_subsumes : forall (O : eopts) (D : dopts) (d : Z) (i : item) (e : unit) (tl : list N),
    CborI.ok_t O D d i e tl -> ok_ft O D d i e tl /\ norm_ft O D i = norm_t O D i.
  Proof. exact ok_t_ok_ft. Qed.
  Print Assumptions C11_cbor_floattime_subsumes.

  (* the float form of times: PARTIAL as before *)
  (* sequences: any number of values, any consumers.  PARTIAL: items whose decode law is proved
     ([CborI.ok]: wf, plain, lib_supports — no non-zero time —, nesting below MaxDepth) *)
  Theorem C11_cbor_seq_partial : forall (O : eopts) (D : dopts) (d : Z) (TY V : Type) (typed : TY -> item -> V)
      (vs : list item) (ms : list (mode TY)) (tl : list N),
    length ms = length vs -> Seq.ok_seq (CborI.F O D d) (CborI.ok O D d) vs tt tl ->
    exists ns,
      Seq.dec_seq (CborI.F O D d) TY V typed ms (Seq.bytes_seq (CborI.F O D d) vs tt ++ tl)
        = Ok (Seq.project (CborI.F O D d) TY V typed ms vs tt, ns, tl)
      /\ map (fun r => length (Seq.bytes_seq (CborI.F O D d) vs tt ++ tl) - r)%nat ns
         = Seq.prefix_sums 0 (map (@length N) (fst (Seq.enc_seq (CborI.F O D d) vs tt))).
  Proof. exact cbor_seq_lemma. Qed.
  Print Assumptions C11_cbor_seq_partial.
End Cbor.

(* ---------------- msgpack ---------------- *)
Section Msgpack.
  Import Wire.Msgpack Wire.MsgpackProofs Wire.MsgpackRT.

  Theorem C11_msgpack_skip : forall (O : eopts) (D : dopts) (i : item) (d0 : Z) (rest : list N),
    supported i -> sint_ok D i -> (Z.of_nat (depth i) < maxdepth D)%Z -> (d0 + Z.of_nat (depth i) < maxdepth D)%Z ->
    goslice (len (enc O i ++ rest)) ->
    dec_naked D (dec_fuel (enc O i ++ rest)) (enc O i ++ rest) = Ok (norm O D i, rest)
    /\ skip_at D d0 (dec_fuel (enc O i ++ rest)) (enc O i ++ rest) = Ok rest.
  Proof. exact msgpack_skip_lemma. Qed.
  Print Assumptions C11_msgpack_skip.

  Theorem C11_msgpack_raw : forall (O : eopts) (D : dopts) (i : item) (d0 : Z) (rest rest' : list N),
    supported i -> sint_ok D i -> (Z.of_nat (depth i) < maxdepth D)%Z -> (d0 + Z.of_nat (depth i) < maxdepth D)%Z ->
    goslice (len (enc O i ++ rest')) ->
    capture (enc O i ++ rest) (skip_at D d0 (dec_fuel (enc O i ++ rest)) (enc O i ++ rest)) = Ok (enc O i, rest)
    /\ dec_naked D (dec_fuel (enc O i ++ rest')) (enc O i ++ rest') = Ok (norm O D i, rest').
  Proof. exact msgpack_raw_lemma. Qed.
  Print Assumptions C11_msgpack_raw.

  Theorem C11_msgpack_seq : forall (O : eopts) (D : dopts) (d0 : Z) (TY V : Type) (typed : TY -> item -> V)
      (vs : list item) (ms : list (mode TY)) (tl : list N),
    length ms = length vs -> Seq.ok_seq (MsgpackI.F O D d0) (MsgpackI.ok O D d0) vs tt tl ->
    exists ns,
      Seq.dec_seq (MsgpackI.F O D d0) TY V typed ms (Seq.bytes_seq (MsgpackI.F O D d0) vs tt ++ tl)
        = Ok (Seq.project (MsgpackI.F O D d0) TY V typed ms vs tt, ns, tl)
      /\ map (fun r => length (Seq.bytes_seq (MsgpackI.F O D d0) vs tt ++ tl) - r)%nat ns
         = Seq.prefix_sums 0 (map (@length N) (fst (Seq.enc_seq (MsgpackI.F O D d0) vs tt))).
  Proof. exact msgpack_seq_lemma. Qed.
  Print Assumptions C11_msgpack_seq.
End Msgpack.

(* ---------------- simple ---------------- *)
Section Simple.
  Import Wire.Simple Wire.SimpleProofs Wire.SimpleSkip.

  Theorem C11_simple_skip : forall (o : eopts) (D : dopts) (i : item) (rest : list N),
    swf o D i -> (signedInteger D = false \/ sint_ok i) -> (Z.of_nat (depth i) < maxdepth D)%Z ->
    dec_naked D (dec_fuel (enc o false i ++ rest)) (enc o false i ++ rest) = Ok (norm o D false i, rest)
    /\ skip D (dec_fuel (enc o false i ++ rest)) (enc o false i ++ rest) = Ok rest.
  Proof. exact simple_skip_lemma. Qed.
  Print Assumptions C11_simple_skip.

  Theorem C11_simple_raw : forall (o : eopts) (D : dopts) (i : item) (rest rest' : list N),
    swf o D i -> (signedInteger D = false \/ sint_ok i) -> (Z.of_nat (depth i) < maxdepth D)%Z ->
    raw D (dec_fuel (enc o false i ++ rest)) (enc o false i ++ rest) = Ok (enc o false i, rest)
    /\ dec_naked D (dec_fuel (enc o false i ++ rest')) (enc o false i ++ rest') = Ok (norm o D false i, rest').
  Proof. exact simple_raw_lemma. Qed.
  Print Assumptions C11_simple_raw.

  Theorem C11_simple_seq : forall (o : eopts) (D : dopts) (TY V : Type) (typed : TY -> item -> V)
      (vs : list item) (ms : list (mode TY)) (tl : list N),
    length ms = length vs -> Seq.ok_seq (SimpleI.F o D) (SimpleI.ok o D) vs tt tl ->
    exists ns,
      Seq.dec_seq (SimpleI.F o D) TY V typed ms (Seq.bytes_seq (SimpleI.F o D) vs tt ++ tl)
        = Ok (Seq.project (SimpleI.F o D) TY V typed ms vs tt, ns, tl)
      /\ map (fun r => length (Seq.bytes_seq (SimpleI.F o D) vs tt ++ tl) - r)%nat ns
         = Seq.prefix_sums 0 (map (@length N) (fst (Seq.enc_seq (SimpleI.F o D) vs tt))).
  Proof. exact simple_seq_lemma. Qed.
  Print Assumptions C11_simple_seq.
End Simple.

(* ---------------- binc: symbol tables threaded through the stream ---------------- *)
Section Binc.
  Import Wire.Binc Wire.BincProofs.

  (* decode and the walker stop at the same byte AND leave the same symbol table, related to the
     Encoder's table after the value (F11-1 repaired: definitions inside skipped values are recorded) *)
  Theorem C11_binc_skip : forall (e : eopts) (d : dopts) (i : item) (est : estate) (dst : dstate) (rest : list N),
    wfb e d i -> R est dst -> (N.of_nat (depth i) < maxdepth d)%N ->
    exists dst',
      dec_naked d dst (fst (enc e false i est) ++ rest) = Ok (norm e d i, rest, dst')
      /\ skip_value d dst (fst (enc e false i est) ++ rest) = Ok (tt, rest, dst')
      /\ R (snd (enc e false i est)) dst'.
  Proof. exact dec_naked_enc. Qed.
  Print Assumptions C11_binc_skip.

  (* raw: captured bytes = the encoder's bytes; decoded again FROM THE SAME TABLE they give the
     original (a captured value may refer to symbols defined before it) *)
  Theorem C11_binc_raw : forall (e : eopts) (d : dopts) (i : item) (est : estate) (dst : dstate) (rest rest' : list N),
    wfb e d i -> R est dst -> (N.of_nat (depth i) < maxdepth d)%N ->
    exists dst' dst'',
      skipf (BincI.F e d) (dst, fst (enc e false i est) ++ rest) = Ok (fst (enc e false i est), (dst', rest))
      /\ dec_naked d dst (fst (enc e false i est) ++ rest') = Ok (norm e d i, rest', dst'')
      /\ R (snd (enc e false i est)) dst' /\ R (snd (enc e false i est)) dst''.
  Proof. exact binc_raw_lemma. Qed.
  Print Assumptions C11_binc_raw.

  Theorem C11_binc_seq : forall (E : eopts) (D : dopts) (TY V : Type) (typed : TY -> item -> V)
      (vs : list item) (ms : list (mode TY)) (est : estate) (dst : dstate) (tl : list N),
    length ms = length vs -> Seq.ok_seq (BincI.F E D) (BincI.ok E D) vs est tl -> R est dst ->
    exists ns dst',
      Seq.dec_seq (BincI.F E D) TY V typed ms (dst, Seq.bytes_seq (BincI.F E D) vs est ++ tl)
        = Ok (Seq.project (BincI.F E D) TY V typed ms vs est, ns, (dst', tl))
      /\ map (fun r => length (Seq.bytes_seq (BincI.F E D) vs est ++ tl) - r)%nat ns
         = Seq.prefix_sums 0 (map (@length N) (fst (Seq.enc_seq (BincI.F E D) vs est)))
      /\ R (Seq.est_after (BincI.F E D) vs est) dst'.
  Proof. exact binc_seq_lemma. Qed.
  Print Assumptions C11_binc_seq.
End Binc.


(* ---------------- json: the pending token is the per-instance state, slack = 1 ---------------- *)
(* Stated for the C09 leaf [c09_leaf_of O] (C09's string quoting / unquoting and integer texts; O = the
   oracle for strconv float texts, parseFloat64 and the RFC 3339 time text).  PARTIAL, all three: the string
   and integer laws are discharged from property C09's theorems (Wire/JsonLeaf.v c09_leaf_laws); what remains
   a hypothesis is [float_time_laws]: strconv's shortest float formatting, parseFloat64 on the texts the
   encoder writes, and the time layout (not modelled: oracle).  Everything else - the tokenizer, the
   container grammar, the walker, the sequence induction - is proved.  (For an arbitrary leaf under
   [leaf_laws L]: C11/ProofsJson.v json_skip_lemma / json_raw_lemma / json_seq_lemma.) *)
Section Json.
  Import Wire.Json Wire.JsonRT Wire.JsonSkip Wire.JsonLeaf.

  (* decode and the walker, started in ANY tokenizer state that presents the value's text [enc_at ...]
     followed by [tl] (a bare number must be followed by a byte that ends it), return norm of the value /
     exactly the text, and leave the SAME tokenizer state [after ..]: nothing pending and [tl] unread,
     except after a bare number, whose terminating byte is the pending token (the permitted delimiter) *)
  Theorem C11_json_skip_partial : forall (O : oracle), float_time_laws (c09_leaf_of O) -> let L := c09_leaf_of O in
    forall (o : eopts) (D : dopts) (lvl : N) (i : item) (s : st) (tl : list N) (fuel : nat) (dp : Z),
    jwf L o D false i -> (dp + Z.of_nat (depth i) < maxdepth D)%Z ->
    advance s = advance (mkst 0 (enc_at L o false lvl i ++ tl)) -> delim_ok (isnum L o false i) tl ->
    (2 * length (enc_at L o false lvl i) <= fuel)%nat ->
    dec L D fuel dp false s = Ok (norm L o D false i, after (isnum L o false i) tl)
    /\ nvb s = Ok (enc_at L o false lvl i, after (isnum L o false i) tl).
  Proof. exact ProofsJson.json_skip_c09. Qed.
  Print Assumptions C11_json_skip_partial.

  (* raw: what nextValueBytes hands back is exactly the value's text (since FWjson-1 without the byte that
     ends a number), and re-emitted in front of anything that may follow it decodes to the original *)
  Theorem C11_json_raw_partial : forall (O : oracle), float_time_laws (c09_leaf_of O) -> let L := c09_leaf_of O in
    forall (o : eopts) (D : dopts) (lvl : N) (i : item) (s : st) (tl tl' : list N) (b : list N) (s' : st),
    jwf L o D false i -> (Z.of_nat (depth i) < maxdepth D)%Z ->
    advance s = advance (mkst 0 (enc_at L o false lvl i ++ tl)) -> delim_ok (isnum L o false i) tl ->
    delim_ok (isnum L o false i) tl' ->
    nvb s = Ok (b, s') ->
    b = enc_at L o false lvl i
    /\ dec L D (2 * length b) 0 false (st0 (b ++ tl')) = Ok (norm L o D false i, after (isnum L o false i) tl').
  Proof. exact ProofsJson.json_raw_c09. Qed.
  Print Assumptions C11_json_raw_partial.

  (* sequences: each Encode call writes [enc_top] (the text, then the TermWhitespace byte if on); any number
     of values, any consumer per position; every value satisfies [InstJson.ok] (jwf, nesting below MaxDepth, a
     bare number is followed by TermWhitespace / a non-number byte / the end).  The calls return what
     [project] says (Raw = the text alone), the unread count after each call is within ONE byte of the exact
     position ([close 1]: the TermWhitespace byte still unread, or the byte after a bare number already
     taken), and the final tokenizer state presents exactly the trailing bytes. *)
  Theorem C11_json_seq_partial : forall (O : oracle), float_time_laws (c09_leaf_of O) -> let L := c09_leaf_of O in
    forall (o : eopts) (D : dopts) (TY V : Type) (typed : TY -> item -> V)
      (vs : list item) (ms : list (mode TY)) (tl : list N),
    length ms = length vs -> Seq.ok_seq (InstJson.F L o D) (InstJson.ok L o D) vs tt tl ->
    exists ns s',
      Seq.dec_seq (InstJson.F L o D) TY V typed ms (st0 (Seq.bytes_seq (InstJson.F L o D) vs tt ++ tl))
        = Ok (Seq.project (InstJson.F L o D) TY V typed ms vs tt, ns, s')
      /\ Forall2 (close 1) ns (Seq.rems (InstJson.F L o D) vs tt tl)
      /\ advance s' = advance (mkst 0 tl) /\ (length tl - 1 <= length (inp s') <= length tl + 1)%nat.
  Proof. exact ProofsJson.json_seq_c09. Qed.
  Print Assumptions C11_json_seq_partial.

  (* ---- the same three with every dischargeable hypothesis removed.  Of the eleven leaf laws the json
     wire lemmas need (Wire/JsonRT.v leaf_laws), the three string laws and the digit law are PROVED for
     C09's code (W_json_leaf_str_int); the two integer read-back laws are proved except that under
     PreferFloat the integer text goes to parseFloat64; the two float read-back laws are guarded, per float
     and option vector, by [num_read_ok] inside [jwf] (a float whose text is a bare integer literal of 2^63
     or more is NOT read back under SignedInteger without PreferFloat: strconv writes 1e19 as
     10000000000000000000 — F15-1's class, W_json_float_bareint_refuted) and under that guard reduce, through
     C09's parseUint64_simple, to "parseFloat64 accepts the text".  What is left is about the four functions
     of the oracle O only, each clause a true statement about strconv / time, spelled out with no leaf, no
     decoder option vector and no number reader in it as [JsonOracle.strconv_time_oracle_laws O]:
       the time text holds no quote / backslash;  a finite float's text is non-empty and made of 0-9 . + - e E;
       parseFloat64 accepts the float texts and the decimal integer texts the encoder writes.
     C11_json_oracle_exact: this is EQUIVALENT to the float_time_laws of the _partial statements (nothing was
     added).  Nothing else is assumed: tokenizer, container grammar, walker, sequences, string quoting /
     unquoting, integer texts, the integer-or-float decision of the number reader are proved. ---- *)
  Theorem C11_json_oracle_exact : forall (O : oracle),
    JsonOracle.strconv_time_oracle_laws O <-> float_time_laws (c09_leaf_of O).
  Proof. exact JsonOracle.oracle_laws_iff. Qed.
  Print Assumptions C11_json_oracle_exact.

  (* the UNGUARDED law characterised: a number text is accepted back under EVERY decoder option vector iff
     parseFloat64 accepts it and it is not a bare digit text worth 2^63 or more ([reads_back]); the guard
     [num_read_ok] of jwf excludes exactly the second failure *)
  Theorem C11_json_reads_back : forall (O : oracle) (t : list N),
    (forall D, exists i, naked_num (c09_leaf_of O) D t = Ok i) <-> JsonOracle.reads_back O t.
  Proof. exact JsonOracle.naked_num_reads_back. Qed.
  Print Assumptions C11_json_reads_back.

  (* a text with a '.', an 'e' or a sign in it is never taken for an integer *)
  Theorem C11_json_reads_back_nondigit : forall (O : oracle) (t : list N),
    forallb Verif.C09.Model.isdig t = false -> (exists v, o_pf O t = Some v) -> JsonOracle.reads_back O t.
  Proof. exact JsonOracle.reads_back_nondigit. Qed.
  Print Assumptions C11_json_reads_back_nondigit.

  Theorem C11_json_skip : forall (O : oracle), JsonOracle.strconv_time_oracle_laws O -> let L := c09_leaf_of O in
    forall (o : eopts) (D : dopts) (lvl : N) (i : item) (s : st) (tl : list N) (fuel : nat) (dp : Z),
    jwf L o D false i -> (dp + Z.of_nat (depth i) < maxdepth D)%Z ->
    advance s = advance (mkst 0 (enc_at L o false lvl i ++ tl)) -> delim_ok (isnum L o false i) tl ->
    (2 * length (enc_at L o false lvl i) <= fuel)%nat ->
    dec L D fuel dp false s = Ok (norm L o D false i, after (isnum L o false i) tl)
    /\ nvb s = Ok (enc_at L o false lvl i, after (isnum L o false i) tl).
  Proof. exact JsonOracle.json_skip_full. Qed.
  Print Assumptions C11_json_skip.

  Theorem C11_json_raw : forall (O : oracle), JsonOracle.strconv_time_oracle_laws O -> let L := c09_leaf_of O in
    forall (o : eopts) (D : dopts) (lvl : N) (i : item) (s : st) (tl tl' : list N) (b : list N) (s' : st),
    jwf L o D false i -> (Z.of_nat (depth i) < maxdepth D)%Z ->
    advance s = advance (mkst 0 (enc_at L o false lvl i ++ tl)) -> delim_ok (isnum L o false i) tl ->
    delim_ok (isnum L o false i) tl' ->
    nvb s = Ok (b, s') ->
    b = enc_at L o false lvl i
    /\ dec L D (2 * length b) 0 false (st0 (b ++ tl')) = Ok (norm L o D false i, after (isnum L o false i) tl').
  Proof. exact JsonOracle.json_raw_full. Qed.
  Print Assumptions C11_json_raw.

  Theorem C11_json_seq : forall (O : oracle), JsonOracle.strconv_time_oracle_laws O -> let L := c09_leaf_of O in
    forall (o : eopts) (D : dopts) (TY V : Type) (typed : TY -> item -> V)
      (vs : list item) (ms : list (mode TY)) (tl : list N),
    length ms = length vs -> Seq.ok_seq (InstJson.F L o D) (InstJson.ok L o D) vs tt tl ->
    exists ns s',
      Seq.dec_seq (InstJson.F L o D) TY V typed ms (st0 (Seq.bytes_seq (InstJson.F L o D) vs tt ++ tl))
        = Ok (Seq.project (InstJson.F L o D) TY V typed ms vs tt, ns, s')
      /\ Forall2 (close 1) ns (Seq.rems (InstJson.F L o D) vs tt tl)
      /\ advance s' = advance (mkst 0 tl) /\ (length tl - 1 <= length (inp s') <= length tl + 1)%nat.
  Proof. exact JsonOracle.json_seq_full. Qed.
  Print Assumptions C11_json_seq.
End Json.

(* ---------------- non-vacuity ---------------- *)

(* binc, AsSymbols on: three values sharing the symbol "key"; the value that DEFINES the symbol is
   skipped, the second is captured raw, the third decoded typed (through Generic/Dec.v of_item with
   the identity wire): all premises hold, the stream is 39 bytes, positions 24 / 31 / 39. *)
Definition ex_eo := {| Binc.asSymbols := true; Binc.stringToRaw := false |}.
Definition ex_do := {| Binc.maxdepth := 1024%N; Binc.signedInt := false; Binc.rawToString := false |}.
Definition ex_k : list N := [107; 101; 121]%N.
Definition ex_vs : list item :=
  [IMap [(IStr ex_k, IArr [IInt (-4294967295); IF64 4607182418800017408%N; ITime 1700000000 5%N])];
   IMap [(IStr ex_k, IBytes [1; 2; 3]%N)];
   IArr [IMap [(IStr ex_k, IUint 300%N)]; INil]].
Definition ex_ty : Generic.Types.ty :=
  Generic.Types.TArray 2 (Generic.Types.TMap Generic.Types.TString (Generic.Types.TUint Generic.Types.W16)).
Definition ex_typed (t : Generic.Types.ty) (i : item) : res Generic.Types.gv :=
  Generic.Dec.of_item C01.Model.id_wire (Generic.Enc.mkgopts false false false 0%Z false) 0 t i.

Example C11_binc_seq_nonvacuous :
  Seq.ok_seq (BincI.F ex_eo ex_do) (BincI.ok ex_eo ex_do) ex_vs Binc.estate0 [] /\ BincProofs.R Binc.estate0 Binc.dstate0 /\
  length (Seq.bytes_seq (BincI.F ex_eo ex_do) ex_vs Binc.estate0) = 39%nat /\
  exists raw2,
  Seq.dec_seq (BincI.F ex_eo ex_do) _ _ ex_typed [MSkip; MRaw; MTyped ex_ty] (Binc.dstate0, Seq.bytes_seq (BincI.F ex_eo ex_do) ex_vs Binc.estate0)
  = Ok ([OSkipped; ORaw raw2;
         OTyped (Ok (Generic.Types.GArr [Generic.Types.GMap (Some [(Generic.Types.GStr ex_k, Generic.Types.GUint 300%N)]);
                                         Generic.Types.GMap None]))],
        [15; 8; 0]%nat, ([(1%N, ex_k)], []))
  /\ length raw2 = 7%nat.
Proof.
  split; [|split; [exact BincProofs.R_init|split; [vm_compute; reflexivity|]]].
  - cbn [Seq.ok_seq]. repeat apply conj; try exact I; vm_compute; repeat constructor; try reflexivity; try (intro; discriminate); try lia.
  - eexists. split; [vm_compute; reflexivity|vm_compute; reflexivity].
Qed.

(* cbor indefinite-length, msgpack, simple: decode / skip / raw of the same nested value agree *)
Example C11_extents_nonvacuous :
  let i := IMap [(IStr [97]%N, IArr [IInt (-300); IUint 65536%N; IF64 4609434218613702656%N; INil; IStr []]);
                 (IInt 7, IBytes [1; 2]%N); (IBool true, IMap [])] in
  (let O := Cbor.mkeo true false false false in let D := Cbor.mkdo false false false 0 in
   skipf (CborI.F O D 1) (Cbor.enc O i ++ [9; 9]%N) = Ok (Cbor.enc O i, [9; 9]%N) /\
   decf (CborI.F O D 1) (Cbor.enc O i ++ [9; 9]%N) = Ok (CborEnc.norm O D i, [9; 9]%N) /\ length (Cbor.enc O i) = 37%nat) /\
  (let O := Msgpack.mkeopts true false false false in let D := Msgpack.mkdopts true false false 0 in
   skipf (MsgpackI.F O D 1) (Msgpack.enc O i ++ [9; 9]%N) = Ok (Msgpack.enc O i, [9; 9]%N) /\
   decf (MsgpackI.F O D 1) (Msgpack.enc O i ++ [9; 9]%N) = Ok (MsgpackRT.norm O D i, [9; 9]%N)) /\
  (let O := Simple.mkeopts false false in let D := Simple.mkdopts false false 0 in
   skipf (SimpleI.F O D) (Simple.enc O false i ++ [9; 9]%N) = Ok (Simple.enc O false i, [9; 9]%N) /\
   decf (SimpleI.F O D) (Simple.enc O false i ++ [9; 9]%N) = Ok (Simple.norm O D false i, [9; 9]%N)).
Proof. cbv zeta. repeat apply conj; vm_compute; reflexivity. Qed.

(* json, TermWhitespace on, C09's string code with observed float texts as the leaf: 123, [true,"a"], -5,
   {"k":1.5} read back as skip / raw / naked / raw: Raw holds the text without the delimiter; the unread
   counts are the exact ones (16, 5, 13, 0 after the TermWhitespace bytes) give or take the one byte *)
Example C11_json_seq_nonvacuous :
  let L := W_json.exL in
  let o := Json.mkeopts 0 0 false true true false false in
  let D := Json.mkdopts false false true true 0 in
  let vs := [IUint 123%N; IArr [IBool true; IStr [97]%N]; IInt (-5); IMap [(IStr [107]%N, IF64 4609434218613702656%N)]] in
  Seq.bytes_seq (InstJson.F L o D) vs tt
    = [49; 50; 51; 32; 91; 116; 114; 117; 101; 44; 34; 97; 34; 93; 32; 45; 53; 32; 123; 34; 107; 34; 58; 49; 46; 53; 125; 32]%N /\
  Seq.rems (InstJson.F L o D) vs tt [] = [24; 13; 10; 0]%nat /\
  exists s',
  Seq.dec_seq (InstJson.F L o D) unit unit (fun _ _ => tt) [MSkip; MRaw; MNaked; MRaw] (Json.st0 (Seq.bytes_seq (InstJson.F L o D) vs tt))
    = Ok ([OSkipped; ORaw [91; 116; 114; 117; 101; 44; 34; 97; 34; 93]%N; ONaked (IInt (-5));
           ORaw [123; 34; 107; 34; 58; 49; 46; 53; 125]%N], [24; 14; 10; 1]%nat, s').
Proof. cbv zeta. split; [vm_compute; reflexivity|split; [vm_compute; reflexivity|eexists; vm_compute; reflexivity]]. Qed.

(* cbor, TimeRFC3339: a time, a number and another time, read back as raw / skip / naked on one Decoder: the
   premises of C11_cbor_seq hold and the third call returns the instant rounded to the microsecond *)
Example C11_cbor_seq_nonvacuous :
  let O := Cbor.mkeo false true false false in
  let D := Cbor.mkdo false false false 0 in
  let vs := [ITime 1700000000 123456789%N; IUint 300%N; ITime 1 5600%N] in
  Seq.ok_seq (CborI.Ft O D 0) (CborI.ok_t O D 0) vs tt [] /\
  exists raw1,
  Seq.dec_seq (CborI.Ft O D 0) unit unit (fun _ _ => tt) [MRaw; MSkip; MNaked] (Seq.bytes_seq (CborI.Ft O D 0) vs tt)
    = Ok ([ORaw raw1; OSkipped; ONaked (ITime 1 6000%N)], [34; 31; 0]%nat, []) /\ length raw1 = 33%nat.
Proof.
  cbv zeta. split.
  - cbn [Seq.ok_seq]. split; [|split; [|split; [|exact I]]].
    + apply C11_cbor_time_admitted; try (vm_compute; reflexivity); try (vm_compute; discriminate);
        split; vm_compute; [discriminate|reflexivity].
    + unfold CborI.ok_t. split; [|split; [|split; [|split]]];
      [vm_compute; reflexivity|exact I|cbn; intro; discriminate|vm_compute; reflexivity|vm_compute; reflexivity].
    + apply C11_cbor_time_admitted; try (vm_compute; reflexivity); try (vm_compute; discriminate);
        split; vm_compute; [discriminate|reflexivity].
  - eexists. split; vm_compute; reflexivity.
Qed.

(* the oracle assumption of C11_json_skip / raw / seq is satisfiable (toy oracle: every float is written
   1.5, every number text parses, the time text is empty); [reads_back] on concrete texts: with an oracle whose
   parseFloat64 accepts everything, 1.5 and 1e+21 read back, the bare digit string 9223372036854775808 = 2^63
   does not (SignedInteger would refuse it) while 9223372036854775807 does *)
Example C11_json_oracle_nonvacuous :
  JsonOracle.strconv_time_oracle_laws JsonLeaf.toy_oracle /\
  JsonOracle.reads_back JsonLeaf.toy_oracle [49; 46; 53]%N /\
  JsonOracle.reads_back JsonLeaf.toy_oracle [49; 101; 43; 50; 49]%N /\
  JsonOracle.reads_back JsonLeaf.toy_oracle [57; 50; 50; 51; 51; 55; 50; 48; 51; 54; 56; 53; 52; 55; 55; 53; 56; 48; 55]%N /\
  ~ JsonOracle.reads_back JsonLeaf.toy_oracle [57; 50; 50; 51; 51; 55; 50; 48; 51; 54; 56; 53; 52; 55; 55; 53; 56; 48; 56]%N.
Proof.
  split; [exact JsonOracle.toy_oracle_laws |].
  split; [apply C11_json_reads_back_nondigit; [reflexivity | eexists; reflexivity] |].
  split; [apply C11_json_reads_back_nondigit; [reflexivity | eexists; reflexivity] |].
  split.
  - split; [eexists; reflexivity |]. intros u H. vm_compute in H. inversion H. reflexivity.
  - intros [_ H]. specialize (H 9223372036854775808%Z eq_refl). vm_compute in H. discriminate.
Qed.

(* cbor, epoch form (TimeRFC3339 off): a time with a fraction, an array holding an integral time and a number,
   and a time before the epoch, read back as raw / naked / skip on one Decoder: the premises of
   C11_cbor_seq_floattime hold, the second call returns the instants rounded to the microsecond *)
Example C11_cbor_seq_floattime_nonvacuous :
  let O := Cbor.mkeo false false false false in
  let D := Cbor.mkdo false false false 0 in
  let vs := [ITime 1700000000 123456789%N; IArr [ITime 1 400%N; IUint 3%N; ITime (-2) 500000499%N]; ITime (-2) 500000499%N] in
  Seq.ok_seq (SeqFT.Fft O D 0) (SeqFT.ok_ft O D 0) vs tt [] /\
  Seq.dec_seq (SeqFT.Fft O D 0) unit unit (fun _ _ => tt) [MRaw; MNaked; MSkip] (Seq.bytes_seq (SeqFT.Fft O D 0) vs tt)
    = Ok ([ORaw [193; 251; 65; 217; 84; 252; 64; 7; 230; 184]%N;
           ONaked (IArr [ITime 1 0%N; IUint 3%N; ITime (-2) 500000000%N]); OSkipped], [24; 10; 0]%nat, []).
Proof.
  cbv zeta. split; [| vm_compute; reflexivity].
  cbn [Seq.ok_seq]. split; [|split; [|split; [|exact I]]].
  - refine (proj1 (C11_cbor_floattime_admitted _ _ 0 _ _ (ITime 1700000000 123457000) tt [] _ _ _ _ _ _));
      try (vm_compute; reflexivity); try (vm_compute; discriminate); split; vm_compute; [discriminate | reflexivity].
  - unfold SeqFT.ok_ft.
    match goal with |- context [CborConv.tree_of ?O ?i] =>
      let t := eval vm_compute in (CborConv.tree_of O i) in replace (CborConv.tree_of O i) with t by (vm_compute; reflexivity) end.
    split; [|split; [|split; [|split]]].
    + cbn [wf]. repeat split; vm_compute; reflexivity.
    + cbn [CborConv.plain]. repeat split; vm_compute; (discriminate || reflexivity).
    + cbn [CborFT.lib_supports_ft]. split; [split; [|split; [|split; [|exact I]]] | vm_compute; reflexivity].
      * right. right. split; [reflexivity|]. exists 4607182418800017408%N, (ITime 1 0). split; vm_compute; reflexivity.
      * intro H; discriminate H.
      * right. right. split; [reflexivity|]. exists 13832806255468478464%N, (ITime (-2) 500000000). split; vm_compute; reflexivity.
    + vm_compute. reflexivity.
    + vm_compute. reflexivity.
  - refine (proj1 (C11_cbor_floattime_admitted _ _ 0 _ _ (ITime (-2) 500000000) tt [] _ _ _ _ _ _));
      try (vm_compute; reflexivity); try (vm_compute; discriminate); split; vm_compute; [discriminate | reflexivity].
Qed.

(* the exact loss on sample instants: inside +-2^33 s the decoded instant is the encoder's microsecond rounding
   (halfway up), before the epoch too, up to the last microsecond of a second; at 2^33 s the double's
   resolution (2^-19 s) loses the microsecond (1 -> 2, 3 -> 4 microseconds); at 2^34 s a microsecond vanishes;
   year 9999's last microsecond becomes the next second; integer seconds above 2^53 lose low bits;
   above 2^62 the decoder refuses (the only case the premise time_of_float .. = Ok excludes) *)
Example C11_cbor_floattime_loss_nonvacuous :
  Cbor.time_of_float (CborFT.epoch_f64 1700000000 123456789) = Ok (ITime 1700000000 123457000) /\
  Cbor.time_of_float (CborFT.epoch_f64 (-2) 500000499) = Ok (ITime (-2) 500000000) /\
  Cbor.time_of_float (CborFT.epoch_f64 0 999999500) = Ok (ITime 1 0) /\
  Cbor.time_of_float (CborFT.epoch_f64 8589934591 999999000) = Ok (ITime 8589934591 999999000) /\
  Cbor.time_of_float (CborFT.epoch_f64 (-8589934591) 1000) = Ok (ITime (-8589934591) 1000) /\
  Cbor.time_of_float (CborFT.epoch_f64 8589934592 1000) = Ok (ITime 8589934592 2000) /\
  Cbor.time_of_float (CborFT.epoch_f64 8589934592 3000) = Ok (ITime 8589934592 4000) /\
  Cbor.time_of_float (CborFT.epoch_f64 17179869184 1000) = Ok (ITime 17179869184 0) /\
  Cbor.time_of_float (CborFT.epoch_f64 253402300799 999999000) = Ok (ITime 253402300800 0) /\
  Cbor.time_of_float (CborFT.epoch_f64 9007199254740993 0) = Ok (ITime 9007199254740992 0) /\
  Cbor.time_of_float (CborFT.epoch_f64 4611686018427389000 0) = Err EOverflow.
Proof. vm_compute. repeat apply conj; reflexivity. Qed.

(* C09_doc — property C09 at the document level: what the json Encoder writes is a valid JSON document
   (RFC 8259) that a standard parser reads back to the value that was encoded.
   JsonStd at the document level is Wire/JsonDoc.v (value grammar, the four white-space bytes, [std_parse],
   [valid_json]); its leaves are C09/Spec.v (string literals: Spec.unescape; numbers: Spec.numlit /
   render_num / wf_numlit, read by [std_number]).  The encoder is the model Wire/Json.v with the C09 string
   and integer code as leaves ([c09_leaf_of O]); what is not modelled (strconv float text, time layout) is
   the oracle O, about which [doc_laws] assumes: float texts are literals of the JSON number grammar, the
   time text is printable ASCII without quote or backslash.  Only statements, closed by [exact]. *)
From Coq Require Import List NArith ZArith Bool Lia.
From Verif Require Import Base.Outcome Wire.Item Gen.Consts Wire.Json Wire.JsonRT Wire.JsonLeaf Wire.JsonDoc Wire.JsonDocProofs.
From Verif Require C09.Spec.
Import ListNotations.
Open Scope N_scope.

(* the reference number reader accepts EVERY literal of Spec's number grammar (either exponent letter),
   returns its text and stops exactly behind it, whatever follows that cannot continue a number *)
Theorem C09_doc_number : forall (up : bool) (n : Verif.C09.Spec.numlit) (tl : list N),
  Verif.C09.Spec.wf_numlit n = true -> nd_ok tl ->
  std_number (Verif.C09.Spec.render_num up n ++ tl) = Some (Verif.C09.Spec.render_num up n, tl).
Proof. exact std_number_render. Qed.
Print Assumptions C09_doc_number.

(* For every oracle satisfying doc_laws, every encoder option vector (Indent, IntegerAsString, HTMLCharsAsIs,
   TermWhitespace, MapKeyAsString, StringToRaw) and every JSON-representable item ([jdoc]: ranges; no
   tags/extensions; []byte as base64; every map key written as a string, i.e. a string/[]byte/time key or any
   non-nil scalar key under MapKeyAsString): one Encode call writes a text that the standard parser reads,
   white space included, to exactly [jv_of] -- numbers as the literal the encoder wrote (strings when
   quoted), strings as utf8_sanitise s, []byte as base64 text, NaN/Inf and zero time as null -- with nothing left. *)
Theorem C09_doc_parse : forall (O : oracle), doc_laws (c09_leaf_of O) ->
  forall (o : eopts) (i : item), jdoc (c09_leaf_of O) o false i ->
  std_parse (enc_top (c09_leaf_of O) o i) = Some (jv_of (c09_leaf_of O) o false i, []).
Proof. exact doc_parse_lemma. Qed.
Print Assumptions C09_doc_parse.

(* ... hence it is a valid JSON document *)
Theorem C09_doc_valid : forall (O : oracle), doc_laws (c09_leaf_of O) ->
  forall (o : eopts) (i : item), jdoc (c09_leaf_of O) o false i ->
  valid_json (enc_top (c09_leaf_of O) o i) = true.
Proof. exact doc_valid_lemma. Qed.
Print Assumptions C09_doc_valid.

(* the same for an encoded value inside a larger text: any standard white space before it, any indentation
   level and position, followed by anything (a bare number: by anything that cannot continue a number) *)
Theorem C09_doc_value : forall (O : oracle), doc_laws (c09_leaf_of O) ->
  forall (o : eopts) (key : bool) (lvl : N) (i : item) (ws tl : list N) (fuel : nat),
  jdoc (c09_leaf_of O) o key i -> forallb stdws ws = true ->
  delim_ok (isnum (c09_leaf_of O) o key i) tl -> (2 * length (enc_at (c09_leaf_of O) o key lvl i) <= fuel)%nat ->
  std_value fuel (ws ++ enc_at (c09_leaf_of O) o key lvl i ++ tl) = Some (jv_of (c09_leaf_of O) o key i, tl).
Proof. exact doc_value_lemma. Qed.
Print Assumptions C09_doc_value.

(* PARTIAL (reverse direction): only for the texts the Encoder produces -- the standard parser and the
   library's Decode(&interface{}) both accept them, with jv_of resp. norm as the data.  Missing: the same for
   an ARBITRARY valid_json text within the supported value range (the decoder is more lenient than the
   grammar; "valid => accepted with the right data" for hand-written documents is not proved). *)
Theorem C09_doc_accepts_partial : forall (O : oracle), doc_laws (c09_leaf_of O) -> float_time_laws (c09_leaf_of O) ->
  forall (o : eopts) (D : dopts) (i : item),
  jdoc (c09_leaf_of O) o false i -> jwf (c09_leaf_of O) o D false i -> (Z.of_nat (depth i) < maxdepth D)%Z ->
  valid_json (enc_top (c09_leaf_of O) o i) = true /\
  std_parse (enc_top (c09_leaf_of O) o i) = Some (jv_of (c09_leaf_of O) o false i, []) /\
  dec_naked (c09_leaf_of O) D (dec_fuel (st0 (enc_top (c09_leaf_of O) o i))) (enc_top (c09_leaf_of O) o i)
    = Ok (norm (c09_leaf_of O) o D false i, inp (after (isnum (c09_leaf_of O) o false i) (term o))).
Proof. exact doc_accepts_partial_lemma. Qed.
Print Assumptions C09_doc_accepts_partial.

(* ---- non-vacuity *)
Definition dT : tables :=
  mktables [(4609434218613702656, [49; 46; 53]); (4921056587992461136, [49; 101; 43; 50; 49])] [] [] [].
Definition dL : leaf := c09_leaf dT.
Definition dI : item :=
  IMap [(IStr [97], IArr [IInt (-3); IUint 5; IF64 4609434218613702656; IF64 4921056587992461136; INil; IBool true; IStr [34; 60; 233]]);
        (IInt 7, IMap []); (IBool true, IBytes [1; 2; 3; 4])].

Example C09_doc_nonvacuous :
  let o := mkeopts 2 0 false true true false false in
  doc_laws (c09_leaf_of toy_oracle) /\
  (forall T, c09_leaf T = c09_leaf_of (table_oracle T)) /\
  jdoc dL o false dI /\
  valid_json (enc_top dL o dI) = true /\
  std_parse (enc_top dL o dI) = Some (jv_of dL o false dI, []) /\
  jv_of dL o false dI =
    JObj [([97], JArr [JNum [45; 51]; JNum [53]; JNum [49; 46; 53]; JNum [49; 101; 43; 50; 49]; JNull; JBool true;
                       JStr [34; 60; 239; 191; 189]]);
          ([55], JObj []); ([116; 114; 117; 101], JStr [65; 81; 73; 68; 66; 65; 61; 61])] /\
  (* what the grammar refuses: a trailing comma, a leading zero, a non-string member name, a bare control byte as white space *)
  valid_json [91; 49; 44; 93] = false /\ valid_json [48; 49] = false /\ valid_json [123; 49; 58; 50; 125] = false /\
  valid_json [1; 49] = false /\ valid_json [32; 45; 48; 46; 53; 69; 45; 49; 48; 9] = true.
Proof.
  cbv zeta. split; [exact toy_doc_laws|]. split; [exact c09_leaf_eq|]. split.
  - vm_compute. repeat match goal with |- _ /\ _ => split end; try reflexivity; try lia; try discriminate; try (eexists _, _; reflexivity).
  - vm_compute. repeat apply conj; reflexivity.
Qed.

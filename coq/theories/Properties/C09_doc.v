(* C09_doc — property C09 at the document level: what the json Encoder writes is a valid JSON document
   (RFC 8259) that a standard parser reads back to the value that was encoded.
   JsonStd at the document level is Wire/JsonDoc.v (value grammar, the four white-space bytes, [std_parse],
   [valid_json]); its leaves are C09/Spec.v (string literals: Spec.unescape; numbers: Spec.numlit /
   render_num / wf_numlit, read by [std_number]).  The encoder is the model Wire/Json.v with the C09 string
   and integer code as leaves ([c09_leaf_of O]); what is not modelled (strconv float text, time layout) is
   the oracle O, about which [doc_laws] assumes: float texts are literals of the JSON number grammar, the
   time text is printable ASCII without quote or backslash.  Only statements, closed by [exact]. *)
From Coq Require Import List NArith ZArith Bool Lia.
From Verif Require Import Base.Outcome Wire.Item Gen.Consts Wire.Json Wire.JsonRT Wire.JsonLeaf Wire.JsonDoc Wire.JsonDocProofs Wire.JsonAccept.
From Verif Require C09.Spec.
Import ListNotations.
Open Scope N_scope.

(* the reference number reader accepts EVERY literal of Spec's number grammar (either exponent letter),
   returns its text and stops exactly behind it, whatever follows that cannot continue a number *)
Theorem C09_doc_number : forall (up : bool) (n : Verif.C09.Spec.numlit) (tl : list N),
  Verif.C09.Spec.wf_numlit n = true -> nd_ok tl ->
  std_number (Verif.C09.Spec.render_num up n ++ tl) = Some (Verif.C09.Spec.render_num up n, tl).
Proof. exact std_number_render. Qed.
Print Assumptions C09_doc_number.

(* For every oracle satisfying doc_laws, every encoder option vector (Indent, IntegerAsString, HTMLCharsAsIs,
   TermWhitespace, MapKeyAsString, StringToRaw) and every JSON-representable item ([jdoc]: ranges; no
   tags/extensions; []byte as base64; every map key written as a string, i.e. a string/[]byte/time key or any
   non-nil scalar key under MapKeyAsString): one Encode call writes a text that the standard parser reads,
   white space included, to exactly [jv_of] -- numbers as the literal the encoder wrote (strings when
   quoted), strings as utf8_sanitise s, []byte as base64 text, NaN/Inf and zero time as null -- with nothing left. *)
Theorem C09_doc_parse : forall (O : oracle), doc_laws (c09_leaf_of O) ->
  forall (o : eopts) (i : item), jdoc (c09_leaf_of O) o false i ->
  std_parse (enc_top (c09_leaf_of O) o i) = Some (jv_of (c09_leaf_of O) o false i, []).
Proof. exact doc_parse_lemma. Qed.
Print Assumptions C09_doc_parse.

(* ... hence it is a valid JSON document *)
Theorem C09_doc_valid : forall (O : oracle), doc_laws (c09_leaf_of O) ->
  forall (o : eopts) (i : item), jdoc (c09_leaf_of O) o false i ->
  valid_json (enc_top (c09_leaf_of O) o i) = true.
Proof. exact doc_valid_lemma. Qed.
Print Assumptions C09_doc_valid.

(* the same for an encoded value inside a larger text: any standard white space before it, any indentation
   level and position, followed by anything (a bare number: by anything that cannot continue a number) *)
Theorem C09_doc_value : forall (O : oracle), doc_laws (c09_leaf_of O) ->
  forall (o : eopts) (key : bool) (lvl : N) (i : item) (ws tl : list N) (fuel : nat),
  jdoc (c09_leaf_of O) o key i -> forallb stdws ws = true ->
  delim_ok (isnum (c09_leaf_of O) o key i) tl -> (2 * length (enc_at (c09_leaf_of O) o key lvl i) <= fuel)%nat ->
  std_value fuel (ws ++ enc_at (c09_leaf_of O) o key lvl i ++ tl) = Some (jv_of (c09_leaf_of O) o key i, tl).
Proof. exact doc_value_lemma. Qed.
Print Assumptions C09_doc_value.

(* PARTIAL (reverse direction): only for the texts the Encoder produces -- the standard parser and the
   library's Decode(&interface{}) both accept them, with jv_of resp. norm as the data.  Missing: the same for
   an ARBITRARY valid_json text within the supported value range (the decoder is more lenient than the
   grammar; "valid => accepted with the right data" for hand-written documents is not proved HERE: it is
   C09_doc_decodes / C09_doc_accepts below; this theorem stays for the encoder's texts, where the data is [norm]). *)
Theorem C09_doc_accepts_partial : forall (O : oracle), doc_laws (c09_leaf_of O) -> float_time_laws (c09_leaf_of O) ->
  forall (o : eopts) (D : dopts) (i : item),
  jdoc (c09_leaf_of O) o false i -> jwf (c09_leaf_of O) o D false i -> (Z.of_nat (depth i) < maxdepth D)%Z ->
  valid_json (enc_top (c09_leaf_of O) o i) = true /\
  std_parse (enc_top (c09_leaf_of O) o i) = Some (jv_of (c09_leaf_of O) o false i, []) /\
  dec_naked (c09_leaf_of O) D (dec_fuel (st0 (enc_top (c09_leaf_of O) o i))) (enc_top (c09_leaf_of O) o i)
    = Ok (norm (c09_leaf_of O) o D false i, inp (after (isnum (c09_leaf_of O) o false i) (term o))).
Proof. exact doc_accepts_partial_lemma. Qed.
Print Assumptions C09_doc_accepts_partial.

(* ------------------------------------------------------------------ *)
(* THE READING DIRECTION, every document of the grammar (Wire/JsonAccept.v).

   [jdec L D depth key v] is Decode(&interface{}) written as a function of the reference parse, read left
   to right: null / true / false; a number literal goes through the number-kind rule [naked_num] (uint64 /
   int64 / float64 by the shape of the literal and PreferFloat / SignedInteger, C09_doc_number_kind); a
   string is the unescaped bytes ([rd_quoted] with key = false); an array is the items of its elements in
   order; an object the entries in document order with the member name as [jkey] (the string, or under
   MapKeyAsString with map[interface{}]interface{} the bool / number it reads as).  Its errors are the
   decoder's: Err EDepth as soon as nesting reaches MaxDepth, the number reader's refusal (1e999),
   Err EUnsupported at a repeated member name (what the code does there is not modelled in Wire/Json.v).

   For EVERY text the reference parser accepts -- any white space (space, \t, \n, \r) between tokens, any
   member order, any nesting, any number literal, any string literal incl. escapes, \u0000, surrogate pairs
   and lone surrogates (Spec.unescape: U+FFFD) -- every option vector D and every fuel >= dec_fuel:
   Decode(&interface{}) on a fresh decoder returns exactly jdec of the parse, and leaves unread what follows
   the value (after a bare top-level number the one delimiter byte is consumed as the pending token: [unread]).
   Guards: [doc_pinfree]: no string literal of the document is in the class of known finding F09-2r (a surrogate
   \u escape immediately followed by a \u escape it does not pair with; [doc_strings] lists the literals the
   parser reads); [delim_ok]: a bare top-level number is followed by the end, white space, or a byte that
   cannot continue a number (always so when rest = [], i.e. valid_json). *)
Theorem C09_doc_decodes : forall (O : oracle) (D : dopts) (s : list N) (v : jvalue) (rest : list N),
  std_parse s = Some (v, rest) -> doc_pinfree s = true -> delim_ok (isnumv v) rest ->
  forall fuel : nat, (dec_fuel (st0 s) <= fuel)%nat ->
  exists r, sws r = rest /\
    dec_naked (c09_leaf_of O) D fuel s = (do i <- jdec (c09_leaf_of O) D 0%Z false v ;; Ok (i, unread v r)).
Proof. exact c09_doc_decodes_lemma. Qed.
Print Assumptions C09_doc_decodes.

(* A valid JSON document (valid_json: one value, white space around it, nothing else) is ACCEPTED with the
   right data: Ok [jitem] (= jdec without its error cases), trailing white space unread -- whenever its nesting is below
   MaxDepth (at MaxDepth and beyond: Err EDepth by C09_doc_decodes, not an acceptance), every number literal is one
   the number reader takes under D, and the member names of each object are pairwise different as keys ([jsupp]).
   Same guard for F09-2r. *)
Theorem C09_doc_accepts : forall (O : oracle) (D : dopts) (s : list N),
  valid_json s = true -> doc_pinfree s = true ->
  exists v, std_parse s = Some (v, []) /\
  forall fuel : nat, (dec_fuel (st0 s) <= fuel)%nat ->
  exists ws, forallb stdws ws = true /\
    dec_naked (c09_leaf_of O) D fuel s = (do i <- jdec (c09_leaf_of O) D 0%Z false v ;; Ok (i, ws)) /\
    (jsupp (c09_leaf_of O) D v -> (Z.of_nat (jdepth v) < maxdepth D)%Z ->
     dec_naked (c09_leaf_of O) D fuel s = Ok (jitem (c09_leaf_of O) D false v, ws)).
Proof. exact c09_doc_accepts_lemma. Qed.
Print Assumptions C09_doc_accepts.

(* the same without the F09-2r guard is false of the faithful model: the document "\ud800\u0041" (one string
   literal) is valid and denotes U+FFFD 'A'; the decoder returns U+FFFD alone (the \u0041 is eaten) *)
Definition C09_doc_accepts_full_statement : Prop := doc_accepts_full_statement.
Theorem C09_doc_accepts_refuted :
  exists (O : oracle) (s : list N) (v : jvalue),
    valid_json s = true /\ doc_pinfree s = false /\ std_parse s = Some (v, []) /\
    forall D ws, dec_naked (c09_leaf_of O) D (dec_fuel (st0 s)) s
                 <> (do i <- jdec (c09_leaf_of O) D 0%Z false v ;; Ok (i, ws)).
Proof. exact doc_accepts_refuted_ex. Qed.
Print Assumptions C09_doc_accepts_refuted.

(* one value anywhere inside a text, from ANY tokenizer state that looks at [s] (pending token included:
   advance st = skipws s), any depth counter, key or value position, any fuel above the reference parser's *)
Theorem C09_doc_decodes_value : forall (O : oracle) (D : dopts) (fuel : nat) (s : list N) (v : jvalue) (r : list N)
    (dp : Z) (key : bool) (tz : st) (f' : nat),
  std_value fuel s = Some (v, r) -> forallb pinfree (strs_value fuel s) = true -> delim_ok (isnumv v) r ->
  (fuel < f')%nat -> advance tz = skipws s ->
  dec (c09_leaf_of O) D f' dp key tz = (do i <- jdec (c09_leaf_of O) D dp key v ;; Ok (i, after (isnumv v) r)).
Proof. exact c09_doc_value_lemma. Qed.
Print Assumptions C09_doc_decodes_value.

(* the number-kind rule on the literals of the grammar (any leaf: pfloat is the float reader, C09_num):
   an integer literal below 2^64 without PreferFloat is a uint64 (int64 under SignedInteger, refused from 2^63 on),
   a negative one an int64 down to -2^63 and a float64 below; with a fraction or an exponent, or under PreferFloat,
   a float64 (or the float reader's refusal).  Not proved: integer literals >= 2^64 (they go to the float reader). *)
Theorem C09_doc_number_kind : forall (L : leaf) (D : dopts) (up : bool) (n : Verif.C09.Spec.numlit),
  Verif.C09.Spec.wf_numlit n = true ->
  (Verif.C09.Spec.nfrac n = None -> Verif.C09.Spec.nexp n = None -> preferFloat D = false ->
   (Verif.C09.Spec.ival (Verif.C09.Spec.nint n) < 2 ^ 64)%Z ->
   naked_num L D (Verif.C09.Spec.render_num up n) =
     let u := Verif.C09.Spec.ival (Verif.C09.Spec.nint n) in
     if Verif.C09.Spec.nneg n
     then (if (2 ^ 63 <? u)%Z then as_float L (Verif.C09.Spec.render_num up n) else Ok (IInt (- u)))
     else if signedInteger D then (if (2 ^ 63 <=? u)%Z then Err EOther else Ok (IInt u))
     else Ok (IUint (Z.to_N u))) /\
  ((preferFloat D = true \/ Verif.C09.Spec.nfrac n <> None \/ Verif.C09.Spec.nexp n <> None) ->
   naked_num L D (Verif.C09.Spec.render_num up n) = as_float L (Verif.C09.Spec.render_num up n)).
Proof. exact (fun L D up n H => conj (naked_num_int L D up n H) (naked_num_float L D up n H)). Qed.
Print Assumptions C09_doc_number_kind.

(* ---- non-vacuity *)
Definition dT : tables :=
  mktables [(4609434218613702656, [49; 46; 53]); (4921056587992461136, [49; 101; 43; 50; 49])] [] [] [].
Definition dL : leaf := c09_leaf dT.
Definition dI : item :=
  IMap [(IStr [97], IArr [IInt (-3); IUint 5; IF64 4609434218613702656; IF64 4921056587992461136; INil; IBool true; IStr [34; 60; 233]]);
        (IInt 7, IMap []); (IBool true, IBytes [1; 2; 3; 4])].

Example C09_doc_nonvacuous :
  let o := mkeopts 2 0 false true true false false in
  doc_laws (c09_leaf_of toy_oracle) /\
  (forall T, c09_leaf T = c09_leaf_of (table_oracle T)) /\
  jdoc dL o false dI /\
  valid_json (enc_top dL o dI) = true /\
  std_parse (enc_top dL o dI) = Some (jv_of dL o false dI, []) /\
  jv_of dL o false dI =
    JObj [([97], JArr [JNum [45; 51]; JNum [53]; JNum [49; 46; 53]; JNum [49; 101; 43; 50; 49]; JNull; JBool true;
                       JStr [34; 60; 239; 191; 189]]);
          ([55], JObj []); ([116; 114; 117; 101], JStr [65; 81; 73; 68; 66; 65; 61; 61])] /\
  (* what the grammar refuses: a trailing comma, a leading zero, a non-string member name, a bare control byte as white space *)
  valid_json [91; 49; 44; 93] = false /\ valid_json [48; 49] = false /\ valid_json [123; 49; 58; 50; 125] = false /\
  valid_json [1; 49] = false /\ valid_json [32; 45; 48; 46; 53; 69; 45; 49; 48; 9] = true.
Proof.
  cbv zeta. split; [exact toy_doc_laws|]. split; [exact c09_leaf_eq|]. split.
  - vm_compute. repeat match goal with |- _ /\ _ => split end; try reflexivity; try lia; try discriminate; try (eexists _, _; reflexivity).
  - vm_compute. repeat apply conj; reflexivity.
Qed.

(* a hand-written document: odd white space (space, tab, CR LF, LF) between all tokens, escapes (\n, \u00e9, a
   surrogate pair, a lone surrogate, \\ \" \/), nested and empty containers, numbers with negative exponent /
   capital E and plus sign / -0 / MaxUint64 / MinInt64:
    {<TAB>"a\n\u00e9\ud834\udd1e\ud800" :[ 1 ,-2.5e-3,<CR><LF> true,null , {} ,[ ] , "x\\\"y\/" , -0 , 18446744073709551615 , -9223372036854775808],<LF> "k" : { "n" : 0.1E+2 , "m":false } } <LF> *)
Definition hw_doc : list N :=
  [32; 123; 9; 34; 97; 92; 110; 92; 117; 48; 48; 101; 57; 92; 117; 100; 56; 51; 52; 92; 117; 100; 100; 49; 101; 92; 117; 100; 56; 48; 48; 34;
   32; 58; 91; 32; 49; 32; 44; 45; 50; 46; 53; 101; 45; 51; 44; 13; 10; 32; 116; 114; 117; 101; 44; 110; 117; 108; 108; 32; 44; 32; 123; 125;
   32; 44; 91; 32; 93; 32; 44; 32; 34; 120; 92; 92; 92; 34; 121; 92; 47; 34; 32; 44; 32; 45; 48; 32; 44; 32;
   49; 56; 52; 52; 54; 55; 52; 52; 48; 55; 51; 55; 48; 57; 53; 53; 49; 54; 49; 53; 32; 44; 32;
   45; 57; 50; 50; 51; 51; 55; 50; 48; 51; 54; 56; 53; 52; 55; 55; 53; 56; 48; 56; 93; 44; 10; 32; 34; 107; 34; 32; 58; 32; 123; 32;
   34; 110; 34; 32; 58; 32; 48; 46; 49; 69; 43; 50; 32; 44; 32; 34; 109; 34; 58; 102; 97; 108; 115; 101; 32; 125; 32; 125; 32; 10].
(* the float reader's answers for the two float literals (strconv.ParseFloat bits) *)
Definition hw_T : tables :=
  mktables [] [] [([45; 50; 46; 53; 101; 45; 51], 13791283066904122491); ([48; 46; 49; 69; 43; 50], 4621819117588971520)] [].
Definition hw_D : dopts := mkdopts false false false false 0.
Definition hw_item : item :=
  IMap [(IStr [97; 10; 195; 169; 240; 157; 132; 158; 239; 191; 189],
         IArr [IUint 1; IF64 13791283066904122491; IBool true; INil; IMap []; IArr []; IStr [120; 92; 34; 121; 47];
               IInt 0; IUint 18446744073709551615; IInt (-9223372036854775808)]);
        (IStr [107], IMap [(IStr [110], IF64 4621819117588971520); (IStr [109], IBool false)])].

Example C09_doc_accepts_nonvacuous :
  valid_json hw_doc = true /\ doc_pinfree hw_doc = true /\ length (doc_strings hw_doc) = 5%nat /\
  (exists v, std_parse hw_doc = Some (v, []) /\ jdepth v = 3%nat /\
             jdec (c09_leaf hw_T) hw_D 0%Z false v = Ok hw_item /\ jitem (c09_leaf hw_T) hw_D false v = hw_item /\
             (* the same document with MaxDepth = 3: refused for its depth; under SignedInteger: MaxUint64 is refused *)
             jdec (c09_leaf hw_T) (mkdopts false false false false 3) 0%Z false v = Err EDepth /\
             jdec (c09_leaf hw_T) (mkdopts false true false false 0) 0%Z false v = Err EOther) /\
  dec_naked (c09_leaf hw_T) hw_D (dec_fuel (st0 hw_doc)) hw_doc = Ok (hw_item, [32; 10]) /\
  (* a repeated member name: valid for the grammar, not modelled (jdec and the model agree on EUnsupported) *)
  valid_json [123; 34; 97; 34; 58; 49; 44; 34; 97; 34; 58; 50; 125] = true /\
  dec_naked (c09_leaf hw_T) hw_D 28 [123; 34; 97; 34; 58; 49; 44; 34; 97; 34; 58; 50; 125] = Err EUnsupported /\
  (* a bare top-level number ends at the end of the input or at white space *)
  dec_naked (c09_leaf hw_T) hw_D 6 [32; 52; 50] = Ok (IUint 42, []) /\
  dec_naked (c09_leaf hw_T) hw_D 8 [52; 50; 10; 32] = Ok (IUint 42, [32]).
Proof.
  split; [vm_compute; reflexivity|]. split; [vm_compute; reflexivity|]. split; [vm_compute; reflexivity|].
  split.
  { eexists. split; [vm_compute; reflexivity|]. vm_compute. repeat apply conj; reflexivity. }
  vm_compute. repeat apply conj; reflexivity.
Qed.

(* W_binc — the binc wire layer (codec/binc.go, binc.base.go, custom_time.go) under
   C01 (round trip), C11 (decode / skip / raw agree; sequences on one Decoder),
   C14 (depth bounds the stack), C02 (decoding arbitrary bytes is total).
   Only statements, closed by [exact], with [Print Assumptions] beneath each.

   The model (Wire/Binc.v) mirrors the tree after the repairs listed in
   known_findings.json "fixed" (FWbinc-1/2/3, F11-1, F14-1 binc, F14-3 binc, F02-1, F07-1n);
   on the pinned tree before them the statements below were false
   (see the *_regression examples and harness/cmd/wirebinc stream "regr"). *)
From Coq Require Import List NArith ZArith Lia Bool.
From Verif Require Import Base.Outcome Wire.Item Wire.Binc Wire.BincProofs.
Import ListNotations.
Local Open Scope N_scope.

(* C01/C11: decoding what the Encoder wrote — in any encoder symbol state [est], with
   the Decoder's table [dst] related to it by [R] — yields [norm i], leaves exactly the
   rest, and leaves the two tables related again. The walker (nextValueBytes: Raw,
   unknown struct fields) consumes the same bytes and leaves the SAME table. *)
Theorem W_binc_dec_enc : forall (e : eopts) (d : dopts) (i : item) (est : estate) (dst : dstate) (rest : list N),
  wfb e d i -> R est dst -> N.of_nat (depth i) < maxdepth d ->
  exists dst',
    dec_naked d dst (fst (enc e false i est) ++ rest) = Ok (norm e d i, rest, dst')
    /\ skip_value d dst (fst (enc e false i est) ++ rest) = Ok (tt, rest, dst')
    /\ R (snd (enc e false i est)) dst'.
Proof. exact dec_naked_enc. Qed.
Print Assumptions W_binc_dec_enc.

(* the same inside any context (map key or not), at any depth, with any sufficient fuel *)
Theorem W_binc_dec_enc_ctx : forall (i : item) (e : eopts) (d : dopts) (key : bool) (est : estate) (dst : dstate)
    (rest : list N) (dep : N) (rf lf : nat),
  wfb e d i -> R est dst ->
  N.of_nat (depth i) + dep < maxdepth d -> (depth i < rf)%nat ->
  (2 * length (fst (enc e key i est) ++ rest) + 1 <= lf)%nat ->
  exists dst',
    dec d rf lf dep dst (fst (enc e key i est) ++ rest) = Ok (norm e d i, rest, dst')
    /\ R (snd (enc e key i est)) dst'.
Proof. exact dec_enc_all. Qed.
Print Assumptions W_binc_dec_enc_ctx.

(* the one value class [wfb] excludes under SignedInteger: an unsigned integer >= 2^63
   does not fit the int64 the option asks for; DecodeNaked reports the overflow (F07-1n
   repaired: it used to hand back the sign-flipped int64) *)
Theorem W_binc_dec_enc_signed_overflow : forall (e : eopts) (d : dopts) (n : N) (est : estate) (dst : dstate) (rest : list N),
  signedInt d = true -> 2 ^ 63 <= n -> n < 2 ^ 64 -> 1 <= maxdepth d ->
  dec_naked d dst (fst (enc e false (IUint n) est) ++ rest) = Err EOverflow.
Proof. exact dec_naked_signed_overflow. Qed.
Print Assumptions W_binc_dec_enc_signed_overflow.

(* a SEQUENCE of values written by successive Encode calls on one Encoder is read back,
   in order, by successive Decode calls on one Decoder *)
Theorem W_binc_seq : forall (e : eopts) (d : dopts) (l : list item) (est : estate) (dst : dstate) (rest : list N),
  Forall (fun i => wfb e d i /\ N.of_nat (depth i) < maxdepth d) l -> R est dst ->
  exists dst',
    dec_seq d (length l) dst (fst (enc_seq e l est) ++ rest) = Ok (map (norm e d) l, rest, dst')
    /\ R (snd (enc_seq e l est)) dst'.
Proof. exact dec_seq_enc. Qed.
Print Assumptions W_binc_seq.

(* ... and with ANY of the values skipped instead (Decode(&Raw), unknown struct field):
   symbols defined inside skipped values are still known to the values after them *)
Theorem W_binc_skip_seq : forall (e : eopts) (d : dopts) (l : list item) (modes : list bool)
    (est : estate) (dst : dstate) (rest : list N),
  length modes = length l ->
  Forall (fun i => wfb e d i /\ N.of_nat (depth i) < maxdepth d) l -> R est dst ->
  exists dst',
    read_seq d modes dst (fst (enc_seq e l est) ++ rest)
    = Ok (map (fun mi : bool * item => if fst mi then None else Some (norm e d (snd mi))) (combine modes l), rest, dst')
    /\ R (snd (enc_seq e l est)) dst'.
Proof. exact read_seq_enc. Qed.
Print Assumptions W_binc_skip_seq.

(* C11 on EVERY input, not only encoder output: wherever Decode succeeds, the walker
   succeeds, stops at the same offset and leaves the same symbol table *)
Theorem W_binc_skip_agrees : forall (rf : nat) (o : dopts) (lf : nat) (dep : N) (st : dstate) (inp : list N)
    (x : item) (r : list N) (st' : dstate),
  dec o rf lf dep st inp = Ok (x, r, st') -> skip o rf lf dep st inp = Ok (tt, r, st').
Proof. exact skip_agrees. Qed.
Print Assumptions W_binc_skip_agrees.

(* C02/C14: for EVERY byte string and EVERY symbol table, loop fuel linear in the input
   and recursion fuel equal to MaxDepth suffice: the model never runs out of either.
   The recursion fuel is the model's recursion counter (one unit per nested value),
   so recursion depth <= MaxDepth whatever the input. *)
Theorem W_binc_dec_total : forall (o : dopts) (st : dstate) (inp : list N),
  1 <= maxdepth o -> dec_naked o st inp <> OutOfFuel.
Proof. exact dec_naked_total. Qed.
Print Assumptions W_binc_dec_total.

Theorem W_binc_skip_total : forall (o : dopts) (st : dstate) (inp : list N),
  1 <= maxdepth o -> skip_value o st inp <> OutOfFuel.
Proof. exact skip_value_total. Qed.
Print Assumptions W_binc_skip_total.

Theorem W_binc_total_fuel : forall (rf : nat) (o : dopts) (lf : nat) (dep : N) (st : dstate) (inp : list N),
  (1 <= rf)%nat -> maxdepth o <= N.of_nat rf + dep -> (2 * length inp + 1 <= lf)%nat ->
  dec o rf lf dep st inp <> OutOfFuel /\ skip o rf lf dep st inp <> OutOfFuel.
Proof. exact total_fuel. Qed.
Print Assumptions W_binc_total_fuel.

(* every successful step consumes input *)
Theorem W_binc_progress : forall (rf : nat) (o : dopts) (lf : nat) (dep : N) (st : dstate) (inp : list N)
    (x : item) (r : list N) (st' : dstate),
  dec o rf lf dep st inp = Ok (x, r, st') -> (length r < length inp)%nat.
Proof. exact dec_progress. Qed.
Print Assumptions W_binc_progress.

(* C14 on EVERY input: a value that decodes successfully is nested less than MaxDepth
   deep (so, with totality, anything nested deeper is an error), wherever it occurs *)
Theorem W_binc_depth_bound : forall (rf : nat) (o : dopts) (lf : nat) (dep : N) (st : dstate) (inp : list N)
    (x : item) (r : list N) (st' : dstate),
  dep < maxdepth o -> dec o rf lf dep st inp = Ok (x, r, st') -> N.of_nat (depth x) + dep < maxdepth o.
Proof. exact dec_depth_ok. Qed.
Print Assumptions W_binc_depth_bound.

(* C14: nesting to MaxDepth or beyond is an error of class EDepth (n arrays inside each other) *)
Theorem W_binc_depth : forall (n : nat) (d : dopts) (dep : N) (rf lf : nat) (dst : dstate) (rest : list N),
  (1 <= n)%nat -> maxdepth d <= N.of_nat n + dep -> (1 <= rf)%nat -> maxdepth d <= N.of_nat rf + dep ->
  (2 * (n + length rest) + 2 <= lf)%nat ->
  dec d rf lf dep dst (fst (enc {| asSymbols := false; stringToRaw := false |} false (nest n) estate0) ++ rest) = Err EDepth.
Proof. exact nest_deep. Qed.
Print Assumptions W_binc_depth.

(* ... and for EVERY encodable item, in every symbol state: if it is nested to MaxDepth
   or beyond, decoding its encoding is Err EDepth (not EOF, not a crash, not success) *)
Theorem W_binc_depth_all : forall (e : eopts) (d : dopts) (i : item) (est : estate) (dst : dstate) (rest : list N),
  wfb e d i -> R est dst -> 1 <= maxdepth d -> maxdepth d <= N.of_nat (depth i) ->
  dec_naked d dst (fst (enc e false i est) ++ rest) = Err EDepth.
Proof. exact dec_naked_deep. Qed.
Print Assumptions W_binc_depth_all.

(* ---------- non-vacuity and regression examples ---------- *)
Definition eo1 := {| asSymbols := true; stringToRaw := false |}.
Definition do1 := {| maxdepth := 1024; signedInt := false; rawToString := false |}.
Definition k1 : list N := [107; 101; 121].       (* "key" *)
Definition v1 : list item :=
  [IMap [(IStr k1, IArr [IInt (-4294967295); IF64 4607182418800017408; ITime 1700000000 5])];
   IMap [(IStr k1, IBytes [1; 2; 3])];
   IArr [IMap [(IStr k1, IUint 300)]; IExt 7 [9]]].

Example W_binc_nonvacuous :
  Forall (fun i => wfb eo1 do1 i /\ N.of_nat (depth i) < maxdepth do1) v1 /\ R estate0 dstate0 /\
  dec_seq do1 3 dstate0 (fst (enc_seq eo1 v1 estate0)) = Ok (map (norm eo1 do1) v1, [], [(1, k1)]) /\
  (* the second and third values carry a reference, not the string *)
  length (fst (enc_seq eo1 v1 estate0)) = 41%nat.
Proof.
  split; [|split; [exact R_init|vm_compute; split; reflexivity]].
  repeat constructor; vm_compute; try reflexivity; try (intro; discriminate); try lia.
Qed.

(* F11-1 (repaired): skip the value that DEFINES the symbol, decode the ones that refer to it *)
Example W_binc_F11_1_regression :
  read_seq do1 [true; false; false] dstate0 (fst (enc_seq eo1 v1 estate0))
  = Ok ([None; Some (norm eo1 do1 (nth 1 v1 INil)); Some (norm eo1 do1 (nth 2 v1 INil))], [], [(1, k1)]).
Proof. vm_compute. reflexivity. Qed.

(* FWbinc-1 (repaired): magnitudes with leading 0xff bytes survive *)
Example W_binc_negint_regression :
  fst (enc eo1 false (IInt (-4294967295)) estate0) = [35; 255; 255; 255; 255] /\
  dec_naked do1 dstate0 [35; 255; 255; 255; 255] = Ok (IInt (-4294967295), [], []).
Proof. vm_compute. split; reflexivity. Qed.

(* C14 witness: 1024 nested arrays are rejected, 1023 are accepted *)
Example W_binc_depth_nonvacuous :
  dec_naked do1 dstate0 (fst (enc eo1 false (nest 1024) estate0)) = Err EDepth /\
  is_ok (dec_naked do1 dstate0 (fst (enc eo1 false (nest 1023) estate0))) = true.
Proof. vm_compute. split; reflexivity. Qed.

(* hostile lengths: 2^64-1 elements / bytes end in an error, not in a loop (F02-1, F14-3 repaired) *)
Example W_binc_hostile_nonvacuous :
  skip_value do1 dstate0 [99; 255; 255; 255; 255; 255; 255; 255; 255; 67; 255; 255; 255; 255; 255; 255; 255; 247] = Err EEof /\
  dec_naked do1 dstate0 [99; 255; 255; 255; 255; 128; 0; 0; 0; 99; 255; 255; 255; 255; 128; 0; 0; 0] = Err EOther.
Proof. vm_compute. split; reflexivity. Qed.

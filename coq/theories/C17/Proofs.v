(* C17 — lemmas over the translated guard chains (Gen/Choice.v): exhaustive case analysis over
   the finite flag space (24 booleans), driven lazily by the conditions the chains test. *)
From Coq Require Import Bool List String.
From Verif Require Import Gen.Choice C17.Model.
Import ListNotations.
Open Scope bool_scope.

(* destruct the variable tested by the outermost remaining conditional, simplify, repeat *)
Ltac split_if :=
  match goal with
  | |- context [if ?c then _ else _] =>
      match c with
      | context [?b] => is_var b; destruct b; cbn
      end
  | H : context [if ?c then _ else _] |- _ =>
      match c with
      | context [?b] => is_var b; destruct b; cbn in *
      end
  | |- context [?b && _] => is_var b; destruct b; cbn
  | |- context [?b || _] => is_var b; destruct b; cbn
  end.

Ltac unfold_all :=
  unfold enc_cast_ok, dec_cast_ok, spec_choice, enc_choice, dec_choice, getExt, ext_active,
    is_selfer, has_binary, has_json, has_text in *; cbn in *.

Ltac flags_cases := intros f; destruct f; unfold_all; repeat split_if.

Lemma choice_lemma : forall f : flags, fst (enc_choice f) = fst (dec_choice f).
Proof. flags_cases; reflexivity. Qed.

Lemma precedence_lemma : forall f : flags, fst (enc_choice f) = spec_choice f.
Proof. flags_cases; reflexivity. Qed.

Lemma precedence_dec_lemma : forall f : flags, fst (dec_choice f) = spec_choice f.
Proof. intros f. rewrite <- choice_lemma. apply precedence_lemma. Qed.

(* a custom mechanism is chosen only when both halves exist *)
Definition halves_ok (f : flags) (m : mech) : bool :=
  match m with
  | MExt => checkExt f && extRegistered f       (* Ext has WriteExt/ReadExt (ConvertExt/UpdateExt) in one interface *)
  | MSelfer => flagSelfer f || flagSelferPtr f   (* Selfer has both methods in one interface *)
  | MBinary => has_binary f && binaryEncoding f
  | MJson => has_json f && json f && negb (binaryEncoding f)
  | MText => has_text f && negb (binaryEncoding f)
  | _ => true
  end.

Lemma both_halves_lemma : forall f : flags,
  halves_ok f (fst (enc_choice f)) = true /\ halves_ok f (fst (dec_choice f)) = true.
Proof.
  intros f. rewrite <- choice_lemma. rewrite precedence_lemma.
  assert (X : halves_ok f (spec_choice f) = true);
    [|split; exact X].
  revert f. flags_cases; reflexivity.
Qed.

(* the type assertion made by the chosen function cannot fail, in any position *)
Lemma cast_lemma : forall f : flags, enc_cast_ok f = true /\ dec_cast_ok f = true.
Proof. flags_cases; split; reflexivity. Qed.

(* with addrE/addrD the function is handed a pointer in every position; decode never halts on a
   settable destination *)
Lemma handed_lemma : forall (p : pos) (a df : bool),
  is_ptr (enc_handed p a) = a /\
  ((viaPtr p || canAddr p) = true -> is_ptr (dec_handed p a df) = a /\ dec_handed p a df <> HHalt).
Proof.
  intros [v c] a df. unfold enc_handed, dec_handed. cbn.
  destruct a, v, c, df; cbn; repeat split; try reflexivity; try discriminate; intros; discriminate.
Qed.

Lemma positions_settable : forall q, (viaPtr (dec_pos q) || canAddr (dec_pos q)) = true.
Proof. destruct q; reflexivity. Qed.

(* under the type-system facts a custom mechanism always goes through the pointer *)
Lemma addr_lemma : forall f : flags, type_facts f ->
  match fst (enc_choice f) with
  | MSelfer | MBinary | MJson | MText => snd (enc_choice f) = true /\ snd (dec_choice f) = true
  | _ => True
  end.
Proof.
  intros f (H1 & H2 & H3 & H4 & H5 & H6 & H7). destruct f. unfold_all.
  repeat split_if; try exact I; split; try reflexivity; intuition congruence.
Qed.

Lemma precedence_both_lemma : forall f : flags,
  fst (enc_choice f) = spec_choice f /\ fst (dec_choice f) = spec_choice f.
Proof. intros f. split; [apply precedence_lemma|apply precedence_dec_lemma]. Qed.

(* F17-1 *)
Definition ext_full_statement : Prop :=
  forall f : flags,
    checkExt f = enc_fn_checkExt -> extRegistered f = true ->
    isTime f = false -> isRaw f = false -> isRawExt f = false ->
    fst (enc_choice f) = MExt.

Definition f_ext : flags :=
  mkflags false false false true enc_fn_checkExt false true false true false
          false false false false false false false false false false false false false false.

Lemma ext_refuted_lemma : ~ ext_full_statement.
Proof.
  intros H. specialize (H f_ext eq_refl eq_refl eq_refl eq_refl eq_refl). vm_compute in H. discriminate.
Qed.

Lemma ext_when_checked_lemma : forall f : flags,
  checkExt f = true -> extRegistered f = true ->
  isTime f = false -> isRaw f = false -> isRawExt f = false ->
  fst (enc_choice f) = MExt /\ fst (dec_choice f) = MExt.
Proof.
  intros f H1 H2 H3 H4 H5. rewrite <- choice_lemma, precedence_lemma.
  unfold spec_choice, ext_active. rewrite H1, H2, H3, H4, H5. split; reflexivity.
Qed.

Lemma checkExt_symmetric_lemma :
  enc_fn_checkExt = dec_fn_checkExt /\ enc_fnNoExt_checkExt = dec_fnNoExt_checkExt.
Proof. split; reflexivity. Qed.

Lemma rt_lemma : forall (X W : Type) (marshal : mech -> X -> W) (unmarshal : mech -> W -> X),
  (forall m x, unmarshal m (marshal m x) = x) ->
  forall f x, decX X W unmarshal f (encX X W marshal f x) = x.
Proof. intros X W ma un Hinv f x. unfold decX, encX. rewrite <- choice_lemma. apply Hinv. Qed.

(* the builtin shortcut is symmetric in every position when the two sides agree on what is builtin *)
Lemma builtin_pos_lemma : forall (q : position) (b : bool) (f : flags),
  enc_mech_at q b f = dec_mech_at q b f.
Proof.
  intros q b f. unfold enc_mech_at, dec_mech_at, enc_builtin_time_guarded, dec_builtin_time_guarded.
  rewrite choice_lemma. reflexivity.
Qed.

(* with TimeNotBuiltin the shortcut is not taken for time.Time in any position: the chain decides *)
Lemma time_not_builtin_lemma : forall (q : position) (b : bool) (f : flags),
  isTime f = true -> timeBuiltin f = false ->
  enc_mech_at q b f = fst (enc_choice f) /\ dec_mech_at q b f = fst (dec_choice f).
Proof.
  intros q b f Ht Hb.
  unfold enc_mech_at, dec_mech_at, shortcut, enc_builtin_time_guarded, dec_builtin_time_guarded.
  rewrite Ht, Hb. cbn. rewrite !andb_false_r. split; reflexivity.
Qed.

(* ... and they do: every type the encoder shortcuts is shortcut by the decoder (translated lists) *)
Lemma builtin_lists_lemma : forallb is_dec_builtin enc_builtin_types = true.
Proof. vm_compute. reflexivity. Qed.

Lemma builtin_types_lemma : forall (t : string) (q : position) (f : flags),
  is_enc_builtin t = true -> enc_mech_at q (is_enc_builtin t) f = dec_mech_at q (is_dec_builtin t) f.
Proof.
  intros t q f H. assert (D : is_dec_builtin t = true).
  { pose proof builtin_lists_lemma as L. rewrite forallb_forall in L. apply L.
    unfold is_enc_builtin in H. apply existsb_exists in H. destruct H as [x [Hin Hx]].
    apply String.eqb_eq in Hx. subst. exact Hin. }
  rewrite H, D. apply builtin_pos_lemma.
Qed.

Lemma time_is_builtin_lemma : is_enc_builtin "time.Time" = true /\ is_dec_builtin "time.Time" = true.
Proof. vm_compute. split; reflexivity. Qed.

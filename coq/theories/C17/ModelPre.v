(* C17 — the step BEFORE the function lookup (Gen/ChoicePre.v: the kind switch of encodeValue, the
   TryNil test and pointer loop of decodeValue, translated from the current source).  A value that
   leaves there is coded without the custom mechanism of its type; hand written here: what that
   means for the user hooks of a custom-coded type X, per value at the top level. *)
From Coq Require Import Bool NArith.
From Verif Require Import Gen.Choice Gen.ChoicePre C17.Model.
Open Scope bool_scope.

Definition writes_nil (w : pre_write) : bool := match w with WNil => true | _ => false end.

(* values that can be encoded at all: an invalid reflect.Value and funcs are written as nil whatever they are *)
Definition encodable (k : kind) : bool := match k with KInvalid | KFunc => false | _ => true end.

(* which hook class (Corr.hookclass numbering: 0 none) runs for a top-level X of kind k, not behind a
   pointer: the encoder looks the function up unless the kind switch exits first; the decoder looks it
   up unless the item is nil, i.e. unless the encoder wrote nil *)
Definition hookclass_of (m : mech) : N :=
  match m with
  | MExt => 1 | MSelfer => 2 | MBinary => 3 | MJson => 4 | MText => 5
  | _ => 0
  end%N.

Definition enc_hook_top (k : kind) (isNil nz u8 encBuiltin : bool) (f : flags) : N :=
  match enc_pre k isNil nz u8 with
  | PreExit _ => 0%N
  | _ => hookclass_of (enc_mech_at PTop encBuiltin f)
  end.

Definition dec_hook_top (k : kind) (isNil nz u8 decBuiltin : bool) (f : flags) : N :=
  let streamNil := match enc_pre k isNil nz u8 with PreExit w => writes_nil w | _ => false end in
  match dec_pre streamNil k with
  | PreExit _ => 0%N
  | _ => hookclass_of (dec_mech_at PTop decBuiltin f)
  end.

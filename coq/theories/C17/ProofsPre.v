(* C17 — lemmas about the step before the function lookup. *)
From Coq Require Import Bool NArith.
From Verif Require Import Gen.Choice Gen.ChoicePre C17.Model C17.ModelPre.
Open Scope bool_scope.

(* a non-nil encodable value is never written before the lookup *)
Lemma pre_nonnil_lemma : forall k nz u8 w,
  encodable k = true -> enc_pre k false nz u8 <> PreExit w.
Proof. intros k nz u8 w; destruct k, nz, u8; cbn; intros H; try discriminate H; discriminate. Qed.

(* a non-nil item never leaves the decoder before the lookup *)
Lemma dec_pre_nonnil_lemma : forall k w, dec_pre false k <> PreExit w.
Proof. intros k w; destruct k; cbn; discriminate. Qed.

(* without NilCollectionToZeroLength: what leaves before the lookup is written as nil, and the decoder
   leaves before its lookup on exactly that item *)
Lemma pre_nil_lemma : forall k isNil u8 w,
  enc_pre k isNil false u8 = PreExit w -> w = WNil /\ dec_pre (writes_nil w) k = PreExit WNil.
Proof.
  intros k isNil u8 w; destruct k, isNil, u8; cbn; intros H; try discriminate H;
    injection H as <-; split; reflexivity.
Qed.

(* every nil pointer / interface / map / slice / chan does leave before the lookup *)
Lemma pre_nil_exits_lemma : forall k nz u8,
  k <> KOther -> exists w, enc_pre k true nz u8 = PreExit w.
Proof. intros k nz u8 H; destruct k, nz, u8; cbn; try (eexists; reflexivity); contradiction H; reflexivity. Qed.

(* the full statement, and its failure under NilCollectionToZeroLength (F17-4) *)
Definition pre_full_statement : Prop :=
  forall k isNil nz u8 w, enc_pre k isNil nz u8 = PreExit w -> w = WNil.

Lemma pre_refuted_lemma :
  exists k u8 w, enc_pre k true true u8 = PreExit w /\ w <> WNil /\ dec_pre (writes_nil w) k = PreLookup.
Proof. exists KMap, false, WMapEmpty; cbn; repeat apply conj; try reflexivity; discriminate. Qed.

Lemma pre_not_full_lemma : ~ pre_full_statement.
Proof. intros H; specialize (H KMap true true false WMapEmpty eq_refl); discriminate H. Qed.

(* hooks at the top level: the same class on both sides, unless a nil collection was written as an empty one *)
Lemma hook_top_sym_lemma : forall k isNil u8 eb db f,
  hookclass_of (enc_mech_at PTop eb f) = hookclass_of (dec_mech_at PTop db f) ->
  k <> KPtr ->
  enc_hook_top k isNil false u8 eb f = dec_hook_top k isNil false u8 db f.
Proof.
  intros k isNil u8 eb db f H Hk; unfold enc_hook_top, dec_hook_top;
    destruct k, isNil, u8; cbn; try reflexivity; try exact H; contradiction Hk; reflexivity.
Qed.

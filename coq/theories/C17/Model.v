(* C17 — what is hand written for "custom codecs are chosen symmetrically in every position":
   the specification of the documented precedence, the type-system facts about the typeInfo
   flags, and the addressing step between the choice and the call
   (encode.go encodeValue :1227-1236, decode.go decodeValueNoCheckNil :1561-1570).
   The choice functions themselves are NOT hand written: Gen/Choice.v is translated from
   encFnLoad / decFnLoad on every run. *)
From Coq Require Import Bool List String.
From Verif Require Import Gen.Choice.
Import ListNotations.
Open Scope bool_scope.

(* both halves of each pair, through the value or the pointer method set *)
Definition has_binary (f : flags) : bool :=
  (flagBinaryMarshaler f || flagBinaryMarshalerPtr f) && (flagBinaryUnmarshaler f || flagBinaryUnmarshalerPtr f).
Definition has_json (f : flags) : bool :=
  (flagJsonMarshaler f || flagJsonMarshalerPtr f) && (flagJsonUnmarshaler f || flagJsonUnmarshalerPtr f).
Definition has_text (f : flags) : bool :=
  (flagTextMarshaler f || flagTextMarshalerPtr f) && (flagTextUnmarshaler f || flagTextUnmarshalerPtr f).
Definition is_selfer (f : flags) : bool := flagSelfer f || flagSelferPtr f.

(* the extension lookup the caller asked for *)
Definition ext_active (f : flags) : bool := checkExt f && extRegistered f.

(* the precedence, written from the documentation (doc of Encode / Handle.SetExt, README
   "Extensions", "Selfer", "encoding.(Binary|Text|JSON)(M|Unm)arshaler"): built-ins (time, Raw,
   RawExt) cannot be overridden; then a registered extension; then Selfer; then, only if BOTH
   halves exist, BinaryMarshaler for binary formats, and for text formats JSONMarshaler (json
   handle only) before TextMarshaler; otherwise the kind. *)
Definition spec_choice (f : flags) : mech :=
  if isTime f && timeBuiltin f then MTime
  else if isRaw f then MRaw
  else if isRawExt f then MRawExt
  else if ext_active f then MExt
  else if is_selfer f then MSelfer
  else if binaryEncoding f then (if has_binary f then MBinary else MKind)
  else if json f && has_json f then MJson
  else if has_text f then MText
  else MKind.

(* Go: the method set of *T contains the method set of T (typeInfo: implIntf sets indir when base) *)
Definition type_facts (f : flags) : Prop :=
  (flagSelfer f = true -> flagSelferPtr f = true) /\
  (flagBinaryMarshaler f = true -> flagBinaryMarshalerPtr f = true) /\
  (flagBinaryUnmarshaler f = true -> flagBinaryUnmarshalerPtr f = true) /\
  (flagJsonMarshaler f = true -> flagJsonMarshalerPtr f = true) /\
  (flagJsonUnmarshaler f = true -> flagJsonUnmarshalerPtr f = true) /\
  (flagTextMarshaler f = true -> flagTextMarshalerPtr f = true) /\
  (flagTextUnmarshaler f = true -> flagTextUnmarshalerPtr f = true).

(* which method set the chosen function needs from the value it is handed: the type assertion
   rv2i(rv).(Selfer) etc. succeeds iff this is true *)
Definition enc_cast_ok (f : flags) : bool :=
  let '(m, a) := enc_choice f in
  match m with
  | MSelfer => if a then flagSelferPtr f else flagSelfer f
  | MBinary => if a then flagBinaryMarshalerPtr f else flagBinaryMarshaler f
  | MJson => if a then flagJsonMarshalerPtr f else flagJsonMarshaler f
  | MText => if a then flagTextMarshalerPtr f else flagTextMarshaler f
  | _ => true
  end.

Definition dec_cast_ok (f : flags) : bool :=
  let '(m, a) := dec_choice f in
  match m with
  | MSelfer => if a then flagSelferPtr f else flagSelfer f
  | MBinary => if a then flagBinaryUnmarshalerPtr f else flagBinaryUnmarshaler f
  | MJson => if a then flagJsonUnmarshalerPtr f else flagJsonUnmarshaler f
  | MText => if a then flagTextUnmarshalerPtr f else flagTextUnmarshaler f
  | _ => true
  end.

(* ---- the addressing step ---- *)
Record pos := mkpos {
  viaPtr : bool;      (* the value was reached by dereferencing a pointer: pointer to X, pointer to pointer, interface holding a pointer *)
  canAddr : bool }.   (* rv.CanAddr(): struct field / slice element of an addressable value ... ; false for
                         map keys and values, interface{}(X), top-level X *)

Inductive handed := HValue | HPtrGiven | HAddrOf | HAddrOfCopy | HHalt.

(* encodeValue: if !addrE keep rv; else if rvpValid rv = rvp; else if CanAddr rvAddr; else addrRV (copy) *)
Definition enc_handed (p : pos) (addrE : bool) : handed :=
  if negb addrE then HValue
  else if viaPtr p then HPtrGiven
  else if canAddr p then HAddrOf
  else HAddrOfCopy.

(* decodeValueNoCheckNil: if addrD { if rvpValid rv = rvp; else if CanAddr rvAddr; else if addrDf halt } *)
Definition dec_handed (p : pos) (addrD addrDf : bool) : handed :=
  if negb addrD then HValue
  else if viaPtr p then HPtrGiven
  else if canAddr p then HAddrOf
  else if addrDf then HHalt
  else HValue.

Definition is_ptr (h : handed) : bool :=
  match h with HPtrGiven | HAddrOf | HAddrOfCopy => true | _ => false end.

(* the positions of the property: how X is reached *)
Inductive position := PTop | PPtr | PPtrPtr | PField | PSliceElem | PArrayElem | PMapValue | PMapKey | PIface | PIfacePtr.

(* on encode, from a top-level value passed by value (not addressable) or by pointer *)
Definition enc_pos (q : position) (rootAddressable : bool) : pos :=
  match q with
  | PTop => mkpos false false
  | PPtr | PPtrPtr | PIfacePtr => mkpos true true
  | PField | PArrayElem => mkpos false rootAddressable
  | PSliceElem => mkpos false true
  | PMapValue | PMapKey | PIface => mkpos false false
  end.

(* on decode every destination is settable: the decoder is given a pointer, allocates pointees,
   and decodes map values / interface contents into fresh addressable values *)
Definition dec_pos (q : position) : pos :=
  match q with
  | PPtr | PPtrPtr | PIfacePtr | PTop => mkpos true true
  | _ => mkpos false true
  end.

(* ---- the builtin shortcut, per position.  A value whose type is in the builtin list (numbers,
   string, []byte, time.Time, Raw) is not coded through the chosen function when it is a struct
   field (si.encBuiltin / si.decBuiltin), a slice/array element or a map key/value
   (ti.tielem/tikey.flagEncBuiltin, flagDecBuiltin) or a top-level value (encodeBuiltin /
   decode type switch): it goes straight to the type switch.  Behind a pointer or inside an
   interface the chain decides.  For time.Time the type-switch cases themselves test
   h.timeBuiltin (since the repair of F17-2; [enc_builtin_time_guarded] /
   [dec_builtin_time_guarded] are translated from the source): with TimeNotBuiltin they delegate
   to the chosen function, so the shortcut is not taken for time in any position. ---- *)
Definition builtin_pos (q : position) : bool :=
  match q with
  | PTop | PField | PSliceElem | PArrayElem | PMapValue | PMapKey => true
  | _ => false
  end.

(* is the shortcut effective for this type / handle?  [guarded]: the time case honours timeBuiltin *)
Definition shortcut (guarded builtin : bool) (f : flags) : bool :=
  builtin && (negb (isTime f) || timeBuiltin f || negb guarded).

Definition enc_mech_at (q : position) (encBuiltin : bool) (f : flags) : mech :=
  if builtin_pos q && shortcut enc_builtin_time_guarded encBuiltin f then MKind else fst (enc_choice f).

Definition dec_mech_at (q : position) (decBuiltin : bool) (f : flags) : mech :=
  if builtin_pos q && shortcut dec_builtin_time_guarded decBuiltin f then MKind else fst (dec_choice f).

(* membership in the translated builtin lists *)
Definition is_enc_builtin (t : string) : bool := existsb (String.eqb t) enc_builtin_types.
Definition is_dec_builtin (t : string) : bool := existsb (String.eqb t) dec_builtin_types.

(* ---- round trip through whatever is chosen: user hooks (and the kind coding) are abstract, one
   pair per mechanism, with the wire form they produce / consume ---- *)
Section RoundTrip.
  Variables X W : Type.
  Variable marshal : mech -> X -> W.
  Variable unmarshal : mech -> W -> X.
  Definition encX (f : flags) (x : X) : W := marshal (fst (enc_choice f)) x.
  Definition decX (f : flags) (w : W) : X := unmarshal (fst (dec_choice f)) w.
End RoundTrip.

(* C17 — correspondence: for each harness type and handle the typeInfo flags and handle facts
   are read through the verif hook (VerifTypeFlagsOf), the checkExt argument is the one
   encoder.fn / decoder.fn pass (translated), and the mechanism Gen.Choice picks is compared
   with the kind of user hook that was observed to run at top level.  Since the value classes (nil,
   empty, ...) are swept, the step before the lookup (Gen/ChoicePre.v, translated from encodeValue /
   decodeValue) comes first: a nil map / slice / chan leaves there and no hook runs. *)
From Coq Require Import List NArith Bool.
From Verif Require Import Gen.Choice Gen.ChoicePre C17.Model C17.ModelPre.
Import ListNotations.

Record case := mkcase {
  cid : N;
  cfenc : flags;
  cfdec : flags;
  cencb : bool;   (* typeInfo.flagEncBuiltin / flagDecBuiltin of the type, read through the hook *)
  cdecb : bool;
  o_enc : N;      (* which custom hook ran during Encode: 0 none, 1 ext, 2 selfer, 3 binary, 4 json, 5 text *)
  o_dec : N;
  (* the step before the lookup (Gen/ChoicePre.v): the kind of X, rvIsNil, NilCollectionToZeroLength, element type uint8 *)
  ckind : kind;
  cnil : bool;
  cnz : bool;
  cu8 : bool }.

Definition hookclass (m : mech) : N :=
  match m with
  | MExt => 1 | MSelfer => 2 | MBinary => 3 | MJson => 4 | MText => 5
  | _ => 0
  end%N.

Definition check_case (c : case) : bool :=
  (* the observation is made at top level, value passed by value *)
  N.eqb (enc_hook_top (ckind c) (cnil c) (cnz c) (cu8 c) (cencb c) (cfenc c)) (o_enc c) &&
  N.eqb (dec_hook_top (ckind c) (cnil c) (cnz c) (cu8 c) (cdecb c) (cfdec c)) (o_dec c).

Definition mismatches (cs : list case) : list N :=
  map cid (filter (fun c => negb (check_case c)) cs).

(* C06 — correspondence: the model's invariant and its sequential reference evaluated on snapshots of the
   real published cache slices (taken through the verif hook after real goroutines raced on a fresh Handle). *)
From Coq Require Import List NArith Arith Bool.
From Verif Require Import Gen.Cache C06.Model.
Import ListNotations.

Record case := mkcase {
  cid : N;
  centries : list (N * N);   (* the published slice after the concurrent run: (key rtid, rtid recorded inside the value) *)
  cseq : list N;             (* keys of the same cache after the same operations ran sequentially on another fresh Handle *)
  corder : list N }.         (* the keys in a random order, replayed as sequential gets in the model *)

Fixpoint eqbl (a b : list N) : bool :=
  match a, b with
  | [], [] => true
  | x :: a', y :: b' => N.eqb x y && eqbl a' b'
  | _, _ => false
  end.

Fixpoint eqbe (a b : list (N * N)) : bool :=
  match a, b with
  | [], [] => true
  | (x1, x2) :: a', (y1, y2) :: b' => N.eqb x1 y1 && N.eqb x2 y2 && eqbe a' b'
  | _, _ => false
  end.

Definition check_case (c : case) : bool :=
  (* the invariant of C06_inv with F = identity of the type: sorted, duplicate-free, v = F k *)
  sortedb (keys (centries c)) && forallb (fun e => N.eqb (snd e) (fst e)) (centries c)
  (* nothing lost, nothing extra: same key set as the sequential run *)
  && eqbl (keys (centries c)) (cseq c)
  (* the model's search finds every key in the real slice *)
  && forallb (fun k => match snd (bsearch (centries c) k) with Some v => N.eqb v k | None => false end) (cseq c)
  (* the model's sequential gets (search + copy-insert with the translator's numbers) rebuild the real slice *)
  && eqbe (fold_left (fun l k => seq_get l k k) (corder c) []) (centries c).

Definition mismatches (cs : list case) : list N :=
  map cid (filter (fun c => negb (check_case c)) cs).

(* C06 — the invariant of the publication protocol and its consequences. *)
From Coq Require Import List NArith ZArith Arith Lia Bool.
From Verif Require Import Gen.Cache C06.Model C06.ProofsList.
Import ListNotations.

Lemma upd_eq {A} (f : nat -> A) i x : upd f i x i = x.
Proof. unfold upd. now rewrite Nat.eqb_refl. Qed.
Lemma upd_neq {A} (f : nat -> A) i j x : j <> i -> upd f i x j = f j.
Proof. unfold upd. intros H. destruct (Nat.eqb_spec j i); [contradiction|reflexivity]. Qed.

Ltac csplit := repeat match goal with |- _ /\ _ => split end.

Lemma deref_set_pc s t x p : deref (set_pc s t x) p = deref s p.
Proof. reflexivity. Qed.
Lemma published_set_pc s t x c : published (set_pc s t x) c = published s c.
Proof. reflexivity. Qed.

Definition locked_snap (x : tpc) : option (nat * option nat) :=
  match x with
  | TSearch2 c _ _ p | TAlloc c _ _ p _ | TFill c _ _ p _ _ => Some (c, p)
  | _ => None
  end.

Section Inv.
Variable F : nat -> key -> val.

(* ------------------------------------------------------------------ *)
(* mutex discipline *)
Record InvC (σ : state) : Prop := {
  iC1 : forall t m, holds (pc σ t) = Some m -> mtx σ m = Some t;
  iC2 : forall t m, mtx σ m = Some t -> holds (pc σ t) = Some m }.

Ltac step_cases H Hpc :=
  let ch := fresh "ch" in
  unfold step, next in H; destruct H as (ch & H);
  match type of H with context [pc ?s ?t] => destruct (pc s t) eqn:Hpc end;
  repeat match type of H with
         | context [match ?x with _ => _ end] => destruct x eqn:?
         end;
  try discriminate H; injection H as H; subst.

Lemma mu_init c : mu_of c <> init_mu.
Proof. destruct c; unfold mu_of, init_mu; lia. Qed.

Lemma invC_step σ σ' t : InvC σ -> step F t σ σ' -> InvC σ'.
Proof.
  intros [C1 C2] H.
  pose proof (C1 t) as C1t. pose proof (C2 t) as C2t.
  step_cases H Hpc; try rewrite Hpc in C1t; try rewrite Hpc in C2t; simpl in C1t, C2t; split; simpl; intros t' m';
    pose proof (C1 t' m') as Q1; pose proof (C2 t' m') as Q2; pose proof (C1t m') as Q3; pose proof (C2t m') as Q4;
    pose proof (mu_init) as Qm;
    (destruct (Nat.eq_dec t' t) as [->|Hne]; [rewrite ?upd_eq|rewrite ?(upd_neq _ _ _ _ Hne)]); simpl;
    intros E;
    unfold upd in *;
    repeat match goal with
           | |- context [Nat.eqb ?a ?b] => destruct (Nat.eqb_spec a b)
           | H : context [Nat.eqb ?a ?b] |- _ => destruct (Nat.eqb_spec a b)
           end;
    subst; simpl in *; try discriminate; auto;
    try (specialize (C1t _ eq_refl));
    try (injection E as E); subst;
    intuition (try congruence).
Qed.

(* ------------------------------------------------------------------ *)
(* one-time initialisation *)
Definition ginit (x : tpc) : option bool :=
  match x with
  | TInitWrite | TInitStore => Some false
  | TNew | TInitWant | TInitLocked | TInitUnlock false => None
  | _ => Some true
  end.

Record InvG (σ : state) : Prop := {
  iG : forall t b, ginit (pc σ t) = Some b -> inited σ = b }.

Lemma iG1 σ : InvG σ -> forall t, postinit (pc σ t) = true -> inited σ = true.
Proof. intros [G] t H. apply (G t). destruct (pc σ t); simpl in *; try discriminate; reflexivity. Qed.

Lemma iG2 σ : InvG σ -> forall t, pc σ t = TInitWrite \/ pc σ t = TInitStore -> inited σ = false.
Proof. intros [G] t H. apply (G t). destruct H as [-> | ->]; reflexivity. Qed.

Lemma invG_step σ σ' t : InvC σ -> InvG σ -> step F t σ σ' -> InvG σ'.
Proof.
  intros [C1 C2] [G] H.
  pose proof (G t) as Gt.
  step_cases H Hpc; try rewrite Hpc in Gt; simpl in Gt; split; simpl; intros t' b;
    pose proof (G t' b) as Gt';
    (destruct (Nat.eq_dec t' t) as [->|Hne]; [rewrite ?upd_eq|rewrite ?(upd_neq _ _ _ _ Hne)]);
    simpl; auto; try discriminate;
    try (intros [= <-]; auto; try (apply Gt; reflexivity); fail);
    try (intros HH; specialize (Gt' HH); congruence).
  - (* TInitStore sets the flag: nobody else is in TInitWrite/TInitStore *)
    intros HH. destruct b; auto.
    assert (Hh : holds (pc σ t') = Some init_mu) by (destruct (pc σ t'); simpl in HH; try discriminate; try reflexivity; destruct ok; discriminate).
    apply C1 in Hh. pose proof (C1 t init_mu) as Ht. rewrite Hpc in Ht. specialize (Ht eq_refl). congruence.
Qed.

(* ------------------------------------------------------------------ *)
(* memory *)
Definition pcinv (σ : state) (x : tpc) : Prop :=
  match x with
  | TLock c k v | TLoad2 c k v | TUnlock c k v | TDone c k v => v = F c k
  | TSearch2 c k v p => v = F c k
  | TAlloc c k v p idx => v = F c k /\ bsearch (deref σ p) k = (idx, None)
  | TFill c k v p idx a =>
      v = F c k /\ bsearch (deref σ p) k = (idx, None) /\ heap σ a = repeat zero (length (deref σ p) + ins_len_inc)
  | TStore c k v a =>
      v = F c k /\ good F c (heap σ a) /\ incl (keys (published σ c)) (keys (heap σ a)) /\ In k (keys (heap σ a))
  | _ => True
  end.

Record InvM (σ : state) : Prop := {
  iA : forall c a, pub σ c = Some a -> a < nalloc σ /\ good F c (heap σ a);
  iB : forall t c a, snap (pc σ t) = Some (c, a) ->
       a < nalloc σ /\ good F c (heap σ a) /\ incl (keys (heap σ a)) (keys (published σ c));
  iD : forall t c p, locked_snap (pc σ t) = Some (c, p) -> pub σ c = p;
  iE : forall t a, priv (pc σ t) = Some a ->
       a < nalloc σ /\ (forall c, pub σ c <> Some a) /\ (forall t' c, snap (pc σ t') <> Some (c, a)) /\
       (forall t', t' <> t -> priv (pc σ t') <> Some a);
  iF : forall t, pcinv σ (pc σ t) }.

Lemma good_nil c : good F c [].
Proof. split; simpl; auto. constructor. Qed.

Lemma good_deref σ c p : InvM σ -> pub σ c = p -> good F c (deref σ p).
Proof. intros I Hp. subst p. destruct (pub σ c) as [a|] eqn:E; simpl; [apply (iA _ I _ _ E)|apply good_nil]. Qed.

Lemma found_value c s k v : good F c s -> snd (bsearch s k) = Some v -> v = F c k.
Proof.
  intros (Hs & Hf) Hr. destruct (bsearch_spec s k Hs) as (_ & _ & _ & H4 & _).
  specialize (H4 _ Hr). unfold fvalued in Hf. rewrite Forall_forall in Hf. apply (Hf _ H4).
Qed.

Lemma snap_locked x c a : snap x = Some (c, a) -> locked_snap x = None \/ locked_snap x = Some (c, Some a).
Proof. destruct x; simpl; try discriminate; try destruct p; try discriminate; intros [= <- <-]; auto. Qed.

(* steps that change neither heap, nalloc nor pub *)
Lemma invM_pc σ σ' t x' :
  InvM σ -> heap σ' = heap σ -> nalloc σ' = nalloc σ -> pub σ' = pub σ -> pc σ' = upd (pc σ) t x' ->
  (forall c a, snap x' = Some (c, a) -> snap (pc σ t) = Some (c, a) \/ pub σ c = Some a) ->
  (forall c p, locked_snap x' = Some (c, p) -> locked_snap (pc σ t) = Some (c, p) \/ pub σ c = p) ->
  (forall a, priv x' = Some a -> priv (pc σ t) = Some a) ->
  pcinv σ x' ->
  InvM σ'.
Proof.
  intros I Hh Hn Hp Hpc Hb Hd He Hf.
  assert (Hder : forall p, deref σ' p = deref σ p) by (intros p; unfold deref; now rewrite Hh).
  assert (Hpub : forall c, published σ' c = published σ c) by (intros c; unfold published; now rewrite Hder, Hp).
  assert (Hpcinv : forall x, pcinv σ x -> pcinv σ' x).
  { intros x. destruct x; simpl; rewrite ?Hder, ?Hpub, ?Hh; auto. }
  split.
  - intros c a. rewrite Hp, Hn, Hh. apply (iA _ I).
  - intros t' c a. rewrite Hpc, Hn, Hh, Hpub. destruct (Nat.eq_dec t' t) as [->|Hne].
    + rewrite upd_eq. intros Hs. destruct (Hb _ _ Hs) as [Ho|Ho]; [apply (iB _ I _ _ _ Ho)|].
      destruct (iA _ I _ _ Ho) as (H1 & H2). split; [auto|split; [auto|]].
      unfold published. rewrite Ho. simpl. apply incl_refl.
    + rewrite upd_neq by auto. apply (iB _ I).
  - intros t' c p. rewrite Hpc, Hp. destruct (Nat.eq_dec t' t) as [->|Hne].
    + rewrite upd_eq. intros Hs. destruct (Hd _ _ Hs) as [Ho|Ho]; [apply (iD _ I _ _ _ Ho)|exact Ho].
    + rewrite upd_neq by auto. apply (iD _ I).
  - assert (Hsn : forall t'' c a, (exists t0, priv (pc σ t0) = Some a) -> snap (upd (pc σ) t x' t'') <> Some (c, a)).
    { intros t'' c a (t0 & H0). destruct (iE _ I _ _ H0) as (_ & P2 & P3 & _).
      destruct (Nat.eq_dec t'' t) as [->|Hne]; [rewrite upd_eq|rewrite upd_neq by auto; apply P3].
      intros Hs. destruct (Hb _ _ Hs) as [Ho|Ho]; [apply (P3 _ _ Ho)|apply (P2 _ Ho)]. }
    intros t' a. rewrite Hpc, Hn, Hp. destruct (Nat.eq_dec t' t) as [->|Hne].
    + rewrite upd_eq. intros Hs. apply He in Hs. destruct (iE _ I _ _ Hs) as (P1 & P2 & P3 & P4).
      csplit; auto.
      * intros t'' c. apply Hsn. eauto.
      * intros t'' Hne. rewrite upd_neq by auto. apply P4; auto.
    + rewrite upd_neq by auto. intros Hs. destruct (iE _ I _ _ Hs) as (P1 & P2 & P3 & P4).
      csplit; auto.
      * intros t'' c. apply Hsn. eauto.
      * intros t'' Hne'. destruct (Nat.eq_dec t'' t) as [->|Hne2]; [rewrite upd_eq|rewrite upd_neq by auto; apply P4; auto].
        intros Hs'. apply He in Hs'. apply (P4 t); auto.
  - intros t'. rewrite Hpc. apply Hpcinv. destruct (Nat.eq_dec t' t) as [->|Hne]; [rewrite upd_eq; auto|rewrite upd_neq by auto; apply (iF _ I)].
Qed.

(* a plain write to array a0 that nobody else references *)
Lemma pcinv_frame σ σ' a0 x :
  (forall a, a <> a0 -> heap σ' a = heap σ a) -> pub σ' = pub σ ->
  (forall c, pub σ c <> Some a0) -> (forall c, snap x <> Some (c, a0)) -> priv x <> Some a0 ->
  pcinv σ x -> pcinv σ' x.
Proof.
  intros Hh Hp Hpa Hs Hpr.
  assert (Hpub : forall c, published σ' c = published σ c).
  { intros c. unfold published, deref. rewrite Hp. destruct (pub σ c) eqn:E; auto. apply Hh. intros ->. apply (Hpa _ E). }
  destruct x; simpl; auto.
  - destruct p as [a|]; simpl; auto. rewrite Hh; auto. intros ->. apply (Hs c). reflexivity.
  - destruct p as [a1|]; simpl in *.
    + rewrite (Hh a1) by (intros ->; apply (Hs c); reflexivity). rewrite (Hh a) by congruence. auto.
    + rewrite (Hh a) by congruence. auto.
  - rewrite (Hh a) by (simpl in Hpr; congruence). rewrite Hpub. auto.
Qed.

Ltac sproj := cbn [heap nalloc pub mtx inited cfg pc alloc set_pc set_heap set_pub set_mtx set_inited set_cfg].

Lemma invM_step σ σ' t : InvC σ -> InvM σ -> step F t σ σ' -> InvM σ'.
Proof.
  intros IC I H.
  pose proof (iF _ I t) as Ft. pose proof (iB _ I t) as Bt. pose proof (iD _ I t) as Dt. pose proof (iE _ I t) as Et.
  step_cases H Hpc; try rewrite Hpc in Ft; try rewrite Hpc in Bt; try rewrite Hpc in Dt; try rewrite Hpc in Et; simpl in Ft, Bt, Dt, Et;
    try (eapply invM_pc with (t := t); try eassumption; try reflexivity; rewrite ?Hpc; simpl;
         try (intros; discriminate); auto; fail).
  - (* TLoad1 -> TSearch1 *)
    eapply invM_pc with (t := t); try eassumption; try reflexivity; rewrite ?Hpc; simpl; auto; try (intros; discriminate).
    intros c0 a. destruct (pub σ c) eqn:E; [|discriminate]. intros [= <- <-]. auto.
  - (* TSearch1 found *)
    eapply invM_pc with (t := t); try eassumption; try reflexivity; rewrite ?Hpc; simpl; auto; try (intros; discriminate).
    destruct p as [a|]; [|simpl in *; discriminate]. destruct (Bt _ _ eq_refl) as (_ & Hg & _).
    eapply found_value; eauto.
  - (* TLoad2 -> TSearch2 *)
    eapply invM_pc with (t := t); try eassumption; try reflexivity; rewrite ?Hpc; simpl; auto; try (intros; discriminate).
    + intros c0 a. destruct (pub σ c) eqn:E; [|discriminate]. intros [= <- <-]. auto.
    + intros c0 p. intros [= <- <-]. auto.
  - (* TSearch2 found *)
    eapply invM_pc with (t := t); try eassumption; try reflexivity; rewrite ?Hpc; simpl; auto; try (intros; discriminate).
    assert (v0 = F c k). { eapply found_value; [|eassumption]. apply good_deref; auto. }
    unfold ret. destruct c; congruence.
  - (* TSearch2 not found -> TAlloc *)
    eapply invM_pc with (t := t); try eassumption; try reflexivity; rewrite ?Hpc; simpl; auto; try (intros; discriminate).
    split; auto. rewrite (surjective_pairing (bsearch (deref σ p) k)). f_equal. assumption.
  - (* TAlloc: fresh array *)
    destruct Ft as (Hv & Hbs).
    assert (Hfresh : forall a, a < nalloc σ -> upd (heap σ) (nalloc σ) (repeat zero (length (deref σ p) + ins_len_inc)) a = heap σ a).
    { intros a Ha. apply upd_neq. lia. }
    split; sproj.
    + intros c0 a E. destruct (iA _ I _ _ E) as (H1 & H2). rewrite Hfresh by auto. split; auto.
    + intros t' c0 a. assert (Hx : snap (pc σ t') = Some (c0, a) -> a < S (nalloc σ) /\ good F c0 (upd (heap σ) (nalloc σ) (repeat zero (length (deref σ p) + ins_len_inc)) a) /\
                   incl (keys (upd (heap σ) (nalloc σ) (repeat zero (length (deref σ p) + ins_len_inc)) a)) (keys (published (alloc σ (length (deref σ p) + ins_len_inc)) c0))).
      { intros Hs. destruct (iB _ I _ _ _ Hs) as (H1 & H2 & H3). rewrite Hfresh by auto. csplit; auto.
        unfold published, deref. simpl. unfold published, deref in H3. destruct (pub σ c0) eqn:E; auto.
        destruct (iA _ I _ _ E). rewrite Hfresh; auto. }
      destruct (Nat.eq_dec t' t) as [->|Hne]; [rewrite upd_eq|rewrite upd_neq by auto; exact Hx].
      intros Hs. apply Hx. rewrite Hpc. exact Hs.
    + intros t' c0 p0. destruct (Nat.eq_dec t' t) as [->|Hne]; [rewrite upd_eq|rewrite upd_neq by auto; apply (iD _ I)].
      simpl. apply Dt.
    + assert (Hsn : forall t'' c0, snap (upd (pc σ) t (TFill c k v p idx (nalloc σ)) t'') <> Some (c0, nalloc σ)).
      { intros t'' c0 Hs. assert (Hs' : snap (pc σ t'') = Some (c0, nalloc σ)).
        { destruct (Nat.eq_dec t'' t) as [->|Hne]; [rewrite upd_eq in Hs; rewrite Hpc; exact Hs|rewrite upd_neq in Hs by auto; exact Hs]. }
        destruct (iB _ I _ _ _ Hs'). lia. }
      intros t' a. destruct (Nat.eq_dec t' t) as [->|Hne]; [rewrite upd_eq|rewrite upd_neq by auto].
      * simpl. intros [= <-]. csplit; auto.
        -- intros c0 E. destruct (iA _ I _ _ E). lia.
        -- intros t'' Hne. rewrite upd_neq by auto. intros E. destruct (iE _ I _ _ E). lia.
      * intros Hs. destruct (iE _ I _ _ Hs) as (P1 & P2 & P3 & P4). csplit; auto.
        -- intros t'' c0 Hs2. assert (Hs' : snap (pc σ t'') = Some (c0, a)).
           { destruct (Nat.eq_dec t'' t) as [->|Hne2]; [rewrite upd_eq in Hs2; rewrite Hpc; exact Hs2|rewrite upd_neq in Hs2 by auto; exact Hs2]. }
           apply (P3 _ _ Hs').
        -- intros t'' Hne2. destruct (Nat.eq_dec t'' t) as [->|Hne3]; [rewrite upd_eq|rewrite upd_neq by auto; apply P4; auto].
           simpl. intros [= <-]. lia.
    + intros t'. destruct (Nat.eq_dec t' t) as [->|Hne]; [rewrite upd_eq|rewrite upd_neq by auto].
      * simpl. assert (Hd : deref (alloc σ (length (deref σ p) + ins_len_inc)) p = deref σ p).
        { destruct p as [a|]; simpl; auto. destruct (Bt _ _ eq_refl). apply Hfresh; auto. }
        rewrite !deref_set_pc, Hd. csplit; auto. apply upd_eq.
      * apply pcinv_frame with (σ := σ) (a0 := nalloc σ); simpl; auto.
        -- intros a Ha. apply upd_neq; auto.
        -- intros c0 E. destruct (iA _ I _ _ E). lia.
        -- intros c0 E. destruct (iB _ I _ _ _ E). lia.
        -- intros E. destruct (iE _ I _ _ E). lia.
        -- apply (iF _ I).
  - (* TFill: plain writes to the private array *)
    destruct Ft as (Hv & Hbs & Hz). destruct (Et _ eq_refl) as (P1 & P2 & P3 & P4).
    pose proof (Dt _ _ eq_refl) as Hpubc.
    assert (Hidx : idx <= length (deref σ p)). { pose proof (bsearch_total (deref σ p) k) as Hb. rewrite Hbs in Hb. exact Hb. }
    assert (Hnew : fill idx (k, v) (deref σ p) (heap σ a) = insert_at idx (k, v) (deref σ p)).
    { rewrite Hz. apply fill_spec. exact Hidx. }
    rewrite Hnew.
    assert (Hgood : good F c (insert_at idx (k, v) (deref σ p))).
    { replace idx with (fst (bsearch (deref σ p) k)) by (rewrite Hbs; reflexivity).
      apply insert_sorted; auto; [apply good_deref; auto|rewrite Hbs; reflexivity]. }
    assert (Hfr : forall a', a' <> a -> upd (heap σ) a (insert_at idx (k, v) (deref σ p)) a' = heap σ a').
    { intros a' Ha. apply upd_neq. auto. }
    assert (Hpubl : forall c0, published (set_heap σ a (insert_at idx (k, v) (deref σ p))) c0 = published σ c0).
    { intros c0. unfold published, deref. simpl. destruct (pub σ c0) eqn:E; auto. apply Hfr. intros ->. apply (P2 _ E). }
    split; sproj.
    + intros c0 a' E. destruct (iA _ I _ _ E) as (H1 & H2). rewrite Hfr; auto. intros ->. apply (P2 _ E).
    + intros t' c0 a' Hs. assert (Hs' : snap (pc σ t') = Some (c0, a')).
      { destruct (Nat.eq_dec t' t) as [->|Hne]; [rewrite upd_eq in Hs; simpl in Hs; discriminate|rewrite upd_neq in Hs by auto; exact Hs]. }
      destruct (iB _ I _ _ _ Hs') as (H1 & H2 & H3).
      rewrite Hfr by (intros ->; apply (P3 _ _ Hs')).
      csplit; auto.
      change (incl (keys (heap σ a')) (keys (published (set_heap σ a (insert_at idx (k, v) (deref σ p))) c0))). rewrite Hpubl. exact H3.
    + intros t' c0 p0. destruct (Nat.eq_dec t' t) as [->|Hne]; [rewrite upd_eq; simpl; discriminate|rewrite upd_neq by auto; apply (iD _ I)].
    + intros t' a'. destruct (Nat.eq_dec t' t) as [->|Hne]; [rewrite upd_eq|rewrite upd_neq by auto].
      * simpl. intros [= <-]. csplit; auto.
        -- intros t'' c0 Hs. destruct (Nat.eq_dec t'' t) as [->|Hne]; [rewrite upd_eq in Hs; simpl in Hs; discriminate|rewrite upd_neq in Hs by auto].
           apply (P3 _ _ Hs).
        -- intros t'' Hne. rewrite upd_neq by auto. apply P4; auto.
      * intros Hs. destruct (iE _ I _ _ Hs) as (Q1 & Q2 & Q3 & Q4). csplit; auto.
        -- intros t'' c0 Hs2. destruct (Nat.eq_dec t'' t) as [->|Hne2]; [rewrite upd_eq in Hs2; simpl in Hs2; discriminate|rewrite upd_neq in Hs2 by auto].
           apply (Q3 _ _ Hs2).
        -- intros t'' Hne2. destruct (Nat.eq_dec t'' t) as [->|Hne3]; [rewrite upd_eq|rewrite upd_neq by auto; apply Q4; auto].
           simpl. intros [= <-]. apply (P4 t'); auto.
    + intros t'. destruct (Nat.eq_dec t' t) as [->|Hne]; [rewrite upd_eq|rewrite upd_neq by auto].
      * simpl. rewrite upd_eq. csplit; auto.
        -- change (incl (keys (published (set_heap σ a (insert_at idx (k, v) (deref σ p))) c)) (keys (insert_at idx (k, v) (deref σ p)))).
           rewrite Hpubl. unfold published. rewrite Hpubc. apply insert_keys.
        -- apply (insert_keys idx (k, v)).
      * apply pcinv_frame with (σ := σ) (a0 := a); simpl; auto.
        apply (iF _ I).
  - (* TStore: publication *)
    destruct Ft as (Hv & Hg & Hincl & Hink). destruct (Et _ eq_refl) as (P1 & P2 & P3 & P4).
    assert (Hmine : forall t' c0, t' <> t -> holds (pc σ t') = Some (mu_of c0) -> c0 <> c).
    { intros t' c0 Hne Hh ->. apply (iC1 _ IC) in Hh. pose proof (iC1 _ IC t (mu_of c)) as Ht. rewrite Hpc in Ht.
      specialize (Ht eq_refl). congruence. }
    assert (Hpubl : forall c0, c0 <> c -> published (set_pub σ c (Some a)) c0 = published σ c0).
    { intros c0 Hne. unfold published. simpl. rewrite upd_neq by auto. reflexivity. }
    assert (Hpubc : published (set_pub σ c (Some a)) c = heap σ a).
    { unfold published. simpl. rewrite upd_eq. reflexivity. }
    split; sproj.
    + intros c0 a'. destruct (Nat.eq_dec c0 c) as [->|Hne]; [rewrite upd_eq|rewrite upd_neq by auto; apply (iA _ I)].
      intros [= <-]. auto.
    + intros t' c0 a' Hs. assert (Hs' : snap (pc σ t') = Some (c0, a')).
      { destruct (Nat.eq_dec t' t) as [->|Hne]; [rewrite upd_eq in Hs; simpl in Hs; discriminate|rewrite upd_neq in Hs by auto; exact Hs]. }
      destruct (iB _ I _ _ _ Hs') as (H1 & H2 & H3). csplit; auto.
      change (incl (keys (heap σ a')) (keys (published (set_pub σ c (Some a)) c0))).
      destruct (Nat.eq_dec c0 c) as [->|Hne]; [rewrite Hpubc|rewrite Hpubl by auto; exact H3].
      eapply incl_tran; eauto.
    + intros t' c0 p0. destruct (Nat.eq_dec t' t) as [->|Hne]; [rewrite upd_eq; simpl; discriminate|rewrite upd_neq by auto].
      intros Hs. rewrite upd_neq; [apply (iD _ I _ _ _ Hs)|].
      apply (Hmine t'); auto. destruct (pc σ t'); simpl in Hs; try discriminate; injection Hs as <- <-; reflexivity.
    + intros t' a'. destruct (Nat.eq_dec t' t) as [->|Hne]; [rewrite upd_eq; simpl; discriminate|rewrite upd_neq by auto].
      intros Hs. destruct (iE _ I _ _ Hs) as (Q1 & Q2 & Q3 & Q4). csplit; auto.
      * intros c0. destruct (Nat.eq_dec c0 c) as [->|Hne2]; [rewrite upd_eq|rewrite upd_neq by auto; apply Q2].
        intros [= <-]. apply (P4 t'); auto.
      * intros t'' c0 Hs2. destruct (Nat.eq_dec t'' t) as [->|Hne2]; [rewrite upd_eq in Hs2; simpl in Hs2; discriminate|rewrite upd_neq in Hs2 by auto].
        apply (Q3 _ _ Hs2).
      * intros t'' Hne2. destruct (Nat.eq_dec t'' t) as [->|Hne3]; [rewrite upd_eq; simpl; discriminate|rewrite upd_neq by auto; apply Q4; auto].
    + intros t'. destruct (Nat.eq_dec t' t) as [->|Hne]; [rewrite upd_eq; simpl; auto|rewrite upd_neq by auto].
      pose proof (iF _ I t') as Ft'. pose proof (Hmine t') as Hm.
      destruct (pc σ t'); simpl in *; auto.
      destruct Ft' as (F1 & F2 & F3 & F4). csplit; auto.
      change (incl (keys (published (set_pub σ c (Some a)) c0)) (keys (heap σ a0))).
      rewrite Hpubl; auto.
Qed.

(* ------------------------------------------------------------------ *)
Record Inv (σ : state) : Prop := { invC : InvC σ; invG : InvG σ; invM : InvM σ }.

Lemma inv_init : Inv (init_state).
Proof.
  split; split; simpl; try discriminate; auto; try (intros; discriminate).
Qed.

Lemma inv_step σ σ' t : Inv σ -> step F t σ σ' -> Inv σ'.
Proof.
  intros [C G M] H. split; [eapply invC_step|eapply invG_step|eapply invM_step]; eauto.
Qed.

Lemma inv_reachable σ : reachable F σ -> Inv σ.
Proof. induction 1; [apply inv_init|eapply inv_step; eauto]. Qed.

Lemma inv_steps σ σ' : Inv σ -> steps F σ σ' -> Inv σ'.
Proof. intros I H. induction H as [|s s1 s2 t0 H1 IH H2]; auto. eapply inv_step; [apply IH; exact I|exact H2]. Qed.

(* ------------------------------------------------------------------ *)
(* consequences *)
Lemma sortedk_NoDup l : sortedk l -> NoDup (keys l).
Proof.
  induction l as [|a l IH]; simpl; intros H; [constructor|].
  destruct H as (Ha & Hs). constructor; auto.
  unfold keys. rewrite in_map_iff. intros (y & Hy & Hin). rewrite Forall_forall in Ha. specialize (Ha _ Hin). simpl in Ha.
  unfold key in *. rewrite Hy in Ha. apply (N.lt_irrefl _ Ha).
Qed.

Lemma inv_lemma σ : reachable F σ ->
  (forall c, sortedk (published σ c) /\ NoDup (keys (published σ c)) /\
             (forall k v, In (k, v) (published σ c) -> v = F c k)) /\
  snapshots_ok F σ /\ mutex_ok σ.
Proof.
  intros R. destruct (inv_reachable _ R) as [C G M]. csplit.
  - intros c. destruct (good_deref σ c (pub σ c) M eq_refl) as (Hs & Hf). fold (published σ c) in *.
    csplit; auto using sortedk_NoDup.
    intros k v Hin. unfold fvalued in Hf. rewrite Forall_forall in Hf. apply (Hf _ Hin).
  - intros t c a Hs. destruct (iB _ M _ _ _ Hs) as (_ & H2 & H3). auto.
  - split.
    + intros t m. split; [apply (iC1 _ C)|apply (iC2 _ C)].
    + intros t1 t2 m H1 H2. apply (iC1 _ C) in H1. apply (iC1 _ C) in H2. congruence.
Qed.

Lemma linear_lemma σ t c k v : reachable F σ -> pc σ t = TDone c k v -> v = F c k.
Proof.
  intros R Hpc. destruct (inv_reachable _ R) as [C G M]. pose proof (iF _ M t) as Ft. rewrite Hpc in Ft. exact Ft.
Qed.

Lemma monotone_step σ σ' t c : Inv σ -> step F t σ σ' -> incl (keys (published σ c)) (keys (published σ' c)).
Proof.
  intros [C G M] H.
  pose proof (iF _ M t) as Ft. pose proof (iE _ M t) as Et. pose proof (iB _ M t) as Bt.
  step_cases H Hpc; try rewrite Hpc in Ft; try rewrite Hpc in Et; try rewrite Hpc in Bt; simpl in Ft, Et, Bt; try apply incl_refl.
  - (* alloc *) unfold published, deref. simpl. destruct (pub σ c) eqn:E; [|apply incl_refl].
    destruct (iA _ M _ _ E). rewrite upd_neq by lia. apply incl_refl.
  - (* fill *) unfold published, deref. simpl. destruct (pub σ c) eqn:E; [|apply incl_refl].
    destruct (Et _ eq_refl) as (_ & P2 & _). rewrite upd_neq; [apply incl_refl|]. intros ->. apply (P2 _ E).
  - (* store *) destruct Ft as (_ & _ & Hincl & _).
    destruct (Nat.eq_dec c c0) as [->|Hne].
    + unfold published at 2. simpl. rewrite upd_eq. exact Hincl.
    + unfold published. simpl. rewrite upd_neq by auto. apply incl_refl.
Qed.

Lemma monotone_lemma σ σ' c : reachable F σ -> steps F σ σ' -> incl (keys (published σ c)) (keys (published σ' c)).
Proof.
  intros R H. apply inv_reachable in R. induction H; [apply incl_refl|].
  eapply incl_tran; [apply IHsteps; auto|]. eapply monotone_step; eauto. eapply inv_steps; eauto.
Qed.

(* deadlock freedom *)
Lemma holder_enabled σ t m : holds (pc σ t) = Some m -> enabled F σ t.
Proof.
  unfold enabled, next. destruct (pc σ t); simpl; try discriminate; intros _; exists ChNone; eexists; reflexivity.
Qed.

Lemma progress_lemma σ : reachable F σ -> forall t,
  enabled F σ t \/ exists m t', waits (pc σ t) = Some m /\ mtx σ m = Some t' /\ t' <> t /\ enabled F σ t'.
Proof.
  intros R t. destruct (inv_reachable _ R) as [C G M].
  destruct (waits (pc σ t)) as [m|] eqn:W.
  - destruct (mtx σ m) as [t'|] eqn:Em.
    + right. exists m, t'. csplit; auto.
      * intros ->. apply (iC2 _ C) in Em. destruct (pc σ t); simpl in *; discriminate.
      * eapply holder_enabled. apply (iC2 _ C). eassumption.
    + left. unfold enabled, next. destruct (pc σ t); simpl in W; try discriminate; injection W as <-; rewrite Em;
        exists ChNone; eexists; reflexivity.
  - left. unfold enabled, next. destruct (pc σ t); simpl in W; try discriminate;
      try (exists ChNone; eexists; reflexivity). exists (ChGet 0 0%N). eexists; reflexivity.
Qed.

Lemma crit_lemma σ σ' t m : step F t σ σ' -> holds (pc σ t) = Some m ->
  crit_left (pc σ t) <= 6 /\ (holds (pc σ' t) = None \/ (holds (pc σ' t) = Some m /\ crit_left (pc σ' t) < crit_left (pc σ t))).
Proof.
  intros H Hh. step_cases H Hpc; simpl in Hh; try discriminate; simpl; rewrite upd_eq; simpl; split; try lia; auto;
    right; split; auto; lia.
Qed.

(* data-race freedom *)
Lemma drf_lemma σ : reachable F σ -> ~ race σ.
Proof.
  intros R (t1 & t2 & x & y & Hne & Hx & Hy & Hc). destruct (inv_reachable _ R) as [C G M].
  unfold accesses in Hx, Hy.
  pose proof (iC1 _ C t1) as C1a. pose proof (iC1 _ C t2) as C1b.
  pose proof (iG1 _ G t1) as G1a. pose proof (iG1 _ G t2) as G1b.
  pose proof (iG2 _ G t1) as G2a. pose proof (iG2 _ G t2) as G2b.
  pose proof (iE _ M t1) as Ea. pose proof (iE _ M t2) as Eb.
  pose proof (iB _ M t1) as Ba. pose proof (iB _ M t2) as Bb.
  destruct (pc σ t1) eqn:E1; try destruct p; simpl in Hx; try tauto;
    repeat (destruct Hx as [<-|Hx]; [|try tauto]);
    (destruct (pc σ t2) eqn:E2; try destruct p; simpl in Hy; try tauto;
     repeat (destruct Hy as [<-|Hy]; [|try tauto]));
    unfold conflict in Hc; simpl in Hc; rewrite ?andb_false_r, ?andb_true_r in Hc; try discriminate Hc; simpl in *;
    try (specialize (C1a _ eq_refl); specialize (C1b _ eq_refl); congruence);
    try (specialize (G1a eq_refl); specialize (G2b (or_introl eq_refl)); congruence);
    try (specialize (G1b eq_refl); specialize (G2a (or_introl eq_refl)); congruence);
    rewrite ?andb_true_r in Hc; apply Nat.eqb_eq in Hc; subst;
    try (destruct (Ea _ eq_refl) as (_ & _ & P3 & P4); first [apply (P3 t2 c0); rewrite E2; reflexivity | apply (P4 t2); auto; rewrite E2; reflexivity]);
    try (destruct (Eb _ eq_refl) as (_ & _ & P3 & P4); first [apply (P3 t1 c); rewrite E1; reflexivity | apply (P4 t1); auto; rewrite E1; reflexivity]).
Qed.

Lemma private_lemma σ t a : reachable F σ -> priv (pc σ t) = Some a ->
  (forall c, pub σ c <> Some a) /\ (forall t' c, snap (pc σ t') <> Some (c, a)) /\ (forall t', t' <> t -> priv (pc σ t') <> Some a).
Proof. intros R H. destruct (inv_reachable _ R) as [C G M]. destruct (iE _ M _ _ H) as (_ & P). exact P. Qed.

End Inv.

(* ------------------------------------------------------------------ *)
(* the pool contract *)
Definition pinv (s : pstate) : Prop :=
  NoDup (pfree s) /\ (forall o, In o (pfree s) -> o < pnext s) /\
  (forall t, NoDup (pheld s t) /\ forall o, In o (pheld s t) -> o < pnext s /\ ~ In o (pfree s)) /\
  (forall t1 t2 o, In o (pheld s t1) -> In o (pheld s t2) -> t1 = t2).

Lemma remove1_in o x l : In x (remove1 o l) <-> In x l /\ x <> o.
Proof.
  unfold remove1. split.
  - intros H. split; [eapply in_remove; eauto|]. apply in_remove in H. tauto.
  - intros (H1 & H2). apply in_in_remove; auto.
Qed.

Lemma remove1_NoDup o l : NoDup l -> NoDup (remove1 o l).
Proof.
  induction 1 as [|a l Hn Hd IH]; simpl; [constructor|]. unfold remove1 in *. simpl.
  destruct (Nat.eq_dec o a); auto. constructor; auto. intros Hin. apply in_remove in Hin. tauto.
Qed.

Lemma existsb_eqb o l : existsb (Nat.eqb o) l = true -> In o l.
Proof. rewrite existsb_exists. intros (x & H1 & H2). apply Nat.eqb_eq in H2. subst. auto. Qed.

Lemma pinv_step s s' t ch : pinv s -> pnext_state s t ch = Some s' -> pinv s'.
Proof.
  intros (H1 & H2 & H3 & H4) H. destruct ch as [o| |o]; simpl in H.
  - destruct (existsb (Nat.eqb o) (pfree s)) eqn:E; [|discriminate]. injection H as <-. apply existsb_eqb in E.
    unfold pinv; simpl; csplit.
    + apply remove1_NoDup; auto.
    + intros x Hx. apply remove1_in in Hx. apply H2. tauto.
    + intros t'. destruct (H3 t') as (Ha & Hb). destruct (Nat.eq_dec t' t) as [->|Hne]; [rewrite upd_eq|rewrite upd_neq by auto].
      * split.
        -- constructor; auto. intros Hin. apply Hb in Hin. tauto.
        -- intros x [<-|Hx]; [split; auto; rewrite remove1_in; tauto|]. destruct (Hb _ Hx). split; auto. rewrite remove1_in. tauto.
      * split; auto. intros x Hx. destruct (Hb _ Hx). split; auto. rewrite remove1_in. tauto.
    + intros t1 t2 x. destruct (Nat.eq_dec t1 t) as [->|Hn1]; destruct (Nat.eq_dec t2 t) as [->|Hn2];
        rewrite ?upd_eq, ?upd_neq by auto; auto.
      * intros [<-|Hx] Hy; [destruct (H3 t2) as (_ & Hb); apply Hb in Hy; tauto|eauto].
      * intros Hy [<-|Hx]; [destruct (H3 t1) as (_ & Hb); apply Hb in Hy; tauto|eauto].
      * eauto.
  - injection H as <-. unfold pinv; simpl; csplit; auto.
    + intros x Hx. apply H2 in Hx. lia.
    + intros t'. destruct (H3 t') as (Ha & Hb). destruct (Nat.eq_dec t' t) as [->|Hne]; [rewrite upd_eq|rewrite upd_neq by auto].
      * split.
        -- constructor; auto. intros Hin. apply Hb in Hin. lia.
        -- intros x [<-|Hx]; [split; [lia|intros Hin; apply H2 in Hin; lia]|]. destruct (Hb _ Hx). split; auto; lia.
      * split; auto. intros x Hx. destruct (Hb _ Hx). split; auto; lia.
    + intros t1 t2 x. destruct (Nat.eq_dec t1 t) as [->|Hn1]; destruct (Nat.eq_dec t2 t) as [->|Hn2];
        rewrite ?upd_eq, ?upd_neq by auto; auto.
      * intros [<-|Hx] Hy; [destruct (H3 t2) as (_ & Hb); apply Hb in Hy; lia|eauto].
      * intros Hy [<-|Hx]; [destruct (H3 t1) as (_ & Hb); apply Hb in Hy; lia|eauto].
      * eauto.
  - destruct (existsb (Nat.eqb o) (pheld s t)) eqn:E; [|discriminate]. injection H as <-. apply existsb_eqb in E.
    destruct (H3 t) as (Hta & Htb). destruct (Htb _ E) as (Ho1 & Ho2).
    unfold pinv; simpl; csplit.
    + constructor; auto.
    + intros x [<-|Hx]; auto.
    + intros t'. destruct (H3 t') as (Ha & Hb). destruct (Nat.eq_dec t' t) as [->|Hne]; [rewrite upd_eq|rewrite upd_neq by auto].
      * split; [apply remove1_NoDup; auto|]. intros x Hx. apply remove1_in in Hx. destruct Hx as (Hx & Hxo).
        destruct (Hb _ Hx). split; auto. intros [->|Hin]; tauto.
      * split; auto. intros x Hx. destruct (Hb _ Hx). split; auto. intros [<-|Hin]; [|tauto].
        apply Hne. eapply H4; eauto.
    + intros t1 t2 x. destruct (Nat.eq_dec t1 t) as [->|Hn1]; destruct (Nat.eq_dec t2 t) as [->|Hn2];
        rewrite ?upd_eq, ?upd_neq by auto; auto; rewrite ?remove1_in; intros; eapply H4; intuition eauto.
Qed.

Lemma pinv_init : pinv pinit.
Proof.
  unfold pinv, pinit; simpl. split; [constructor|]. split; [tauto|]. split.
  - intros t. split; [constructor|tauto].
  - intros; tauto.
Qed.

Lemma pool_lemma s : preachable s ->
  forall t1 t2 o, In o (pheld s t1) -> (In o (pheld s t2) -> t1 = t2) /\ ~ In o (pfree s).
Proof.
  intros R. assert (I : pinv s).
  { induction R; [apply pinv_init|eapply pinv_step; eauto]. }
  destruct I as (H1 & H2 & H3 & H4). intros t1 t2 o Ho. split; [intros; eapply H4; eauto|]. destruct (H3 t1) as (_ & Hb). apply Hb. auto.
Qed.

Lemma src_facts_lemma :
  no_inplace_write = true /\ store_fresh = true /\ store_last = true /\ recheck_after_lock = true /\
  lock_balanced = true /\ no_foreign_call_under_lock = true /\ store_sites_only_loaders = true /\
  entry_keyed = true /\ init_double_checked = true /\ init_flag_store_last = true /\
  init_unlock_deferred = true /\ inited_writers_ok = true /\
  pool_put_after_last_use = true /\ 4 <= pool_put_sites /\
  naked_templates_copied = true /\ 7 <= naked_template_uses /\ side_coder_reset_first = true /\ 10 <= side_coder_sites /\ find_cmp_lt = true /\ find_final_eq = true /\
  3 <= loaders_checked /\ loaders_checked = finders_checked /\
  find_shift = 1 /\ find_lo_inc = 1 /\ ins_len_inc = 1 /\ ins_hi_dst = 1 /\ ins_hi_src = 0 /\ ins_lo_dst = 0 /\ ins_set = 0.
Proof. repeat apply conj; try reflexivity; apply Nat.leb_le; reflexivity. Qed.

Lemma run_reachable F sched : forall σ σ', reachable F σ -> run F σ sched = Some σ' -> reachable F σ'.
Proof.
  induction sched as [|[t ch] r IH]; simpl; intros σ σ' R H.
  - injection H as <-. exact R.
  - destruct (next F σ t ch) as [σ1|] eqn:E; [|discriminate].
    eapply IH; [|exact H]. eapply reach_step; [exact R|]. exists ch. exact E.
Qed.

Definition F0' (c : nat) (k : key) : val := (k + 100)%N.
Definition sched0' : list (nat * choice) :=
  repeat (0, ChNone) 6 ++ [(1, ChNone); (0, ChGet 1 5%N); (1, ChGet 1 5%N)] ++
  [(0, ChNone); (1, ChNone); (0, ChNone); (1, ChNone); (0, ChNone); (1, ChNone)] ++
  repeat (0, ChNone) 7 ++ repeat (1, ChNone) 4.

Lemma nonvacuous_lemma :
  exists σ, reachable F0' σ /\ pc σ 0 = TDone 1 5%N 105%N /\ pc σ 1 = TDone 1 5%N 105%N /\
            published σ 1 = [(5%N, 105%N)] /\ mtx σ 1 = None /\ inited σ = true.
Proof.
  destruct (run F0' (init_state) sched0') as [σ|] eqn:E; [|vm_compute in E; discriminate].
  exists σ. split; [eapply run_reachable; [apply reach_init|exact E]|].
  vm_compute in E. injection E as <-. vm_compute. repeat apply conj; reflexivity.
Qed.

Definition sched1' : list (nat * choice) :=
  repeat (0, ChNone) 6 ++ [(1, ChNone); (0, ChGet 1 5%N); (1, ChGet 1 5%N)] ++
  [(0, ChNone); (1, ChNone); (0, ChNone); (1, ChNone); (0, ChNone); (1, ChNone)] ++
  repeat (0, ChNone) 3.

Lemma waiting_lemma :
  exists σ, reachable F0' σ /\ waits (pc σ 1) = Some 1 /\ mtx σ 1 = Some 0.
Proof.
  destruct (run F0' (init_state) sched1') as [σ|] eqn:E; [|vm_compute in E; discriminate].
  exists σ. split; [eapply run_reachable; [apply reach_init|exact E]|].
  vm_compute in E. injection E as <-. vm_compute. split; reflexivity.
Qed.

(* ------------------------------------------------------------------ *)
(* pooled objects with state: a user that resets first never sees another thread's leftovers *)
Definition qinv (s : qstate) : Prop :=
  forall o, qready s o = true ->
    exists t, qowner s o = Some t /\ (qtaint s o = None \/ qtaint s o = Some t).

Lemma owned_by_spec s o t : owned_by s o t = true <-> qowner s o = Some t.
Proof.
  unfold owned_by. destruct (qowner s o) as [t'|]; [|split; discriminate].
  rewrite Nat.eqb_eq. split; [intros ->; reflexivity|intros [= ->]; reflexivity].
Qed.

Lemma qinv_step s s' t ch : qinv s -> qstep s t ch = Some s' -> qinv s'.
Proof.
  intros I H.
  assert (Frame : forall o o' (ow : option nat) (b : bool) tn, o' <> o ->
            upd (qready s) o b o' = true ->
            exists t0, upd (qowner s) o ow o' = Some t0 /\ (upd (qtaint s) o tn o' = None \/ upd (qtaint s) o tn o' = Some t0)).
  { intros o o' ow b tn Hne Hr. rewrite upd_neq in Hr by auto. rewrite !upd_neq by auto. apply I; exact Hr. }
  destruct ch as [o| |o|o|o]; simpl in H.
  - destruct ((o <? qnext s) && _) eqn:E; [|discriminate]. injection H as <-. intros o' Hr. simpl in *.
    destruct (Nat.eq_dec o' o) as [->|Hne]; [rewrite upd_eq in Hr; discriminate|].
    destruct (Frame o o' (Some t) false (qtaint s o) Hne Hr) as (t0 & A & B). exists t0. rewrite upd_neq in B by auto. auto.
  - injection H as <-. intros o' Hr. simpl in *.
    destruct (Nat.eq_dec o' (qnext s)) as [->|Hne]; [rewrite upd_eq in Hr; discriminate|].
    apply (Frame (qnext s) o' (Some t) false None Hne Hr).
  - destruct (owned_by s o t) eqn:E; [|discriminate]. injection H as <-. apply owned_by_spec in E. intros o' Hr. simpl in *.
    destruct (Nat.eq_dec o' o) as [->|Hne]; [rewrite upd_eq; exists t; auto|].
    destruct (Frame o o' (qowner s o) true None Hne Hr) as (t0 & A & B). exists t0. rewrite upd_neq in A by auto. auto.
  - destruct (owned_by s o t && qready s o) eqn:E; [|discriminate]. injection H as <-. apply andb_prop in E. destruct E as (E1 & E2).
    apply owned_by_spec in E1. intros o' Hr. simpl in *.
    destruct (Nat.eq_dec o' o) as [->|Hne]; [rewrite upd_eq; exists t; auto|].
    rewrite upd_neq by auto. apply I; auto.
  - destruct (owned_by s o t) eqn:E; [|discriminate]. injection H as <-. intros o' Hr. simpl in *.
    destruct (Nat.eq_dec o' o) as [->|Hne]; [rewrite upd_eq in Hr; discriminate|].
    destruct (Frame o o' None false (qtaint s o) Hne Hr) as (t0 & A & B). exists t0. rewrite upd_neq in B by auto. auto.
Qed.

Lemma pool_state_lemma s : qreachable s -> forall t o s',
  qstep s t (QUse o) = Some s' -> qowner s o = Some t /\ (qtaint s o = None \/ qtaint s o = Some t).
Proof.
  intros R. assert (I : qinv s).
  { induction R; [intros o H; discriminate|eapply qinv_step; eauto]. }
  intros t o s' H. simpl in H. destruct (owned_by s o t && qready s o) eqn:E; [|discriminate].
  apply andb_prop in E. destruct E as (E1 & E2). apply owned_by_spec in E1.
  destruct (I o E2) as (t' & Ho & Ht). rewrite E1 in Ho. injection Ho as <-. auto.
Qed.

Lemma qrun_reachable sched : forall s s', qreachable s -> qrun s sched = Some s' -> qreachable s'.
Proof.
  induction sched as [|[t ch] r IH]; simpl; intros s s' R H.
  - injection H as <-. exact R.
  - destruct (qstep s t ch) as [s1|] eqn:E; [|discriminate]. eapply IH; [|exact H]. eapply qreach_step; eauto.
Qed.

(* without the reset a user WOULD see leftovers: thread 1 holds an object still carrying thread 0's state *)
Lemma pool_leftover_lemma :
  exists s, qreachable s /\ qowner s 0 = Some 1 /\ qtaint s 0 = Some 0 /\ qready s 0 = false.
Proof.
  destruct (qrun qinit [(0, QGetNew); (0, QReset 0); (0, QUse 0); (0, QPut 0); (1, QGet 0)]) as [s|] eqn:E; [|vm_compute in E; discriminate].
  exists s. split; [eapply qrun_reachable; [apply qreach_init|exact E]|].
  vm_compute in E. injection E as <-. vm_compute. repeat apply conj; reflexivity.
Qed.

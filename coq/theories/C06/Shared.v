(* C06 — package-level state reachable by every goroutine besides the published caches (model part; no proofs here).

   1. Pooled scratch objects (package-level sync.Pool: poolForTypeInfoLoad -> typeInfoLoad, pool4SFIs ->
      uint8To32TrieNode).  An object comes out of the pool as its last user left it, whoever that was (any
      goroutine, any Handle, any TypeInfos).  Its state is a content per field; 0 is what a new object holds.
      reset writes 0 into the fields the translator saw it assign (Gen/SharedState.v) and leaves the others.
   2. Views of package-level arrays held in package-level variables (zeroByteSlice = oneByteArr[:0:0]).  The
      library hands such a view out as a result; whoever holds a slice (len, cap) can reslice it up to cap and
      write every index below: those cells are addressable by all holders at once. *)
From Coq Require Import String List ZArith NArith Bool.
From Verif Require Import Gen.SharedState.
Import ListNotations.
Open Scope string_scope.

Definition sstate := string -> N.
Definition snew : sstate := fun _ => 0%N.

Definition smem (f : string) (l : list string) : bool := existsb (String.eqb f) l.

Definition sreset (assigned : list string) (s : sstate) : sstate :=
  fun f => if smem f assigned then 0%N else s f.

(* storage that is kept on purpose and never read before it is overwritten: the kids array of a trie node is only
   read below numkids, which reset sets to 0 (expandKids re-initialises a kid with reset before use) *)
Definition scratch_neutral : list (string * string) := [("uint8To32TrieNode", "kids")].

Definition sobserved (p : pscratch) : list string :=
  filter (fun f => negb (existsb (fun n => String.eqb (fst n) (ps_type p) && String.eqb (snd n) f) scratch_neutral))
         (ps_declared p).

(* what a user of the object can observe of a state *)
Definition sview_of (p : pscratch) (s : sstate) : list N := map s (sobserved p).

Definition scratch_ok (p : pscratch) : bool :=
  forallb (fun f => smem f (ps_reset p)) (sobserved p) && ps_reset_between_get_put p && Nat.leb 1 (ps_get_sites p).

(* cells of the shared backing array a holder of the view can write (after reslicing within its capacity) *)
Definition addressable (v : sview) (i : Z) : bool := (0 <=? i)%Z && (i <? sv_cap v)%Z.

Definition empty_views : list sview := filter (fun v => (sv_len v =? 0)%Z) shared_views.

Definition view_ok (v : sview) : bool := (sv_cap v =? 0)%Z.

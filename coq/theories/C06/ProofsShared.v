(* C06 — lemmas about C06/Shared.v on the facts of the current source (Gen/SharedState.v). *)
From Coq Require Import String List ZArith NArith Bool Lia.
From Verif Require Import Gen.SharedState C06.Shared.
Import ListNotations.
Open Scope string_scope.

Lemma scratch_all_ok : forallb scratch_ok pooled_scratch = true.
Proof. vm_compute. reflexivity. Qed.

(* after reset, whatever the last user left, the object looks like a new one; and every site that takes an object
   out of the pool does reset it before giving it back (so also before its own use or before the next user's) *)
Lemma scratch_reset_lemma : forall p, In p pooled_scratch ->
  (forall s, sview_of p (sreset (ps_reset p) s) = sview_of p snew) /\
  ps_reset_between_get_put p = true /\ (1 <= ps_get_sites p)%nat.
Proof.
  intros p Hin.
  pose proof (proj1 (forallb_forall _ _) scratch_all_ok p Hin) as Hok.
  unfold scratch_ok in Hok.
  apply andb_true_iff in Hok. destruct Hok as [Hok Hsites].
  apply andb_true_iff in Hok. destruct Hok as [Hall Hbetween].
  split; [| split].
  - intro s. unfold sview_of. apply map_ext_in. intros f Hf.
    pose proof (proj1 (forallb_forall _ _) Hall f Hf) as Hm.
    unfold sreset, snew. rewrite Hm. reflexivity.
  - exact Hbetween.
  - apply Nat.leb_le. exact Hsites.
Qed.

(* the reset is needed and must be complete: a reset that skips one observed field lets a leftover through *)
Lemma scratch_partial_lemma :
  exists p s, In p pooled_scratch /\ ps_type p = "typeInfoLoad" /\
              sview_of p (sreset ["sfis"; "sfiNames"] s) <> sview_of p snew.
Proof.
  exists (mkPS "poolForTypeInfoLoad" "typeInfoLoad" ["etypes"; "sfis"; "sfiNames"] ["etypes"; "sfiNames"; "sfis"] 1 true).
  exists (fun f => if String.eqb f "etypes" then 2%N else 0%N).
  split; [vm_compute; auto | split; [reflexivity |]].
  vm_compute. discriminate.
Qed.

Lemma views_all_ok : forallb view_ok empty_views = true /\ (1 <= length empty_views)%nat.
Proof. split; [vm_compute; reflexivity | vm_compute; lia]. Qed.

(* nothing of a package-level array is addressable through an empty view the library hands out *)
Lemma shared_views_lemma :
  (forall v, In v shared_views -> sv_len v = 0%Z -> forall i, addressable v i = false) /\
  (exists v, In v shared_views /\ sv_len v = 0%Z).
Proof.
  split.
  - intros v Hin Hlen i.
    assert (Hev : In v empty_views).
    { unfold empty_views. apply filter_In. split; [exact Hin |]. apply Z.eqb_eq. exact Hlen. }
    pose proof (proj1 (forallb_forall _ _) (proj1 views_all_ok) v Hev) as Hok.
    unfold view_ok in Hok. apply Z.eqb_eq in Hok.
    unfold addressable. rewrite Hok.
    destruct (0 <=? i)%Z eqn:E1; [| reflexivity].
    destruct (i <? 0)%Z eqn:E2; [| reflexivity].
    apply Z.leb_le in E1. apply Z.ltb_lt in E2. lia.
  - pose proof (proj2 views_all_ok) as Hn.
    destruct empty_views as [| v l] eqn:E; [simpl in Hn; lia |].
    exists v.
    assert (Hev : In v empty_views) by (rewrite E; left; reflexivity).
    unfold empty_views in Hev. apply filter_In in Hev. destruct Hev as [Hin Hl].
    split; [exact Hin | apply Z.eqb_eq; exact Hl].
Qed.

(* a view of capacity 1 (oneByteArr[:0]) would make the array's cell writable by every holder *)
Lemma shared_view_cap1_lemma : addressable (mkSV "zeroByteSlice" "oneByteArr" 0 1) 0 = true.
Proof. reflexivity. Qed.

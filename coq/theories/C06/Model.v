(* C06 — small-step interleaving model of the publication protocol of the per-Handle caches.

   What is modelled (read from /repo/codec):
   * TypeInfos.get/find/load (helper.go), enc/decFnVia + enc/decFnViaLoader (encode.go, decode.go and the 20
     monomorphised copies): atomic load of a sorted slice, binary search on the immutable snapshot, compute the
     value outside any lock, Lock, re-load, re-search, copy-insert into a FRESH slice, atomic store, Unlock.
     Cache 0 is TypeInfos.infos (mutex TypeInfos.mu); caches 1.. are the rtidFns* slices, which all share the
     Handle's mutex (basicHandleRuntimeState.mu).
   * initHandle/initHandle2: atomic load of BasicHandle.inited, handleInitMu, re-check, plain writes of the
     handle's derived configuration, atomic store of the flag as the last statement, deferred Unlock (basicInit
     may panic).
   * sync.Pool of side encoders/decoders, as its contract only (second, independent system at the end).

   Atomic steps = one shared-memory action each.  Go guarantee relied on: sync/atomic operations and
   sync.Mutex behave sequentially consistently (Go memory model, "atomic operations behave as though executed
   in some sequentially consistent order"), hence an interleaving semantics is the right model for them.  What
   the model does NOT cover: the Go memory model for plain accesses (that is what C06_drf is for: it shows
   there are no conflicting plain accesses, so the DRF-SC guarantee applies), the scheduler, sync.Pool
   internals.

   The value computed for key k in cache c is [F c k]; nested look-ups made while computing it (element types,
   tinfos.get inside encFnLoad) happen before Lock (translator fact no_foreign_call_under_lock) and are therefore
   the same as separate gets by the same thread.

   The index arithmetic of the search and of the insert uses the numbers the translator extracts from the
   current source (Gen/Cache.v).  No proofs in this file. *)
From Coq Require Import List NArith Arith Bool.
From Verif Require Import Gen.Cache.
Import ListNotations.

Definition key := N.          (* rtid (uintptr) *)
Definition val := N.          (* identity of the computed *typeInfo / *encFn / *decFn content *)
Definition entry := (key * val)%type.
Definition arr := list entry.
Definition zero : entry := (0%N, 0%N).

(* ---- binary search (findTypeInfo / encFindRtidFn / decFindRtidFn) ----
   i, j, h are Go uints; len(s) <= MaxInt so i+j < 2^64 and nat arithmetic is exact. *)
Fixpoint bs_loop (fuel : nat) (s : arr) (k : key) (i j : nat) : option nat :=
  match fuel with
  | 0 => None
  | S f =>
      if i <? j then
        let h := Nat.shiftr (i + j) find_shift in
        if (fst (nth h s zero) <? k)%N then bs_loop f s k (h + find_lo_inc) j else bs_loop f s k i h
      else Some i
  end.

(* (index, found value); an exhausted fuel would give the out-of-range index length+1 *)
Definition bsearch (s : arr) (k : key) : nat * option val :=
  match bs_loop (S (length s)) s k 0 (length s) with
  | None => (S (length s), None)
  | Some i =>
      (i, if (i <? length s) && (fst (nth i s zero) =? k)%N then Some (snd (nth i s zero)) else None)
  end.

(* ---- copy-insert, with Go's copy semantics ---- *)
Definition gocopy {A} (dst : list A) (off : nat) (src : list A) : list A :=
  let n := Nat.min (length dst - off) (length src) in
  firstn off dst ++ firstn n src ++ skipn (off + n) dst.

Definition setnth {A} (l : list A) (i : nat) (x : A) : list A :=
  if i <? length l then firstn i l ++ x :: skipn (S i) l else l.

(* copy(sp2[idx+hi_dst:], sp[idx+hi_src:]); copy(sp2[lo_dst:], sp[:idx]); sp2[idx+set] = e *)
Definition fill (idx : nat) (e : entry) (old dst : arr) : arr :=
  let d1 := gocopy dst (idx + ins_hi_dst) (skipn (idx + ins_hi_src) old) in
  let d2 := gocopy d1 ins_lo_dst (firstn idx old) in
  setnth d2 (idx + ins_set) e.

(* ---- threads ---- *)
Inductive tpc :=
| TNew                                   (* about to call initHandle *)
| TInitWant                              (* saw inited = 0; waiting for handleInitMu *)
| TInitLocked                            (* holds handleInitMu; about to re-check the flag (plain read) *)
| TInitWrite                             (* flag was 0: writes jsonHandle, binaryHandle, timeBuiltin, pool.New *)
| TInitStore                             (* atomic.StoreUint32(&x.inited, 1) *)
| TInitUnlock (ok : bool)                (* deferred Unlock; ok = false: basicInit panicked *)
| TIdle                                  (* handle initialised; between look-ups *)
| TLoad1 (c : nat) (k : key)             (* atomic load of the published slice *)
| TSearch1 (c : nat) (k : key) (p : option nat)
| TCompute (c : nat) (k : key)
| TLock (c : nat) (k : key) (v : val)
| TLoad2 (c : nat) (k : key) (v : val)
| TSearch2 (c : nat) (k : key) (v : val) (p : option nat)
| TAlloc (c : nat) (k : key) (v : val) (p : option nat) (idx : nat)
| TFill (c : nat) (k : key) (v : val) (p : option nat) (idx : nat) (a : nat)
| TStore (c : nat) (k : key) (v : val) (a : nat)
| TUnlock (c : nat) (k : key) (v : val)
| TDone (c : nat) (k : key) (v : val).   (* get k returned v *)

Definition mu_of (c : nat) : nat := match c with 0 => 0 | _ => 1 end.
Definition init_mu : nat := 2.

Record state := mkSt {
  heap : nat -> arr;            (* backing arrays by allocation id (plain memory) *)
  nalloc : nat;                 (* next allocation id *)
  pub : nat -> option nat;      (* cache -> published array (atomic pointer; None = nil) *)
  mtx : nat -> option nat;      (* mutex -> holder *)
  inited : bool;                (* BasicHandle.inited *)
  cfg : bool;                   (* the handle's derived configuration has been written (plain memory) *)
  pc : nat -> tpc }.

Definition upd {A} (f : nat -> A) (i : nat) (x : A) : nat -> A :=
  fun j => if Nat.eqb j i then x else f j.

Definition set_pc σ t x := mkSt (heap σ) (nalloc σ) (pub σ) (mtx σ) (inited σ) (cfg σ) (upd (pc σ) t x).
Definition set_mtx σ m x := mkSt (heap σ) (nalloc σ) (pub σ) (upd (mtx σ) m x) (inited σ) (cfg σ) (pc σ).
Definition set_pub σ c x := mkSt (heap σ) (nalloc σ) (upd (pub σ) c x) (mtx σ) (inited σ) (cfg σ) (pc σ).
Definition set_heap σ a l := mkSt (upd (heap σ) a l) (nalloc σ) (pub σ) (mtx σ) (inited σ) (cfg σ) (pc σ).
Definition set_inited σ b := mkSt (heap σ) (nalloc σ) (pub σ) (mtx σ) b (cfg σ) (pc σ).
Definition set_cfg σ b := mkSt (heap σ) (nalloc σ) (pub σ) (mtx σ) (inited σ) b (pc σ).
Definition alloc σ n := mkSt (upd (heap σ) (nalloc σ) (repeat zero n)) (S (nalloc σ)) (pub σ) (mtx σ) (inited σ) (cfg σ) (pc σ).

Definition deref σ (p : option nat) : arr := match p with Some a => heap σ a | None => [] end.

(* TypeInfos.load returns the entry it found under the lock; the rtidFns loaders return their own value *)
Definition ret (c : nat) (own found : val) : val := match c with 0 => found | _ => own end.

(* nondeterministic input of a step *)
Inductive choice := ChNone | ChGet (c : nat) (k : key) | ChPanic.

Section Sem.
Variable F : nat -> key -> val.

(* one atomic step of thread t; None = not enabled *)
Definition next (σ : state) (t : nat) (ch : choice) : option state :=
  match pc σ t with
  | TNew => Some (set_pc σ t (if inited σ then TIdle else TInitWant))
  | TInitWant =>
      match mtx σ init_mu with
      | None => Some (set_pc (set_mtx σ init_mu (Some t)) t TInitLocked)
      | Some _ => None
      end
  | TInitLocked => Some (set_pc σ t (if inited σ then TInitUnlock true else TInitWrite))
  | TInitWrite => Some (set_pc (set_cfg σ true) t (match ch with ChPanic => TInitUnlock false | _ => TInitStore end))
  | TInitStore => Some (set_pc (set_inited σ true) t (TInitUnlock true))
  | TInitUnlock ok => Some (set_pc (set_mtx σ init_mu None) t (if ok then TIdle else TNew))
  | TIdle => match ch with ChGet c k => Some (set_pc σ t (TLoad1 c k)) | _ => None end
  | TLoad1 c k => Some (set_pc σ t (TSearch1 c k (pub σ c)))
  | TSearch1 c k p =>
      Some (set_pc σ t (match snd (bsearch (deref σ p) k) with Some v => TDone c k v | None => TCompute c k end))
  | TCompute c k => Some (set_pc σ t (TLock c k (F c k)))
  | TLock c k v =>
      match mtx σ (mu_of c) with
      | None => Some (set_pc (set_mtx σ (mu_of c) (Some t)) t (TLoad2 c k v))
      | Some _ => None
      end
  | TLoad2 c k v => Some (set_pc σ t (TSearch2 c k v (pub σ c)))
  | TSearch2 c k v p =>
      Some (set_pc σ t (match snd (bsearch (deref σ p) k) with
                        | Some v2 => TUnlock c k (ret c v v2)
                        | None => TAlloc c k v p (fst (bsearch (deref σ p) k))
                        end))
  | TAlloc c k v p idx => Some (set_pc (alloc σ (length (deref σ p) + ins_len_inc)) t (TFill c k v p idx (nalloc σ)))
  | TFill c k v p idx a => Some (set_pc (set_heap σ a (fill idx (k, v) (deref σ p) (heap σ a))) t (TStore c k v a))
  | TStore c k v a => Some (set_pc (set_pub σ c (Some a)) t (TUnlock c k v))
  | TUnlock c k v => Some (set_pc (set_mtx σ (mu_of c) None) t (TDone c k v))
  | TDone c k v => Some (set_pc σ t TIdle)
  end.

Definition step (t : nat) (σ σ' : state) : Prop := exists ch, next σ t ch = Some σ'.

Definition init_state : state :=
  mkSt (fun _ => []) 0 (fun _ => None) (fun _ => None) false false (fun _ => TNew).

Inductive reachable : state -> Prop :=
| reach_init : reachable init_state
| reach_step σ σ' t : reachable σ -> step t σ σ' -> reachable σ'.

Inductive steps : state -> state -> Prop :=
| steps_refl σ : steps σ σ
| steps_step σ σ' σ'' t : steps σ σ' -> step t σ' σ'' -> steps σ σ''.

(* run a schedule (for examples) *)
Fixpoint run (σ : state) (sched : list (nat * choice)) : option state :=
  match sched with
  | [] => Some σ
  | (t, ch) :: r => match next σ t ch with Some σ' => run σ' r | None => None end
  end.

Definition enabled (σ : state) (t : nat) : Prop := exists ch σ', next σ t ch = Some σ'.

End Sem.

(* ---- what a thread holds / waits for / references ---- *)
Definition holds (x : tpc) : option nat :=
  match x with
  | TInitLocked | TInitWrite | TInitStore | TInitUnlock _ => Some init_mu
  | TLoad2 c _ _ | TSearch2 c _ _ _ | TAlloc c _ _ _ _ | TFill c _ _ _ _ _ | TStore c _ _ _ | TUnlock c _ _ => Some (mu_of c)
  | _ => None
  end.

Definition waits (x : tpc) : option nat :=
  match x with TInitWant => Some init_mu | TLock c _ _ => Some (mu_of c) | _ => None end.

(* the snapshot (loaded slice) a thread holds: (cache, array) *)
Definition snap (x : tpc) : option (nat * nat) :=
  match x with
  | TSearch1 c _ (Some a) | TSearch2 c _ _ (Some a) | TAlloc c _ _ (Some a) _ | TFill c _ _ (Some a) _ _ => Some (c, a)
  | _ => None
  end.

(* the array a thread has allocated and not yet published *)
Definition priv (x : tpc) : option nat :=
  match x with TFill _ _ _ _ _ a | TStore _ _ _ a => Some a | _ => None end.

Definition postinit (x : tpc) : bool :=
  match x with TNew | TInitWant | TInitLocked | TInitWrite | TInitStore | TInitUnlock _ => false | _ => true end.

(* steps left before the mutex is released *)
Definition crit_left (x : tpc) : nat :=
  match x with
  | TInitLocked => 4 | TInitWrite => 3 | TInitStore => 2 | TInitUnlock _ => 1
  | TLoad2 _ _ _ => 6 | TSearch2 _ _ _ _ => 5 | TAlloc _ _ _ _ _ => 4 | TFill _ _ _ _ _ _ => 3 | TStore _ _ _ _ => 2 | TUnlock _ _ _ => 1
  | _ => 0
  end.

(* ---- sortedness, keys ---- *)
Definition keys (l : arr) : list key := map fst l.

Fixpoint sortedk (l : arr) : Prop :=
  match l with
  | [] => True
  | x :: r => Forall (fun y => (fst x < fst y)%N) r /\ sortedk r
  end.

Definition fvalued (F : nat -> key -> val) (c : nat) (l : arr) : Prop := Forall (fun e => snd e = F c (fst e)) l.

Definition good (F : nat -> key -> val) (c : nat) (l : arr) : Prop := sortedk l /\ fvalued F c l.

Definition published σ (c : nat) : arr := deref σ (pub σ c).


(* every snapshot a thread holds is a well-formed array whose keys are still published *)
Definition snapshots_ok (F : nat -> key -> val) (σ : state) : Prop :=
  forall t c a, snap (pc σ t) = Some (c, a) ->
    good F c (heap σ a) /\ incl (keys (heap σ a)) (keys (published σ c)).

(* a mutex is held exactly by the thread that is inside its critical section; never by two *)
Definition mutex_ok (σ : state) : Prop :=
  (forall t m, holds (pc σ t) = Some m <-> mtx σ m = Some t) /\
  (forall t1 t2 m, holds (pc σ t1) = Some m -> holds (pc σ t2) = Some m -> t1 = t2).

(* ---- memory accesses of the next step of a thread (for data-race freedom) ---- *)
Inductive loc := LArr (a : nat) | LCfg | LInited | LPub (c : nat).
Record access := Acc { aloc : loc; awrite : bool; aatomic : bool }.

Definition accesses (σ : state) (t : nat) : list access :=
  match pc σ t with
  | TNew => [Acc LInited false true]
  | TInitLocked => [Acc LInited false false]           (* if x.inited != 0 : plain read under the mutex *)
  | TInitWrite => [Acc LCfg true false]
  | TInitStore => [Acc LInited true true]
  | TIdle => [Acc LCfg false false]                    (* every operation reads the handle's configuration *)
  | TCompute _ _ => [Acc LCfg false false]
  | TLoad1 c _ => [Acc (LPub c) false true]
  | TLoad2 c _ _ => [Acc (LPub c) false true]
  | TSearch1 _ _ (Some a) => [Acc (LArr a) false false]
  | TSearch2 _ _ _ (Some a) => [Acc (LArr a) false false]
  | TFill _ _ _ p _ a => Acc (LArr a) true false :: match p with Some b => [Acc (LArr b) false false] | None => [] end
  | TStore c _ _ _ => [Acc (LPub c) true true]
  | _ => []
  end.

Definition loc_eqb (x y : loc) : bool :=
  match x, y with
  | LArr a, LArr b => Nat.eqb a b
  | LCfg, LCfg => true
  | LInited, LInited => true
  | LPub a, LPub b => Nat.eqb a b
  | _, _ => false
  end.

(* two accesses conflict: same location, one writes, not both atomic *)
Definition conflict (x y : access) : bool :=
  loc_eqb (aloc x) (aloc y) && (awrite x || awrite y) && negb (aatomic x && aatomic y).

Definition race (σ : state) : Prop :=
  exists t1 t2 x y, t1 <> t2 /\ In x (accesses σ t1) /\ In y (accesses σ t2) /\ conflict x y = true.

(* ---- boolean invariant, evaluated on snapshots of the real caches (Corr.v) ---- *)
Fixpoint sortedb (l : list key) : bool :=
  match l with
  | x :: ((y :: _) as r) => (x <? y)%N && sortedb r
  | _ => true
  end.

(* sequential reference: get every key in order on one thread-free cache *)
Definition seq_get (l : arr) (k : key) (v : val) : arr :=
  match bsearch l k with
  | (_, Some _) => l
  | (idx, None) => fill idx (k, v) l (repeat zero (length l + ins_len_inc))
  end.

(* ---- sync.Pool contract: an object is handed to one goroutine at a time ---- *)
Record pstate := mkP { pfree : list nat; pnext : nat; pheld : nat -> list nat }.
Inductive pchoice := PGetFree (o : nat) | PGetNew | PPut (o : nat).

Definition remove1 (o : nat) (l : list nat) : list nat := remove Nat.eq_dec o l.

Definition pnext_state (s : pstate) (t : nat) (ch : pchoice) : option pstate :=
  match ch with
  | PGetFree o => if existsb (Nat.eqb o) (pfree s)
                  then Some (mkP (remove1 o (pfree s)) (pnext s) (upd (pheld s) t (o :: pheld s t))) else None
  | PGetNew => Some (mkP (pfree s) (S (pnext s)) (upd (pheld s) t (pnext s :: pheld s t)))
  | PPut o => if existsb (Nat.eqb o) (pheld s t)
              then Some (mkP (o :: pfree s) (pnext s) (upd (pheld s) t (remove1 o (pheld s t)))) else None
  end.

Definition pinit : pstate := mkP [] 0 (fun _ => []).

Inductive preachable : pstate -> Prop :=
| preach_init : preachable pinit
| preach_step s s' t ch : preachable s -> pnext_state s t ch = Some s' -> preachable s'.

(* ---- pooled objects carry state (side encoders/decoders: err, ci, calls, symbols, writer ...) ----
   sync.Pool hands out whatever object was put back last, in whatever state its last user left it (an
   operation may have aborted inside it).  The discipline of the code: every user resets the object
   (ResetBytes) before its first use (translator fact side_coder_reset_first), and that reset restores every
   behaviour-relevant field (C12_fields over Gen/Reset.v).
   qowner: object -> holder (None = in the pool / not yet made); qtaint: None = initial state, Some t = carries
   state written by thread t; qready: reset by its holder since it was taken. *)
Record qstate := mkQ { qowner : nat -> option nat; qnext : nat; qtaint : nat -> option nat; qready : nat -> bool }.
Inductive qchoice := QGet (o : nat) | QGetNew | QReset (o : nat) | QUse (o : nat) | QPut (o : nat).

Definition owned_by (s : qstate) (o t : nat) : bool :=
  match qowner s o with Some t' => Nat.eqb t' t | None => false end.

Definition qstep (s : qstate) (t : nat) (ch : qchoice) : option qstate :=
  match ch with
  | QGet o =>
      if (o <? qnext s) && match qowner s o with None => true | Some _ => false end
      then Some (mkQ (upd (qowner s) o (Some t)) (qnext s) (qtaint s) (upd (qready s) o false)) else None
  | QGetNew =>
      Some (mkQ (upd (qowner s) (qnext s) (Some t)) (S (qnext s)) (upd (qtaint s) (qnext s) None) (upd (qready s) (qnext s) false))
  | QReset o =>
      if owned_by s o t then Some (mkQ (qowner s) (qnext s) (upd (qtaint s) o None) (upd (qready s) o true)) else None
  | QUse o =>                                    (* the use reads and writes the object's state; it may abort half-way *)
      if owned_by s o t && qready s o then Some (mkQ (qowner s) (qnext s) (upd (qtaint s) o (Some t)) (qready s)) else None
  | QPut o =>                                    (* back to the pool as it is: nobody cleans it on the way in *)
      if owned_by s o t then Some (mkQ (upd (qowner s) o None) (qnext s) (qtaint s) (upd (qready s) o false)) else None
  end.

Definition qinit : qstate := mkQ (fun _ => None) 0 (fun _ => None) (fun _ => false).

Inductive qreachable : qstate -> Prop :=
| qreach_init : qreachable qinit
| qreach_step s s' t ch : qreachable s -> qstep s t ch = Some s' -> qreachable s'.

Fixpoint qrun (s : qstate) (sched : list (nat * qchoice)) : option qstate :=
  match sched with
  | [] => Some s
  | (t, ch) :: r => match qstep s t ch with Some s' => qrun s' r | None => None end
  end.

(* C06 — list-level lemmas: sortedness, the binary search, the copy-insert. *)
From Coq Require Import List NArith ZArith Arith Lia Bool.
From Coq Require Import ZifyN ZifyNat ZifyBool.
From Verif Require Import Gen.Cache C06.Model.
Import ListNotations.
Ltac Zify.zify_post_hook ::= Z.div_mod_to_equations.

(* ---- the translator's numbers, as the proofs need them ---- *)
Lemma gen_numbers :
  find_shift = 1 /\ find_lo_inc = 1 /\ ins_len_inc = 1 /\ ins_hi_dst = 1 /\ ins_hi_src = 0 /\ ins_lo_dst = 0 /\ ins_set = 0.
Proof. repeat apply conj; reflexivity. Qed.

(* ---- sortedk ---- *)
Lemma sortedk_app l1 l2 :
  sortedk (l1 ++ l2) <-> sortedk l1 /\ sortedk l2 /\ (forall x y, In x l1 -> In y l2 -> (fst x < fst y)%N).
Proof.
  induction l1 as [|a l1 IH]; simpl.
  - split; [intros H; repeat apply conj; auto; intros x y []|intros (_ & H & _); exact H].
  - rewrite Forall_app, IH. split.
    + intros ((Ha1 & Ha2) & Hs1 & Hs2 & Hx). repeat apply conj; auto.
      intros x y [<-|Hin] Hy; [rewrite Forall_forall in Ha2; auto|auto].
    + intros ((Ha1 & Hs1) & Hs2 & Hx). repeat apply conj; auto.
      rewrite Forall_forall. intros y Hy. apply Hx; auto.
Qed.

Lemma sortedk_nth l : sortedk l -> forall i j, i < j -> j < length l -> (fst (nth i l zero) < fst (nth j l zero))%N.
Proof.
  induction l as [|a l IH]; simpl; intros Hs i j Hij Hj; [lia|].
  destruct Hs as (Ha & Hs). destruct j as [|j]; [lia|]. destruct i as [|i].
  - rewrite Forall_forall in Ha. apply Ha. apply nth_In. lia.
  - apply IH; auto; lia.
Qed.

Lemma In_firstn_nth {A} (d : A) (l : list A) i e : In e (firstn i l) -> exists x, x < i /\ x < length l /\ nth x l d = e.
Proof.
  revert i. induction l as [|a l IH]; intros [|i]; simpl; try tauto.
  intros [<-|Hin]; [exists 0; repeat apply conj; auto; lia|].
  destruct (IH _ Hin) as (x & H1 & H2 & H3). exists (S x). repeat apply conj; auto; lia.
Qed.

Lemma In_skipn_nth {A} (d : A) (l : list A) i e : In e (skipn i l) -> exists x, i <= x /\ x < length l /\ nth x l d = e.
Proof.
  revert i. induction l as [|a l IH]; intros [|i]; try (simpl; tauto).
  - rewrite skipn_O. intros Hin. destruct (In_nth _ _ d Hin) as (x & H1 & H2). exists x. repeat apply conj; auto; lia.
  - simpl. intros Hin. destruct (IH _ Hin) as (x & H1 & H2 & H3). exists (S x). repeat apply conj; auto; lia.
Qed.

(* ---- binary search ---- *)
Lemma bs_loop_total fuel : forall s k i j, i <= j -> j - i < fuel ->
  exists r, bs_loop fuel s k i j = Some r /\ i <= r /\ r <= j.
Proof.
  induction fuel as [|f IH]; intros s k i j Hij Hf; [lia|].
  simpl. destruct (Nat.ltb_spec i j) as [Hlt|Hge].
  - unfold find_shift, find_lo_inc. simpl Nat.shiftr. rewrite Nat.div2_div.
    destruct (fst (nth ((i + j) / 2) s zero) <? k)%N.
    + destruct (IH s k ((i + j) / 2 + 1) j) as (r & H1 & H2 & H3); try lia. exists r. repeat apply conj; auto; lia.
    + destruct (IH s k i ((i + j) / 2)) as (r & H1 & H2 & H3); try lia. exists r. repeat apply conj; auto; lia.
  - exists i. repeat apply conj; auto; lia.
Qed.

Lemma bs_loop_spec fuel : forall s k i j, sortedk s -> i <= j -> j <= length s -> j - i < fuel ->
  (forall x, x < i -> (fst (nth x s zero) < k)%N) ->
  (forall x, j <= x -> x < length s -> (k <= fst (nth x s zero))%N) ->
  exists r, bs_loop fuel s k i j = Some r /\ r <= length s /\
    (forall x, x < r -> (fst (nth x s zero) < k)%N) /\
    (forall x, r <= x -> x < length s -> (k <= fst (nth x s zero))%N).
Proof.
  induction fuel as [|f IH]; intros s k i j Hs Hij Hj Hf Hlo Hhi; [lia|].
  simpl. destruct (Nat.ltb_spec i j) as [Hlt|Hge].
  - unfold find_shift, find_lo_inc. simpl Nat.shiftr. rewrite Nat.div2_div.
    set (h := (i + j) / 2). assert (Hh : i <= h /\ h < j) by (unfold h; lia).
    destruct (N.ltb_spec (fst (nth h s zero)) k) as [Hk|Hk].
    + apply IH; auto; try lia.
      intros x Hx. destruct (Nat.eq_dec x h) as [->|Hne]; [exact Hk|].
      pose proof (sortedk_nth s Hs x h ltac:(lia) ltac:(lia)). lia.
    + apply IH; auto; try lia.
      intros x Hx Hxl. destruct (Nat.eq_dec x h) as [->|Hne]; [exact Hk|].
      pose proof (sortedk_nth s Hs h x ltac:(lia) ltac:(lia)). lia.
  - exists i. assert (i = j) by lia. subst j. repeat apply conj; auto.
Qed.

(* the search never runs out of fuel, on any slice *)
Lemma bsearch_total s k : fst (bsearch s k) <= length s.
Proof.
  unfold bsearch. destruct (bs_loop_total (S (length s)) s k 0 (length s)) as (r & H1 & H2 & H3); try lia.
  rewrite H1. simpl. exact H3.
Qed.

Lemma bsearch_spec s k : sortedk s ->
  let i := fst (bsearch s k) in let r := snd (bsearch s k) in
  i <= length s /\
  (forall e, In e (firstn i s) -> (fst e < k)%N) /\
  (forall e, In e (skipn i s) -> (k <= fst e)%N) /\
  (forall v, r = Some v -> In (k, v) s) /\
  (r = None -> ~ In k (keys s)).
Proof.
  intros Hs. unfold bsearch.
  destruct (bs_loop_spec (S (length s)) s k 0 (length s) Hs) as (i & H1 & H2 & H3 & H4); try lia.
  rewrite H1. cbn [fst snd]. repeat apply conj.
  - exact H2.
  - intros e He. destruct (In_firstn_nth zero _ _ _ He) as (x & Hx1 & Hx2 & <-). auto.
  - intros e He. destruct (In_skipn_nth zero _ _ _ He) as (x & Hx1 & Hx2 & <-). auto.
  - intros v. destruct (Nat.ltb_spec i (length s)) as [Hi|Hi]; simpl; [|discriminate].
    destruct (N.eqb_spec (fst (nth i s zero)) k) as [Hk|Hk]; [|discriminate].
    intros [= <-]. rewrite <- Hk, <- surjective_pairing. apply nth_In. exact Hi.
  - intros Hr Hin. unfold keys in Hin. rewrite in_map_iff in Hin. destruct Hin as (e & Hek & Hin).
    destruct (In_nth _ _ zero Hin) as (x & Hx & Hnx).
    destruct (Nat.lt_ge_cases x i) as [Hlt|Hge].
    + specialize (H3 x Hlt). rewrite Hnx, Hek in H3. lia.
    + assert (Hi : i < length s) by lia.
      destruct (Nat.ltb_spec i (length s)); [|lia]. simpl in Hr.
      destruct (N.eqb_spec (fst (nth i s zero)) k) as [Hk|Hk]; [discriminate|].
      destruct (Nat.eq_dec x i) as [->|Hne]; [rewrite Hnx in Hk; contradiction|].
      pose proof (sortedk_nth s Hs i x ltac:(lia) ltac:(lia)) as Hlt. rewrite Hnx, Hek in Hlt.
      specialize (H4 i (le_n _) Hi). lia.
Qed.

(* ---- the insert ---- *)
Definition insert_at (idx : nat) (e : entry) (l : arr) : arr := firstn idx l ++ e :: skipn idx l.

Lemma firstn_repeat {A} (z : A) n m : n <= m -> firstn n (repeat z m) = repeat z n.
Proof.
  revert m. induction n as [|n IH]; intros m H; [reflexivity|].
  destruct m as [|m]; [lia|]. simpl. f_equal. apply IH. lia.
Qed.

Lemma skipn_repeat {A} (z : A) n m : skipn n (repeat z m) = repeat z (m - n).
Proof.
  revert m. induction n as [|n IH]; intros m; [now rewrite Nat.sub_0_r|].
  destruct m as [|m]; [reflexivity|]. simpl. apply IH.
Qed.

Lemma fill_spec idx e old : idx <= length old ->
  fill idx e old (repeat zero (length old + ins_len_inc)) = insert_at idx e old.
Proof.
  intros Hi. unfold fill, insert_at, ins_len_inc, ins_hi_dst, ins_hi_src, ins_lo_dst, ins_set.
  rewrite !Nat.add_0_r. set (n := length old).
  (* first copy *)
  assert (E1 : gocopy (repeat zero (n + 1)) (idx + 1) (skipn idx old) = repeat zero (idx + 1) ++ skipn idx old).
  { unfold gocopy. rewrite repeat_length, skipn_length. fold n.
    replace (Nat.min (n + 1 - (idx + 1)) (n - idx)) with (n - idx) by lia.
    rewrite firstn_repeat by lia. rewrite skipn_repeat.
    replace (n + 1 - (idx + 1 + (n - idx))) with 0 by lia. simpl repeat. rewrite app_nil_r.
    f_equal. apply firstn_all2. rewrite skipn_length. fold n. lia. }
  rewrite E1.
  (* second copy *)
  assert (E2 : gocopy (repeat zero (idx + 1) ++ skipn idx old) 0 (firstn idx old) = firstn idx old ++ zero :: skipn idx old).
  { unfold gocopy. rewrite app_length, repeat_length, skipn_length, firstn_length. fold n.
    replace (Nat.min (idx + 1 + (n - idx) - 0) (Nat.min idx n)) with idx by lia.
    simpl firstn at 1. simpl app at 1.
    rewrite firstn_all2 by (rewrite firstn_length; fold n; lia).
    f_equal. simpl Nat.add. rewrite skipn_app, skipn_repeat, repeat_length.
    replace (idx + 1 - idx) with 1 by lia. replace (idx - (idx + 1)) with 0 by lia. reflexivity. }
  rewrite E2.
  unfold setnth. rewrite app_length, firstn_length. fold n. simpl length.
  destruct (Nat.ltb_spec idx (Nat.min idx n + S (length (skipn idx old)))) as [_|H]; [|lia].
  assert (Hl : length (firstn idx old) = idx) by (rewrite firstn_length; fold n; lia).
  rewrite firstn_app, Hl, Nat.sub_diag. simpl firstn at 2. rewrite app_nil_r.
  rewrite firstn_all2 by lia.
  f_equal. f_equal.
  replace (S idx) with (length (firstn idx old) + 1) by lia.
  rewrite skipn_app. rewrite skipn_all2 by lia. simpl app.
  replace (length (firstn idx old) + 1 - length (firstn idx old)) with 1 by lia. reflexivity.
Qed.

Lemma insert_sorted F c s k v :
  good F c s -> v = F c k -> snd (bsearch s k) = None ->
  good F c (insert_at (fst (bsearch s k)) (k, v) s).
Proof.
  intros (Hs & Hf) Hv Hr.
  destruct (bsearch_spec s k Hs) as (H1 & H2 & H3 & _ & H5). specialize (H5 Hr).
  set (i := fst (bsearch s k)) in *. unfold insert_at. split.
  - rewrite <- (firstn_skipn i s) in Hs. apply sortedk_app in Hs. destruct Hs as (Ha & Hb & Hc).
    apply sortedk_app. repeat apply conj; auto.
    + rewrite Forall_forall. intros y Hy. simpl.
      specialize (H3 y Hy). assert (fst y <> k).
      { intros E. apply H5. unfold keys. rewrite in_map_iff. exists y. split; auto.
        rewrite <- (firstn_skipn i s). apply in_or_app. auto. }
      apply N.le_lteq in H3. destruct H3 as [H3|H3]; [exact H3|exfalso; apply H; symmetry; exact H3].
    + intros x y Hx [<-|Hy]; simpl; auto.
  - unfold fvalued in *. rewrite <- (firstn_skipn i s) in Hf. rewrite Forall_app in Hf. destruct Hf as (Hf1 & Hf2).
    rewrite Forall_app. split; auto.
Qed.

Lemma insert_keys i e s : incl (keys s) (keys (insert_at i e s)) /\ In (fst e) (keys (insert_at i e s)).
Proof.
  unfold insert_at, keys. split.
  - intros x Hx. rewrite <- (firstn_skipn i s) in Hx. rewrite map_app in *. simpl.
    apply in_app_or in Hx. apply in_or_app. destruct Hx; [left|right; right]; auto.
  - rewrite map_app. apply in_or_app. right. left. reflexivity.
Qed.

Lemma insert_length i e s : length (insert_at i e s) = S (length s).
Proof.
  unfold insert_at. rewrite app_length. simpl. rewrite firstn_length, skipn_length. lia.
Qed.

(* boolean sortedness on key lists = sortedk *)
Lemma sortedb_sortedk l : sortedb (keys l) = true -> sortedk l.
Proof.
  induction l as [|a l IH]; simpl; auto.
  destruct l as [|b l]; [simpl; auto|].
  simpl keys in *. intros H. apply andb_prop in H. destruct H as (Hab & Hr).
  specialize (IH Hr). split; auto.
  destruct IH as (Hb & Hs). apply N.ltb_lt in Hab. constructor; [exact Hab|].
  eapply Forall_impl; [|exact Hb]. simpl. intros y Hy. eapply N.lt_trans; eauto.
Qed.

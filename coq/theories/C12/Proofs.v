(* C12 — proofs: reset yields a state related to fresh, related states are indistinguishable, errors are sticky,
   and the field bookkeeping over Gen/Reset.v. *)
From Coq Require Import List NArith Arith Bool Lia.
From Coq Require String.
From Verif Require Import Gen.Reset C12.Model.
Import ListNotations.

(* ---------- encoder ---------- *)
Lemma encode_R x y ps : Renc x y ->
  snd (encode x ps) = snd (encode y ps) /\ Renc (fst (encode x ps)) (fst (encode y ps)).
Proof.
  unfold Renc, encode. destruct x as [s n], y as [s' n']. simpl. intros <-.
  destruct (encode_rel s ps) as [s1 o]. simpl. split; reflexivity.
Qed.

Lemma ereset_R x b : Renc (ereset x b) (efresh b).
Proof. reflexivity. Qed.

Lemma eops_R ops : forall x y, Renc x y -> eops x ops = eops y ops.
Proof.
  induction ops as [|ps r IH]; intros x y H; simpl; [reflexivity|].
  destruct (encode_R x y ps H) as (Ho & Hr).
  destruct (encode x ps) as [x' o], (encode y ps) as [y' o']. simpl in *. subst o'. f_equal. apply IH. exact Hr.
Qed.

Lemma enc_reset_any x b ops : eops (ereset x b) ops = eops (efresh b) ops.
Proof. apply eops_R. apply ereset_R. Qed.

Lemma enc_reset_lemma b0 h b ops : eops (ereset (erun (efresh b0) h) b) ops = eops (efresh b) ops.
Proof. apply enc_reset_any. Qed.

Lemma enc_sticky_lemma x ps k : e_err (fst x) = Some k -> encode x ps = (x, (true, [])).
Proof. destruct x as [s n]. unfold encode, encode_rel. simpl. intros ->. reflexivity. Qed.

Lemma set_eerr_err s k : e_err (set_eerr s k) = Some k.
Proof. reflexivity. Qed.

Lemma enc_error_sets_err x ps : fst (snd (encode x ps)) = true -> e_err (fst (fst (encode x ps))) <> None.
Proof.
  destruct x as [s n]. unfold encode, encode_rel. simpl.
  destruct (e_err s) eqn:E; simpl; [intros _; rewrite E; discriminate|].
  destruct (ebody _ ps) as [s1 f]. destruct f as [k|]; simpl; [intros _; discriminate|].
  destruct (N.eqb _ 0).
  - destruct (eflush _) as [s3 wf]. destruct wf; simpl; [intros _; discriminate|discriminate].
  - simpl. discriminate.
Qed.

Lemma enc_sticky_hist x qs k : e_err (fst x) = Some k -> Forall (fun o => o = (true, [])) (eops x qs).
Proof.
  intros H. induction qs as [|ps r IH]; simpl; [constructor|].
  rewrite (enc_sticky_lemma x ps k H). constructor; auto.
Qed.

Lemma enc_sticky_after x ps qs : fst (snd (encode x ps)) = true ->
  Forall (fun o => o = (true, [])) (eops (fst (encode x ps)) qs).
Proof.
  intros H. apply enc_error_sets_err in H. destruct (e_err (fst (fst (encode x ps)))) as [k|] eqn:E; [|contradiction].
  eapply enc_sticky_hist; eauto.
Qed.

(* ---------- decoder ---------- *)
Lemma decode_R x y ps : Rdec x y ->
  snd (decode x ps) = snd (decode y ps) /\ Rdec (fst (decode x ps)) (fst (decode y ps)).
Proof.
  unfold Rdec, decode. destruct x as [s n], y as [s' n']. simpl. intros <-.
  destruct (decode_rel s ps) as [s1 o]. simpl. split; reflexivity.
Qed.

Lemma dreset_R x m i : Rdec (dreset x m i) (dfresh m i).
Proof. reflexivity. Qed.

Lemma dops_R ops : forall x y, Rdec x y -> dops x ops = dops y ops.
Proof.
  induction ops as [|ps r IH]; intros x y H; simpl; [reflexivity|].
  destruct (decode_R x y ps H) as (Ho & Hr).
  destruct (decode x ps) as [x' o], (decode y ps) as [y' o']. simpl in *. subst o'. f_equal. apply IH. exact Hr.
Qed.

Lemma dec_reset_any x m i ops : dops (dreset x m i) ops = dops (dfresh m i) ops.
Proof. apply dops_R. apply dreset_R. Qed.

Lemma dec_reset_lemma m i0 h i ops : dops (dreset (drun m (dfresh m i0) h) m i) ops = dops (dfresh m i) ops.
Proof. apply dec_reset_any. Qed.

Lemma dec_sticky_lemma x ps k : d_err (fst x) = Some k -> decode x ps = (x, (true, [], d_cur (fst x))).
Proof. destruct x as [s n]. unfold decode, decode_rel. simpl. intros ->. reflexivity. Qed.

Lemma dec_error_sets_err x ps : fst (fst (snd (decode x ps))) = true -> d_err (fst (fst (decode x ps))) <> None.
Proof.
  destruct x as [s n]. unfold decode, decode_rel. simpl.
  destruct (d_err s) eqn:E; simpl; [intros _; rewrite E; discriminate|].
  destruct (dbody _ ps []) as [[s1 v] f]. destruct f as [k|]; simpl; [intros _; discriminate|discriminate].
Qed.

Lemma dec_sticky_hist qs : forall x k, d_err (fst x) = Some k ->
  Forall (fun o => o = (true, [], d_cur (fst x))) (dops x qs).
Proof.
  induction qs as [|ps r IH]; intros x k H; simpl; [constructor|].
  rewrite (dec_sticky_lemma x ps k H). constructor; eauto.
Qed.

Lemma dec_sticky_after x ps qs : fst (fst (snd (decode x ps))) = true ->
  Forall (fun o => o = (true, [], snd (snd (decode x ps)))) (dops (fst (decode x ps)) qs).
Proof.
  intros H. pose proof (dec_error_sets_err x ps H) as He.
  destruct (d_err (fst (fst (decode x ps)))) as [k|] eqn:E; [|contradiction].
  assert (Hc : snd (snd (decode x ps)) = d_cur (fst (fst (decode x ps)))).
  { clear. destruct x as [s n]. unfold decode, decode_rel. simpl. destruct (d_err s); simpl; [reflexivity|].
    destruct (dbody _ ps []) as [[s1 v] f]. destruct f; reflexivity. }
  rewrite Hc. eapply dec_sticky_hist; eauto.
Qed.

(* ---------- field bookkeeping over Gen/Reset.v ---------- *)
Definition find_struct (n : String.string) : option rstruct :=
  List.find (fun r => String.eqb (rname r) n) structs.

(* every declared field is assigned by the reset path or listed neutral; the neutral list is tight (each entry is
   a declared field that reset really leaves alone); every field the model resets is assigned by the real reset *)
Definition fields_ok : bool :=
  forallb (fun r =>
    match assoc (rname r) neutral with
    | Some nl => forallb (fun f => mem f (rassigned r) || mem f nl) (rdeclared r)
                 && forallb (fun f => mem f (rdeclared r) && negb (mem f (rassigned r))) nl
    | None => false
    end) structs
  && forallb (fun sf => match find_struct (fst sf) with
                        | Some r => forallb (fun f => mem f (rassigned r)) (snd sf)
                        | None => false
                        end) modelled
  && Nat.eqb (List.length structs) (List.length neutral).

Lemma fields_lemma : fields_ok = true.
Proof. vm_compute. reflexivity. Qed.

Lemma mem_In x l : mem x l = true <-> In x l.
Proof.
  unfold mem. rewrite existsb_exists. split.
  - intros (y & Hy & E). apply String.eqb_eq in E. subst. exact Hy.
  - intros H. exists x. split; auto. apply String.eqb_refl.
Qed.

Lemma fields_prop_lemma : forall r, In r structs ->
  exists nl, assoc (rname r) neutral = Some nl /\
    (forall f, In f (rdeclared r) -> In f (rassigned r) \/ In f nl) /\
    (forall f, In f nl -> In f (rdeclared r) /\ ~ In f (rassigned r)).
Proof.
  pose proof fields_lemma as H. unfold fields_ok in H.
  apply andb_prop in H. destruct H as (H & _). apply andb_prop in H. destruct H as (H & _).
  rewrite forallb_forall in H. intros r Hr. specialize (H r Hr).
  destruct (assoc (rname r) neutral) as [nl|]; [|discriminate]. exists nl. split; auto.
  apply andb_prop in H. destruct H as (H1 & H2). rewrite forallb_forall in H1, H2. split.
  - intros f Hf. specialize (H1 f Hf). apply orb_prop in H1. destruct H1 as [H1|H1]; apply mem_In in H1; auto.
  - intros f Hf. specialize (H2 f Hf). apply andb_prop in H2. destruct H2 as (Ha & Hb). split; [apply mem_In; auto|].
    intros Hin. apply mem_In in Hin. rewrite Hin in Hb. discriminate.
Qed.

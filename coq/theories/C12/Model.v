(* C12 — instance-state model of an Encoder and a Decoder: the behaviour-relevant fields, reset, and abstract
   operations that mutate the fields the way the code paths do.

   Read from /repo/codec: encoderBase{err, calls, c, seq, ci}, jsonEncDriver{dl}, bincEncState{m},
   bufioEncWriter{n, buf[:n]} / bytesEncAppender{b}; decoderBase{err, calls, depth, c, maxdepth},
   bdAndBdread/bincDecState{bdRead, bd, s}, jsonDecDriver{tok}, bytesDecReader{b, c} / ioDecReader{n, rc, wc,
   recording, recc, done}.  Errors are panics: a failing path leaves every field as it is at that point, and
   Encode/Decode store the sticky err.

   Each instance is a pair (relevant part, neutral part).  The relevant transition function and the observable
   of an operation are functions of the relevant part only (that is the modelling claim "no operation reads a
   neutral field before writing it": scratch buffers b/buf/bstr/xb, free lists blist/slist, per-type caches, the
   interner, fauxUnion n, the bytes reader's recording cursor r, and configuration fixed at construction).
   Which real fields are relevant/neutral is tied to the source by C12_fields over Gen/Reset.v and by the
   field-by-field dumps the harness takes from real instances (Corr.v).  No proofs in this file. *)
From Coq Require Import List NArith Arith Bool.
From Coq Require String.
Import ListNotations.

Inductive eclass := EWriter | EData | ECircular | EDepth | EOther.

Definition mapKey : N := 1%N.      (* containerMapKey, as far as the model cares: "key position" *)

(* ================= Encoder ================= *)
Record erel := mkE {
  e_err : option eclass;           (* encoderBase.err *)
  e_calls : N;                     (* encoderBase.calls *)
  e_c : N;                         (* encoderBase.c *)
  e_seq : N;                       (* encoderBase.seq: next binc symbol id *)
  e_syms : list (N * N);           (* bincEncState.m: symbol -> id *)
  e_ci : list N;                   (* encoderBase.ci: circular-reference stack *)
  e_dl : N;                        (* jsonEncDriver.dl: indent level *)
  e_pend : list N;                 (* writer: bytes buffered, not yet delivered (bufioEncWriter.buf[:n]) *)
  e_out : list N;                  (* bytes delivered to the destination so far *)
  e_budget : option nat }.         (* the destination accepts this many more bytes, then fails; None = never fails *)

Record eneut := mkEN { en_scratch : list N; en_free : N; en_cache : N }.
Definition enc := (erel * eneut)%type.

Definition wcap : nat := 4.        (* model buffer size of the io writer; 0-byte destinations included *)

Inductive eprim :=
| EpWrite (bs : list N)            (* driver writes bytes *)
| EpIndent                         (* json: newline and dl indent units *)
| EpOpen (c : N) | EpClose         (* container start (c := c; dl++) / end (dl--) *)
| EpSetC (c : N)
| EpKey (bs : list N)              (* a scalar whose encoding depends on c (quoted in key position) *)
| EpSym (s : N)                    (* binc AsSymbols: reference if known, else define *)
| EpPush (p : N) | EpPop           (* CheckCircularRef stack *)
| EpScratch (bs : list N) | EpFree (n : N) | EpCache (n : N)     (* behaviour-neutral mutations *)
| EpPanic (k : eclass).            (* halt at this nesting position *)

(* deliver the pending bytes to the destination; a destination out of budget takes what it can and fails *)
Definition eflush (s : erel) : erel * bool :=
  match e_budget s with
  | None => (mkE (e_err s) (e_calls s) (e_c s) (e_seq s) (e_syms s) (e_ci s) (e_dl s) [] (e_out s ++ e_pend s) None, false)
  | Some b =>
      if length (e_pend s) <=? b
      then (mkE (e_err s) (e_calls s) (e_c s) (e_seq s) (e_syms s) (e_ci s) (e_dl s) [] (e_out s ++ e_pend s) (Some (b - length (e_pend s))), false)
      else (mkE (e_err s) (e_calls s) (e_c s) (e_seq s) (e_syms s) (e_ci s) (e_dl s) (skipn b (e_pend s)) (e_out s ++ firstn b (e_pend s)) (Some 0), true)
  end.

Definition ewrite (s : erel) (bs : list N) : erel * bool :=
  let s1 := mkE (e_err s) (e_calls s) (e_c s) (e_seq s) (e_syms s) (e_ci s) (e_dl s) (e_pend s ++ bs) (e_out s) (e_budget s) in
  if wcap <=? length (e_pend s1) then eflush s1 else (s1, false).

Fixpoint lookup (k : N) (l : list (N * N)) : option N :=
  match l with [] => None | (a, b) :: r => if N.eqb a k then Some b else lookup k r end.

Definition set_eerr (s : erel) (k : eclass) : erel :=
  mkE (Some k) (e_calls s) (e_c s) (e_seq s) (e_syms s) (e_ci s) (e_dl s) (e_pend s) (e_out s) (e_budget s).

(* one primitive on the relevant part; the flag says the path panicked *)
Definition estep (s : erel) (p : eprim) : erel * option eclass :=
  let wr bs := let '(s', f) := ewrite s bs in (s', if f then Some EWriter else None) in
  match p with
  | EpWrite bs => wr bs
  | EpIndent => wr (10%N :: repeat 32%N (N.to_nat (e_dl s)))
  | EpOpen c => (mkE (e_err s) (e_calls s) c (e_seq s) (e_syms s) (e_ci s) (e_dl s + 1) (e_pend s) (e_out s) (e_budget s), None)
  | EpClose => (mkE (e_err s) (e_calls s) (e_c s) (e_seq s) (e_syms s) (e_ci s) (e_dl s - 1) (e_pend s) (e_out s) (e_budget s), None)
  | EpSetC c => (mkE (e_err s) (e_calls s) c (e_seq s) (e_syms s) (e_ci s) (e_dl s) (e_pend s) (e_out s) (e_budget s), None)
  | EpKey bs => if N.eqb (e_c s) mapKey then wr (34%N :: bs ++ [34%N]) else wr bs
  | EpSym x =>
      match lookup x (e_syms s) with
      | Some id => let '(s', f) := ewrite s [1%N; id] in (s', if f then Some EWriter else None)
      | None =>
          let s1 := mkE (e_err s) (e_calls s) (e_c s) (e_seq s + 1) ((x, e_seq s) :: e_syms s) (e_ci s) (e_dl s) (e_pend s) (e_out s) (e_budget s) in
          let '(s', f) := ewrite s1 [2%N; e_seq s; x] in (s', if f then Some EWriter else None)
      end
  | EpPush p =>
      if existsb (N.eqb p) (e_ci s) then (s, Some ECircular)
      else (mkE (e_err s) (e_calls s) (e_c s) (e_seq s) (e_syms s) (p :: e_ci s) (e_dl s) (e_pend s) (e_out s) (e_budget s), None)
  | EpPop => (mkE (e_err s) (e_calls s) (e_c s) (e_seq s) (e_syms s) (tl (e_ci s)) (e_dl s) (e_pend s) (e_out s) (e_budget s), None)
  | EpScratch _ | EpFree _ | EpCache _ => (s, None)
  | EpPanic k => (s, Some k)
  end.

Definition nstep (n : eneut) (p : eprim) : eneut :=
  match p with
  | EpScratch bs => mkEN bs (en_free n) (en_cache n)
  | EpFree k => mkEN (en_scratch n) k (en_cache n)
  | EpCache k => mkEN (en_scratch n) (en_free n) (en_cache n + k)
  | EpWrite bs => mkEN bs (en_free n) (en_cache n)          (* drivers format into the scratch array first *)
  | _ => n
  end.

Fixpoint ebody (s : erel) (ps : list eprim) : erel * option eclass :=
  match ps with
  | [] => (s, None)
  | p :: r => let '(s', f) := estep s p in match f with Some k => (s', Some k) | None => ebody s' r end
  end.

Definition set_ecalls (s : erel) (n : N) : erel :=
  mkE (e_err s) n (e_c s) (e_seq s) (e_syms s) (e_ci s) (e_dl s) (e_pend s) (e_out s) (e_budget s).

(* observable of one Encode call: did it return an error, and what the destination received during it *)
Definition eobs := (bool * list N)%type.

(* Encode: halt.onerror(e.err); calls++; body; calls--; if calls == 0 { atEndOfEncode; writerEnd } — recover stores err *)
Definition encode_rel (s : erel) (ps : list eprim) : erel * eobs :=
  match e_err s with
  | Some _ => (s, (true, []))
  | None =>
      let before := length (e_out s) in
      let '(s1, f) := ebody (set_ecalls s (e_calls s + 1)) ps in
      match f with
      | Some k => (set_eerr s1 k, (true, skipn before (e_out s1)))
      | None =>
          let s2 := set_ecalls s1 (e_calls s1 - 1) in
          if N.eqb (e_calls s2) 0 then
            let '(s3, wf) := eflush s2 in
            if wf then (set_eerr s3 EWriter, (true, skipn before (e_out s3))) else (s3, (false, skipn before (e_out s3)))
          else (s2, (false, skipn before (e_out s2)))
      end
  end.

Definition encode (x : enc) (ps : list eprim) : enc * eobs :=
  let '(s', o) := encode_rel (fst x) ps in
  ((s', match e_err (fst x) with Some _ => snd x | None => fold_left nstep ps (snd x) end), o).

Definition efresh_rel (budget : option nat) : erel := mkE None 0 0 0 [] [] 0 [] [] budget.
Definition efresh (budget : option nat) : enc := (efresh_rel budget, mkEN [] 0 0).

(* Reset(w)/ResetBytes(out): e.e.reset(); ci = ci[:0]; c, calls, seq = 0; err = nil; writer reset on the new destination *)
Definition ereset (x : enc) (budget : option nat) : enc := (efresh_rel budget, snd x).

Inductive ehist := EHOp (ps : list eprim) | EHReset (budget : option nat).

Definition ehstep (x : enc) (h : ehist) : enc :=
  match h with EHOp ps => fst (encode x ps) | EHReset b => ereset x b end.

Definition erun (x : enc) (h : list ehist) : enc := fold_left ehstep h x.

Fixpoint eops (x : enc) (ops : list (list eprim)) : list eobs :=
  match ops with [] => [] | ps :: r => let '(x', o) := encode x ps in o :: eops x' r end.

Definition Renc (x y : enc) : Prop := fst x = fst y.

(* ================= Decoder ================= *)
Record drel := mkD {
  d_err : option eclass;           (* decoderBase.err *)
  d_calls : N;                     (* decoderBase.calls *)
  d_depth : N;                     (* decoderBase.depth *)
  d_maxdepth : N;                  (* decoderBase.maxdepth: cached from the handle, re-read by reset *)
  d_c : N;                         (* decoderBase.c *)
  d_bdread : bool; d_bd : N;       (* bdAndBdread / bincDecState: pending descriptor *)
  d_tok : N;                       (* jsonDecDriver.tok: pending token (0 = none) *)
  d_syms : list (N * N);           (* bincDecState.s: id -> symbol *)
  d_in : list N;                   (* the source *)
  d_cur : nat;                     (* reader cursor = NumBytesRead *)
  d_rec : bool; d_recc : nat }.    (* ioDecReader.recording / recc *)

Record dneut := mkDN { dn_scratch : list N; dn_free : N; dn_intern : N; dn_naked : N; dn_rcur : nat }.
Definition dec := (drel * dneut)%type.

Inductive dprim :=
| DpRead (n : nat)                 (* consume n bytes (value payload) *)
| DpBd                             (* make sure a descriptor is pending: if !bdRead { bd = readn1; bdRead = true } *)
| DpUseBd                          (* consume the pending descriptor (bdRead = false); the value depends on bd *)
| DpTok                            (* json: make sure a token is pending: if tok == 0 { tok = skipWhitespace } *)
| DpUseTok                         (* json: tok = 0 *)
| DpEnter | DpLeave                (* depthIncr (error beyond maxdepth) / depthDecr *)
| DpSetC (c : N)
| DpSymDef (id : N)                (* binc: define symbol id as the next byte *)
| DpSymUse (id : N)                (* binc: look a symbol up (error if unknown) *)
| DpRecStart | DpRecStop           (* raw capture: nextValueBytes *)
| DpScratch (bs : list N) | DpFree (n : N) | DpIntern (n : N) | DpNaked (n : N)
| DpPanic (k : eclass).

Definition dset (s : drel) (cur : nat) : drel :=
  mkD (d_err s) (d_calls s) (d_depth s) (d_maxdepth s) (d_c s) (d_bdread s) (d_bd s) (d_tok s) (d_syms s) (d_in s) cur (d_rec s) (d_recc s).

(* what one primitive yields to the value being built *)
Definition dstep (s : drel) (p : dprim) : drel * list N * option eclass :=
  let avail := length (d_in s) - d_cur s in
  match p with
  | DpRead n =>
      if n <=? avail then (dset s (d_cur s + n), firstn n (skipn (d_cur s) (d_in s)), None)
      else (s, [], Some EData)                                      (* bytes reader: bounds panic, cursor unchanged *)
  | DpBd =>
      if d_bdread s then (s, [], None)
      else if 1 <=? avail
           then (mkD (d_err s) (d_calls s) (d_depth s) (d_maxdepth s) (d_c s) true (nth (d_cur s) (d_in s) 0%N) (d_tok s) (d_syms s) (d_in s) (d_cur s + 1) (d_rec s) (d_recc s), [], None)
           else (s, [], Some EData)
  | DpUseBd =>
      (mkD (d_err s) (d_calls s) (d_depth s) (d_maxdepth s) (d_c s) false (d_bd s) (d_tok s) (d_syms s) (d_in s) (d_cur s) (d_rec s) (d_recc s),
       if d_bdread s then [d_bd s] else [], None)
  | DpTok =>
      if negb (N.eqb (d_tok s) 0) then (s, [], None)
      else if 1 <=? avail
           then (mkD (d_err s) (d_calls s) (d_depth s) (d_maxdepth s) (d_c s) (d_bdread s) (d_bd s) (nth (d_cur s) (d_in s) 0%N) (d_syms s) (d_in s) (d_cur s + 1) (d_rec s) (d_recc s), [], None)
           else (s, [], Some EData)
  | DpUseTok =>
      (mkD (d_err s) (d_calls s) (d_depth s) (d_maxdepth s) (d_c s) (d_bdread s) (d_bd s) 0 (d_syms s) (d_in s) (d_cur s) (d_rec s) (d_recc s), [d_tok s], None)
  | DpEnter =>
      if (d_maxdepth s <=? d_depth s)%N then (s, [], Some EDepth)
      else (mkD (d_err s) (d_calls s) (d_depth s + 1) (d_maxdepth s) (d_c s) (d_bdread s) (d_bd s) (d_tok s) (d_syms s) (d_in s) (d_cur s) (d_rec s) (d_recc s), [], None)
  | DpLeave =>
      (mkD (d_err s) (d_calls s) (d_depth s - 1) (d_maxdepth s) (d_c s) (d_bdread s) (d_bd s) (d_tok s) (d_syms s) (d_in s) (d_cur s) (d_rec s) (d_recc s), [], None)
  | DpSetC c =>
      (mkD (d_err s) (d_calls s) (d_depth s) (d_maxdepth s) c (d_bdread s) (d_bd s) (d_tok s) (d_syms s) (d_in s) (d_cur s) (d_rec s) (d_recc s), [], None)
  | DpSymDef id =>
      if 1 <=? avail
      then (mkD (d_err s) (d_calls s) (d_depth s) (d_maxdepth s) (d_c s) (d_bdread s) (d_bd s) (d_tok s) ((id, nth (d_cur s) (d_in s) 0%N) :: d_syms s) (d_in s) (d_cur s + 1) (d_rec s) (d_recc s),
            [nth (d_cur s) (d_in s) 0%N], None)
      else (s, [], Some EData)
  | DpSymUse id =>
      match lookup id (d_syms s) with
      | Some x => (s, [x], None)
      | None => (s, [], Some EData)
      end
  | DpRecStart =>
      (mkD (d_err s) (d_calls s) (d_depth s) (d_maxdepth s) (d_c s) (d_bdread s) (d_bd s) (d_tok s) (d_syms s) (d_in s) (d_cur s) true (d_cur s), [], None)
  | DpRecStop =>
      (mkD (d_err s) (d_calls s) (d_depth s) (d_maxdepth s) (d_c s) (d_bdread s) (d_bd s) (d_tok s) (d_syms s) (d_in s) (d_cur s) false (d_recc s),
       if d_rec s then firstn (d_cur s - d_recc s) (skipn (d_recc s) (d_in s)) else [], None)
  | DpScratch _ | DpFree _ | DpIntern _ | DpNaked _ => (s, [], None)
  | DpPanic k => (s, [], Some k)
  end.

Definition dnstep (n : dneut) (p : dprim) : dneut :=
  match p with
  | DpScratch bs => mkDN bs (dn_free n) (dn_intern n) (dn_naked n) (dn_rcur n)
  | DpFree k => mkDN (dn_scratch n) k (dn_intern n) (dn_naked n) (dn_rcur n)
  | DpIntern k => mkDN (dn_scratch n) (dn_free n) (dn_intern n + k) (dn_naked n) (dn_rcur n)
  | DpNaked k => mkDN (dn_scratch n) (dn_free n) (dn_intern n) k (dn_rcur n)
  | DpRecStart => mkDN (dn_scratch n) (dn_free n) (dn_intern n) (dn_naked n) (S (dn_rcur n))
  | _ => n
  end.

Fixpoint dbody (s : drel) (ps : list dprim) (acc : list N) : drel * list N * option eclass :=
  match ps with
  | [] => (s, acc, None)
  | p :: r => let '(s', v, f) := dstep s p in
              match f with Some k => (s', acc ++ v, Some k) | None => dbody s' r (acc ++ v) end
  end.

Definition set_derr (s : drel) (k : eclass) : drel :=
  mkD (Some k) (d_calls s) (d_depth s) (d_maxdepth s) (d_c s) (d_bdread s) (d_bd s) (d_tok s) (d_syms s) (d_in s) (d_cur s) (d_rec s) (d_recc s).
Definition set_dcalls (s : drel) (n : N) : drel :=
  mkD (d_err s) n (d_depth s) (d_maxdepth s) (d_c s) (d_bdread s) (d_bd s) (d_tok s) (d_syms s) (d_in s) (d_cur s) (d_rec s) (d_recc s).

(* observable of one Decode call: error?, the decoded value (as the sequence of pieces), NumBytesRead afterwards *)
Definition dobs := (bool * list N * nat)%type.

Definition decode_rel (s : drel) (ps : list dprim) : drel * dobs :=
  match d_err s with
  | Some _ => (s, (true, [], d_cur s))
  | None =>
      let '(s1, v, f) := dbody (set_dcalls s (d_calls s + 1)) ps [] in
      match f with
      | Some k => (set_derr s1 k, (true, [], d_cur s1))
      | None => let s2 := set_dcalls s1 (d_calls s1 - 1) in (s2, (false, v, d_cur s2))
      end
  end.

Definition decode (x : dec) (ps : list dprim) : dec * dobs :=
  let '(s', o) := decode_rel (fst x) ps in
  ((s', match d_err (fst x) with Some _ => snd x | None => fold_left dnstep ps (snd x) end), o).

Definition dfresh_rel (maxdepth : N) (input : list N) : drel := mkD None 0 0 maxdepth 0 false 0 0 [] input 0 false 0.
Definition dfresh (maxdepth : N) (input : list N) : dec := (dfresh_rel maxdepth input, mkDN [] 0 0 0 0).

(* Reset(r)/ResetBytes(in): d.d.reset(); err, c, depth, calls = 0; maxdepth re-read; reader reset on the new source *)
Definition dreset (x : dec) (maxdepth : N) (input : list N) : dec := (dfresh_rel maxdepth input, snd x).

Inductive dhist := DHOp (ps : list dprim) | DHReset (input : list N).

Definition dhstep (maxdepth : N) (x : dec) (h : dhist) : dec :=
  match h with DHOp ps => fst (decode x ps) | DHReset i => dreset x maxdepth i end.

Definition drun (maxdepth : N) (x : dec) (h : list dhist) : dec := fold_left (dhstep maxdepth) h x.

Fixpoint dops (x : dec) (ops : list (list dprim)) : list dobs :=
  match ops with [] => [] | ps :: r => let '(x', o) := decode x ps in o :: dops x' r end.

Definition Rdec (x y : dec) : Prop := fst x = fst y.

(* ================= the neutral list (tie to Gen/Reset.v) ================= *)
Import String.StringSyntax.
Open Scope string_scope.
Notation string := String.string.

(* fields a reset path does not assign and that no operation reads before writing (or that are fixed at
   construction).  One line per struct; the reason is the comment. *)
Definition neutral : list (string * list string) := [
  (* zero-size helper; fastpath table, handle pointers and cache selectors fixed by init(); per-type fn cache;
     free lists *)
  (* side: role flag of the Handle's pooled side encoders; only markSide() sets it, sideEncode calls that on every
     encoder it takes from the pool before use, and no user-constructed Encoder can reach it: never true on an
     instance a user can Reset, always (re)set before a pooled one is used *)
  ("encoder", ["dh"; "fp"; "perType"; "h"; "hh"; "rtidFn"; "rtidFnNoExt"; "bytes"; "side"; "blist"; "slist"]);
  (* same, plus: scratch buffers buf/b, fauxUnion n (written by DecodeNaked before it is read), string interner
     (a cache of equal strings), bufio/jsms fixed by init() from handle fields that may not change after first use *)
  ("decoder", ["dh"; "fp"; "perType"; "h"; "hh"; "rtidFn"; "rtidFnNoExt"; "bytes"; "bufio"; "jsms"; "buf"; "b"; "n"; "is"; "blist"]);
  (* back pointers set by init(); scratch array b *)
  ("jsonEncDriver", ["h"; "e"; "enc"; "b"]);
  ("cborEncDriver", ["h"; "e"; "enc"; "b"]);
  ("msgpackEncDriver", ["h"; "e"]);
  ("bincEncDriver", ["h"; "e"]);
  ("simpleEncDriver", ["h"; "e"]);
  (* back pointers; bstr is scratch for \uXXXX parsing *)
  ("jsonDecDriver", ["h"; "d"; "dec"; "bstr"]);
  ("cborDecDriver", ["h"; "d"; "dec"]);
  ("msgpackDecDriver", ["h"; "d"]);
  ("bincDecDriver", ["h"; "d"]);
  ("simpleDecDriver", ["h"; "d"]);
  ("ioDecReader", []);
  (* r: recording cursor, set by startRecording before stopRecording reads it; xb: scratch for readxb *)
  ("bytesDecReader", ["r"; "xb"]);
  (* b: 16-byte backing array for small buffers *)
  ("bufioEncWriter", ["b"]);
  ("bytesEncAppender", []);
  ("bincEncState", []);
  ("bincDecState", []);
  ("bdAndBdread", []);
  ("jsonHandleOpts", [])
].

(* the real fields the model's relevant parts stand for: reset must assign every one of them *)
Definition modelled : list (string * list string) := [
  ("encoder", ["err"; "calls"; "c"; "seq"; "ci"; "e"]);
  ("jsonEncDriver", ["dl"; "w"]);
  ("bincEncDriver", ["bincEncState"; "w"]);
  ("bincEncState", ["m"]);
  ("bufioEncWriter", ["n"; "buf"; "w"]);
  ("bytesEncAppender", ["b"; "out"]);
  ("decoder", ["err"; "calls"; "depth"; "maxdepth"; "c"; "d"]);
  ("jsonDecDriver", ["tok"; "r"]);
  ("cborDecDriver", ["bdAndBdread"; "r"]);
  ("msgpackDecDriver", ["bdAndBdread"; "r"]);
  ("simpleDecDriver", ["bdAndBdread"; "r"]);
  ("bincDecDriver", ["bincDecState"; "r"]);
  ("bdAndBdread", ["bdRead"; "bd"]);
  ("bincDecState", ["bdRead"; "bd"; "s"]);
  ("bytesDecReader", ["b"; "c"]);
  ("ioDecReader", ["n"; "rc"; "wc"; "recording"; "recc"; "done"; "err"; "r"])
].

Definition mem (x : string) (l : list string) : bool := existsb (String.eqb x) l.

Fixpoint assoc (x : string) (l : list (string * list string)) : option (list string) :=
  match l with [] => None | (a, b) :: r => if String.eqb a x then Some b else assoc x r end.

(* C12 — correspondence: field-by-field dumps of REAL Encoder/Decoder instances (taken by reflection in the
   harness): after (history; Reset) versus freshly constructed on the same Handle and destination/source.
   Every dumped field must be declared in Gen/Reset.v (names tie the dump to the translator), and must be equal
   in both instances unless it is in the neutral list of C12/Model.v (or is one of the capacity-dependent buffers
   below, which reset re-slices but does not reallocate). *)
From Coq Require Import List NArith ZArith Arith Bool.
From Coq Require String.
From Verif Require Import Gen.Reset C12.Model C12.Proofs.
Import ListNotations.
Import String.StringSyntax.
Open Scope string_scope.

Record fld := mkf { fs : String.string; fn : String.string; fa : Z; fb : Z }.
Record case := mkcase { cid : N; cfields : list fld }.

(* assigned by reset, but only re-sliced/re-checked: length or capacity depends on the past, content is never
   read before it is written *)
Definition buffers : list (String.string * list String.string) := [
  ("jsonDecDriver", ["buf"]); ("ioDecReader", ["buf"]); ("bufioEncWriter", ["buf"]);
  ("jsonHandleOpts", []); ("encoder", []); ("decoder", [])
].

Definition inl (l : list (String.string * list String.string)) (s f : String.string) : bool :=
  match assoc s l with Some fl => mem f fl | None => false end.

Definition declaredb (s f : String.string) : bool :=
  match find_struct s with Some r => mem f (rdeclared r) | None => false end.

Definition check_fld (x : fld) : bool :=
  declaredb (fs x) (fn x) && (Z.eqb (fa x) (fb x) || inl neutral (fs x) (fn x) || inl buffers (fs x) (fn x)).

Definition check_case (c : case) : bool := forallb check_fld (cfields c).

Definition mismatches (cs : list case) : list N :=
  map cid (filter (fun c => negb (check_case c)) cs).
